Base/Bytes.vo Base/Bytes.glob Base/Bytes.v.beautified Base/Bytes.required_vo: Base/Bytes.v 
Base/Bytes.vio: Base/Bytes.v 
Base/Bytes.vos Base/Bytes.vok Base/Bytes.required_vos: Base/Bytes.v 
Model/Resp.vo Model/Resp.glob Model/Resp.v.beautified Model/Resp.required_vo: Model/Resp.v Base/Bytes.vo
Model/Resp.vio: Model/Resp.v Base/Bytes.vio
Model/Resp.vos Model/Resp.vok Model/Resp.required_vos: Model/Resp.v Base/Bytes.vos
Model/Types.vo Model/Types.glob Model/Types.v.beautified Model/Types.required_vo: Model/Types.v Base/Bytes.vo Model/Resp.vo
Model/Types.vio: Model/Types.v Base/Bytes.vio Model/Resp.vio
Model/Types.vos Model/Types.vok Model/Types.required_vos: Model/Types.v Base/Bytes.vos Model/Resp.vos
Model/Glob.vo Model/Glob.glob Model/Glob.v.beautified Model/Glob.required_vo: Model/Glob.v Base/Bytes.vo
Model/Glob.vio: Model/Glob.v Base/Bytes.vio
Model/Glob.vos Model/Glob.vok Model/Glob.required_vos: Model/Glob.v Base/Bytes.vos
Model/Strings.vo Model/Strings.glob Model/Strings.v.beautified Model/Strings.required_vo: Model/Strings.v Base/Bytes.vo Model/Resp.vo Model/Types.vo Model/Glob.vo
Model/Strings.vio: Model/Strings.v Base/Bytes.vio Model/Resp.vio Model/Types.vio Model/Glob.vio
Model/Strings.vos Model/Strings.vok Model/Strings.required_vos: Model/Strings.v Base/Bytes.vos Model/Resp.vos Model/Types.vos Model/Glob.vos
Model/Lists.vo Model/Lists.glob Model/Lists.v.beautified Model/Lists.required_vo: Model/Lists.v Base/Bytes.vo Model/Resp.vo Model/Types.vo
Model/Lists.vio: Model/Lists.v Base/Bytes.vio Model/Resp.vio Model/Types.vio
Model/Lists.vos Model/Lists.vok Model/Lists.required_vos: Model/Lists.v Base/Bytes.vos Model/Resp.vos Model/Types.vos
Model/ZSets.vo Model/ZSets.glob Model/ZSets.v.beautified Model/ZSets.required_vo: Model/ZSets.v Base/Bytes.vo Model/Resp.vo Model/Types.vo
Model/ZSets.vio: Model/ZSets.v Base/Bytes.vio Model/Resp.vio Model/Types.vio
Model/ZSets.vos Model/ZSets.vok Model/ZSets.required_vos: Model/ZSets.v Base/Bytes.vos Model/Resp.vos Model/Types.vos
Model/Streams.vo Model/Streams.glob Model/Streams.v.beautified Model/Streams.required_vo: Model/Streams.v Base/Bytes.vo Model/Resp.vo Model/Types.vo
Model/Streams.vio: Model/Streams.v Base/Bytes.vio Model/Resp.vio Model/Types.vio
Model/Streams.vos Model/Streams.vok Model/Streams.required_vos: Model/Streams.v Base/Bytes.vos Model/Resp.vos Model/Types.vos
Model/Rdb.vo Model/Rdb.glob Model/Rdb.v.beautified Model/Rdb.required_vo: Model/Rdb.v Base/Bytes.vo Model/Resp.vo Model/Types.vo Model/Strings.vo
Model/Rdb.vio: Model/Rdb.v Base/Bytes.vio Model/Resp.vio Model/Types.vio Model/Strings.vio
Model/Rdb.vos Model/Rdb.vok Model/Rdb.required_vos: Model/Rdb.v Base/Bytes.vos Model/Resp.vos Model/Types.vos Model/Strings.vos
Model/Server.vo Model/Server.glob Model/Server.v.beautified Model/Server.required_vo: Model/Server.v Base/Bytes.vo Model/Resp.vo Model/Types.vo Model/Glob.vo Model/Strings.vo Model/Lists.vo Model/ZSets.vo Model/Streams.vo
Model/Server.vio: Model/Server.v Base/Bytes.vio Model/Resp.vio Model/Types.vio Model/Glob.vio Model/Strings.vio Model/Lists.vio Model/ZSets.vio Model/Streams.vio
Model/Server.vos Model/Server.vok Model/Server.required_vos: Model/Server.v Base/Bytes.vos Model/Resp.vos Model/Types.vos Model/Glob.vos Model/Strings.vos Model/Lists.vos Model/ZSets.vos Model/Streams.vos
Model/RunBase.vo Model/RunBase.glob Model/RunBase.v.beautified Model/RunBase.required_vo: Model/RunBase.v Base/Bytes.vo Model/Resp.vo
Model/RunBase.vio: Model/RunBase.v Base/Bytes.vio Model/Resp.vio
Model/RunBase.vos Model/RunBase.vok Model/RunBase.required_vos: Model/RunBase.v Base/Bytes.vos Model/Resp.vos
Model/RunSrv.vo Model/RunSrv.glob Model/RunSrv.v.beautified Model/RunSrv.required_vo: Model/RunSrv.v Base/Bytes.vo Model/Resp.vo Model/Types.vo Model/Server.vo Model/RunBase.vo
Model/RunSrv.vio: Model/RunSrv.v Base/Bytes.vio Model/Resp.vio Model/Types.vio Model/Server.vio Model/RunBase.vio
Model/RunSrv.vos Model/RunSrv.vok Model/RunSrv.required_vos: Model/RunSrv.v Base/Bytes.vos Model/Resp.vos Model/Types.vos Model/Server.vos Model/RunBase.vos
Model/RunRdb.vo Model/RunRdb.glob Model/RunRdb.v.beautified Model/RunRdb.required_vo: Model/RunRdb.v Base/Bytes.vo Model/Resp.vo Model/Types.vo Model/Strings.vo Model/Rdb.vo
Model/RunRdb.vio: Model/RunRdb.v Base/Bytes.vio Model/Resp.vio Model/Types.vio Model/Strings.vio Model/Rdb.vio
Model/RunRdb.vos Model/RunRdb.vok Model/RunRdb.required_vos: Model/RunRdb.v Base/Bytes.vos Model/Resp.vos Model/Types.vos Model/Strings.vos Model/Rdb.vos
Model/Run.vo Model/Run.glob Model/Run.v.beautified Model/Run.required_vo: Model/Run.v Base/Bytes.vo Model/Resp.vo Model/RunBase.vo Model/RunSrv.vo Model/RunRdb.vo
Model/Run.vio: Model/Run.v Base/Bytes.vio Model/Resp.vio Model/RunBase.vio Model/RunSrv.vio Model/RunRdb.vio
Model/Run.vos Model/Run.vok Model/Run.required_vos: Model/Run.v Base/Bytes.vos Model/Resp.vos Model/RunBase.vos Model/RunSrv.vos Model/RunRdb.vos
Proofs/BytesFacts.vo Proofs/BytesFacts.glob Proofs/BytesFacts.v.beautified Proofs/BytesFacts.required_vo: Proofs/BytesFacts.v Base/Bytes.vo
Proofs/BytesFacts.vio: Proofs/BytesFacts.v Base/Bytes.vio
Proofs/BytesFacts.vos Proofs/BytesFacts.vok Proofs/BytesFacts.required_vos: Proofs/BytesFacts.v Base/Bytes.vos
Proofs/RespFacts.vo Proofs/RespFacts.glob Proofs/RespFacts.v.beautified Proofs/RespFacts.required_vo: Proofs/RespFacts.v Base/Bytes.vo Model/Resp.vo Proofs/BytesFacts.vo
Proofs/RespFacts.vio: Proofs/RespFacts.v Base/Bytes.vio Model/Resp.vio Proofs/BytesFacts.vio
Proofs/RespFacts.vos Proofs/RespFacts.vok Proofs/RespFacts.required_vos: Proofs/RespFacts.v Base/Bytes.vos Model/Resp.vos Proofs/BytesFacts.vos
Props/C20.vo Props/C20.glob Props/C20.v.beautified Props/C20.required_vo: Props/C20.v Base/Bytes.vo Model/Resp.vo Proofs/BytesFacts.vo Proofs/RespFacts.vo
Props/C20.vio: Props/C20.v Base/Bytes.vio Model/Resp.vio Proofs/BytesFacts.vio Proofs/RespFacts.vio
Props/C20.vos Props/C20.vok Props/C20.required_vos: Props/C20.v Base/Bytes.vos Model/Resp.vos Proofs/BytesFacts.vos Proofs/RespFacts.vos
