Base/Bytes.vo Base/Bytes.glob Base/Bytes.v.beautified Base/Bytes.required_vo: Base/Bytes.v 
Base/Bytes.vio: Base/Bytes.v 
Base/Bytes.vos Base/Bytes.vok Base/Bytes.required_vos: Base/Bytes.v 
Generated.vo Generated.glob Generated.v.beautified Generated.required_vo: Generated.v Base/Bytes.vo
Generated.vio: Generated.v Base/Bytes.vio
Generated.vos Generated.vok Generated.required_vos: Generated.v Base/Bytes.vos
Model/Resp.vo Model/Resp.glob Model/Resp.v.beautified Model/Resp.required_vo: Model/Resp.v Base/Bytes.vo
Model/Resp.vio: Model/Resp.v Base/Bytes.vio
Model/Resp.vos Model/Resp.vok Model/Resp.required_vos: Model/Resp.v Base/Bytes.vos
Model/Types.vo Model/Types.glob Model/Types.v.beautified Model/Types.required_vo: Model/Types.v Base/Bytes.vo Model/Resp.vo
Model/Types.vio: Model/Types.v Base/Bytes.vio Model/Resp.vio
Model/Types.vos Model/Types.vok Model/Types.required_vos: Model/Types.v Base/Bytes.vos Model/Resp.vos
Model/Glob.vo Model/Glob.glob Model/Glob.v.beautified Model/Glob.required_vo: Model/Glob.v Base/Bytes.vo
Model/Glob.vio: Model/Glob.v Base/Bytes.vio
Model/Glob.vos Model/Glob.vok Model/Glob.required_vos: Model/Glob.v Base/Bytes.vos
Model/Strings.vo Model/Strings.glob Model/Strings.v.beautified Model/Strings.required_vo: Model/Strings.v Base/Bytes.vo Model/Resp.vo Model/Types.vo Model/Glob.vo
Model/Strings.vio: Model/Strings.v Base/Bytes.vio Model/Resp.vio Model/Types.vio Model/Glob.vio
Model/Strings.vos Model/Strings.vok Model/Strings.required_vos: Model/Strings.v Base/Bytes.vos Model/Resp.vos Model/Types.vos Model/Glob.vos
Model/Lists.vo Model/Lists.glob Model/Lists.v.beautified Model/Lists.required_vo: Model/Lists.v Base/Bytes.vo Model/Resp.vo Model/Types.vo Model/Strings.vo
Model/Lists.vio: Model/Lists.v Base/Bytes.vio Model/Resp.vio Model/Types.vio Model/Strings.vio
Model/Lists.vos Model/Lists.vok Model/Lists.required_vos: Model/Lists.v Base/Bytes.vos Model/Resp.vos Model/Types.vos Model/Strings.vos
Model/ZSets.vo Model/ZSets.glob Model/ZSets.v.beautified Model/ZSets.required_vo: Model/ZSets.v Base/Bytes.vo Model/Resp.vo Model/Types.vo
Model/ZSets.vio: Model/ZSets.v Base/Bytes.vio Model/Resp.vio Model/Types.vio
Model/ZSets.vos Model/ZSets.vok Model/ZSets.required_vos: Model/ZSets.v Base/Bytes.vos Model/Resp.vos Model/Types.vos
Model/Streams.vo Model/Streams.glob Model/Streams.v.beautified Model/Streams.required_vo: Model/Streams.v Base/Bytes.vo Model/Resp.vo Model/Types.vo
Model/Streams.vio: Model/Streams.v Base/Bytes.vio Model/Resp.vio Model/Types.vio
Model/Streams.vos Model/Streams.vok Model/Streams.required_vos: Model/Streams.v Base/Bytes.vos Model/Resp.vos Model/Types.vos
Model/PubSub.vo Model/PubSub.glob Model/PubSub.v.beautified Model/PubSub.required_vo: Model/PubSub.v Base/Bytes.vo Model/Types.vo
Model/PubSub.vio: Model/PubSub.v Base/Bytes.vio Model/Types.vio
Model/PubSub.vos Model/PubSub.vok Model/PubSub.required_vos: Model/PubSub.v Base/Bytes.vos Model/Types.vos
Model/RunPubSub.vo Model/RunPubSub.glob Model/RunPubSub.v.beautified Model/RunPubSub.required_vo: Model/RunPubSub.v Base/Bytes.vo Model/Types.vo Model/PubSub.vo
Model/RunPubSub.vio: Model/RunPubSub.v Base/Bytes.vio Model/Types.vio Model/PubSub.vio
Model/RunPubSub.vos Model/RunPubSub.vok Model/RunPubSub.required_vos: Model/RunPubSub.v Base/Bytes.vos Model/Types.vos Model/PubSub.vos
Model/Scan.vo Model/Scan.glob Model/Scan.v.beautified Model/Scan.required_vo: Model/Scan.v Base/Bytes.vo Model/Resp.vo Model/Types.vo Model/Glob.vo Model/Strings.vo
Model/Scan.vio: Model/Scan.v Base/Bytes.vio Model/Resp.vio Model/Types.vio Model/Glob.vio Model/Strings.vio
Model/Scan.vos Model/Scan.vok Model/Scan.required_vos: Model/Scan.v Base/Bytes.vos Model/Resp.vos Model/Types.vos Model/Glob.vos Model/Strings.vos
Model/Server.vo Model/Server.glob Model/Server.v.beautified Model/Server.required_vo: Model/Server.v Base/Bytes.vo Generated.vo Model/Resp.vo Model/Types.vo Model/Glob.vo Model/Strings.vo Model/Lists.vo Model/ZSets.vo Model/Streams.vo Model/Scan.vo
Model/Server.vio: Model/Server.v Base/Bytes.vio Generated.vio Model/Resp.vio Model/Types.vio Model/Glob.vio Model/Strings.vio Model/Lists.vio Model/ZSets.vio Model/Streams.vio Model/Scan.vio
Model/Server.vos Model/Server.vok Model/Server.required_vos: Model/Server.v Base/Bytes.vos Generated.vos Model/Resp.vos Model/Types.vos Model/Glob.vos Model/Strings.vos Model/Lists.vos Model/ZSets.vos Model/Streams.vos Model/Scan.vos
Model/Conn.vo Model/Conn.glob Model/Conn.v.beautified Model/Conn.required_vo: Model/Conn.v Base/Bytes.vo Generated.vo Model/Resp.vo Model/Types.vo Model/Server.vo
Model/Conn.vio: Model/Conn.v Base/Bytes.vio Generated.vio Model/Resp.vio Model/Types.vio Model/Server.vio
Model/Conn.vos Model/Conn.vok Model/Conn.required_vos: Model/Conn.v Base/Bytes.vos Generated.vos Model/Resp.vos Model/Types.vos Model/Server.vos
Model/RunBase.vo Model/RunBase.glob Model/RunBase.v.beautified Model/RunBase.required_vo: Model/RunBase.v Base/Bytes.vo Model/Resp.vo
Model/RunBase.vio: Model/RunBase.v Base/Bytes.vio Model/Resp.vio
Model/RunBase.vos Model/RunBase.vok Model/RunBase.required_vos: Model/RunBase.v Base/Bytes.vos Model/Resp.vos
Model/RunSrv.vo Model/RunSrv.glob Model/RunSrv.v.beautified Model/RunSrv.required_vo: Model/RunSrv.v Base/Bytes.vo Model/Resp.vo Model/Types.vo Model/Server.vo Model/Conn.vo Model/RunBase.vo
Model/RunSrv.vio: Model/RunSrv.v Base/Bytes.vio Model/Resp.vio Model/Types.vio Model/Server.vio Model/Conn.vio Model/RunBase.vio
Model/RunSrv.vos Model/RunSrv.vok Model/RunSrv.required_vos: Model/RunSrv.v Base/Bytes.vos Model/Resp.vos Model/Types.vos Model/Server.vos Model/Conn.vos Model/RunBase.vos
Model/RunScan.vo Model/RunScan.glob Model/RunScan.v.beautified Model/RunScan.required_vo: Model/RunScan.v Base/Bytes.vo Model/Resp.vo Model/Types.vo Model/Strings.vo Model/Scan.vo Model/Server.vo Model/RunBase.vo Model/RunSrv.vo Model/RunPubSub.vo
Model/RunScan.vio: Model/RunScan.v Base/Bytes.vio Model/Resp.vio Model/Types.vio Model/Strings.vio Model/Scan.vio Model/Server.vio Model/RunBase.vio Model/RunSrv.vio Model/RunPubSub.vio
Model/RunScan.vos Model/RunScan.vok Model/RunScan.required_vos: Model/RunScan.v Base/Bytes.vos Model/Resp.vos Model/Types.vos Model/Strings.vos Model/Scan.vos Model/Server.vos Model/RunBase.vos Model/RunSrv.vos Model/RunPubSub.vos
Model/Run.vo Model/Run.glob Model/Run.v.beautified Model/Run.required_vo: Model/Run.v Base/Bytes.vo Model/Resp.vo Model/RunBase.vo Model/RunSrv.vo Model/RunPubSub.vo Model/RunScan.vo
Model/Run.vio: Model/Run.v Base/Bytes.vio Model/Resp.vio Model/RunBase.vio Model/RunSrv.vio Model/RunPubSub.vio Model/RunScan.vio
Model/Run.vos Model/Run.vok Model/Run.required_vos: Model/Run.v Base/Bytes.vos Model/Resp.vos Model/RunBase.vos Model/RunSrv.vos Model/RunPubSub.vos Model/RunScan.vos
Spec/Collections.vo Spec/Collections.glob Spec/Collections.v.beautified Spec/Collections.required_vo: Spec/Collections.v Base/Bytes.vo Model/Resp.vo Model/Types.vo
Spec/Collections.vio: Spec/Collections.v Base/Bytes.vio Model/Resp.vio Model/Types.vio
Spec/Collections.vos Spec/Collections.vok Spec/Collections.required_vos: Spec/Collections.v Base/Bytes.vos Model/Resp.vos Model/Types.vos
Proofs/BytesFacts.vo Proofs/BytesFacts.glob Proofs/BytesFacts.v.beautified Proofs/BytesFacts.required_vo: Proofs/BytesFacts.v Base/Bytes.vo
Proofs/BytesFacts.vio: Proofs/BytesFacts.v Base/Bytes.vio
Proofs/BytesFacts.vos Proofs/BytesFacts.vok Proofs/BytesFacts.required_vos: Proofs/BytesFacts.v Base/Bytes.vos
Proofs/RespFacts.vo Proofs/RespFacts.glob Proofs/RespFacts.v.beautified Proofs/RespFacts.required_vo: Proofs/RespFacts.v Base/Bytes.vo Model/Resp.vo Proofs/BytesFacts.vo
Proofs/RespFacts.vio: Proofs/RespFacts.v Base/Bytes.vio Model/Resp.vio Proofs/BytesFacts.vio
Proofs/RespFacts.vos Proofs/RespFacts.vok Proofs/RespFacts.required_vos: Proofs/RespFacts.v Base/Bytes.vos Model/Resp.vos Proofs/BytesFacts.vos
Proofs/StringsFacts.vo Proofs/StringsFacts.glob Proofs/StringsFacts.v.beautified Proofs/StringsFacts.required_vo: Proofs/StringsFacts.v Base/Bytes.vo Model/Resp.vo Model/Types.vo Model/Glob.vo Model/Strings.vo Proofs/BytesFacts.vo
Proofs/StringsFacts.vio: Proofs/StringsFacts.v Base/Bytes.vio Model/Resp.vio Model/Types.vio Model/Glob.vio Model/Strings.vio Proofs/BytesFacts.vio
Proofs/StringsFacts.vos Proofs/StringsFacts.vok Proofs/StringsFacts.required_vos: Proofs/StringsFacts.v Base/Bytes.vos Model/Resp.vos Model/Types.vos Model/Glob.vos Model/Strings.vos Proofs/BytesFacts.vos
Proofs/ListsFacts.vo Proofs/ListsFacts.glob Proofs/ListsFacts.v.beautified Proofs/ListsFacts.required_vo: Proofs/ListsFacts.v Base/Bytes.vo Model/Resp.vo Model/Types.vo Model/Strings.vo Model/Lists.vo Spec/Collections.vo Proofs/BytesFacts.vo Proofs/StringsFacts.vo
Proofs/ListsFacts.vio: Proofs/ListsFacts.v Base/Bytes.vio Model/Resp.vio Model/Types.vio Model/Strings.vio Model/Lists.vio Spec/Collections.vio Proofs/BytesFacts.vio Proofs/StringsFacts.vio
Proofs/ListsFacts.vos Proofs/ListsFacts.vok Proofs/ListsFacts.required_vos: Proofs/ListsFacts.v Base/Bytes.vos Model/Resp.vos Model/Types.vos Model/Strings.vos Model/Lists.vos Spec/Collections.vos Proofs/BytesFacts.vos Proofs/StringsFacts.vos
Proofs/MixedFacts.vo Proofs/MixedFacts.glob Proofs/MixedFacts.v.beautified Proofs/MixedFacts.required_vo: Proofs/MixedFacts.v Base/Bytes.vo Model/Resp.vo Model/Types.vo Model/Strings.vo Model/Lists.vo Spec/Collections.vo Proofs/BytesFacts.vo Proofs/ListsFacts.vo
Proofs/MixedFacts.vio: Proofs/MixedFacts.v Base/Bytes.vio Model/Resp.vio Model/Types.vio Model/Strings.vio Model/Lists.vio Spec/Collections.vio Proofs/BytesFacts.vio Proofs/ListsFacts.vio
Proofs/MixedFacts.vos Proofs/MixedFacts.vok Proofs/MixedFacts.required_vos: Proofs/MixedFacts.v Base/Bytes.vos Model/Resp.vos Model/Types.vos Model/Strings.vos Model/Lists.vos Spec/Collections.vos Proofs/BytesFacts.vos Proofs/ListsFacts.vos
Proofs/ServerFacts.vo Proofs/ServerFacts.glob Proofs/ServerFacts.v.beautified Proofs/ServerFacts.required_vo: Proofs/ServerFacts.v Base/Bytes.vo Generated.vo Model/Resp.vo Model/Types.vo Model/Glob.vo Model/Strings.vo Model/Lists.vo Model/ZSets.vo Model/Streams.vo Model/Server.vo Proofs/BytesFacts.vo Proofs/StringsFacts.vo
Proofs/ServerFacts.vio: Proofs/ServerFacts.v Base/Bytes.vio Generated.vio Model/Resp.vio Model/Types.vio Model/Glob.vio Model/Strings.vio Model/Lists.vio Model/ZSets.vio Model/Streams.vio Model/Server.vio Proofs/BytesFacts.vio Proofs/StringsFacts.vio
Proofs/ServerFacts.vos Proofs/ServerFacts.vok Proofs/ServerFacts.required_vos: Proofs/ServerFacts.v Base/Bytes.vos Generated.vos Model/Resp.vos Model/Types.vos Model/Glob.vos Model/Strings.vos Model/Lists.vos Model/ZSets.vos Model/Streams.vos Model/Server.vos Proofs/BytesFacts.vos Proofs/StringsFacts.vos
Proofs/PsGlobFacts.vo Proofs/PsGlobFacts.glob Proofs/PsGlobFacts.v.beautified Proofs/PsGlobFacts.required_vo: Proofs/PsGlobFacts.v Base/Bytes.vo Model/Types.vo Model/PubSub.vo Proofs/BytesFacts.vo
Proofs/PsGlobFacts.vio: Proofs/PsGlobFacts.v Base/Bytes.vio Model/Types.vio Model/PubSub.vio Proofs/BytesFacts.vio
Proofs/PsGlobFacts.vos Proofs/PsGlobFacts.vok Proofs/PsGlobFacts.required_vos: Proofs/PsGlobFacts.v Base/Bytes.vos Model/Types.vos Model/PubSub.vos Proofs/BytesFacts.vos
Proofs/PubSubFacts.vo Proofs/PubSubFacts.glob Proofs/PubSubFacts.v.beautified Proofs/PubSubFacts.required_vo: Proofs/PubSubFacts.v Base/Bytes.vo Model/Types.vo Model/PubSub.vo Proofs/BytesFacts.vo Proofs/PsGlobFacts.vo
Proofs/PubSubFacts.vio: Proofs/PubSubFacts.v Base/Bytes.vio Model/Types.vio Model/PubSub.vio Proofs/BytesFacts.vio Proofs/PsGlobFacts.vio
Proofs/PubSubFacts.vos Proofs/PubSubFacts.vok Proofs/PubSubFacts.required_vos: Proofs/PubSubFacts.v Base/Bytes.vos Model/Types.vos Model/PubSub.vos Proofs/BytesFacts.vos Proofs/PsGlobFacts.vos
Proofs/ScanFacts.vo Proofs/ScanFacts.glob Proofs/ScanFacts.v.beautified Proofs/ScanFacts.required_vo: Proofs/ScanFacts.v Base/Bytes.vo Model/Resp.vo Model/Types.vo Model/Glob.vo Model/Strings.vo Model/Scan.vo Proofs/BytesFacts.vo
Proofs/ScanFacts.vio: Proofs/ScanFacts.v Base/Bytes.vio Model/Resp.vio Model/Types.vio Model/Glob.vio Model/Strings.vio Model/Scan.vio Proofs/BytesFacts.vio
Proofs/ScanFacts.vos Proofs/ScanFacts.vok Proofs/ScanFacts.required_vos: Proofs/ScanFacts.v Base/Bytes.vos Model/Resp.vos Model/Types.vos Model/Glob.vos Model/Strings.vos Model/Scan.vos Proofs/BytesFacts.vos
Props/C20.vo Props/C20.glob Props/C20.v.beautified Props/C20.required_vo: Props/C20.v Base/Bytes.vo Model/Resp.vo Proofs/BytesFacts.vo Proofs/RespFacts.vo
Props/C20.vio: Props/C20.v Base/Bytes.vio Model/Resp.vio Proofs/BytesFacts.vio Proofs/RespFacts.vio
Props/C20.vos Props/C20.vok Props/C20.required_vos: Props/C20.v Base/Bytes.vos Model/Resp.vos Proofs/BytesFacts.vos Proofs/RespFacts.vos
Props/C01.vo Props/C01.glob Props/C01.v.beautified Props/C01.required_vo: Props/C01.v Base/Bytes.vo Model/Resp.vo Model/Types.vo Model/Glob.vo Model/Strings.vo Proofs/BytesFacts.vo Proofs/StringsFacts.vo
Props/C01.vio: Props/C01.v Base/Bytes.vio Model/Resp.vio Model/Types.vio Model/Glob.vio Model/Strings.vio Proofs/BytesFacts.vio Proofs/StringsFacts.vio
Props/C01.vos Props/C01.vok Props/C01.required_vos: Props/C01.v Base/Bytes.vos Model/Resp.vos Model/Types.vos Model/Glob.vos Model/Strings.vos Proofs/BytesFacts.vos Proofs/StringsFacts.vos
Props/C03.vo Props/C03.glob Props/C03.v.beautified Props/C03.required_vo: Props/C03.v Base/Bytes.vo Model/Resp.vo Model/Types.vo Model/Strings.vo Model/Lists.vo Spec/Collections.vo Proofs/BytesFacts.vo Proofs/ListsFacts.vo Proofs/MixedFacts.vo Proofs/StringsFacts.vo
Props/C03.vio: Props/C03.v Base/Bytes.vio Model/Resp.vio Model/Types.vio Model/Strings.vio Model/Lists.vio Spec/Collections.vio Proofs/BytesFacts.vio Proofs/ListsFacts.vio Proofs/MixedFacts.vio Proofs/StringsFacts.vio
Props/C03.vos Props/C03.vok Props/C03.required_vos: Props/C03.v Base/Bytes.vos Model/Resp.vos Model/Types.vos Model/Strings.vos Model/Lists.vos Spec/Collections.vos Proofs/BytesFacts.vos Proofs/ListsFacts.vos Proofs/MixedFacts.vos Proofs/StringsFacts.vos
Props/C17.vo Props/C17.glob Props/C17.v.beautified Props/C17.required_vo: Props/C17.v Base/Bytes.vo Generated.vo Model/Resp.vo Model/Types.vo Model/Server.vo Proofs/ServerFacts.vo
Props/C17.vio: Props/C17.v Base/Bytes.vio Generated.vio Model/Resp.vio Model/Types.vio Model/Server.vio Proofs/ServerFacts.vio
Props/C17.vos Props/C17.vok Props/C17.required_vos: Props/C17.v Base/Bytes.vos Generated.vos Model/Resp.vos Model/Types.vos Model/Server.vos Proofs/ServerFacts.vos
Props/C18.vo Props/C18.glob Props/C18.v.beautified Props/C18.required_vo: Props/C18.v Base/Bytes.vo Generated.vo Model/Resp.vo Model/Types.vo Model/Server.vo Proofs/ServerFacts.vo
Props/C18.vio: Props/C18.v Base/Bytes.vio Generated.vio Model/Resp.vio Model/Types.vio Model/Server.vio Proofs/ServerFacts.vio
Props/C18.vos Props/C18.vok Props/C18.required_vos: Props/C18.v Base/Bytes.vos Generated.vos Model/Resp.vos Model/Types.vos Model/Server.vos Proofs/ServerFacts.vos
Props/C07.vo Props/C07.glob Props/C07.v.beautified Props/C07.required_vo: Props/C07.v Base/Bytes.vo Generated.vo Model/Resp.vo Model/Types.vo Model/Server.vo Proofs/ServerFacts.vo
Props/C07.vio: Props/C07.v Base/Bytes.vio Generated.vio Model/Resp.vio Model/Types.vio Model/Server.vio Proofs/ServerFacts.vio
Props/C07.vos Props/C07.vok Props/C07.required_vos: Props/C07.v Base/Bytes.vos Generated.vos Model/Resp.vos Model/Types.vos Model/Server.vos Proofs/ServerFacts.vos
Props/C08.vo Props/C08.glob Props/C08.v.beautified Props/C08.required_vo: Props/C08.v Base/Bytes.vo Generated.vo Model/Resp.vo Model/Types.vo Model/Server.vo Proofs/ServerFacts.vo
Props/C08.vio: Props/C08.v Base/Bytes.vio Generated.vio Model/Resp.vio Model/Types.vio Model/Server.vio Proofs/ServerFacts.vio
Props/C08.vos Props/C08.vok Props/C08.required_vos: Props/C08.v Base/Bytes.vos Generated.vos Model/Resp.vos Model/Types.vos Model/Server.vos Proofs/ServerFacts.vos
Props/C14.vo Props/C14.glob Props/C14.v.beautified Props/C14.required_vo: Props/C14.v Base/Bytes.vo Model/Types.vo Model/PubSub.vo Proofs/PsGlobFacts.vo Proofs/PubSubFacts.vo
Props/C14.vio: Props/C14.v Base/Bytes.vio Model/Types.vio Model/PubSub.vio Proofs/PsGlobFacts.vio Proofs/PubSubFacts.vio
Props/C14.vos Props/C14.vok Props/C14.required_vos: Props/C14.v Base/Bytes.vos Model/Types.vos Model/PubSub.vos Proofs/PsGlobFacts.vos Proofs/PubSubFacts.vos
Props/C19.vo Props/C19.glob Props/C19.v.beautified Props/C19.required_vo: Props/C19.v Base/Bytes.vo Model/Resp.vo Model/Types.vo Model/Glob.vo Model/Strings.vo Model/Scan.vo Proofs/ScanFacts.vo
Props/C19.vio: Props/C19.v Base/Bytes.vio Model/Resp.vio Model/Types.vio Model/Glob.vio Model/Strings.vio Model/Scan.vio Proofs/ScanFacts.vio
Props/C19.vos Props/C19.vok Props/C19.required_vos: Props/C19.v Base/Bytes.vos Model/Resp.vos Model/Types.vos Model/Glob.vos Model/Strings.vos Model/Scan.vos Proofs/ScanFacts.vos
