Base/Bytes.vo Base/Bytes.glob Base/Bytes.v.beautified Base/Bytes.required_vo: Base/Bytes.v 
Base/Bytes.vio: Base/Bytes.v 
Base/Bytes.vos Base/Bytes.vok Base/Bytes.required_vos: Base/Bytes.v 
Model/Resp.vo Model/Resp.glob Model/Resp.v.beautified Model/Resp.required_vo: Model/Resp.v Base/Bytes.vo
Model/Resp.vio: Model/Resp.v Base/Bytes.vio
Model/Resp.vos Model/Resp.vok Model/Resp.required_vos: Model/Resp.v Base/Bytes.vos
Model/RunBase.vo Model/RunBase.glob Model/RunBase.v.beautified Model/RunBase.required_vo: Model/RunBase.v Base/Bytes.vo Model/Resp.vo
Model/RunBase.vio: Model/RunBase.v Base/Bytes.vio Model/Resp.vio
Model/RunBase.vos Model/RunBase.vok Model/RunBase.required_vos: Model/RunBase.v Base/Bytes.vos Model/Resp.vos
Model/Run.vo Model/Run.glob Model/Run.v.beautified Model/Run.required_vo: Model/Run.v Base/Bytes.vo Model/Resp.vo Model/RunBase.vo
Model/Run.vio: Model/Run.v Base/Bytes.vio Model/Resp.vio Model/RunBase.vio
Model/Run.vos Model/Run.vok Model/Run.required_vos: Model/Run.v Base/Bytes.vos Model/Resp.vos Model/RunBase.vos
Proofs/BytesFacts.vo Proofs/BytesFacts.glob Proofs/BytesFacts.v.beautified Proofs/BytesFacts.required_vo: Proofs/BytesFacts.v Base/Bytes.vo
Proofs/BytesFacts.vio: Proofs/BytesFacts.v Base/Bytes.vio
Proofs/BytesFacts.vos Proofs/BytesFacts.vok Proofs/BytesFacts.required_vos: Proofs/BytesFacts.v Base/Bytes.vos
Proofs/RespFacts.vo Proofs/RespFacts.glob Proofs/RespFacts.v.beautified Proofs/RespFacts.required_vo: Proofs/RespFacts.v Base/Bytes.vo Model/Resp.vo Proofs/BytesFacts.vo
Proofs/RespFacts.vio: Proofs/RespFacts.v Base/Bytes.vio Model/Resp.vio Proofs/BytesFacts.vio
Proofs/RespFacts.vos Proofs/RespFacts.vok Proofs/RespFacts.required_vos: Proofs/RespFacts.v Base/Bytes.vos Model/Resp.vos Proofs/BytesFacts.vos
Props/C20.vo Props/C20.glob Props/C20.v.beautified Props/C20.required_vo: Props/C20.v Base/Bytes.vo Model/Resp.vo Proofs/BytesFacts.vo Proofs/RespFacts.vo
Props/C20.vio: Props/C20.v Base/Bytes.vio Model/Resp.vio Proofs/BytesFacts.vio Proofs/RespFacts.vio
Props/C20.vos Props/C20.vok Props/C20.required_vos: Props/C20.v Base/Bytes.vos Model/Resp.vos Proofs/BytesFacts.vos Proofs/RespFacts.vos
