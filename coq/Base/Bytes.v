(** Base definitions: bytes, tokens, decimal text, CRLF lines.
    No property proofs here; lemmas about these are in Proofs/BytesFacts.v. *)
From Coq Require Export String Ascii.
From Coq Require Export List ZArith Bool Lia.
Export ListNotations.
Open Scope Z_scope.

Definition byte := Z.
Definition bytes := list Z.

(** string literal -> bytes *)
Fixpoint bs (s : String.string) : bytes :=
  match s with
  | String.EmptyString => []
  | String.String a r => Z.of_N (Ascii.N_of_ascii a) :: bs r
  end.


Fixpoint beq (a b : bytes) : bool :=
  match a, b with
  | [], [] => true
  | x :: a', y :: b' => (x =? y) && beq a' b'
  | _, _ => false
  end.

(** lexicographic comparison on byte strings (Rust's Ord for Vec<u8>) *)
Fixpoint bcmp (a b : bytes) : comparison :=
  match a, b with
  | [], [] => Eq
  | [], _ => Lt
  | _, [] => Gt
  | x :: a', y :: b' =>
      match x ?= y with Eq => bcmp a' b' | c => c end
  end.
Definition bltb (a b : bytes) : bool := match bcmp a b with Lt => true | _ => false end.
Definition bleb (a b : bytes) : bool := match bcmp a b with Gt => false | _ => true end.

Definition len {A} (l : list A) : Z := Z.of_nat (length l).

(** ASCII upper-casing (to_uppercase on the ASCII subset) *)
Definition upper1 (c : Z) : Z := if (97 <=? c) && (c <=? 122) then c - 32 else c.
Definition upper (b : bytes) : bytes := map upper1 b.

(** Tokens: the uniform wire format between harness, driver and model *)
Inductive tok := TI (z : Z) | TB (b : bytes).

(** ---- decimal text ---- *)
Definition is_digit (c : Z) : bool := (48 <=? c) && (c <=? 57).

Fixpoint digits_acc (fuel : nat) (n : Z) (acc : bytes) : bytes :=
  match fuel with
  | O => acc
  | S f => let acc' := (48 + n mod 10) :: acc in
           if n <? 10 then acc' else digits_acc f (n / 10) acc'
  end.
(** 0 <= n < 10^40 is printed exactly; every machine integer fits *)
Definition print_nat (n : Z) : bytes := digits_acc 40 n [].
Definition print_int (z : Z) : bytes :=
  if z <? 0 then 45 :: print_nat (- z) else print_nat z.

(** value of a digit string, None if empty or a non-digit occurs *)
Fixpoint digits_val (l : bytes) (acc : Z) : option Z :=
  match l with
  | [] => Some acc
  | c :: r => if is_digit c then digits_val r (acc * 10 + (c - 48)) else None
  end.
Definition parse_digits (l : bytes) : option Z :=
  match l with [] => None | _ => digits_val l 0 end.

(** Rust's [str::parse] for signed types: optional '+' or '-', then >= 1 digit,
    range-checked.  (from_utf8 failure implies a non-digit byte, so also None.) *)
Definition parse_signed (lo hi : Z) (l : bytes) : option Z :=
  let r := match l with
           | 43 :: d => parse_digits d
           | 45 :: d => option_map Z.opp (parse_digits d)
           | _ => parse_digits l
           end in
  match r with
  | Some v => if (lo <=? v) && (v <=? hi) then Some v else None
  | None => None
  end.
(** unsigned types: optional '+', no '-' *)
Definition parse_unsigned (hi : Z) (l : bytes) : option Z :=
  let r := match l with
           | 43 :: d => parse_digits d
           | _ => parse_digits l
           end in
  match r with
  | Some v => if v <=? hi then Some v else None
  | None => None
  end.

Definition i64_min := - 9223372036854775808.
Definition i64_max := 9223372036854775807.
Definition u64_max := 18446744073709551615.
Definition parse_i64 := parse_signed i64_min i64_max.
Definition parse_u64 := parse_unsigned u64_max.
Definition parse_usize := parse_unsigned u64_max.
Definition parse_isize := parse_i64.
Definition in_i64 (z : Z) : bool := (i64_min <=? z) && (z <=? i64_max).

(** ---- CRLF-terminated lines ---- *)
(** first CR LF pair: (bytes before it, bytes after it) *)
Fixpoint split_crlf (l : bytes) : option (bytes * bytes) :=
  match l with
  | [] => None
  | c :: r =>
      match r with
      | d :: r' =>
          if (c =? 13) && (d =? 10) then Some ([], r')
          else match split_crlf r with
               | Some (a, b) => Some (c :: a, b)
               | None => None
               end
      | [] => None
      end
  end.

Definition crlf : bytes := [13; 10].

(** does the byte string contain a CR LF pair *)
Definition has_crlf (l : bytes) : bool :=
  match split_crlf l with Some _ => true | None => false end.

Fixpoint drop_while (p : Z -> bool) (l : bytes) : bytes :=
  match l with
  | [] => []
  | c :: r => if p c then drop_while p r else l
  end.

Fixpoint is_prefix (p l : bytes) : bool :=
  match p, l with
  | [], _ => true
  | x :: p', y :: l' => (x =? y) && is_prefix p' l'
  | _ :: _, [] => false
  end.

Definition zfirstn {A} (n : Z) (l : list A) : list A := firstn (Z.to_nat n) l.
Definition zskipn {A} (n : Z) (l : list A) : list A := skipn (Z.to_nat n) l.
Definition znth {A} (n : Z) (l : list A) : option A :=
  if n <? 0 then None else nth_error l (Z.to_nat n).
