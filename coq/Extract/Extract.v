(** Extraction of the executable models.  ExtrOcamlBasic only: Z, positive, N
    stay the extracted inductive types. *)
Require Extraction.
Require Import ExtrOcamlBasic.
From Ferrous Require Import Base.Bytes Model.Run.
Extraction Language OCaml.
Extraction "model.ml" run print_int bs.
