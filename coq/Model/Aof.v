(** The append-only file (src/storage/aof.rs, server.rs process_normal_command).

    The log itself is kept by Model/Server.v: [s_aof] receives the whole command
    ([parts], name included) BEFORE dispatch whenever its upper-cased name is in
    [Generated.write_commands], whatever the outcome of the command
    (server.rs "Log to AOF for write commands").  Paths that reach storage without
    going through process_normal_command append nothing.

    This file adds
    - the bytes of the file: append_command serialises RespFrame::Array(Some(parts))
      with serialize_resp_frame and flushes (the fsync policy only decides when the
      bytes reach the disk, not which bytes) - so the file is the concatenation of
      [ser (FArray parts)] in execution order;
    - [replay]: re-execution of a command list on an empty server, one connection,
      database 0 (the log carries no SELECT) - what a redo of the file means.  The
      implementation's own start-up replay (aof.rs load / replay_command) executes
      nothing: [restart] below is the model of THAT (code as it is);
    - [load_ok]: AofEngine::load reads the file with BufRead::lines(), which fails on
      a line that is not valid UTF-8, and the failure aborts Server::new. *)
From Ferrous Require Import Base.Bytes Generated Model.Resp Model.Types Model.Strings
  Model.Server Model.Conn.
Open Scope Z_scope.

(** ---- the file ---- *)
Definition aof_frame (parts : list frame) : bytes := fst (ser no_dprint (FArray parts)).
(** [log] oldest command first *)
Definition aof_file (log : list (list frame)) : bytes := concat (map aof_frame log).
Definition aof_log (s : server) : list (list frame) := rev (s_aof s).
Definition aof_bytes (s : server) : bytes := aof_file (aof_log s).

(** what a reader of the file decodes (the same RESP reader as everywhere else) *)
Definition aof_decode (file : bytes) : list frame * status * bytes := drain_buf no_double file.

(** ---- redo ---- *)
Definition replay_conn : Z := 1.
Definition replay_init : server := connect (init_server None) replay_conn.
(** one logged command, with the oracle for its random choice if it has one *)
Definition replay_step (now : Z) (s : server) (po : list frame * option frame) : server :=
  snd (normal_command now s replay_conn 0 (fst po) (snd po)).
Definition replay_o (now : Z) (log : list (list frame * option frame)) : server :=
  fold_left (replay_step now) log replay_init.
Definition no_oracle (log : list (list frame)) : list (list frame * option frame) :=
  map (fun p => (p, None)) log.
Definition replay (now : Z) (log : list (list frame)) : server := replay_o now (no_oracle log).

(** the same with the replies (what the harness sees when it re-sends the commands) *)
Fixpoint replay_run (now : Z) (s : server) (log : list (list frame * option frame)) (acc : list frame)
  : list frame * server :=
  match log with
  | [] => (rev acc, s)
  | (parts, o) :: r =>
      match normal_command now s replay_conn 0 parts o with
      | (rep, s') => replay_run now s' r (canon_reply (req_name (FArray parts)) rep :: acc)
      end
  end.

(** the dataset of one database as the property compares it: values and TTL presence *)
Definition has_ttl (e : entry) : bool := match e_exp e with Some _ => true | None => false end.
Definition dataset (d : db) : list (bytes * value * bool) :=
  map (fun ke => (fst ke, e_val (snd ke), has_ttl (snd ke))) (d_data d).

(** ---- start-up (Server::new with appendonly yes, code as it is) ---- *)
(** std::str::from_utf8: well-formed UTF-8 (no overlong forms, no surrogates, <= U+10FFFF) *)
Definition cont (c : Z) : bool := (128 <=? c) && (c <=? 191).
Fixpoint utf8_ok (b : bytes) : bool :=
  match b with
  | [] => true
  | c :: r =>
      if c <? 128 then utf8_ok r
      else if (194 <=? c) && (c <=? 223) then
        match r with c1 :: r1 => cont c1 && utf8_ok r1 | _ => false end
      else if c =? 224 then
        match r with c1 :: c2 :: r2 => (160 <=? c1) && (c1 <=? 191) && cont c2 && utf8_ok r2 | _ => false end
      else if ((225 <=? c) && (c <=? 236)) || (c =? 238) || (c =? 239) then
        match r with c1 :: c2 :: r2 => cont c1 && cont c2 && utf8_ok r2 | _ => false end
      else if c =? 237 then
        match r with c1 :: c2 :: r2 => (128 <=? c1) && (c1 <=? 159) && cont c2 && utf8_ok r2 | _ => false end
      else if c =? 240 then
        match r with c1 :: c2 :: c3 :: r3 => (144 <=? c1) && (c1 <=? 191) && cont c2 && cont c3 && utf8_ok r3 | _ => false end
      else if (241 <=? c) && (c <=? 243) then
        match r with c1 :: c2 :: c3 :: r3 => cont c1 && cont c2 && cont c3 && utf8_ok r3 | _ => false end
      else if c =? 244 then
        match r with c1 :: c2 :: c3 :: r3 => (128 <=? c1) && (c1 <=? 143) && cont c2 && cont c3 && utf8_ok r3 | _ => false end
      else false
  end.
(** load: every line must be valid UTF-8 (a line feed is ASCII, so this is validity of
    the whole file); the frames it then parses are handed to replay_command, which
    executes nothing *)
Definition load_ok (file : bytes) : bool := utf8_ok file.
(** a restart on the same directory: None = the process exits during start-up; otherwise
    an EMPTY dataset, no connections, and the file kept (opened in append mode) *)
Definition restart (s : server) : option server :=
  if load_ok (aof_bytes s) then
    Some {| s_dbs := s_dbs (init_server (s_password s)); s_trk := s_trk (init_server (s_password s));
            s_conns := []; s_password := s_password s; s_aof := s_aof s |}
  else None.
