(** The append-only file (src/storage/aof.rs, server.rs process_normal_command), after the
    repairs 8d99f01 (GETSET, HMSET, PEXPIRE, XREADGROUP logged), 7ef6fad (SELECT records) and
    39510e9 (binary-safe load).

    The log itself is kept by Model/Server.v: [s_aof] receives the whole command
    ([parts], name included) BEFORE dispatch whenever its upper-cased name is in
    [Generated.write_commands], whatever the outcome of the command, preceded by a
    [SELECT db] record when the database differs from that of the last command written
    ([log_aof_in]).  Paths that reach storage without going through
    process_normal_command append nothing.

    This file adds
    - the bytes of the file: append_command serialises RespFrame::Array(Some(parts))
      with serialize_resp_frame and flushes (the fsync policy only decides when the
      bytes reach the disk, not which bytes) - so the file is the concatenation of
      [ser (FArray parts)] in execution order;
    - [replay]: re-execution of the file's commands, SELECT records included, on an empty
      server over one connection - what a redo of the file means.  The implementation's own
      start-up replay (aof.rs load / replay_command) executes nothing: [restart] below is
      the model of THAT (code as it is). *)
From Ferrous Require Import Base.Bytes Generated Model.Resp Model.Types Model.Strings
  Model.Server Model.Conn.
Open Scope Z_scope.

(** ---- the file ---- *)
Definition aof_frame (parts : list frame) : bytes := fst (ser no_dprint (FArray parts)).
(** [log] oldest command first *)
Definition aof_file (log : list (list frame)) : bytes := concat (map aof_frame log).
(** the records of the file, oldest first: process boundaries leave no bytes *)
Definition is_record (p : list frame) : bool := match p with [] => false | _ => true end.
Definition aof_log (s : server) : list (list frame) := rev (filter is_record (s_aof s)).
Definition aof_bytes (s : server) : bytes := aof_file (aof_log s).

(** what a reader of the file decodes (the same RESP reader as everywhere else) *)
Definition aof_decode (file : bytes) : list frame * status * bytes := drain_buf no_double file.

(** ---- redo ---- *)
Definition replay_conn : Z := 1.
Definition replay_init : server := connect (init_server None) replay_conn.
Definition conn_db (s : server) (c : Z) : Z :=
  match zlookup c (s_conns s) with Some cn => c_db cn | None => 0 end.
(** one record of the file sent over the redo connection, with the oracle for its random
    choice if it has one: a SELECT record moves the connection, any other command runs in
    the database the connection is in *)
Definition replay_step (now : Z) (s : server) (po : list frame * option frame) : server :=
  snd (normal_command now s replay_conn (conn_db s replay_conn) (fst po) (snd po)).
Definition replay_o (now : Z) (log : list (list frame * option frame)) : server :=
  fold_left (replay_step now) log replay_init.
Definition no_oracle (log : list (list frame)) : list (list frame * option frame) :=
  map (fun p => (p, None)) log.
Definition replay (now : Z) (log : list (list frame)) : server := replay_o now (no_oracle log).

(** the same with the replies (what the harness sees when it re-sends the commands) *)
Fixpoint replay_run (now : Z) (s : server) (log : list (list frame * option frame)) (acc : list frame)
  : list frame * server :=
  match log with
  | [] => (rev acc, s)
  | (parts, o) :: r =>
      match normal_command now s replay_conn (conn_db s replay_conn) parts o with
      | (rep, s') => replay_run now s' r (canon_reply (req_name (FArray parts)) rep :: acc)
      end
  end.

(** the dataset of one database as the property compares it: values and TTL presence *)
Definition has_ttl (e : entry) : bool := match e_exp e with Some _ => true | None => false end.
Definition dataset (d : db) : list (bytes * value * bool) :=
  map (fun ke => (fst ke, e_val (snd ke), has_ttl (snd ke))) (d_data d).

(** ---- start-up (Server::new with appendonly yes, after 831b342) ---- *)
(** AofEngine::load runs every record of the file again, in file order, on the empty storage:
    SELECT records choose the database, lazy expiry runs before each record, a record that is
    refused is skipped.  The implementation executes the records through the command executor
    that redis.call uses (EVAL through the Lua handler); this model runs them through the direct
    handlers ([replay]) - where the executor differs from the direct handler of a command
    (Proofs/ExecFacts.v states their parity for the catalogue of C12) recovery inherits the
    difference; the restart tie of harness/src/c11.rs samples it.  Nothing is appended while
    loading; connections, subscriptions, watches and the script cache are gone; the engine has
    forgotten the database it last wrote to ([aof_boundary]). *)
Definition restart_o (now : Z) (s : server) (log : list (list frame * option frame)) : server :=
  {| s_dbs := s_dbs (replay_o now log); s_trk := s_trk (init_server (s_password s));
     s_conns := []; s_password := s_password s; s_aof := aof_boundary :: s_aof s;
     s_pubsub := s_pubsub (init_server (s_password s)) |}.
(** (the oracles are for the sorted-set commands only: the f64 value of their arguments) *)
Definition restart (now : Z) (s : server) : server := restart_o now s (no_oracle (aof_log s)).

(** ---- canonical form of the file for comparison with the implementation ---- *)
(** PEXPIREAT records carry a wall-clock time: compared by whether the deadline has passed at
    the moment the file is read; the members of an SREM record (SPOP's outcome) come in the
    order of the reply, which for several members is a HashSet order: sorted *)
Definition bulk_of (f : frame) : option bytes := match f with FBulk b => Some b | _ => None end.
Fixpoint all_bulk_list (l : list frame) : option (list bytes) :=
  match l with
  | [] => Some []
  | FBulk b :: r => match all_bulk_list r with Some t => Some (b :: t) | None => None end
  | _ => None
  end.
Definition canon_record (t : Z) (p : list frame) : list frame :=
  match p with
  | [FBulk n; FBulk k; FBulk d] =>
      if beq n (bs "PEXPIREAT") then
        [FBulk n; FBulk k; FBulk (match parse_i64 d with Some x => if t <? x then bs "1" else bs "0" | None => d end)]
      else p
  | FBulk n :: k :: ms =>
      if beq n (bs "SREM") then
        match all_bulk_list ms with Some l => FBulk n :: k :: map FBulk (bsort l) | None => p end
      else p
  | _ => p
  end.
Definition aof_canon_bytes (t : Z) (s : server) : bytes := aof_file (map (canon_record t) (aof_log s)).
