(** Blocking pops (src/network/blocking.rs, server.rs handle_blpop / handle_brpop /
    wake_client / process_blocked_timeouts / the body of Server::run).

    The state of the blocking subsystem is kept BESIDE the [server] record of
    Model/Server.v and threaded through every step:

      b_reg   BlockingManager.registries: (db, key) -> FIFO of waiters
      b_wake  BlockingManager.wake_queue: FIFO of wake-up requests
      b_blk   the connections whose ConnectionState is Blocked(..), with that state
      b_out   everything written to a connection's write buffer, newest first
      b_in    requests a client sent while its connection was Blocked: blocked
              connections are skipped by process_connections, the bytes wait in the socket
      b_dead  connections whose client went away and that the server has not looked at yet
      b_crashed  Server::run returned (nothing in the model sets it since repair e1d4020: a wake-up
                 on a key of another type used to propagate WRONGTYPE out of the loop)

    Events: a batch of frames read from one connection ([serve_batch], with BLPOP/BRPOP
    and the notification after LPUSH/RPUSH - also inside EXEC), and the phases of one
    iteration of the event loop: [process_wakeups] (at most 32), [process_conns] (the
    connections that are not Blocked read their pending input), [process_timeouts]. *)
From Ferrous Require Import Base.Bytes Generated Model.Resp Model.Types Model.Strings Model.Lists
  Model.Server.
Open Scope Z_scope.

(** BlockedClient.  [w_at] stands for blocked_at: the Instants taken by successive
    register_blocked calls increase, the model numbers them ([b_seq]) *)
Record waiter := { w_conn : Z; w_dl : option Z; w_left : bool; w_at : Z }.   (* w_left: BLPop (true) / BRPop *)
(** WakeupRequest (blocked_at travels with it since 8ab686d) *)
Record wakeup := { u_conn : Z; u_db : Z; u_key : bytes; u_left : bool; u_at : Z }.
(** BlockedState of a connection: keys (all of the same database), deadline, op *)
Record bstate := { bl_db : Z; bl_keys : list bytes; bl_dl : option Z; bl_left : bool }.

Definition regkey := (Z * bytes)%type.
Definition rk_eqb (a b : regkey) : bool := (fst a =? fst b) && beq (snd a) (snd b).
Definition registry := list (regkey * list waiter).

Record blocking := {
  b_reg : registry;
  b_wake : list wakeup;
  b_blk : list (Z * bstate);
  b_out : list (Z * frame);
  b_in : list (Z * list (frame * option Z));
  b_dead : list Z;
  b_crashed : bool;
  b_seq : Z                 (* number of register_blocked calls so far: the next arrival stamp *)
}.
Definition init_blocking : blocking :=
  {| b_reg := []; b_wake := []; b_blk := []; b_out := []; b_in := []; b_dead := []; b_crashed := false; b_seq := 0 |}.

Definition with_reg (b : blocking) (r : registry) : blocking :=
  {| b_reg := r; b_wake := b_wake b; b_blk := b_blk b; b_out := b_out b; b_in := b_in b;
     b_dead := b_dead b; b_crashed := b_crashed b; b_seq := b_seq b |}.
Definition with_wake (b : blocking) (w : list wakeup) : blocking :=
  {| b_reg := b_reg b; b_wake := w; b_blk := b_blk b; b_out := b_out b; b_in := b_in b;
     b_dead := b_dead b; b_crashed := b_crashed b; b_seq := b_seq b |}.
Definition with_blk (b : blocking) (l : list (Z * bstate)) : blocking :=
  {| b_reg := b_reg b; b_wake := b_wake b; b_blk := l; b_out := b_out b; b_in := b_in b;
     b_dead := b_dead b; b_crashed := b_crashed b; b_seq := b_seq b |}.
Definition with_in (b : blocking) (l : list (Z * list (frame * option Z))) : blocking :=
  {| b_reg := b_reg b; b_wake := b_wake b; b_blk := b_blk b; b_out := b_out b; b_in := l;
     b_dead := b_dead b; b_crashed := b_crashed b; b_seq := b_seq b |}.
Definition with_dead (b : blocking) (l : list Z) : blocking :=
  {| b_reg := b_reg b; b_wake := b_wake b; b_blk := b_blk b; b_out := b_out b; b_in := b_in b;
     b_dead := l; b_crashed := b_crashed b; b_seq := b_seq b |}.
(** conn.send_frame: append to the connection's write buffer *)
Definition emit (b : blocking) (c : Z) (f : frame) : blocking :=
  {| b_reg := b_reg b; b_wake := b_wake b; b_blk := b_blk b; b_out := (c, f) :: b_out b; b_in := b_in b;
     b_dead := b_dead b; b_crashed := b_crashed b; b_seq := b_seq b |}.
Definition with_seq (b : blocking) (n : Z) : blocking :=
  {| b_reg := b_reg b; b_wake := b_wake b; b_blk := b_blk b; b_out := b_out b; b_in := b_in b;
     b_dead := b_dead b; b_crashed := b_crashed b; b_seq := n |}.
(** conn.state = Authenticated *)
Definition unblock (b : blocking) (c : Z) : blocking := with_blk b (zremove c (b_blk b)).
Definition set_blocked (b : blocking) (c : Z) (st : bstate) : blocking := with_blk b (zset_ c st (b_blk b)).
Definition is_blocked (b : blocking) (c : Z) : bool :=
  match zlookup c (b_blk b) with Some _ => true | None => false end.

(** ---- BlockingRegistry ----
    HashMap<key, VecDeque<BlockedClient>> + the HashSet of keys that have an entry.  The code
    removes an entry (from both) as soon as its queue is empty, so "has an entry" and "queue
    not empty" coincide; the model tests the queue, keeps no invariant on entries and may
    leave an entry with an empty queue behind (the dump skips those). *)
Fixpoint reg_get (r : registry) (k : regkey) : list waiter :=
  match r with
  | [] => []
  | (k', q) :: t => if rk_eqb k k' then q else reg_get t k
  end.
Fixpoint reg_remove (r : registry) (k : regkey) : registry :=
  match r with
  | [] => []
  | (k', q) :: t => if rk_eqb k k' then reg_remove t k else (k', q) :: reg_remove t k
  end.
(** replace the queue of a key *)
Definition reg_put (r : registry) (k : regkey) (q : list waiter) : registry := (k, q) :: reg_remove r k.

(** register_blocked_client: push_back on every key, in argument order (a repeated key
    registers twice) *)
Definition register (r : registry) (db c : Z) (keys : list bytes) (left : bool) (dl : option Z) (at_ : Z) : registry :=
  fold_left (fun r k => reg_put r (db, k) (reg_get r (db, k) ++ [{| w_conn := c; w_dl := dl; w_left := left; w_at := at_ |}]))
            keys r.
(** reregister_blocked_client (8ab686d): insert before the first client that blocked later *)
Fixpoint ins_at (w : waiter) (q : list waiter) : list waiter :=
  match q with
  | [] => [w]
  | x :: t => if w_at w <? w_at x then w :: q else x :: ins_at w t
  end.
Definition reregister (r : registry) (db c : Z) (keys : list bytes) (left : bool) (dl : option Z) (at_ : Z) : registry :=
  fold_left (fun r k => reg_put r (db, k) (ins_at {| w_conn := c; w_dl := dl; w_left := left; w_at := at_ |} (reg_get r (db, k))))
            keys r.

(** unregister_client of one database: retain the other connections *)
Definition not_conn (c : Z) (w : waiter) : bool := negb (w_conn w =? c).
Definition unregister (r : registry) (db c : Z) : registry :=
  map (fun kq => if fst (fst kq) =? db then (fst kq, filter (not_conn c) (snd kq)) else kq) r.
(** cleanup_connections: every database *)
Definition unregister_all (r : registry) (c : Z) : registry :=
  map (fun kq => (fst kq, filter (not_conn c) (snd kq))) r.

(** notify_key_ready: pop the first waiter of the key, drop its registrations on the other
    keys of that database (repair 0bf391b), enqueue one wake-up *)
Definition notify_key_ready (b : blocking) (db : Z) (k : bytes) : blocking :=
  match reg_get (b_reg b) (db, k) with
  | [] => b
  | w :: q =>
      let r1 := reg_put (b_reg b) (db, k) q in
      let r2 := unregister r1 db (w_conn w) in
      with_wake (with_reg b r2)
                (b_wake b ++ [{| u_conn := w_conn w; u_db := db; u_key := k; u_left := w_left w; u_at := w_at w |}])
  end.
(** the loop after a successful LPUSH/RPUSH: once per pushed element while the key has
    waiters (repair 4844567) *)
Fixpoint notify_n (n : nat) (b : blocking) (db : Z) (k : bytes) : blocking :=
  match n with
  | O => b
  | S n' => match reg_get (b_reg b) (db, k) with
            | [] => b
            | _ => notify_n n' (notify_key_ready b db k) db k
            end
  end.
Definition is_push_name (name : bytes) : bool := beq name (bs "LPUSH") || beq name (bs "RPUSH").
Definition notify_after_push (b : blocking) (dbi : Z) (name : bytes) (parts : list frame) (r : frame) : blocking :=
  if is_push_name name then
    match r, parts with
    | FInt n, _ :: FBulk key :: _ :: _ => if 0 <? n then notify_n (length parts - 2) b dbi key else b
    | _, _ => b
    end
  else b.

(** notify_keys_after_script (e42ab1f): after EVAL, for every declared key that has waiters, one
    wake-up per element the list holds (llen(..).unwrap_or(0)) *)
Definition llen_of (d : db) (k : bytes) : nat :=
  match get_val d k with Some (VList l) => length l | _ => O end.
Definition notify_after_script (s : server) (b : blocking) (dbi : Z) (parts : list frame) : blocking :=
  let numkeys := match nth_error parts 2 with
                 | Some (FBulk t) => match parse_usize t with Some n => Z.to_nat n | None => O end
                 | _ => O end in
  fold_left (fun b f => match f with
                        | FBulk key => notify_n (llen_of (get_db s dbi) key) b dbi key
                        | _ => b end)
            (firstn numkeys (skipn 3 parts)) b.

(** ---- the timeout argument ----
    Rust: from_utf8_lossy + parse::<f64>; t < 0, NaN, infinite, > 1e9 and unparsable text are
    refused, 0.0 (and -0.0) is "forever", otherwise Duration::from_secs_f64(t).  The decimal
    text -> f64 conversion is an ORACLE: the harness hands over the number of milliseconds
    (-1 refused, 0 forever, otherwise at least 1).  Without an oracle (a command queued in
    MULTI) plain decimal text [-]digits[.digits] is read by [simple_timeout]. *)
Fixpoint split_dot (l : bytes) (acc : bytes) : bytes * option bytes :=
  match l with
  | [] => (rev acc, None)
  | c :: r => if c =? 46 then (rev acc, Some r) else split_dot r (c :: acc)
  end.
Definition pad3 (l : bytes) : bytes := firstn 3 (l ++ [48; 48; 48]).
Definition all_zero (l : bytes) : bool := forallb (fun c => c =? 48) l.
Definition simple_timeout (t : bytes) : Z :=
  let (neg, body) := match t with 45 :: r => (true, r) | _ => (false, t) end in
  match split_dot body [] with
  | (ip, fp) =>
      let fr := match fp with Some f => f | None => [] end in
      if forallb is_digit ip && forallb is_digit fr && negb ((len ip =? 0) && (len fr =? 0)) then
        match digits_val ip 0, digits_val (pad3 fr) 0 with
        | Some a, Some m =>
            let ms := a * 1000 + m in
            if all_zero ip && all_zero fr then 0
            else if neg then -1
            else if 1000000000000 <? ms then -1
            else Z.max 1 ms
        | _, _ => -1
        end
      else -1
  end.
(** None: refused; Some None: wait forever; Some (Some ms) *)
Definition timeout_of (arg : frame) (oms : option Z) : option (option Z) :=
  match arg with
  | FBulk t =>
      let ms := match oms with Some z => z | None => simple_timeout t end in
      if ms <? 0 then None else if ms =? 0 then Some None else Some (Some ms)
  | _ => None
  end.

(** ---- handle_blpop / handle_brpop ---- *)
(** the fast path: lpop/rpop on each key in order; a key of another type answers WRONGTYPE
    (the [?] on storage.lpop).  engine lpop removes a stored empty list on the way. *)
Fixpoint fast_path (left : bool) (d : db) (keys : list bytes) : option frame * db :=
  match keys with
  | [] => (None, d)
  | k :: r =>
      match on_key d k (e_pop left) with
      | (FBulk v, d') => (Some (FArray [FBulk k; FBulk v]), d')
      | (FError e, d') => (Some (FError e), d')
      | (_, d') => fast_path left d' r
      end
  end.

(** log_blocking_pop (293eff6): the pop a BLPOP/BRPOP performed is written to the append-only file as
    the LPOP/RPOP of the key that served it; the blocking command itself is never written *)
Definition log_pop (s : server) (dbi : Z) (left : bool) (k : bytes) : server :=
  log_aof_in s dbi [FBulk (if left then bs "LPOP" else bs "RPOP"); FBulk k].
Definition log_served (s : server) (dbi : Z) (left : bool) (r : frame) : server :=
  match r with FArray [FBulk k; FBulk _] => log_pop s dbi left k | _ => s end.

Definition h_bpop (left : bool) (now : Z) (s : server) (b : blocking) (c dbi : Z) (parts : list frame)
           (oms : option Z) : frame * server * blocking :=
  if len parts <? 3 then (r_err, s, b) else
  match timeout_of (last parts FNull) oms with
  | None => (r_err, s, b)
  | Some tmo =>
      match all_bulks (removelast (tl parts)) with
      | None => (r_err, s, b)
      | Some keys =>
          match fast_path left (get_db s dbi) keys with
          | (Some r, d') => (r, log_served (set_db s dbi d') dbi left r, b)
          | (None, d') =>
              (* inside EXEC (connection id 0) a blocking pop does not block: nil at once (repair d076b83) *)
              if c =? 0 then (FNullArray, set_db s dbi d', b) else
              let dl := option_map (fun ms => now + ms) tmo in
              let b1 := with_seq (with_reg b (register (b_reg b) dbi c keys left dl (b_seq b))) (b_seq b + 1) in
              (* with_connection(conn_id, ..) *)
              let b2 := match zlookup c (s_conns s) with
                        | Some _ => set_blocked b1 c {| bl_db := dbi; bl_keys := keys; bl_dl := dl; bl_left := left |}
                        | None => b1
                        end in
              (FNoResponse, set_db s dbi d', b2)
          end
      end
  end.

Definition is_bpop_name (name : bytes) : bool := beq name (bs "BLPOP") || beq name (bs "BRPOP").

(** process_normal_command with the blocking manager in view *)
Definition bnormal (now : Z) (s : server) (b : blocking) (c dbi : Z) (parts : list frame)
           (oracle : option frame) (oms : option Z) : frame * server * blocking :=
  match parts with
  | FBulk nm :: _ =>
      let name := upper nm in
      (* expire_before_command runs at the top of process_normal_command, for every command *)
      if beq name (bs "BLPOP") then h_bpop true now (lazy_expire now s dbi name parts) b c dbi parts oms
      else if beq name (bs "BRPOP") then h_bpop false now (lazy_expire now s dbi name parts) b c dbi parts oms
      else match normal_command now s c dbi parts oracle with
           | (r, s') =>
               let b1 := notify_after_push b dbi name parts r in
               (r, s', if beq name (bs "EVAL") then notify_after_script s' b1 dbi parts else b1)
           end
  | _ => match normal_command now s c dbi parts oracle with (r, s') => (r, s', b) end
  end.

(** handle_exec: the queue runs through process_normal_command with connection id 0 and the
    database selected when EXEC arrived; a queued SELECT (1ecc022) runs for the connection that
    sent EXEC and what follows it runs in the database it selected.  (The pub/sub commands and
    AUTH, which handle_exec also runs for the connection since 51742a5, do not touch the
    blocking manager; as in Server.exec_queue they are not singled out here.) *)
Fixpoint bexec_queue (now : Z) (s : server) (b : blocking) (c dbi : Z) (q : list (list frame)) (acc : list frame)
  : list frame * server * blocking :=
  match q with
  | [] => (rev acc, s, b)
  | parts :: r =>
      if beq (queued_name parts) (bs "SELECT") then
        match bnormal now s b c dbi parts None None with
        | (rep, s', b') =>
            let dbi' := match zlookup c (s_conns s') with Some cn => c_db cn | None => dbi end in
            bexec_queue now s' b' c dbi' r (rep :: acc)
        end
      else
        match bnormal now s b 0 dbi parts None None with
        | (rep, s', b') => bexec_queue now s' b' c dbi r (rep :: acc)
        end
  end.
Definition bh_exec (now : Z) (s : server) (b : blocking) (c : Z) (cn : conn) : frame * server * blocking :=
  if negb (c_intx cn) then (r_err, s, b) else
  if watch_violated now s cn
  then (FNullArray, set_conn s c (clear_tx cn), b)
  else
    let s1 := set_conn s c (clear_tx cn) in
    match bexec_queue now s1 b c (c_db cn) (c_queue cn) [] with
    | (reps, s2, b2) => (FArray reps, s2, b2)
    end.

(** process_frame: same routing as Server.process_frame (the queueing test first, 51742a5);
    only EXEC and the commands that reach process_normal_command involve the blocking manager *)
Definition bprocess_frame (now : Z) (s : server) (b : blocking) (c : Z) (req : frame)
           (oracle : option frame) (oms : option Z) : frame * server * blocking :=
  let pass := match process_frame now s c req oracle with (r, s') => (r, s', b) end in
  match req with
  | FArray (FBulk nm :: rest) =>
      let parts := FBulk nm :: rest in
      let command := upper (trim nm) in
      match zlookup c (s_conns s) with
      | None => pass
      | Some cn =>
          if (match s_password s with Some _ => true | None => false end) && negb (c_auth cn) then pass
          else if c_intx cn && negb (mem_name command tx_not_queued) then pass
          else if beq command (bs "MULTI") then pass
          else if beq command (bs "EXEC") then bh_exec now s b c cn
          else if beq command (bs "DISCARD") || beq command (bs "WATCH") || beq command (bs "UNWATCH")
                  || beq command (bs "AUTH") then pass
          else bnormal now s b c (c_db cn) parts oracle oms
      end
  | _ => pass
  end.

(** ---- process_connection: the frames of one read are processed in order until one of them
    blocks the connection: what follows it waits (conn.deferred_frames, 939522b) and is
    processed, before anything read later, once the connection is unblocked; the replies
    (NoResponse skipped) go to the write buffer; QUIT closes afterwards (cleanup_connections
    unregisters the connection) ---- *)
Definition drop_conn (b : blocking) (c : Z) : blocking :=
  with_in (with_blk (with_reg b (unregister_all (b_reg b) c)) (zremove c (b_blk b))) (zremove c (b_in b)).
Definition finish_batch (s : server) (b : blocking) (c : Z) (quit : bool) : server * blocking :=
  if quit then (del_conn s c, drop_conn b c) else (s, b).
Definition defer (b : blocking) (c : Z) (rest : list (frame * option Z)) : blocking :=
  match rest with
  | [] => b
  | _ => with_in b (zset_ c (rest ++ match zlookup c (b_in b) with Some l => l | None => [] end) (b_in b))
  end.
Fixpoint serve_batch (now : Z) (s : server) (b : blocking) (c : Z) (fs : list (frame * option Z)) (quit : bool)
  : server * blocking :=
  match fs with
  | [] => finish_batch s b c quit
  | (f, oms) :: r =>
      match bprocess_frame now s b c f None oms with
      | (rep, s', b') =>
          let b'' := match rep with FNoResponse => b' | _ => emit b' c rep end in
          if is_blocked b'' c then finish_batch s' (defer b'' c r) c (quit || is_quit f)
          else serve_batch now s' b'' c r (quit || is_quit f)
      end
  end.

(** ---- wake_client (after the repairs 8db2804, e1d4020, bdd75e8, 8ab686d, 0715a3b and the repair of
    stolen-wakeup-overtakes) ---- *)
(** the wake-up found nothing and the client is registered again: for each key of its call, in
    order, that holds an element by now (llen(..).unwrap_or(0) > 0: a key of another type counts
    as empty) the HEAD of that key's queue is woken, as a push would do.  Nothing is popped here:
    the element goes to whoever blocked on that key first *)
Definition renotify (d : db) (b : blocking) (dbi : Z) (keys : list bytes) : blocking :=
  fold_left (fun b k => match llen_of d k with O => b | S _ => notify_key_ready b dbi k end) keys b.
Definition wake_client (now : Z) (s : server) (b : blocking) (u : wakeup) : server * blocking :=
  (* expire_if_due(wakeup.db, wakeup.key) *)
  let d := fst (purge_key now (get_db s (u_db u), []) (u_key u)) in
  match on_key d (u_key u) (e_pop (u_left u)) with
  | (FBulk v, d') =>
      match zlookup (u_conn u) (b_blk b) with
      | Some _ =>
          (log_pop (set_db s (u_db u) d') (u_db u) (u_left u) (u_key u),
           unblock (emit b (u_conn u) (FArray [FBulk (u_key u); FBulk v])) (u_conn u))
      | None =>
          (* nobody to take it: put it back at the end it came from, and tell the next client
             waiting on the key (0715a3b) *)
          (set_db s (u_db u) (snd (on_key d' (u_key u) (e_push (u_left u) [v]))),
           notify_key_ready b (u_db u) (u_key u))
      end
  | (_, d') =>        (* nothing there - or a key of another type: lpop(..).unwrap_or(None) *)
      match zlookup (u_conn u) (b_blk b) with
      | Some st =>
          (* still Blocked: registered again under its ORIGINAL stamp on all its keys (8ab686d);
             then the keys of the call that hold an element have the head of their queue woken -
             this client or one that blocked earlier.  Nothing is popped and nothing is written *)
          (set_db s (u_db u) d',
           renotify d'
             (with_reg b (reregister (b_reg b) (u_db u) (u_conn u) (bl_keys st) (bl_left st) (bl_dl st) (u_at u)))
             (u_db u) (bl_keys st))
      | None => (set_db s (u_db u) d', b)
      end
  end.
Definition wake_step (now : Z) (sb : server * blocking) (u : wakeup) : server * blocking :=
  if b_crashed (snd sb) then sb else wake_client now (fst sb) (snd sb) u.
(** process_wakeups: at most 32 requests per iteration *)
Definition process_wakeups (now : Z) (s : server) (b : blocking) : server * blocking :=
  fold_left (wake_step now) (firstn 32 (b_wake b)) (s, with_wake b (skipn 32 (b_wake b))).

(** ---- process_blocked_timeouts ---- *)
Definition expired_w (now : Z) (w : waiter) : bool :=
  match w_dl w with Some d => d <=? now | None => false end.
Definition live_w (now : Z) (w : waiter) : bool := negb (expired_w now w).
(** get_expired_clients: one id per removed registration (per key the code collects them
    back to front) *)
Definition expired_ids (now : Z) (r : registry) : list Z :=
  flat_map (fun kq => map w_conn (rev (filter (expired_w now) (snd kq)))) r.
Definition expire_reg (now : Z) (r : registry) : list Z * registry :=
  (expired_ids now r, map (fun kq => (fst kq, filter (live_w now) (snd kq))) r).
Definition timeout_conn (b : blocking) (c : Z) : blocking :=
  match zlookup c (b_blk b) with
  | Some _ => unblock (emit b c FNullArray) c
  | None => b
  end.
Definition process_timeouts (now : Z) (b : blocking) : blocking :=
  match expire_reg now (b_reg b) with
  | (ex, r') => fold_left timeout_conn ex (with_reg b r')
  end.

(** ---- process_connections: the connections that are not Blocked read what their client
    sent meanwhile (one read, one batch); a connection whose client is gone is dropped as soon
    as it is read again ---- *)
Definition conn_step (now : Z) (sb : server * blocking) (ci : Z * list (frame * option Z)) : server * blocking :=
  let (s, b) := sb in
  let c := fst ci in
  if is_blocked b c then sb
  else serve_batch now s (with_in b (zremove c (b_in b))) c (snd ci) false.
(** a client that went away: a connection that is not Blocked is read and found closed; a
    Blocked one is looked at (c7e6509) and found closed when nothing is left to read.  Either
    way it becomes Closing and cleanup_connections removes it and unregisters it everywhere. *)
Definition has_input (b : blocking) (c : Z) : bool :=
  match zlookup c (b_in b) with Some (_ :: _) => true | _ => false end.
Definition noticed (b : blocking) (c : Z) : bool := negb (is_blocked b c) || negb (has_input b c).
Definition reap_dead (b : blocking) : blocking :=
  fold_left drop_conn (filter (noticed b) (b_dead b))
            (with_dead b (filter (fun c => negb (noticed b c)) (b_dead b))).
Definition process_conns (now : Z) (s : server) (b : blocking) : server * blocking :=
  match fold_left (conn_step now) (b_in b) (s, b) with
  | (s', b') => (s', reap_dead b')
  end.

(** one iteration of Server::run *)
Definition iteration (now : Z) (sb : server * blocking) : server * blocking :=
  if b_crashed (snd sb) then sb else
  match process_wakeups now (fst sb) (snd sb) with
  | (s1, b1) =>
      if b_crashed b1 then (s1, b1) else
      match process_conns now s1 b1 with
      | (s2, b2) => (s2, process_timeouts now b2)
      end
  end.
Fixpoint iterations (n : nat) (now : Z) (sb : server * blocking) : server * blocking :=
  match n with O => sb | S n' => iterations n' now (iteration now sb) end.

(** ---- the VERIF BLOCKING dump: wake-queue length, then per (db, key) in order the
    waiting connection ids ---- *)
Definition rk_leb (a b : regkey) : bool :=
  if fst a <? fst b then true else if fst b <? fst a then false else bleb (snd a) (snd b).
Fixpoint rk_insert (x : regkey * list waiter) (l : registry) : registry :=
  match l with
  | [] => [x]
  | y :: r => if rk_leb (fst x) (fst y) then x :: l else y :: rk_insert x r
  end.
Definition rk_sort (l : registry) : registry := fold_right rk_insert [] l.
Definition dump_blocking (b : blocking) : list tok :=
  TI (len (b_wake b)) ::
  flat_map (fun kq => match kq with
                      | ((db, k), q) => TI db :: TB k :: TI (len q) :: map (fun w => TI (w_conn w)) q
                      end) (rk_sort (filter (fun kq => match snd kq with [] => false | _ => true end) (b_reg b))).
