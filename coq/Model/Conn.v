(** Connection-level processing (server.rs process_connection): bytes in, bytes out.
    One read = feed the chunk to the parser, drain all complete frames, run each through
    process_frame, append the replies in order (NoResponse skipped), then - after the
    replies - answer a protocol violation with an error and close, or close after QUIT. *)
From Ferrous Require Import Base.Bytes Generated Model.Resp Model.Types Model.Server.
Open Scope Z_scope.

(** requests carry no RESP3 doubles in this model (the f64 text oracle is not needed) *)
Definition no_double (_ : bytes) : option Z := None.
Definition no_dprint (_ : Z) : bytes := [].

(** replies to a list of frames, threading the server state; QUIT seen? *)
Fixpoint serve_frames (now : Z) (s : server) (c : Z) (fs : list frame) (acc : list frame) (quit : bool)
  : list frame * server * bool :=
  match fs with
  | [] => (rev acc, s, quit)
  | f :: r => match process_frame now s c f None with
              | (rep, s') => serve_frames now s' c r (rep :: acc) (quit || is_quit f)
              end
  end.

(** serialisation into the write buffer: NoResponse is skipped at top level; a frame whose
    serialisation fails half-way (NoResponse nested in an array) leaves its bytes so far *)
Fixpoint write_replies (reps : list frame) : bytes :=
  match reps with
  | [] => []
  | FNoResponse :: r => write_replies r
  | f :: r => fst (ser no_dprint f) ++ write_replies r
  end.

Definition protocol_error_reply : frame := FError (bs "ERR Protocol error").

(** one read of connection [c]: (output bytes, remaining parser buffer, server, closed) *)
Definition conn_read (now : Z) (s : server) (c : Z) (buf chunk : bytes)
  : bytes * bytes * server * bool :=
  match drain_buf no_double (buf ++ chunk) with
  | (frames, st, buf') =>
      match serve_frames now s c frames [] false with
      | (reps, s', quit) =>
          let reps' := match st with Failed => reps ++ [protocol_error_reply] | NeedMore => reps end in
          let closed := quit || (match st with Failed => true | NeedMore => false end) in
          (write_replies reps', buf', (if closed then del_conn s' c else s'), closed)
      end
  end.

(** chunks arriving one after the other on an open connection *)
Fixpoint conn_feed (now : Z) (s : server) (c : Z) (buf : bytes) (chunks : list bytes) (out : bytes)
  : bytes * bytes * server * bool :=
  match chunks with
  | [] => (out, buf, s, false)
  | ch :: r =>
      match conn_read now s c buf ch with
      | (o, buf', s', true) => (out ++ o, buf', s', true)
      | (o, buf', s', false) => conn_feed now s' c buf' r (out ++ o)
      end
  end.

(** what the client decodes from the output stream *)
Definition decode_out (out : bytes) : list frame * status :=
  match drain_buf no_double out with (fs, st, _) => (fs, st) end.

(** ---- the same with the pub/sub commands (process_frame_x) ----
    The connection loop holds the replies of a batch back until every frame has been processed
    ([held]), while the pub/sub handlers write straight into the buffer ([written]): pushed
    messages that a PUBLISH delivers to the issuing connection itself, and the confirmations of
    (P)(UN)SUBSCRIBE.  Since 86d9004 the replies owed so far are queued before such a handler
    runs - when the loop recognises the command, which it does on the UN-trimmed upper-cased
    name, unlike process_frame. *)
Definition loop_command (f : frame) : bytes :=
  match f with FArray (FBulk nm :: _) => upper nm | _ => [] end.
Definition is_sub_cmd (n : bytes) : bool :=
  beq n (bs "SUBSCRIBE") || beq n (bs "UNSUBSCRIBE") || beq n (bs "PSUBSCRIBE") || beq n (bs "PUNSUBSCRIBE").
Definition drop_noresp (l : list frame) : list frame :=
  filter (fun f => match f with FNoResponse => false | _ => true end) l.

Fixpoint serve_frames_x (now : Z) (s : server) (c : Z) (fs : list frame)
         (written held : list frame) (pushes : list (Z * frame)) (quit : bool)
  : list frame * list frame * list (Z * frame) * server * bool :=
  match fs with
  | [] => (written, held, pushes, s, quit)
  | f :: r =>
      let flush := is_sub_cmd (loop_command f) && negb (match held with [] => true | _ => false end) in
      let written1 := if flush then written ++ drop_noresp held else written in
      let held1 := if flush then [] else held in
      match process_frame_x now s c f None with
      | (direct, resp, s') =>
          serve_frames_x now s' c r
            (written1 ++ map snd (filter (fun e => fst e =? c) direct)) (held1 ++ [resp])
            (pushes ++ other_frames c direct) (quit || is_quit f)
      end
  end.

(** one read: (output bytes of c, parser buffer, frames pushed to other connections, server,
    connection closed) *)
Definition conn_read_x (now : Z) (s : server) (c : Z) (buf chunk : bytes)
  : bytes * bytes * list (Z * frame) * server * bool :=
  match drain_buf no_double (buf ++ chunk) with
  | (frames, st, buf') =>
      match serve_frames_x now s c frames [] [] [] false with
      | (written, held, pushes, s', quit) =>
          let reps := written ++ held ++ (match st with Failed => [protocol_error_reply] | NeedMore => [] end) in
          let closing := quit || (match st with Failed => true | NeedMore => false end) in
          let s2 := if closing then close_conn s' c else s' in
          (write_replies reps, buf', pushes, s2, closing && negb (has_conn s2 c))
      end
  end.

Fixpoint conn_feed_x (now : Z) (s : server) (c : Z) (buf : bytes) (chunks : list bytes) (out : bytes)
         (pushes : list (Z * frame)) : bytes * bytes * list (Z * frame) * server * bool :=
  match chunks with
  | [] => (out, buf, pushes, s, false)
  | ch :: r =>
      match conn_read_x now s c buf ch with
      | (o, buf', ps, s', true) => (out ++ o, buf', pushes ++ ps, s', true)
      | (o, buf', ps, s', false) => conn_feed_x now s' c buf' r (out ++ o) (pushes ++ ps)
      end
  end.
