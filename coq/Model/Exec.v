(** The unified command executor (src/storage/commands/executor.rs), the path taken
    by redis.call / redis.pcall: [CommandParser::parse] (the parse_* functions: arity
    rules, extract_string = UTF-8 text, extract_bytes, integer parsing, option sets)
    followed by [UnifiedCommandExecutor::execute] (execute_string / _list / _set /
    _hash / _key / _server / _database), thin over the engine functions that the
    direct handlers of Model/Strings.v and Model/Lists.v use as well.

    This is a SECOND model, written from executor.rs alone; Proofs/ExecFacts.v proves
    it equal to the handler models command by command outside the listed classes.

    A result [Err(e)] of the executor is represented by the reply the server would
    build from it (error_to_reply): only the first word matters ([r_err],
    [r_wrongtype]); the script layer (Model/Lua.v) then flattens every error to ERR. *)
From Ferrous Require Import Base.Bytes Model.Resp Model.Types Model.Glob Model.Utf8 Model.Strings Model.Streams Model.Scan Model.Lists.
Open Scope Z_scope.

(** ---- CommandParser::extract_string / extract_bytes ---- *)
Definition x_bytes (f : frame) : option bytes := arg_bytes f.
Definition x_str (f : frame) : option bytes :=
  match f with FBulk b => if utf8_valid b then Some b else None | _ => None end.
Fixpoint x_all_bytes (l : list frame) : option (list bytes) :=
  match l with
  | [] => Some []
  | f :: r => match x_bytes f with
              | Some b => match x_all_bytes r with Some t => Some (b :: t) | None => None end
              | None => None
              end
  end.
Fixpoint x_pairs (l : list frame) : option (list (bytes * bytes)) :=
  match l with
  | [] => Some []
  | a :: b :: r =>
      match x_bytes a, x_bytes b with
      | Some x, Some y => match x_pairs r with Some t => Some ((x, y) :: t) | None => None end
      | _, _ => None
      end
  | _ => None
  end.
(** extract_string(..)?.parse::<T>() *)
Definition x_int (p : bytes -> option Z) (f : frame) : option Z :=
  match x_str f with Some s => p s | None => None end.

(** ---- the typed commands (enum Command and its sub-enums) ---- *)
Record set_options := { o_nx : bool; o_xx : bool; o_get : bool; o_exp : option Z (* ms *); o_keepttl : bool }.

Inductive xcmd :=
(* StringCommand *)
| XSet (k v : bytes) (o : set_options)
| XGet (k : bytes)
| XMGet (ks : list bytes)
| XMSet (ps : list (bytes * bytes))
| XIncr (k : bytes)
| XIncrBy (k : bytes) (n : Z)
| XDecr (k : bytes)
| XDecrBy (k : bytes) (n : Z)
| XSetNx (k v : bytes)
| XSetEx (k v : bytes) (secs : Z)
| XPSetEx (k v : bytes) (ms : Z)
| XAppend (k v : bytes)
| XStrLen (k : bytes)
| XGetSet (k v : bytes)
| XGetRange (k : bytes) (s e : Z)
| XSetRange (k : bytes) (off : Z) (v : bytes)
| XDel (ks : list bytes)
(* KeyCommand *)
| XExists (ks : list bytes)
| XExpire (k : bytes) (secs : Z)
| XPExpire (k : bytes) (ms : Z)
| XTtl (k : bytes)
| XPttl (k : bytes)
| XPersist (k : bytes)
| XType (k : bytes)
| XRename (o n : bytes)
| XRenameNx (o n : bytes)
| XRandomKey
(* ServerCommand *)
| XPing (m : option bytes)
| XEcho (m : bytes)
(* DatabaseCommand *)
| XFlushDb
| XFlushAll
| XDbSize
| XKeys (p : bytes)
(* ListCommand *)
| XLPush (k : bytes) (vs : list bytes)
| XRPush (k : bytes) (vs : list bytes)
| XLPop (k : bytes)
| XRPop (k : bytes)
| XLLen (k : bytes)
| XLIndex (k : bytes) (i : Z)
| XLSet (k : bytes) (i : Z) (v : bytes)
| XLRange (k : bytes) (s e : Z)
| XLTrim (k : bytes) (s e : Z)
| XLRem (k : bytes) (c : Z) (v : bytes)
(* SetCommand *)
| XSAdd (k : bytes) (ms : list bytes)
| XSRem (k : bytes) (ms : list bytes)
| XSMembers (k : bytes)
| XSCard (k : bytes)
| XSIsMember (k m : bytes)
| XSUnion (ks : list bytes)
| XSInter (ks : list bytes)
| XSDiff (ks : list bytes)
(* HashCommand *)
| XHSet (k : bytes) (ps : list (bytes * bytes))
| XHGet (k f : bytes)
| XHMSet (k : bytes) (ps : list (bytes * bytes))
| XHMGet (k : bytes) (fs : list bytes)
| XHGetAll (k : bytes)
| XHDel (k : bytes) (fs : list bytes)
| XHLen (k : bytes)
| XHExists (k f : bytes)
| XHKeys (k : bytes)
| XHVals (k : bytes)
| XHIncrBy (k f : bytes) (n : Z)
(* StreamCommand (XREAD and the consumer-group commands are not modelled here) *)
| XXAdd (k : bytes) (id : option bytes) (fs : list (bytes * bytes))
| XXLen (k : bytes)
| XXRange (rev : bool) (k st en : bytes) (options : list bytes)   (* what follows the range, as received *)
| XXTrim (k strategy : bytes) (threshold : list bytes)            (* threshold with its ~ / = modifier, as received *)
| XXDel (k : bytes) (ids : list bytes)
(* ScanCommand::Scan (HSCAN / SSCAN / ZSCAN are not modelled here) *)
| XScan (cursor : Z) (pattern : option bytes) (count : option Z) (type_filter : option bytes).

(** ---- CommandParser::parse_* (None = Err(..), every one an "ERR ..." message) ---- *)
Definition default_options : set_options :=
  {| o_nx := false; o_xx := false; o_get := false; o_exp := None; o_keepttl := false |}.

(** the while-loop of parse_set over frames[3..]; [ex] / [px]: EX / PX has been seen (d6b03fb: each
    excludes the other, as in the direct command) *)
Fixpoint parse_set_options (opts : list frame) (o : set_options) (ex px : bool) : option set_options :=
  match opts with
  | [] => Some o
  | f :: rest =>
      match x_str f with
      | None => None
      | Some s =>
          let u := upper s in
          if beq u (bs "NX") then
            parse_set_options rest {| o_nx := true; o_xx := o_xx o; o_get := o_get o; o_exp := o_exp o; o_keepttl := o_keepttl o |} ex px
          else if beq u (bs "XX") then
            parse_set_options rest {| o_nx := o_nx o; o_xx := true; o_get := o_get o; o_exp := o_exp o; o_keepttl := o_keepttl o |} ex px
          else if beq u (bs "GET") then
            parse_set_options rest {| o_nx := o_nx o; o_xx := o_xx o; o_get := true; o_exp := o_exp o; o_keepttl := o_keepttl o |} ex px
          else if beq u (bs "EX") then
            if px then None else                             (* d6b03fb *)
            match rest with
            | [] => None
            | a :: rest' =>
                match x_int parse_u64 a with
                | Some n => if n =? 0 then None              (* 48bcb4d: the expire time must be positive *)
                            else parse_set_options rest'
                              {| o_nx := o_nx o; o_xx := o_xx o; o_get := o_get o; o_exp := Some (n * 1000); o_keepttl := o_keepttl o |} true px
                | None => None
                end
            end
          else if beq u (bs "PX") then
            if ex then None else                             (* d6b03fb *)
            match rest with
            | [] => None
            | a :: rest' =>
                match x_int parse_u64 a with
                | Some n => if n =? 0 then None
                            else parse_set_options rest'
                              {| o_nx := o_nx o; o_xx := o_xx o; o_get := o_get o; o_exp := Some n; o_keepttl := o_keepttl o |} ex true
                | None => None
                end
            end
          else if beq u (bs "KEEPTTL") then
            parse_set_options rest {| o_nx := o_nx o; o_xx := o_xx o; o_get := o_get o; o_exp := o_exp o; o_keepttl := true |} ex px
          else None
      end
  end.

Definition parse_set (fr : list frame) : option xcmd :=
  match fr with
  | _ :: k :: v :: opts =>
      match x_bytes k, x_bytes v with
      | Some kb, Some vb =>
          match parse_set_options opts default_options false false with
          | Some o => Some (XSet kb vb o)
          | None => None
          end
      | _, _ => None
      end
  | _ => None
  end.

(** NAME key *)
Definition parse_k (c : bytes -> xcmd) (fr : list frame) : option xcmd :=
  match fr with
  | [_; k] => option_map c (x_bytes k)
  | _ => None
  end.
(** NAME key bytes *)
Definition parse_kv (c : bytes -> bytes -> xcmd) (fr : list frame) : option xcmd :=
  match fr with
  | [_; k; v] => match x_bytes k, x_bytes v with Some a, Some b => Some (c a b) | _, _ => None end
  | _ => None
  end.
(** NAME key [key ...]: at least [min] frames in all *)
Definition parse_ks (c : list bytes -> xcmd) (fr : list frame) : option xcmd :=
  match fr with
  | _ :: (_ :: _) as ks => option_map c (x_all_bytes ks)
  | _ => None
  end.
(** NAME key value [value ...] *)
Definition parse_k_vs (c : bytes -> list bytes -> xcmd) (fr : list frame) : option xcmd :=
  match fr with
  | _ :: k :: (_ :: _) as vs =>
      match x_bytes k, x_all_bytes vs with Some a, Some l => Some (c a l) | _, _ => None end
  | _ => None
  end.
(** NAME key int   (the integer is parsed BEFORE the key is extracted; both failures are Err) *)
Definition parse_k_int (p : bytes -> option Z) (c : bytes -> Z -> xcmd) (fr : list frame) : option xcmd :=
  match fr with
  | [_; k; a] => match x_int p a, x_bytes k with Some n, Some kb => Some (c kb n) | _, _ => None end
  | _ => None
  end.
(** NAME key int int *)
Definition parse_k_int_int (c : bytes -> Z -> Z -> xcmd) (fr : list frame) : option xcmd :=
  match fr with
  | [_; k; a; b] =>
      match x_int parse_isize a, x_int parse_isize b, x_bytes k with
      | Some s, Some e, Some kb => Some (c kb s e)
      | _, _, _ => None
      end
  | _ => None
  end.
(** NAME key int bytes *)
Definition parse_k_int_v (p : bytes -> option Z) (c : bytes -> Z -> bytes -> xcmd) (fr : list frame) : option xcmd :=
  match fr with
  | [_; k; a; v] =>
      match x_int p a, x_bytes k, x_bytes v with
      | Some n, Some kb, Some vb => Some (c kb n vb)
      | _, _, _ => None
      end
  | _ => None
  end.
(** HSET / HMSET key field value [field value ...]: len >= 4 and even *)
Definition parse_k_pairs (c : bytes -> list (bytes * bytes) -> xcmd) (fr : list frame) : option xcmd :=
  if (len fr <? 4) || negb (len fr mod 2 =? 0) then None else
  match fr with
  | _ :: k :: ps => match x_bytes k, x_pairs ps with Some kb, Some l => Some (c kb l) | _, _ => None end
  | _ => None
  end.

(** parse_setex / parse_psetex (02eb367): the count is refused when 0, right after it is parsed *)
Definition parse_pos_u64 (b : bytes) : option Z :=
  match parse_u64 b with Some n => if n =? 0 then None else Some n | None => None end.

Definition parse_mset (fr : list frame) : option xcmd :=
  if (len fr <? 3) || (len fr mod 2 =? 0) then None else
  option_map XMSet (x_pairs (tl fr)).

(** parse_no_args (3909ba7): RANDOMKEY, FLUSHDB, FLUSHALL, DBSIZE take no argument *)
Definition parse_no_args (c : xcmd) (fr : list frame) : option xcmd :=
  match fr with [_] => Some c | _ => None end.

Definition parse_ping (fr : list frame) : option xcmd :=
  match fr with
  | [_] => Some (XPing None)
  | [_; m] => option_map (fun b => XPing (Some b)) (x_bytes m)
  | _ => None
  end.

(** extract_string of every frame *)
Fixpoint x_all_strs (l : list frame) : option (list bytes) :=
  match l with
  | [] => Some []
  | f :: r => match x_str f with
              | Some b => match x_all_strs r with Some t => Some (b :: t) | None => None end
              | None => None
              end
  end.
(** XADD key id field value [field value ...]: at least 5 frames, an odd number *)
Definition parse_xadd (fr : list frame) : option xcmd :=
  if (len fr <? 5) || negb (len fr mod 2 =? 1) then None else
  match fr with
  | _ :: k :: i :: fs =>
      match x_bytes k, x_str i, x_pairs fs with
      | Some kb, Some ib, Some l => Some (XXAdd kb (if beq ib (bs "*") then None else Some ib) l)
      | _, _, _ => None
      end
  | _ => None
  end.
(** XRANGE / XREVRANGE key a b [tail]: the tail goes to the command handler as received (0b05118) *)
Definition parse_xrange (rev : bool) (fr : list frame) : option xcmd :=
  match fr with
  | _ :: k :: a :: b :: tail =>
      match x_bytes k, x_str a, x_str b, x_all_bytes tail with
      | Some kb, Some ab, Some bb, Some opts => Some (XXRange rev kb ab bb opts)
      | _, _, _, _ => None
      end
  | _ => None
  end.
(** XTRIM key strategy threshold...: everything from the fourth frame on goes to the handler *)
Definition parse_xtrim (fr : list frame) : option xcmd :=
  match fr with
  | _ :: k :: st :: (_ :: _) as th =>
      match x_bytes k, x_str st, x_all_bytes th with
      | Some kb, Some sb, Some l => Some (XXTrim kb sb l)
      | _, _, _ => None
      end
  | _ => None
  end.
Definition parse_xdel (fr : list frame) : option xcmd :=
  match fr with
  | _ :: k :: (_ :: _) as ids =>
      match x_bytes k, x_all_strs ids with Some kb, Some l => Some (XXDel kb l) | _, _ => None end
  | _ => None
  end.

(** parse_scan_cmd: SCAN cursor [MATCH p] [COUNT n] [TYPE t] in any order; an unknown option word
    ends the loop silently *)
Fixpoint parse_scan_opts_x (opts : list frame) (p : option bytes) (c : option Z) (t : option bytes)
  : option (option bytes * option Z * option bytes) :=
  match opts with
  | [] => Some (p, c, t)
  | o :: rest =>
      match x_str o with
      | None => None
      | Some w =>
          let u := upper w in
          if beq u (bs "MATCH") then
            match rest with
            | [] => None
            | a :: rest' => match x_bytes a with Some pb => parse_scan_opts_x rest' (Some pb) c t | None => None end
            end
          else if beq u (bs "COUNT") then
            match rest with
            | [] => None
            | a :: rest' => match x_int parse_usize a with Some n => parse_scan_opts_x rest' p (Some n) t | None => None end
            end
          else if beq u (bs "TYPE") then
            match rest with
            | [] => None
            | a :: rest' => match x_str a with Some tb => parse_scan_opts_x rest' p c (Some tb) | None => None end
            end
          else Some (p, c, t)
      end
  end.
Definition parse_scan_cmd (fr : list frame) : option xcmd :=
  match fr with
  | _ :: cur :: opts =>
      match x_int parse_u64 cur with
      | None => None
      | Some cursor =>
          match parse_scan_opts_x opts None None None with
          | Some (p, c, t) => Some (XScan cursor p c t)
          | None => None
          end
      end
  | _ => None
  end.

(** CommandParser::parse: the command name is extract_string(..).to_uppercase(); the match on it *)
Definition parse_named (name : bytes) (fr : list frame) : option xcmd :=
      if beq name (bs "SET") then parse_set fr
      else if beq name (bs "GET") then parse_k XGet fr
      else if beq name (bs "MGET") then parse_ks XMGet fr
      else if beq name (bs "MSET") then parse_mset fr
      else if beq name (bs "INCR") then parse_k XIncr fr
      else if beq name (bs "INCRBY") then parse_k_int parse_canonical XIncrBy fr        (* e4bcfd7 *)
      else if beq name (bs "DECR") then parse_k XDecr fr
      else if beq name (bs "DECRBY") then parse_k_int parse_canonical XDecrBy fr
      else if beq name (bs "SETNX") then parse_kv XSetNx fr
      else if beq name (bs "SETEX") then parse_k_int_v parse_pos_u64 (fun k n v => XSetEx k v n) fr
      else if beq name (bs "PSETEX") then parse_k_int_v parse_pos_u64 (fun k n v => XPSetEx k v n) fr
      else if beq name (bs "APPEND") then parse_kv XAppend fr
      else if beq name (bs "STRLEN") then parse_k XStrLen fr
      else if beq name (bs "GETSET") then parse_kv XGetSet fr
      else if beq name (bs "GETRANGE") then parse_k_int_int XGetRange fr
      else if beq name (bs "SETRANGE") then parse_k_int_v parse_usize XSetRange fr
      else if beq name (bs "DEL") then parse_ks XDel fr
      else if beq name (bs "LPUSH") then parse_k_vs XLPush fr
      else if beq name (bs "RPUSH") then parse_k_vs XRPush fr
      else if beq name (bs "LPOP") then parse_k XLPop fr
      else if beq name (bs "RPOP") then parse_k XRPop fr
      else if beq name (bs "LLEN") then parse_k XLLen fr
      else if beq name (bs "LINDEX") then parse_k_int parse_isize XLIndex fr
      else if beq name (bs "LSET") then parse_k_int_v parse_isize XLSet fr
      else if beq name (bs "LRANGE") then parse_k_int_int XLRange fr
      else if beq name (bs "LTRIM") then parse_k_int_int XLTrim fr
      else if beq name (bs "LREM") then parse_k_int_v parse_isize XLRem fr
      else if beq name (bs "SADD") then parse_k_vs XSAdd fr
      else if beq name (bs "SREM") then parse_k_vs XSRem fr
      else if beq name (bs "SMEMBERS") then parse_k XSMembers fr
      else if beq name (bs "SCARD") then parse_k XSCard fr
      else if beq name (bs "SISMEMBER") then parse_kv XSIsMember fr
      else if beq name (bs "SUNION") then parse_ks XSUnion fr
      else if beq name (bs "SINTER") then parse_ks XSInter fr
      else if beq name (bs "SDIFF") then parse_ks XSDiff fr
      else if beq name (bs "HSET") then parse_k_pairs XHSet fr
      else if beq name (bs "HGET") then parse_kv XHGet fr
      else if beq name (bs "HMSET") then parse_k_pairs XHMSet fr
      else if beq name (bs "HMGET") then parse_k_vs XHMGet fr
      else if beq name (bs "HGETALL") then parse_k XHGetAll fr
      else if beq name (bs "HDEL") then parse_k_vs XHDel fr
      else if beq name (bs "HLEN") then parse_k XHLen fr
      else if beq name (bs "HEXISTS") then parse_kv XHExists fr
      else if beq name (bs "HKEYS") then parse_k XHKeys fr
      else if beq name (bs "HVALS") then parse_k XHVals fr
      else if beq name (bs "HINCRBY") then
        match fr with
        | [_; k; f; a] =>
            match x_int parse_i64 a, x_bytes k, x_bytes f with
            | Some n, Some kb, Some fb => Some (XHIncrBy kb fb n)
            | _, _, _ => None
            end
        | _ => None
        end
      else if beq name (bs "EXISTS") then parse_ks XExists fr
      else if beq name (bs "EXPIRE") then
        match fr with
        | [_; k; a] => match x_bytes k, x_int parse_i64 a with Some kb, Some n => Some (XExpire kb n) | _, _ => None end
        | _ => None
        end
      else if beq name (bs "PEXPIRE") then
        match fr with
        | [_; k; a] => match x_bytes k, x_int parse_u64 a with Some kb, Some n => Some (XPExpire kb n) | _, _ => None end
        | _ => None
        end
      else if beq name (bs "TTL") then parse_k XTtl fr
      else if beq name (bs "PTTL") then parse_k XPttl fr
      else if beq name (bs "PERSIST") then parse_k XPersist fr
      else if beq name (bs "TYPE") then parse_k XType fr
      else if beq name (bs "RENAME") then parse_kv XRename fr
      else if beq name (bs "RENAMENX") then parse_kv XRenameNx fr
      else if beq name (bs "RANDOMKEY") then parse_no_args XRandomKey fr
      else if beq name (bs "PING") then parse_ping fr
      else if beq name (bs "ECHO") then
        match fr with [_; m] => option_map XEcho (x_bytes m) | _ => None end
      else if beq name (bs "FLUSHDB") then parse_no_args XFlushDb fr
      else if beq name (bs "FLUSHALL") then parse_no_args XFlushAll fr
      else if beq name (bs "DBSIZE") then parse_no_args XDbSize fr
      else if beq name (bs "KEYS") then
        match fr with [_; p] => option_map XKeys (x_bytes p) | _ => None end
      else if beq name (bs "XADD") then parse_xadd fr
      else if beq name (bs "XLEN") then parse_k XXLen fr
      else if beq name (bs "XRANGE") then parse_xrange false fr
      else if beq name (bs "XREVRANGE") then parse_xrange true fr
      else if beq name (bs "XTRIM") then parse_xtrim fr
      else if beq name (bs "XDEL") then parse_xdel fr
      else if beq name (bs "SCAN") then parse_scan_cmd fr
      else None.                                                      (* UnknownCommand *)

Definition parse (fr : list frame) : option xcmd :=
  match fr with
  | [] => None
  | f0 :: _ =>
    match x_str f0 with
    | None => None
    | Some nm => parse_named (upper nm) fr
    end
  end.

(** ---- engine functions called by the executor that the handler models inline ---- *)
Definition opt_reply (o : option bytes) : frame := match o with Some b => r_bulk b | None => r_nil end.

(** set_string_nx / set_string_nx_ex (check_ttl first) *)
Definition eng_set_nx (now : Z) (d : db) (k v : bytes) (exp : option Z) : option (bool * db) :=
  match exp with
  | Some ms =>
      if ttl_ok ms then
        Some (if eng_exists now d k then (false, d) else (true, set_value now d k (VStr v) (Some ms)))
      else None
  | None => Some (if eng_exists now d k then (false, d) else (true, set_value now d k (VStr v) None))
  end.
(** set_string / set_string_ex: None = check_ttl refused *)
Definition eng_set (now : Z) (d : db) (k v : bytes) (exp : option Z) : option db :=
  match exp with
  | Some ms => if ttl_ok ms then Some (set_value now d k (VStr v) (Some ms)) else None
  | None => Some (set_value now d k (VStr v) None)
  end.
Definition eng_append (d : db) (k v : bytes) : frame * db :=
  match get_entry d k with
  | Some e => match e_val e with
              | VStr b => (r_int (len (b ++ v)), put_entry d k {| e_val := VStr (b ++ v); e_exp := e_exp e |})
              | _ => (r_wrongtype, d)
              end
  | None => (r_int (len v), put_entry d k {| e_val := VStr v; e_exp := None |})
  end.
Definition eng_strlen (d : db) (k : bytes) : frame :=
  match get_entry d k with
  | Some e => match e_val e with VStr b => r_int (len b) | _ => r_wrongtype end
  | None => r_int 0
  end.
Definition eng_getrange (d : db) (k : bytes) (s e : Z) : frame :=
  match get_entry d k with
  | Some en => match e_val en with VStr b => r_bulk (getrange_bytes b s e) | _ => r_wrongtype end
  | None => r_bulk []
  end.
(* setrange: [Strings.eng_setrange], the engine function the direct handler calls too *)
Fixpoint x_del_loop (d : db) (ks : list bytes) (n : Z) : Z * db :=
  match ks with
  | [] => (n, d)
  | k :: r => match eng_delete d k with
              | (true, d') => x_del_loop d' r (n + 1)
              | (false, d') => x_del_loop d' r n
              end
  end.
Fixpoint x_exists_count (now : Z) (d : db) (ks : list bytes) (n : Z) : Z :=
  match ks with
  | [] => n
  | k :: r => x_exists_count now d r (if eng_exists now d k then n + 1 else n)
  end.
Definition eng_key_type (d : db) (k : bytes) : bytes :=
  match get_entry d k with Some e => type_name (e_val e) | None => bs "none" end.

(** frames rebuilt for the handlers the executor delegates to *)
Definition frames_of (name : bytes) (args : list bytes) : list frame := FBulk name :: map FBulk args.
Fixpoint flat_bytes (ps : list (bytes * bytes)) : list bytes :=
  match ps with [] => [] | (a, b) :: r => a :: b :: flat_bytes r end.

(** ---- UnifiedCommandExecutor::execute ---- *)
Definition execute (now : Z) (d : db) (c : xcmd) (oracle : option frame) : frame * db :=
  match c with
  | XSet k v o =>
      (* NX with XX, and KEEPTTL with EX/PX, are syntax errors (b212584) *)
      if (o_nx o && o_xx o) || (o_keepttl o && match o_exp o with Some _ => true | None => false end) then (r_err, d) else
      (* KEEPTTL: the new value keeps what is left of the old one's time to live *)
      let exp := if o_keepttl o then eng_ttl now d k else o_exp o in
      (* GET option: the old value is read first (lazy expiry; WRONGTYPE is an Err) *)
      match (if o_get o then get_string now d k else (Some None, d)) with
      | (None, d1) => (r_wrongtype, d1)
      | (Some old, d1) =>
          if o_nx o then
            match eng_set_nx now d1 k v exp with
            | None => (r_err, d1)
            | Some (ok, d2) =>
                (if o_get o then opt_reply old else if ok then r_ok else r_nil, d2)
            end
          else if o_xx o then
            if negb (eng_exists now d1 k) then ((if o_get o then opt_reply old else r_nil), d1)
            else match eng_set now d1 k v exp with
                 | None => (r_err, d1)
                 | Some d2 => ((if o_get o then opt_reply old else r_ok), d2)
                 end
          else
            match eng_set now d1 k v exp with
            | None => (r_err, d1)
            | Some d2 => ((if o_get o then opt_reply old else r_ok), d2)
            end
      end
  | XGet k =>
      match get_string now d k with
      | (Some o, d') => (opt_reply o, d')
      | (None, d') => (r_wrongtype, d')
      end
  | XMGet ks => h_mget now d (frames_of (bs "MGET") ks)
  | XMSet ps => h_mset now d (frames_of (bs "MSET") (flat_bytes ps))
  | XIncr k => reply_incr (eng_incr_by d k 1)
  | XIncrBy k n => reply_incr (eng_incr_by d k n)
  | XDecr k => reply_incr (eng_incr_by d k (-1))
  | XDecrBy k n =>
      (* decrement.checked_neg() (after the repair 64d6383) *)
      if n =? i64_min then (r_err, d) else reply_incr (eng_incr_by d k (- n))
  | XSetNx k v =>
      match eng_set_nx now d k v None with
      | Some (ok, d') => (r_int (if ok then 1 else 0), d')
      | None => (r_err, d)
      end
  | XSetEx k v secs =>
      match eng_set now d k v (Some (secs * 1000)) with Some d' => (r_ok, d') | None => (r_err, d) end
  | XPSetEx k v ms =>
      match eng_set now d k v (Some ms) with Some d' => (r_ok, d') | None => (r_err, d) end
  | XAppend k v => eng_append d k v
  | XStrLen k => (eng_strlen d k, d)
  | XGetSet k v => h_getset now d (frames_of (bs "GETSET") [k; v])
  | XGetRange k s e => (eng_getrange d k s e, d)
  | XSetRange k off v => eng_setrange d k off v
  | XDel ks => match x_del_loop d ks 0 with (n, d') => (r_int n, d') end
  | XExists ks => (r_int (x_exists_count now d ks 0), d)
  | XExpire k secs =>
      (* after the repair e21bda2: a count <= 0 deletes the key *)
      if secs <=? 0 then
        match eng_delete d k with (b, d') => (r_int (if b then 1 else 0), d') end
      else if ttl_ok (secs * 1000) then
        match eng_expire now d k (secs * 1000) with (b, d') => (r_int (if b then 1 else 0), d') end
      else (r_err, d)
  | XPExpire k ms =>
      if ttl_ok ms then
        match eng_expire now d k ms with (b, d') => (r_int (if b then 1 else 0), d') end
      else (r_err, d)
  | XTtl k =>
      (* after the repair e21bda2: -2 once expired, otherwise rounded up *)
      match eng_ttl now d k with
      | Some rem => (r_int (if rem =? 0 then -2 else (rem + 999) / 1000), d)
      | None => (r_int (if eng_exists now d k then -1 else -2), d)
      end
  | XPttl k =>
      match eng_ttl now d k with
      | Some rem => (r_int (Z.min rem i64_max), d)
      | None => (r_int (if eng_exists now d k then -1 else -2), d)
      end
  | XPersist k => match eng_persist d k with (b, d') => (r_int (if b then 1 else 0), d') end
  | XType k => (r_bulk (eng_key_type d k), d)                 (* from_string: a bulk string *)
  | XRename o n =>
      match eng_rename d o n with (true, d') => (r_ok, d') | (false, d') => (r_err, d') end
  | XRenameNx o n =>
      (* after the repair e21bda2 *)
      if negb (eng_exists now d o) then (r_err, d)
      else if eng_exists now d n then (r_int 0, d)
      else match eng_rename d o n with
           | (true, d') => (r_int 1, d')
           | (false, d') => (r_err, d')
           end
  | XRandomKey =>
      match d_data d with
      | [] => (r_nil, d)
      | [(k, _)] => (FBulk k, d)                              (* choose among one *)
      | _ => match oracle with
             | Some (FBulk k) => if amem k (d_data d) then (FBulk k, d) else (FError (bs "NOTAKEY"), d)
             | _ => (FError (bs "NOORACLE"), d)
             end
      end
  | XPing None => (r_bulk (bs "PONG"), d)                      (* from_string: a bulk string *)
  | XPing (Some m) => (r_bulk m, d)
  | XEcho m => (r_bulk m, d)
  (* execute_database(db, ..): the script's database (after the repair e39f807); FLUSHALL flushes
     every database, of which this model sees the script's only (not generated inside scripts) *)
  | XFlushDb => (r_ok, empty_db)
  | XFlushAll => (r_ok, empty_db)
  | XDbSize => (r_int (len (d_data d)), d)
  | XKeys p => h_keys d (frames_of (bs "KEYS") [p])
  | XLPush k vs => on_key d k (e_push true vs)
  | XRPush k vs => on_key d k (e_push false vs)
  | XLPop k => on_key d k (e_pop true)
  | XRPop k => on_key d k (e_pop false)
  | XLLen k => on_key d k e_llen
  | XLIndex k i => on_key d k (e_lindex i)
  | XLSet k i v => on_key d k (e_lset i v)
  | XLRange k s e => on_key d k (e_lrange s e)
  | XLTrim k s e => on_key d k (e_ltrim s e)
  | XLRem k c v => on_key d k (e_lrem c v)
  | XSAdd k ms => on_key d k (e_sadd ms)
  | XSRem k ms => on_key d k (e_srem ms)
  | XSMembers k => on_key d k e_smembers
  | XSCard k => on_key d k e_scard
  | XSIsMember k m => on_key d k (e_sismember m)
  | XSUnion ks => (Lists.sres_reply (eng_sunion d ks), d)
  | XSInter ks => (Lists.sres_reply (eng_sinter d ks), d)
  | XSDiff ks => (Lists.sres_reply (eng_sdiff d ks), d)
  | XHSet k ps => on_key d k (e_hset false ps)
  | XHGet k f => on_key d k (e_hget f)
  | XHMSet k ps => on_key d k (e_hset true ps)
  | XHMGet k fs => on_key d k (e_hmget fs)
  | XHGetAll k => on_key d k e_hgetall
  | XHDel k fs => on_key d k (e_hdel fs)
  | XHLen k => on_key d k e_hlen
  | XHExists k f => on_key d k (e_hexists f)
  | XHKeys k => on_key d k e_hkeys
  | XHVals k => on_key d k e_hvals
  | XHIncrBy k f n => on_key d k (e_hincrby f n)
  (* execute_stream: the frames are rebuilt and handed to the handlers of commands/streams.rs *)
  | XXAdd k id fs =>
      h_xadd d (frames_of (bs "XADD") (k :: (match id with Some i => i | None => bs "*" end) :: flat_bytes fs)) oracle
  | XXLen k => h_xlen d (frames_of (bs "XLEN") [k])
  | XXRange rev k a b opts =>
      let fr := frames_of (if rev then bs "XREVRANGE" else bs "XRANGE") (k :: a :: b :: opts) in
      if rev then h_xrevrange d fr else h_xrange d fr
  | XXTrim k st th => h_xtrim d (frames_of (bs "XTRIM") (k :: st :: th))
  | XXDel k ids => h_xdel d (frames_of (bs "XDEL") (k :: ids))
  (* execute_scan: the frames are rebuilt (MATCH, COUNT, TYPE in this order) for commands/scan.rs *)
  | XScan cursor p c t =>
      h_scan now d (frames_of (bs "SCAN")
        (print_nat cursor :: (match p with Some pb => [bs "MATCH"; pb] | None => [] end)
           ++ (match c with Some n => [bs "COUNT"; print_nat n] | None => [] end)
           ++ (match t with Some tb => [bs "TYPE"; tb] | None => [] end)))
  end.

(* ---- arms of other families (e.g. the C11 builder's PEXPIREAT) go above this line, after the stream arms ---- *)

(** LuaCommandAdapter::execute_lua_command / ServerCommandAdapter::execute_with_context *)
Definition exec_run (now : Z) (d : db) (parts : list frame) (oracle : option frame) : frame * db :=
  match parse parts with
  | Some c => execute now d c oracle
  | None => (r_err, d)
  end.

(** the command names the executor parses in this model *)
Definition catalogue : list bytes :=
  map bs ["SET"; "GET"; "MGET"; "MSET"; "INCR"; "INCRBY"; "DECR"; "DECRBY"; "SETNX"; "SETEX"; "PSETEX";
          "APPEND"; "STRLEN"; "GETSET"; "GETRANGE"; "SETRANGE"; "DEL"; "EXISTS"; "EXPIRE"; "PEXPIRE";
          "TTL"; "PTTL"; "PERSIST"; "TYPE"; "RENAME"; "RENAMENX"; "KEYS"; "DBSIZE"; "FLUSHDB";
          "LPUSH"; "RPUSH"; "LPOP"; "RPOP"; "LLEN"; "LINDEX"; "LSET"; "LRANGE"; "LTRIM"; "LREM";
          "SADD"; "SREM"; "SMEMBERS"; "SCARD"; "SISMEMBER"; "SUNION"; "SINTER"; "SDIFF";
          "HSET"; "HGET"; "HMSET"; "HMGET"; "HGETALL"; "HDEL"; "HLEN"; "HEXISTS"; "HKEYS"; "HVALS"; "HINCRBY"]%string.
