(** Model of engine.rs [pattern_matches] (KEYS / SCAN MATCH): iterative glob
    matcher with single-star backtracking, '?', '[...]' classes with '^'
    negation, ranges and escapes (after 5de9d19: as in Redis), and backslash escapes.  Works on characters of the
    lossily decoded strings; the model works on bytes (equal for ASCII and for
    isolated invalid bytes, see DESIGN.md class lossy-match). *)
From Ferrous Require Import Base.Bytes.
Open Scope Z_scope.

(** the class loop of both matchers after 5de9d19 (one pass like Redis' stringmatchlen), from
    the byte after '[' (and after '^'): a backslash followed by another byte takes that byte
    literally; `x-y` (when at least three bytes remain) is the range between the two, ends
    swapped when reversed; the first unescaped ']' closes the class; a class that is never
    closed runs to the end of the pattern.  No early exit.  Result: (matched, pattern after
    the class). *)
Fixpoint class_scan (q : bytes) (tc : Z) (matched : bool) : bool * bytes :=
  match q with
  | [] => (matched, [])                                   (* i == len: unterminated *)
  | a :: r =>
      if a =? 93 then (matched, r)                        (* pattern[i] == ']': step over it *)
      else
        match r with
        | x :: r2 =>
            if a =? 92 then class_scan r2 tc (matched || (tc =? x))       (* '\\' and i + 1 < len *)
            else
              match r2 with
              | b :: r3 =>
                  if x =? 45 then                         (* i + 2 < len && pattern[i+1] == '-' *)
                    class_scan r3 tc (matched || ((Z.min a b <=? tc) && (tc <=? Z.max a b)))
                  else class_scan r tc (matched || (tc =? a))
              | [] => class_scan r tc (matched || (tc =? a))
              end
        | [] => (matched || (tc =? a), [])                (* the last byte of the pattern (also a lone '\\') *)
        end
  end.
(** negate = p_idx + 1 < len && pattern[p_idx + 1] == '^'; Some rest = matched != negate *)
Definition class_try (p' : bytes) (tc : Z) : option bytes :=
  let negate := match p' with c :: _ => c =? 94 | [] => false end in
  match class_scan (if negate then tl p' else p') tc false with
  | (m, rest) => if negb (Bool.eqb m negate) then Some rest else None
  end.

Inductive gstep := GAdvance (p t : bytes) | GStar (p : bytes) | GFail.

(** one attempt at the current position; [t] is nonempty: tc :: t' *)
Definition glob_try (p : bytes) (tc : Z) (t' : bytes) : gstep :=
  match p with
  | [] => GFail
  | pc :: p' =>
      if pc =? 63 then GAdvance p' t'                       (* '?' *)
      else if pc =? 42 then GStar p'                        (* '*' *)
      else if pc =? 91 then                                 (* '[' *)
        match class_try p' tc with Some rest => GAdvance rest t' | None => GFail end
      else if (pc =? 92) && negb (match p' with [] => true | _ => false end) then   (* '\\' *)
        match p' with
        | q :: p'' => if q =? tc then GAdvance p'' t' else GFail
        | [] => GFail
        end
      else if pc =? tc then GAdvance p' t' else GFail
  end.

Fixpoint glob_loop (fuel : nat) (p t : bytes) (star : option (bytes * bytes)) : bool :=
  match fuel with
  | O => false
  | S f =>
    match t with
    | [] => match drop_while (fun c => c =? 42) p with [] => true | _ => false end
    | tc :: t' =>
        match glob_try p tc t' with
        | GAdvance p2 t2 => glob_loop f p2 t2 star
        | GStar p2 => glob_loop f p2 t (Some (p2, t))
        | GFail =>
            match star with
            | Some (sp, st) =>
                let st' := tl st in
                glob_loop f sp st' (Some (sp, st'))
            | None => false
            end
        end
    end
  end.

Definition glob_fuel (p t : bytes) : nat := S ((S (length t)) * (S (S (length p)))).
Definition glob_match (p t : bytes) : bool := glob_loop (glob_fuel p t) p t None.
