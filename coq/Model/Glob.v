(** Model of engine.rs [pattern_matches] (KEYS / SCAN MATCH): iterative glob
    matcher with single-star backtracking, '?', '[...]' classes with '^'
    negation and ranges, and backslash escapes.  Works on characters of the
    lossily decoded strings; the model works on bytes (equal for ASCII and for
    isolated invalid bytes, see DESIGN.md class lossy-match). *)
From Ferrous Require Import Base.Bytes.
Open Scope Z_scope.

(** offset of the first ']' in [p] (p starts at the '[') *)
Fixpoint find_close (p : bytes) (i : nat) : option nat :=
  match p with
  | [] => None
  | c :: r => if c =? 93 then Some i else find_close r (S i)
  end.

(** items of a class body: [body] = chars between start and class_end *)
Fixpoint class_match (fuel : nat) (body : bytes) (tc : Z) : bool :=
  match fuel with
  | O => false
  | S f =>
    match body with
    | [] => false
    | a :: rest =>
        match rest with
        | m :: hi :: rest' =>
            (* i + 2 < class_end  <->  at least 3 chars remain in the body *)
            if m =? 45 then
              if (a <=? tc) && (tc <=? hi) then true else class_match f rest' tc
            else if tc =? a then true else class_match f rest tc
        | _ => if tc =? a then true else class_match f rest tc
        end
    end
  end.

Inductive gstep := GAdvance (p t : bytes) | GStar (p : bytes) | GFail.

(** one attempt at the current position; [t] is nonempty: tc :: t' *)
Definition glob_try (p : bytes) (tc : Z) (t' : bytes) : gstep :=
  match p with
  | [] => GFail
  | pc :: p' =>
      if pc =? 63 then GAdvance p' t'                       (* '?' *)
      else if pc =? 42 then GStar p'                        (* '*' *)
      else if pc =? 91 then                                 (* '[' *)
        match find_close p 0 with
        | None => GFail
        | Some e =>
            (* class_end = p_idx + e; chars strictly between *)
            let inner := firstn (e - 1) p' in
            let negate := match inner with c :: _ => c =? 94 | [] => false end in
            let body := if negate then tl inner else inner in
            let matched := class_match (S (length body)) body tc in
            if negb (Bool.eqb matched negate) then GAdvance (skipn e p') t' else GFail
        end
      else if (pc =? 92) && negb (match p' with [] => true | _ => false end) then   (* '\\' *)
        match p' with
        | q :: p'' => if q =? tc then GAdvance p'' t' else GFail
        | [] => GFail
        end
      else if pc =? tc then GAdvance p' t' else GFail
  end.

Fixpoint glob_loop (fuel : nat) (p t : bytes) (star : option (bytes * bytes)) : bool :=
  match fuel with
  | O => false
  | S f =>
    match t with
    | [] => match drop_while (fun c => c =? 42) p with [] => true | _ => false end
    | tc :: t' =>
        match glob_try p tc t' with
        | GAdvance p2 t2 => glob_loop f p2 t2 star
        | GStar p2 => glob_loop f p2 t (Some (p2, t))
        | GFail =>
            match star with
            | Some (sp, st) =>
                let st' := tl st in
                glob_loop f sp st' (Some (sp, st'))
            | None => false
            end
        end
    end
  end.

Definition glob_fuel (p t : bytes) : nat := S ((S (length t)) * (S (S (length p)))).
Definition glob_match (p t : bytes) : bool := glob_loop (glob_fuel p t) p t None.
