(** Model of the list, set and hash commands: commands/lists.rs, sets.rs,
    hashes.rs and the engine.rs functions they call (engine.rs lpush .. hincrby).

    Shape of every single-key command: the handler validates arity and argument
    format (every refusal there is an "ERR ..." reply), then the engine function
    looks the key up under the shard lock, matches on the stored value's type and
    either answers, replaces the collection in place (the entry's deadline is
    kept), creates the key (no deadline) or removes it (when the collection became
    empty; the sweeper's deadline index is NOT touched by a removal).  None of
    these engine functions consults is_expired.

    An engine function is therefore modelled as a pure function
    [option value -> frame * upd] of the value currently stored at the key, and
    [on_key] applies its verdict to the database.

    The model follows the tree after the repairs c5f1b6a (HINCRBY checked add),
    61742d6 (HSET count on a fresh key), 2b792ef (LRANGE/LTRIM stop before the head),
    6f35e51 (LREM isize::MIN), eab489c (SINTER/SDIFF type checks), 84546fc
    (SRANDMEMBER negative counts).  [PANIC] is the distinguished outcome a panicking
    Rust operation would have; after the repairs no command of this family reaches
    one (Props/C03.v c03_no_panic). *)
From Ferrous Require Import Base.Bytes Model.Resp Model.Types Model.Strings.
Open Scope Z_scope.

Definition PANIC : frame := FError (bs "PANIC").
Definition BADORACLE : frame := FError (bs "BADORACLE").
Definition isize_min := i64_min.
Definition isize_max := i64_max.

(** ---- verdict of an engine function on one key ---- *)
Inductive upd := Keep | Put (v : value) | Del.

Definition apply_upd (d : db) (k : bytes) (old : option entry) (u : upd) : db :=
  match u with
  | Keep => d
  | Del => del_entry d k
  | Put v => put_entry d k {| e_val := v;
                              e_exp := match old with Some e => e_exp e | None => None end |}
  end.

Definition on_key (d : db) (k : bytes) (f : option value -> frame * upd) : frame * db :=
  let cur := get_entry d k in
  match f (option_map e_val cur) with
  | (r, u) => (r, apply_upd d k cur u)
  end.

Definition get_val (d : db) (k : bytes) : option value := option_map e_val (get_entry d k).

(** ---- argument helpers ---- *)
(** every element must be BulkString(Some _), otherwise the handler refuses *)
Fixpoint all_bulks (l : list frame) : option (list bytes) :=
  match l with
  | [] => Some []
  | FBulk b :: r => match all_bulks r with Some t => Some (b :: t) | None => None end
  | _ :: _ => None
  end.
(** SREM / HDEL: non-bulk arguments are skipped ([_ => continue]) *)
Fixpoint only_bulks (l : list frame) : list bytes :=
  match l with
  | [] => []
  | FBulk b :: r => b :: only_bulks r
  | _ :: r => only_bulks r
  end.
(** HSET / HMSET field-value pairs *)
Fixpoint pairs_of (l : list frame) : option (list (bytes * bytes)) :=
  match l with
  | [] => Some []
  | FBulk f :: FBulk v :: r => match pairs_of r with Some t => Some ((f, v) :: t) | None => None end
  | _ => None
  end.

(** =====================  LISTS  ===================== *)

(** lpush: push_front one by one; rpush: push_back *)
Definition e_push (left : bool) (els : list bytes) (cur : option value) : frame * upd :=
  match cur with
  | Some (VList l) =>
      let l' := if left then rev els ++ l else l ++ els in (r_int (len l'), Put (VList l'))
  | Some _ => (r_wrongtype, Keep)
  | None =>
      let l' := if left then rev els else els in (r_int (len l'), Put (VList l'))
  end.

(** lpop / rpop: the key is removed when the list is empty afterwards *)
Definition e_pop (left : bool) (cur : option value) : frame * upd :=
  match cur with
  | Some (VList l) =>
      if left then
        match l with
        | [] => (r_nil, Del)
        | x :: r => (r_bulk x, match r with [] => Del | _ => Put (VList r) end)
        end
      else
        match rev l with
        | [] => (r_nil, Del)
        | x :: r => (r_bulk x, match r with [] => Del | _ => Put (VList (rev r)) end)
        end
  | Some _ => (r_wrongtype, Keep)
  | None => (r_nil, Keep)
  end.

Definition e_llen (cur : option value) : frame * upd :=
  match cur with
  | Some (VList l) => (r_int (len l), Keep)
  | Some _ => (r_wrongtype, Keep)
  | None => (r_int 0, Keep)
  end.

(** lrange / ltrim normalisation (engine.rs):
      let start = if start < 0 { (len + start).max(0) } else { start } as usize;
      let stop  = if stop  < 0 { len + stop } else { stop };
      if stop >= 0 { let stop = stop as usize; ...loop... }
    start is a non-negative isize, so its cast is the identity; stop is cast only when
    non-negative.  The loop keeps the items with start <= i <= stop. *)
Definition norm_clamp (n i : Z) : Z := if i <? 0 then Z.max (n + i) 0 else i.
Definition norm_stop (n i : Z) : Z := if i <? 0 then n + i else i.
Fixpoint slice_loop (i s e : Z) (l : list bytes) : list bytes :=
  match l with
  | [] => []
  | x :: r => if (s <=? i) && (i <=? e) then x :: slice_loop (i + 1) s e r
              else slice_loop (i + 1) s e r
  end.
Definition list_slice (l : list bytes) (start stop : Z) : list bytes :=
  let n := len l in
  if norm_stop n stop <? 0 then [] else slice_loop 0 (norm_clamp n start) (norm_stop n stop) l.

Definition e_lrange (start stop : Z) (cur : option value) : frame * upd :=
  match cur with
  | Some (VList l) => (r_bulks (list_slice l start stop), Keep)
  | Some _ => (r_wrongtype, Keep)
  | None => (FArray [], Keep)
  end.

(** ltrim: always marks the key modified; removes it when nothing is kept *)
Definition e_ltrim (start stop : Z) (cur : option value) : frame * upd :=
  match cur with
  | Some (VList l) =>
      match list_slice l start stop with
      | [] => (r_ok, Del)
      | l' => (r_ok, Put (VList l'))
      end
  | Some _ => (r_wrongtype, Keep)
  | None => (r_ok, Keep)
  end.

(** lindex / lset: idx = if index < 0 { len + index } else { index }; valid iff 0 <= idx < len *)
Definition norm_idx (n i : Z) : Z := if i <? 0 then n + i else i.
Definition idx_ok (n i : Z) : bool := (0 <=? norm_idx n i) && (norm_idx n i <? n).
Definition list_index (l : list bytes) (i : Z) : option bytes :=
  if idx_ok (len l) i then nth_error l (Z.to_nat (norm_idx (len l) i)) else None.
Fixpoint replace_nth (l : list bytes) (i : nat) (x : bytes) : list bytes :=
  match l, i with
  | [], _ => []
  | _ :: r, O => x :: r
  | y :: r, S i' => y :: replace_nth r i' x
  end.

Definition e_lindex (i : Z) (cur : option value) : frame * upd :=
  match cur with
  | Some (VList l) => (match list_index l i with Some x => r_bulk x | None => r_nil end, Keep)
  | Some _ => (r_wrongtype, Keep)
  | None => (r_nil, Keep)
  end.

Definition e_lset (i : Z) (v : bytes) (cur : option value) : frame * upd :=
  match cur with
  | Some (VList l) =>
      if idx_ok (len l) i
      then (r_ok, Put (VList (replace_nth l (Z.to_nat (norm_idx (len l) i)) v)))
      else (r_err, Keep)                       (* IndexOutOfRange *)
  | Some _ => (r_wrongtype, Keep)
  | None => (r_err, Keep)                      (* NoSuchKey *)
  end.

(** lrem: scan in one direction removing matches while the budget lasts *)
Fixpoint lrem_fwd (x : bytes) (todo : Z) (l : list bytes) : list bytes * Z :=
  match l with
  | [] => ([], 0)
  | y :: r =>
      if beq y x && (0 <? todo)
      then match lrem_fwd x (todo - 1) r with (r', k) => (r', k + 1) end
      else match lrem_fwd x todo r with (r', k) => (y :: r', k) end
  end.
(** count < 0: the budget is count.unsigned_abs() (2^63 for isize::MIN) *)
Definition list_rem (count : Z) (x : bytes) (l : list bytes) : list bytes * Z :=
  if count =? 0 then
    (filter (fun y => negb (beq y x)) l, len (filter (fun y => beq y x) l))
  else if 0 <? count then lrem_fwd x count l
  else match lrem_fwd x (- count) (rev l) with (r, k) => (rev r, k) end.

Definition e_lrem (count : Z) (x : bytes) (cur : option value) : frame * upd :=
  match cur with
  | Some (VList l) =>
      match list_rem count x l with
      | (l', k) => (r_int k, match l' with [] => Del | _ => Put (VList l') end)
      end
  | Some _ => (r_wrongtype, Keep)
  | None => (r_int 0, Keep)
  end.

(** =====================  SETS  ===================== *)

Fixpoint sadd_loop (s : list bytes) (ms : list bytes) (added : Z) : list bytes * Z :=
  match ms with
  | [] => (s, added)
  | m :: r => if bmem m s then sadd_loop s r added else sadd_loop (m :: s) r (added + 1)
  end.
Definition e_sadd (ms : list bytes) (cur : option value) : frame * upd :=
  match cur with
  | Some (VSet s) => match sadd_loop s ms 0 with (s', a) => (r_int a, Put (VSet s')) end
  | Some _ => (r_wrongtype, Keep)
  | None => match sadd_loop [] ms 0 with (s', a) => (r_int a, Put (VSet s')) end
  end.

Fixpoint srem_loop (s : list bytes) (ms : list bytes) (removed : Z) : list bytes * Z :=
  match ms with
  | [] => (s, removed)
  | m :: r => if bmem m s then srem_loop (bremove m s) r (removed + 1) else srem_loop s r removed
  end.
Definition e_srem (ms : list bytes) (cur : option value) : frame * upd :=
  match cur with
  | Some (VSet s) =>
      match srem_loop s ms 0 with
      | (s', k) => (r_int k, match s' with [] => Del | _ => Put (VSet s') end)
      end
  | Some _ => (r_wrongtype, Keep)
  | None => (r_int 0, Keep)
  end.

Definition e_smembers (cur : option value) : frame * upd :=
  match cur with
  | Some (VSet s) => (r_bulks (bsort s), Keep)
  | Some _ => (r_wrongtype, Keep)
  | None => (FArray [], Keep)
  end.
Definition e_sismember (m : bytes) (cur : option value) : frame * upd :=
  match cur with
  | Some (VSet s) => (r_int (if bmem m s then 1 else 0), Keep)
  | Some _ => (r_wrongtype, Keep)
  | None => (r_int 0, Keep)
  end.
Definition e_scard (cur : option value) : frame * upd :=
  match cur with
  | Some (VSet s) => (r_int (len s), Keep)
  | Some _ => (r_wrongtype, Keep)
  | None => (r_int 0, Keep)
  end.

(** multi-key algebra (read-only).  SWrong = Err(WrongType). *)
Inductive sres := SOk (l : list bytes) | SWrong.
Definition set_union (acc s : list bytes) : list bytes :=
  fold_left (fun a m => if bmem m a then a else m :: a) s acc.
(** sunion: missing keys are skipped, any non-set key is an error *)
Fixpoint sunion_loop (d : db) (keys : list bytes) (acc : list bytes) : sres :=
  match keys with
  | [] => SOk acc
  | k :: r => match get_val d k with
              | Some (VSet s) => sunion_loop d r (set_union acc s)
              | Some _ => SWrong
              | None => sunion_loop d r acc
              end
  end.
(** sinter: a missing key empties the intersection; the remaining keys are still type-checked *)
Fixpoint sinter_loop (d : db) (keys : list bytes) (acc : list bytes) : sres :=
  match keys with
  | [] => SOk acc
  | k :: r => match get_val d k with
              | Some (VSet s) => sinter_loop d r (filter (fun m => bmem m s) acc)
              | Some _ => SWrong
              | None => sinter_loop d r []
              end
  end.
(** sdiff: a missing key is the empty set (first or later); every key is type-checked *)
Fixpoint sdiff_loop (d : db) (keys : list bytes) (acc : list bytes) : sres :=
  match keys with
  | [] => SOk acc
  | k :: r => match get_val d k with
              | Some (VSet s) => sdiff_loop d r (filter (fun m => negb (bmem m s)) acc)
              | Some _ => SWrong
              | None => sdiff_loop d r acc
              end
  end.
Definition eng_sunion (d : db) (keys : list bytes) : sres := sunion_loop d keys [].
Definition eng_sinter (d : db) (keys : list bytes) : sres :=
  match keys with
  | [] => SOk []
  | k :: r => match get_val d k with
              | Some (VSet s) => sinter_loop d r s
              | Some _ => SWrong
              | None => sinter_loop d r []
              end
  end.
Definition eng_sdiff (d : db) (keys : list bytes) : sres :=
  match keys with
  | [] => SOk []
  | k :: r => match get_val d k with
              | Some (VSet s) => sdiff_loop d r s
              | Some _ => SWrong
              | None => sdiff_loop d r []
              end
  end.
Definition sres_reply (r : sres) : frame :=
  match r with SOk l => r_bulks (bsort l) | SWrong => r_wrongtype end.

(** random picks: the implementation's reply is the oracle; it is followed only
    when it is an admissible outcome of the code (shuffle + truncate: distinct
    members, exactly min(count, len) of them; choose with repetition: exactly
    -count members). *)
Definition all_in (xs s : list bytes) : bool := forallb (fun x => bmem x s) xs.
Fixpoint nodupb (l : list bytes) : bool :=
  match l with [] => true | x :: r => negb (bmem x r) && nodupb r end.
Definition oracle_bulks (o : option frame) : option (list bytes) :=
  match o with Some (FArray l) => all_bulks l | _ => None end.
Definition oracle_bulk (o : option frame) : option (list bytes) :=
  match o with Some (FBulk m) => Some [m] | _ => None end.
(** admissible outcome of "shuffle, keep the first n" *)
Definition pick_distinct_ok (s : list bytes) (n : Z) (xs : list bytes) : bool :=
  (len xs =? n) && nodupb xs && all_in xs s.
(** admissible outcome of n independent draws *)
Definition pick_repeat_ok (s : list bytes) (n : Z) (xs : list bytes) : bool :=
  (len xs =? n) && all_in xs s.

(** srandmember(count): count = None is the handler's call with 1 and a bulk reply.
    count < 0: checked_neg refuses i64::MIN ("value is out of range"), otherwise -count
    independent draws, at most 2^20 of them since 9dd4676 (the work of a refused or accepted
    call is bounded by that constant). *)
Definition e_srandmember (count : option Z) (oracle : option frame) (cur : option value) : frame * upd :=
  match cur with
  | Some (VSet s) =>
      match s with
      | [] => (match count with None => r_nil | Some _ => FArray [] end, Keep)
      | _ =>
        match count with
        | None =>
            match oracle_bulk oracle with
            | Some xs => if pick_distinct_ok s 1 xs
                         then (match xs with m :: _ => r_bulk m | [] => r_nil end, Keep)
                         else (BADORACLE, Keep)
            | None => (BADORACLE, Keep)
            end
        | Some c =>
            if 0 <=? c then
              match oracle_bulks oracle with
              | Some xs => if pick_distinct_ok s (Z.min c (len s)) xs
                           then (r_bulks (bsort xs), Keep) else (BADORACLE, Keep)
              | None => (BADORACLE, Keep)
              end
            else if c =? i64_min then (r_err, Keep)
            (* 9dd4676: more than 2^20 draws are refused (the 512 MB reply cap is not modelled:
               the generator's members are short) *)
            else if 1048576 <? - c then (r_err, Keep)
            else
              match oracle_bulks oracle with
              | Some xs => if pick_repeat_ok s (- c) xs
                           then (r_bulks (bsort xs), Keep) else (BADORACLE, Keep)
              | None => (BADORACLE, Keep)
              end
        end
      end
  | Some _ => (r_wrongtype, Keep)
  | None => (match count with None => r_nil | Some _ => FArray [] end, Keep)
  end.

Definition remove_all (xs s : list bytes) : list bytes := fold_left (fun a m => bremove m a) xs s.
(** spop(count): [single] = the reply is one bulk (no count argument) *)
Definition e_spop (single : bool) (count : Z) (oracle : option frame) (cur : option value) : frame * upd :=
  match cur with
  | Some (VSet s) =>
      match s with
      | [] => (if single then r_nil else FArray [], Keep)
      | _ =>
        match (if single then oracle_bulk oracle else oracle_bulks oracle) with
        | Some xs =>
            if pick_distinct_ok s (Z.min count (len s)) xs then
              (if single then match xs with m :: _ => r_bulk m | [] => r_nil end
               else r_bulks (bsort xs),
               match remove_all xs s with [] => Del | s' => Put (VSet s') end)
            else (BADORACLE, Keep)
        | None => (BADORACLE, Keep)
        end
      end
  | Some _ => (r_wrongtype, Keep)
  | None => (if single then r_nil else FArray [], Keep)
  end.

(** =====================  HASHES  ===================== *)

(** HashMap::insert for each pair; counts the fields that were new *)
Fixpoint hset_loop (h : list (bytes * bytes)) (ps : list (bytes * bytes)) (added : Z)
  : list (bytes * bytes) * Z :=
  match ps with
  | [] => (h, added)
  | (f, v) :: r => hset_loop (aset f v h) r (if amem f h then added else added + 1)
  end.
(** on a fresh key the engine answers hash.len() after the inserts *)
Definition e_hset (ok_reply : bool) (ps : list (bytes * bytes)) (cur : option value) : frame * upd :=
  match cur with
  | Some (VHash h) =>
      match hset_loop h ps 0 with
      | (h', a) => (if ok_reply then r_ok else r_int a, Put (VHash h'))
      end
  | Some _ => (r_wrongtype, Keep)
  | None =>
      match hset_loop [] ps 0 with
      | (h', _) => (if ok_reply then r_ok else r_int (len h'), Put (VHash h'))
      end
  end.

Definition opt_bulk (o : option bytes) : frame := match o with Some b => r_bulk b | None => r_nil end.
Definition e_hget (f : bytes) (cur : option value) : frame * upd :=
  match cur with
  | Some (VHash h) => (opt_bulk (alookup f h), Keep)
  | Some _ => (r_wrongtype, Keep)
  | None => (r_nil, Keep)
  end.
Definition e_hmget (fs : list bytes) (cur : option value) : frame * upd :=
  match cur with
  | Some (VHash h) => (FArray (map (fun f => opt_bulk (alookup f h)) fs), Keep)
  | Some _ => (r_wrongtype, Keep)
  | None => (FArray (map (fun _ => r_nil) fs), Keep)
  end.

(** pairs sorted by field: canonical order of HGETALL *)
Fixpoint pinsert (x : bytes * bytes) (l : list (bytes * bytes)) : list (bytes * bytes) :=
  match l with
  | [] => [x]
  | y :: r => if bleb (fst x) (fst y) then x :: l else y :: pinsert x r
  end.
Definition psort (l : list (bytes * bytes)) : list (bytes * bytes) := fold_right pinsert [] l.
Definition flat_pairs (l : list (bytes * bytes)) : list frame :=
  flat_map (fun p => [FBulk (fst p); FBulk (snd p)]) l.
Definition e_hgetall (cur : option value) : frame * upd :=
  match cur with
  | Some (VHash h) => (FArray (flat_pairs (psort h)), Keep)
  | Some _ => (r_wrongtype, Keep)
  | None => (FArray [], Keep)
  end.

Fixpoint hdel_loop (h : list (bytes * bytes)) (fs : list bytes) (deleted : Z)
  : list (bytes * bytes) * Z :=
  match fs with
  | [] => (h, deleted)
  | f :: r => if amem f h then hdel_loop (aremove f h) r (deleted + 1) else hdel_loop h r deleted
  end.
Definition e_hdel (fs : list bytes) (cur : option value) : frame * upd :=
  match cur with
  | Some (VHash h) =>
      match hdel_loop h fs 0 with
      | (h', k) => (r_int k, match h' with [] => Del | _ => Put (VHash h') end)
      end
  | Some _ => (r_wrongtype, Keep)
  | None => (r_int 0, Keep)
  end.
Definition e_hlen (cur : option value) : frame * upd :=
  match cur with
  | Some (VHash h) => (r_int (len h), Keep)
  | Some _ => (r_wrongtype, Keep)
  | None => (r_int 0, Keep)
  end.
Definition e_hexists (f : bytes) (cur : option value) : frame * upd :=
  match cur with
  | Some (VHash h) => (r_int (if amem f h then 1 else 0), Keep)
  | Some _ => (r_wrongtype, Keep)
  | None => (r_int 0, Keep)
  end.
Definition e_hkeys (cur : option value) : frame * upd :=
  match cur with
  | Some (VHash h) => (r_bulks (bsort (map fst h)), Keep)
  | Some _ => (r_wrongtype, Keep)
  | None => (FArray [], Keep)
  end.
Definition e_hvals (cur : option value) : frame * upd :=
  match cur with
  | Some (VHash h) => (r_bulks (bsort (map snd h)), Keep)
  | Some _ => (r_wrongtype, Keep)
  | None => (FArray [], Keep)
  end.

(** hincrby: the stored text is parsed as i64 (lossy UTF-8 cannot produce digits);
    [current.checked_add(increment)] refuses an overflow *)
Definition e_hincrby (f : bytes) (inc : Z) (cur : option value) : frame * upd :=
  match cur with
  | Some (VHash h) =>
      match alookup f h with
      | Some b =>
          match parse_i64 b with
          | Some c => if in_i64 (c + inc)
                      then (r_int (c + inc), Put (VHash (aset f (print_int (c + inc)) h)))
                      else (r_err, Keep)                (* would overflow *)
          | None => (r_err, Keep)                (* NotInteger *)
          end
      | None => (r_int inc, Put (VHash (aset f (print_int inc) h)))
      end
  | Some _ => (r_wrongtype, Keep)
  | None => (r_int inc, Put (VHash [(f, print_int inc)]))
  end.

(** =====================  HANDLERS  ===================== *)

Definition key_of (parts : list frame) : option bytes := nth_arg parts 1.

(** LPUSH / RPUSH key element [element ...] *)
Definition h_push (left : bool) (d : db) (parts : list frame) : frame * db :=
  if nparts parts <? 3 then (r_err, d) else
  match key_of parts with
  | None => (r_err, d)
  | Some k => match all_bulks (skipn 2 parts) with
              | None => (r_err, d)
              | Some els => on_key d k (e_push left els)
              end
  end.
(** commands of the shape NAME key *)
Definition h_key1 (f : option value -> frame * upd) (d : db) (parts : list frame) : frame * db :=
  if negb (nparts parts =? 2) then (r_err, d) else
  match key_of parts with
  | None => (r_err, d)
  | Some k => on_key d k f
  end.
(** commands of the shape NAME key bulk *)
Definition h_key_bulk (f : bytes -> option value -> frame * upd) (d : db) (parts : list frame) : frame * db :=
  if negb (nparts parts =? 3) then (r_err, d) else
  match key_of parts with
  | None => (r_err, d)
  | Some k => match nth_arg parts 2 with
              | None => (r_err, d)
              | Some a => on_key d k (f a)
              end
  end.
(** LRANGE / LTRIM key start stop *)
Definition h_range (f : Z -> Z -> option value -> frame * upd) (d : db) (parts : list frame) : frame * db :=
  if negb (nparts parts =? 4) then (r_err, d) else
  match key_of parts with
  | None => (r_err, d)
  | Some k =>
      match nth_arg parts 2 with
      | None => (r_err, d)
      | Some a => match parse_isize a with
        | None => (r_err, d)
        | Some s =>
            match nth_arg parts 3 with
            | None => (r_err, d)
            | Some b => match parse_isize b with
              | None => (r_err, d)
              | Some e => on_key d k (f s e)
              end
            end
        end
      end
  end.
Definition h_lindex (d : db) (parts : list frame) : frame * db :=
  if negb (nparts parts =? 3) then (r_err, d) else
  match key_of parts with
  | None => (r_err, d)
  | Some k =>
      match nth_arg parts 2 with
      | None => (r_err, d)
      | Some a => match parse_isize a with
                  | None => (r_err, d)
                  | Some i => on_key d k (e_lindex i)
                  end
      end
  end.
(** LSET key index value / LREM key count element *)
Definition h_int_bulk (f : Z -> bytes -> option value -> frame * upd) (d : db) (parts : list frame) : frame * db :=
  if negb (nparts parts =? 4) then (r_err, d) else
  match key_of parts with
  | None => (r_err, d)
  | Some k =>
      match nth_arg parts 2 with
      | None => (r_err, d)
      | Some a => match parse_isize a with
        | None => (r_err, d)
        | Some i => match nth_arg parts 3 with
                    | None => (r_err, d)
                    | Some v => on_key d k (f i v)
                    end
        end
      end
  end.

Definition h_sadd (d : db) (parts : list frame) : frame * db :=
  if nparts parts <? 3 then (r_err, d) else
  match key_of parts with
  | None => (r_err, d)
  | Some k => match all_bulks (skipn 2 parts) with
              | None => (r_err, d)
              | Some ms => on_key d k (e_sadd ms)
              end
  end.
(** SREM / HDEL: non-bulk members are skipped *)
Definition h_skipping (f : list bytes -> option value -> frame * upd) (d : db) (parts : list frame) : frame * db :=
  if nparts parts <? 3 then (r_err, d) else
  match key_of parts with
  | None => (r_err, d)
  | Some k => on_key d k (f (only_bulks (skipn 2 parts)))
  end.
(** SUNION / SINTER / SDIFF key [key ...] *)
Definition h_setalg (f : db -> list bytes -> sres) (d : db) (parts : list frame) : frame * db :=
  if nparts parts <? 2 then (r_err, d) else
  match all_bulks (tl parts) with
  | None => (r_err, d)
  | Some keys => (sres_reply (f d keys), d)
  end.
Definition h_srandmember (d : db) (parts : list frame) (oracle : option frame) : frame * db :=
  if (nparts parts <? 2) || (3 <? nparts parts) then (r_err, d) else
  match key_of parts with
  | None => (r_err, d)
  | Some k =>
      if nparts parts =? 3 then
        match nth_arg parts 2 with
        | None => (r_err, d)
        | Some a => match parse_i64 a with
                    | None => (r_err, d)
                    | Some c => on_key d k (e_srandmember (Some c) oracle)
                    end
        end
      else on_key d k (e_srandmember None oracle)
  end.
Definition h_spop (d : db) (parts : list frame) (oracle : option frame) : frame * db :=
  if (nparts parts <? 2) || (3 <? nparts parts) then (r_err, d) else
  match key_of parts with
  | None => (r_err, d)
  | Some k =>
      if nparts parts =? 3 then
        match nth_arg parts 2 with
        | None => (r_err, d)
        | Some a => match parse_usize a with
                    | None => (r_err, d)
                    | Some c => on_key d k (e_spop false c oracle)
                    end
        end
      else on_key d k (e_spop true 1 oracle)
  end.

(** HSET / HMSET key field value [field value ...] *)
Definition h_hset (ok_reply : bool) (d : db) (parts : list frame) : frame * db :=
  if (nparts parts <? 4) || negb ((nparts parts - 2) mod 2 =? 0) then (r_err, d) else
  match key_of parts with
  | None => (r_err, d)
  | Some k => match pairs_of (skipn 2 parts) with
              | None => (r_err, d)
              | Some ps => on_key d k (e_hset ok_reply ps)
              end
  end.
Definition h_hmget (d : db) (parts : list frame) : frame * db :=
  if nparts parts <? 3 then (r_err, d) else
  match key_of parts with
  | None => (r_err, d)
  | Some k => match all_bulks (skipn 2 parts) with
              | None => (r_err, d)
              | Some fs => on_key d k (e_hmget fs)
              end
  end.
Definition h_hincrby (d : db) (parts : list frame) : frame * db :=
  if negb (nparts parts =? 4) then (r_err, d) else
  match key_of parts with
  | None => (r_err, d)
  | Some k =>
      match nth_arg parts 2 with
      | None => (r_err, d)
      | Some f =>
          match nth_arg parts 3 with
          | None => (r_err, d)
          | Some a => match parse_i64 a with
                      | None => (r_err, d)
                      | Some inc => on_key d k (e_hincrby f inc)
                      end
          end
      end
  end.

(** dispatch of this family; None = not a command of this family.
    [oracle] = the implementation's reply for commands with random outcomes. *)
Definition exec_lists (now : Z) (d : db) (name : bytes) (parts : list frame) (oracle : option frame)
  : option (frame * db) :=
  if beq name (bs "LPUSH") then Some (h_push true d parts)
  else if beq name (bs "RPUSH") then Some (h_push false d parts)
  else if beq name (bs "LPOP") then Some (h_key1 (e_pop true) d parts)
  else if beq name (bs "RPOP") then Some (h_key1 (e_pop false) d parts)
  else if beq name (bs "LLEN") then Some (h_key1 e_llen d parts)
  else if beq name (bs "LRANGE") then Some (h_range e_lrange d parts)
  else if beq name (bs "LINDEX") then Some (h_lindex d parts)
  else if beq name (bs "LSET") then Some (h_int_bulk e_lset d parts)
  else if beq name (bs "LTRIM") then Some (h_range e_ltrim d parts)
  else if beq name (bs "LREM") then Some (h_int_bulk e_lrem d parts)
  else if beq name (bs "SADD") then Some (h_sadd d parts)
  else if beq name (bs "SREM") then Some (h_skipping e_srem d parts)
  else if beq name (bs "SMEMBERS") then Some (h_key1 e_smembers d parts)
  else if beq name (bs "SISMEMBER") then Some (h_key_bulk e_sismember d parts)
  else if beq name (bs "SCARD") then Some (h_key1 e_scard d parts)
  else if beq name (bs "SUNION") then Some (h_setalg eng_sunion d parts)
  else if beq name (bs "SINTER") then Some (h_setalg eng_sinter d parts)
  else if beq name (bs "SDIFF") then Some (h_setalg eng_sdiff d parts)
  else if beq name (bs "SRANDMEMBER") then Some (h_srandmember d parts oracle)
  else if beq name (bs "SPOP") then Some (h_spop d parts oracle)
  else if beq name (bs "HSET") then Some (h_hset false d parts)
  else if beq name (bs "HMSET") then Some (h_hset true d parts)
  else if beq name (bs "HGET") then Some (h_key_bulk e_hget d parts)
  else if beq name (bs "HMGET") then Some (h_hmget d parts)
  else if beq name (bs "HGETALL") then Some (h_key1 e_hgetall d parts)
  else if beq name (bs "HDEL") then Some (h_skipping e_hdel d parts)
  else if beq name (bs "HLEN") then Some (h_key1 e_hlen d parts)
  else if beq name (bs "HEXISTS") then Some (h_key_bulk e_hexists d parts)
  else if beq name (bs "HKEYS") then Some (h_key1 e_hkeys d parts)
  else if beq name (bs "HVALS") then Some (h_key1 e_hvals d parts)
  else if beq name (bs "HINCRBY") then Some (h_hincrby d parts)
  else None.

(** ---- WATCH marks (C08): the keys on which the engine calls mark_modified ----
    lpush/rpush, lset, hset, hincrby: on every success.  lpop/rpop: if an element came out.
    ltrim, hdel: whenever the key holds a list / hash (even if nothing changed); nothing for a
    missing key.  lrem: if removed > 0.  sadd: if added > 0 (always for a new set).
    srem: if the set is empty afterwards, else if removed > 0.  spop: if the result is not empty.
    No read marks; a refused command marks nothing. *)
Definition marks_lists (d d' : db) (name : bytes) (parts : list frame) (reply : frame) : list bytes :=
  let k1 := match nth_arg parts 1 with Some k => [k] | None => [] end in
  let held := match nth_arg parts 1 with Some k => get_val d k | None => None end in
  let gone := match nth_arg parts 1 with Some k => negb (amem k (d_data d')) | None => false end in
  if beq name (bs "LPUSH") || beq name (bs "RPUSH") || beq name (bs "HINCRBY") then
    (match reply with FInt _ => k1 | _ => [] end)
  else if beq name (bs "LPOP") || beq name (bs "RPOP") then
    (match reply with FBulk _ => k1 | _ => [] end)
  else if beq name (bs "LSET") then (match reply with FSimple _ => k1 | _ => [] end)
  else if beq name (bs "LTRIM") then
    (match reply, held with FSimple _, Some (VList _) => k1 | _, _ => [] end)
  else if beq name (bs "LREM") || beq name (bs "SADD") then
    (match reply with FInt n => if 0 <? n then k1 else [] | _ => [] end)
  else if beq name (bs "SREM") then
    (match reply, held with
     | FInt n, Some (VSet _) => if gone || (0 <? n) then k1 else []
     | _, _ => []
     end)
  else if beq name (bs "SPOP") then
    (match reply with FBulk _ => k1 | FArray (_ :: _) => k1 | _ => [] end)
  else if beq name (bs "HSET") then (match reply with FInt _ => k1 | _ => [] end)
  else if beq name (bs "HMSET") then (match reply with FSimple _ => k1 | _ => [] end)
  else if beq name (bs "HDEL") then
    (match reply, held with FInt _, Some (VHash _) => k1 | _, _ => [] end)
  else [].
