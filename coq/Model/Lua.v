(** The script layer: src/storage/lua_engine.rs and commands/lua.rs.

    Lua itself is not modelled.  Scripts are terms of a small DSL with a rigid
    concrete syntax (the harness prints it, [parse_script] reads it back):

      local r={}
      r[1]=redis.call("\083\069\084",KEYS[1],ARGV[1])     -- every byte of a string literal is \ddd
      r[2]=redis.pcall("\071\069\084","\107")
      table.sort(r[2])
      return r[2]            |  return r  |  return <literal>

    literal := nil | true | false | integer | decimal | "..." | KEYS[i] | ARGV[i] | r[i]
             | (0/0) | (1/0) | (-1/0) | { literal, ... }

    Modelled (after the repairs 38e52a4 2ecc978 754e125 31c22b9 a6ba253): the marshalling of the
    arguments of redis.call (execute_unified_redis_command: strings as bytes, numbers printed), the
    blocked-command list, lazy expiry and dispatch into Model/Exec.v, resp_frame_to_lua_value and
    lua_value_to_resp, call aborts with the command's own error / pcall answers the table {err = m},
    KEYS and ARGV as bytes, the EVAL handler's argument checks, and - for the sandbox probes
    [return <global> == nil] - the set of globals of an mlua Lua 5.1 state after create_lua_context. *)
From Ferrous Require Import Base.Bytes Generated Model.Resp Model.Types Model.Utf8 Model.Strings Model.Lists Model.Exec.
Open Scope Z_scope.

(** ---- Lua values as mlua sees them (Lua 5.1: every number is a double; mlua reports an
    integral double inside the i64 range as Integer) ---- *)
Inductive lval :=
| LNil
| LBool (b : bool)
| LInt (z : Z)                          (* Value::Integer *)
| LNum (neg : bool) (ip fp : bytes)     (* Value::Number, finite, not integral: canonical decimal text ip.fp *)
| LBig (z : Z)                          (* Value::Number, integral, outside the i64 range *)
| LNaN
| LInf (neg : bool)
| LStr (b : bytes)
| LTable (l : list lval)                (* positions 1..n; LNil = absent; no field err *)
| LErr (m : bytes).                     (* the table {err = m} redis.pcall returns for a failing command *)
Inductive conv_l := LOk (vs : list lval) | LFail (m : bytes).

(** nearest double of an integer (ties to even) *)
Definition two53 := 9007199254740992.
Definition two63 := 9223372036854775808.
Definition round_double (z : Z) : Z :=
  let a := Z.abs z in
  if a <? two53 then z else
  let e := Z.log2 a - 52 in
  let p := 2 ^ e in
  let q := a / p in
  let r := a mod p in
  let half := p / 2 in
  let q' := if r <? half then q else if half <? r then q + 1 else if Z.even q then q else q + 1 in
  Z.sgn z * (q' * p).
(** an integral double as a Value *)
Definition of_integral (d : Z) : lval := if (- two63 <=? d) && (d <? two63) then LInt d else LBig d.
(** an integer that went through lua_pushinteger / a numeric literal of the source *)
Definition lua_int (z : Z) : lval := of_integral (round_double z).

(** ---- the DSL ---- *)
Inductive lexp :=
| ENil | ETrue | EFalse
| EInt (z : Z)
| ENum (neg : bool) (ip fp : bytes)
| ENaN | EInf (neg : bool)
| EStr (b : bytes)
| EKeys (i : Z) | EArgv (i : Z) | ERes (i : Z)
| ETable (l : list lexp).
Inductive stmt := SCall (pcall : bool) (args : list lexp) | SSort (i : Z).
Inductive rexp := RAll | RVal (e : lexp).
Record script := { s_body : list stmt; s_ret : rexp }.

(** ---- concrete syntax ---- *)
Definition eat (p l : bytes) : option bytes := if is_prefix p l then Some (skipn (length p) l) else None.
Fixpoint span_digits (l : bytes) : bytes * bytes :=
  match l with
  | c :: r => if is_digit c then match span_digits r with (a, b) => (c :: a, b) end else ([], l)
  | [] => ([], [])
  end.
(** "\ddd"* followed by the closing quote *)
Fixpoint p_str_body (l : bytes) (acc : bytes) : option (bytes * bytes) :=
  match l with
  | c :: r =>
      if c =? 34 then Some (rev acc, r)
      else if c =? 92 then
        match r with
        | a :: r1 => match r1 with
          | b :: r2 => match r2 with
            | e :: r3 =>
                if is_digit a && is_digit b && is_digit e then
                  let v := (a - 48) * 100 + (b - 48) * 10 + (e - 48) in
                  if v <=? 255 then p_str_body r3 (v :: acc) else None
                else None
            | [] => None end
          | [] => None end
        | [] => None
        end
      else None
  | [] => None
  end.

(** canonical decimal: no leading zero in the integer part (unless it is "0"), a
    non-empty fraction not ending in 0, at most 15 significant digits, and a value
    k / 2^j (so that it is a double printed exactly by {} and by {:.17}) *)
Definition last_nonzero (l : bytes) : bool := match rev l with c :: _ => negb (c =? 48) | [] => false end.
Definition num_ok (ip fp : bytes) : bool :=
  match ip with
  | [] => false
  | c :: r =>
      (negb (c =? 48) || match r with [] => true | _ => false end)
      && last_nonzero fp
      && (len ip + len fp <=? 15)
      && match parse_digits (ip ++ fp) with
         | Some n => n mod (5 ^ len fp) =? 0
         | None => false
         end
  end.

Definition p_index (l : bytes) : option (Z * bytes) :=
  match span_digits l with
  | ([], _) => None
  | (ds, r) => match parse_digits ds, eat (bs "]") r with
               | Some n, Some r' => Some (n, r')
               | _, _ => None
               end
  end.

Definition p_number (neg : bool) (l : bytes) : option (lexp * bytes) :=
  match span_digits l with
  | ([], _) => None
  | (ip, r) =>
      match r with
      | 46 :: r1 =>
          match span_digits r1 with
          | ([], _) => None
          | (fp, r2) => if num_ok ip fp then Some (ENum neg ip fp, r2) else None
          end
      | _ => match parse_digits ip with
             | Some n => Some (EInt (if neg then - n else n), r)
             | None => None
             end
      end
  end.

Fixpoint p_val (fuel : nat) (l : bytes) : option (lexp * bytes) :=
  match fuel with
  | O => None
  | S f =>
    let p_list := fix p_list (k : nat) (l : bytes) (acc : list lexp) : option (list lexp * bytes) :=
      match k with
      | O => None
      | S k' =>
          match p_val f l with
          | Some (e, r) =>
              match r with
              | 44 :: r' => p_list k' r' (e :: acc)
              | 125 :: r' => Some (rev (e :: acc), r')
              | _ => None
              end
          | None => None
          end
      end in
    match eat (bs "nil") l with Some r => Some (ENil, r) | None =>
    match eat (bs "true") l with Some r => Some (ETrue, r) | None =>
    match eat (bs "false") l with Some r => Some (EFalse, r) | None =>
    match eat (bs "(0/0)") l with Some r => Some (ENaN, r) | None =>
    match eat (bs "(1/0)") l with Some r => Some (EInf false, r) | None =>
    match eat (bs "(-1/0)") l with Some r => Some (EInf true, r) | None =>
    match eat (bs "KEYS[") l with
    | Some r => match p_index r with Some (n, r') => Some (EKeys n, r') | None => None end
    | None =>
    match eat (bs "ARGV[") l with
    | Some r => match p_index r with Some (n, r') => Some (EArgv n, r') | None => None end
    | None =>
    match eat (bs "r[") l with
    | Some r => match p_index r with Some (n, r') => Some (ERes n, r') | None => None end
    | None =>
    match l with
    | 34 :: r => match p_str_body r [] with Some (s, r') => Some (EStr s, r') | None => None end
    | 123 :: 125 :: r => Some (ETable [], r)
    | 123 :: r => match p_list (S (length r)) r [] with
                  | Some (es, r') => Some (ETable es, r')
                  | None => None
                  end
    | 45 :: r => p_number true r
    | _ => p_number false l
    end end end end end end end end end end
  end.

(** arguments up to the closing parenthesis *)
Fixpoint p_args (k : nat) (l : bytes) (acc : list lexp) : option (list lexp * bytes) :=
  match k with
  | O => None
  | S k' =>
      match p_val (S (length l)) l with
      | Some (e, r) =>
          match r with
          | 44 :: r' => p_args k' r' (e :: acc)
          | 41 :: r' => Some (rev (e :: acc), r')
          | _ => None
          end
      | None => None
      end
  end.
(** arguments of redis.call are restricted to what the model can print: no r[i], integers
    up to 2^53 (a larger integral double is printed by Rust's shortest-digits Display) *)
Definition arg_ok (e : lexp) : bool :=
  match e with
  | EInt z => Z.abs z <=? two53
  | ERes _ => false
  | _ => true
  end.
Definition p_arglist (l : bytes) : option (list lexp * bytes) :=
  match l with
  | 41 :: r => Some ([], r)
  | _ => match p_args (S (length l)) l [] with
         | Some (es, r) => if forallb arg_ok es then Some (es, r) else None
         | None => None
         end
  end.

(** statements; the k-th call statement must assign r[k] *)
Fixpoint p_body (fuel : nat) (l : bytes) (ncalls : Z) (acc : list stmt) : option (list stmt * bytes) :=
  match fuel with
  | O => None
  | S f =>
      match eat (bs "table.sort(r[") l with
      | Some r =>
          match p_index r with
          | Some (n, r1) => match eat [41; 10] r1 with
                            | Some r2 => p_body f r2 ncalls (SSort n :: acc)
                            | None => None
                            end
          | None => None
          end
      | None =>
      match eat (bs "r[") l with
      | Some r =>
          match p_index r with
          | Some (n, r1) =>
              if negb (n =? ncalls + 1) then None else
              match eat (bs "=redis.call(") r1, eat (bs "=redis.pcall(") r1 with
              | Some r2, _ =>
                  match p_arglist r2 with
                  | Some (args, r3) => match eat [10] r3 with
                                       | Some r4 => p_body f r4 (ncalls + 1) (SCall false args :: acc)
                                       | None => None end
                  | None => None
                  end
              | None, Some r2 =>
                  match p_arglist r2 with
                  | Some (args, r3) => match eat [10] r3 with
                                       | Some r4 => p_body f r4 (ncalls + 1) (SCall true args :: acc)
                                       | None => None end
                  | None => None
                  end
              | None, None => None
              end
          | None => None
          end
      | None => Some (rev acc, l)
      end end
  end.

Definition p_ret (l : bytes) : option rexp :=
  match eat (bs "return ") l with
  | None => None
  | Some r =>
      if beq r (bs "r") || beq r (bs "r" ++ [10]) then Some RAll else
      match p_val (S (length r)) r with
      | Some (e, r') => if beq r' [] || beq r' [10] then Some (RVal e) else None
      | None => None
      end
  end.

Definition parse_script (src : bytes) : option script :=
  match eat (bs "local r={}" ++ [10]) src with
  | None => None
  | Some l =>
      match p_body (S (length l)) l 0 [] with
      | Some (body, rest) =>
          match p_ret rest with
          | Some rt => Some {| s_body := body; s_ret := rt |}
          | None => None
          end
      | None => None
      end
  end.

(** ---- semantics ---- *)
Record env := { e_keys : list bytes; e_argv : list bytes; e_res : list lval }.
Definition nth1 {A} (i : Z) (l : list A) : option A :=
  if i <? 1 then None else nth_error l (Z.to_nat (i - 1)).

Fixpoint eval (en : env) (e : lexp) : lval :=
  match e with
  | ENil => LNil
  | ETrue => LBool true
  | EFalse => LBool false
  | EInt z => lua_int z
  | ENum n ip fp => LNum n ip fp
  | ENaN => LNaN
  | EInf n => LInf n
  | EStr b => LStr b
  (* setup_keys_and_args: lua.create_string(key): the bytes as received (a6ba253) *)
  | EKeys i => match nth1 i (e_keys en) with Some k => LStr k | None => LNil end
  | EArgv i => match nth1 i (e_argv en) with Some a => LStr a | None => LNil end
  | ERes i => match nth1 i (e_res en) with Some v => v | None => LNil end
  | ETable l => LTable (map (eval en) l)
  end.

Definition num_text (neg : bool) (ip fp : bytes) : bytes := (if neg then [45] else []) ++ ip ++ [46] ++ fp.

(** execute_unified_redis_command, argument loop: strings are taken as bytes (binary safe,
    a6ba253); None = "Invalid argument type" *)
Definition marshal_arg (v : lval) : option bytes :=
  match v with
  | LStr s => Some s                                          (* s.as_bytes() *)
  | LInt i => Some (print_int i)                              (* i.to_string() *)
  | LNum n ip fp => Some (num_text n ip fp)                   (* n.to_string() *)
  | LBig z => None                                            (* Display of a large double: shortest digits, not modelled; excluded by arg_ok *)
  | LNaN => Some (bs "NaN")
  | LInf n => Some (if n then bs "-inf" else bs "inf")
  | LNil | LBool _ | LTable _ | LErr _ => None
  end.
Fixpoint marshal_args (l : list lval) : option (list bytes) :=
  match l with
  | [] => Some []
  | v :: r => match marshal_arg v with
              | Some b => match marshal_args r with Some t => Some (b :: t) | None => None end
              | None => None
              end
  end.

(** has_error_code: the message starts with an upper-case word of at least two letters;
    handle_command_error_with_context keeps such a message and prefixes "ERR " otherwise (38e52a4) *)
Fixpoint fword (b : bytes) : bytes :=
  match b with [] => [] | c :: r => if c =? 32 then [] else c :: fword r end.
Definition is_upper_az (c : Z) : bool := (65 <=? c) && (c <=? 90).
Definition has_error_code (b : bytes) : bool := (1 <? len (fword b)) && forallb is_upper_az (fword b).
Definition fmt_err (b : bytes) : bytes := if has_error_code b then b else bs "ERR " ++ b.
(** the errors raised by the script layer itself ("Invalid argument type", "No command
    specified", a refused command): plain text, so "ERR ..." *)
Definition layer_err : bytes := bs "ERR".

(** resp_frame_to_lua_value.  An error reply: under redis.call, CErr m =
    Err(RuntimeError("REDIS_CALL_ABORT:" ++ m)), which ends the script with m; under redis.pcall
    the value is the table {err = m} (2ecc978).  Status replies still go through
    from_utf8_lossy; bulk replies are bytes (a6ba253). *)
Inductive conv := CVal (v : lval) | CErr (m : bytes).
Fixpoint resp_to_lua (pcall : bool) (f : frame) : conv :=
  let conv_list := fix conv_list (l : list frame) : conv_l :=
    match l with
    | [] => LOk []
    | x :: r => match resp_to_lua pcall x with
                | CVal v => match conv_list r with LOk t => LOk (v :: t) | LFail m => LFail m end
                | CErr m => LFail m
                end
    end in
  match f with
  | FSimple b => CVal (LStr (utf8_lossy b))
  | FBulk b => CVal (LStr b)
  | FNullBulk => CVal LNil
  | FInt i => CVal (lua_int i)
  | FError b => let m := fmt_err (utf8_lossy b) in if pcall then CVal (LErr m) else CErr m
  | FArray l => match conv_list l with LOk vs => CVal (LTable vs) | LFail m => CErr m end
  | FNullArray => CVal LNil
  | _ => CVal LNil
  end.

(** lua_value_to_resp *)
Definition trunc_num (neg : bool) (ip : bytes) : Z :=
  match parse_digits ip with Some n => if neg then - n else n | None => 0 end.
Fixpoint lua_to_resp (v : lval) : frame :=
  (* "for i in 1.. { match table.get(i) { Nil => break, value => items.push(..) } }" *)
  let items := fix items (l : list lval) : list frame :=
    match l with
    | [] => []
    | LNil :: _ => []
    | x :: r => lua_to_resp x :: items r
    end in
  match v with
  | LNil => FNullBulk
  | LBool b => FInt (if b then 1 else 0)
  | LInt i => FInt i
  | LNaN => FNullBulk
  | LInf n => FBulk (if n then bs "-inf" else bs "inf")
  (* a finite number is an integer reply, n as i64: the fraction is dropped, the cast saturates (31c22b9) *)
  | LBig z => FInt (if 0 <? z then i64_max else i64_min)
  | LNum n ip fp => FInt (trunc_num n ip)
  | LStr s => FBulk s
  (* a table with a string field err is an error reply (2ecc978) *)
  | LErr m => FError m
  (* an empty table is an empty array (754e125) *)
  | LTable l => FArray (items l)
  end.
Fixpoint table_items (l : list lval) : list frame :=
  match l with
  | [] => []
  | LNil :: _ => []
  | x :: r => lua_to_resp x :: table_items r
  end.

(** the commands refused before dispatch (table extracted from lua_engine.rs) *)
Definition blocked (name : bytes) : bool := bmem name lua_blocked.

(** one redis.call / redis.pcall with already evaluated arguments *)
Definition call_cmd (now : Z) (d : db) (pcall : bool) (vals : list lval) : conv * db :=
  let fail := (if pcall then CVal (LErr layer_err) else CErr layer_err, d) in
  match marshal_args vals with
  | None => fail
  | Some [] => fail                                           (* "No command specified" *)
  | Some (nm :: rest) =>
      if blocked (upper (utf8_lossy nm)) then fail else
      (* LuaCommandAdapter::execute_lua_command: lazy expiry before the executor runs the command,
         as for a command sent directly; the command name is upper-cased for it *)
      let d := fst (expire_before now d (upper nm) (map FBulk (nm :: rest))) in
      match exec_run now d (map FBulk (nm :: rest)) None with
      | (r, d') => (resp_to_lua pcall r, d')
      end
  end.

(** table.sort on a table of strings; None = a Lua error.  An error table {err = m} has an
    empty array part: sorting it does nothing *)
Fixpoint all_strs (l : list lval) : option (list bytes) :=
  match l with
  | [] => Some []
  | LStr s :: r => match all_strs r with Some t => Some (s :: t) | None => None end
  | _ => None
  end.
Fixpoint set_nth1 (i : nat) (v : lval) (l : list lval) : list lval :=
  match i, l with
  | O, _ :: r => v :: r
  | S i', x :: r => x :: set_nth1 i' v r
  | _, [] => []
  end.

(** the statements in order; BAbort m = the script was ended with the error m (effects so far stay) *)
Inductive bres := BOk (res : list lval) | BAbort (m : bytes).
Fixpoint run_body (now : Z) (d : db) (keys argv : list bytes) (res : list lval) (body : list stmt)
  : bres * db :=
  match body with
  | [] => (BOk res, d)
  | SCall pc args :: rest =>
      let en := {| e_keys := keys; e_argv := argv; e_res := res |} in
      match call_cmd now d pc (map (eval en) args) with
      | (CVal v, d') => run_body now d' keys argv (res ++ [v]) rest
      | (CErr m, d') => (BAbort m, d')
      end
  | SSort i :: rest =>
      match nth1 i res with
      | Some (LTable l) =>
          match all_strs l with
          | Some ss => run_body now d keys argv (set_nth1 (Z.to_nat (i - 1)) (LTable (map LStr (bsort ss))) res) rest
          | None => (BAbort layer_err, d)
          end
      | Some (LErr _) => run_body now d keys argv res rest
      | _ => (BAbort layer_err, d)                            (* "ERR Error running script: ..." *)
      end
  end.

Definition run_script (now : Z) (d : db) (keys argv : list bytes) (s : script) : frame * db :=
  match run_body now d keys argv [] (s_body s) with
  | (BAbort m, d') => (FError m, d')
  | (BOk res, d') =>
      let en := {| e_keys := keys; e_argv := argv; e_res := res |} in
      (lua_to_resp (match s_ret s with RAll => LTable res | RVal e => eval en e end), d')
  end.

(** ---- sandbox probes: [return <name> == nil] and [return redis.<field>(...)] ---- *)
(** globals of a Lua 5.1 state opened by mlua's Lua::new() (StdLib::ALL_SAFE: no debug library) *)
Definition lua51_globals : list bytes :=
  map bs ["_G"; "_VERSION"; "assert"; "collectgarbage"; "dofile"; "error"; "gcinfo"; "getfenv"; "getmetatable";
          "ipairs"; "load"; "loadfile"; "loadstring"; "module"; "newproxy"; "next"; "pairs"; "pcall"; "print";
          "rawequal"; "rawget"; "rawset"; "require"; "select"; "setfenv"; "setmetatable"; "tonumber"; "tostring";
          "type"; "unpack"; "xpcall"; "coroutine"; "io"; "math"; "os"; "package"; "string"; "table"]%string.
Definition global_present (g : bytes) : bool :=
  (bmem g lua51_globals && negb (bmem g lua_removed_globals))
  || beq g (bs "redis") || beq g (bs "KEYS") || beq g (bs "ARGV").
Definition is_ident_char (c : Z) : bool :=
  ((97 <=? c) && (c <=? 122)) || ((65 <=? c) && (c <=? 90)) || is_digit c || (c =? 95).
Fixpoint span_ident (l : bytes) : bytes * bytes :=
  match l with
  | c :: r => if is_ident_char c then match span_ident r with (a, b) => (c :: a, b) end else ([], l)
  | [] => ([], [])
  end.
Definition probe (src : bytes) : option frame :=
  match eat (bs "return redis.") src with
  | Some r =>
      match span_ident r with
      | ([], _) => None
      | (fld, r') =>
          (* the redis table has exactly the fields call and pcall: calling anything else is a Lua error *)
          match r' with
          | 40 :: _ => if beq fld (bs "call") || beq fld (bs "pcall") then None else Some r_err
          | _ => None
          end
      end
  | None =>
  match eat (bs "return ") src with
  | Some r =>
      match span_ident r with
      | ([], _) => None
      | (g, r') => if beq r' (bs " == nil") then Some (FInt (if global_present g then 0 else 1)) else None
      end
  | None => None
  end end.

(** ---- commands/lua.rs handle_eval_with_db ---- *)
Fixpoint split_keys (n : nat) (l : list frame) (acc : list bytes) : option (list bytes * list frame) :=
  match n with
  | O => Some (rev acc, l)
  | S n' => match l with
            | FBulk k :: r => split_keys n' r (k :: acc)
            | _ => None                                       (* "keys must be strings" *)
            end
  end.
Definition compile_error_script : bytes := bs "return (".

Definition h_eval (now : Z) (d : db) (parts : list frame) : frame * db :=
  match parts with
  | _ :: sc :: nk :: rest =>
      match sc with
      | FBulk src =>
          if negb (utf8_valid src) then (r_err, d) else
          let numkeys := match nk with
                         | FBulk b => if utf8_valid b then parse_usize b else None
                         | FInt n => if n <? 0 then None else Some n
                         | _ => None
                         end in
          match numkeys with
          | None => (r_err, d)
          | Some n =>
              if len rest <? n then (r_err, d) else
              match split_keys (Z.to_nat n) rest [] with
              | None => (r_err, d)
              | Some (keys, argf) =>
                  match all_bulks argf with
                  | None => (r_err, d)                        (* "args must be strings" *)
                  | Some argv =>
                      match parse_script src with
                      | Some s => run_script now d keys argv s
                      | None =>
                          match probe src with
                          | Some r => (r, d)
                          | None => if beq src compile_error_script then (r_err, d)
                                    else (FError (bs "NOTDSL"), d)
                          end
                      end
                  end
              end
          end
      | _ => (r_err, d)
      end
  | _ => (r_err, d)
  end.

(** the database execute_database works on: the script's own (after the repair e39f807) *)
Definition exec_database_db (script_db : Z) : Z := script_db.

(** dispatcher chained from Model/Server.v exec_db.  EVALSHA and SCRIPT need the script
    cache, which is runner state (Model/RunLua.v): reaching them here (inside EXEC) is outside
    the model. *)
Definition exec_scripts (now : Z) (d : db) (name : bytes) (parts : list frame) (oracle : option frame)
  : option (frame * db) :=
  if beq name (bs "EVAL") then Some (h_eval now d parts)
  else if beq name (bs "EVALSHA") || beq name (bs "SCRIPT") then Some (FError (bs "UNMODELLED"), d)
  else None.
