(** Model of the reply path below the serialiser: connection.rs [send_frame]/[send_raw]
    (append to write_buffer) and [flush] (non-blocking writes of the unsent tail, offset
    bookkeeping, clearing).  The kernel is an oracle: each call of [write] is answered by
    one [wres].  The three pieces of arithmetic of [flush] ([flush_offset_update],
    [flush_writes_from], [flush_clears]) are regenerated from the Rust source by
    tools/gen_tables.py on every run. *)
From Ferrous Require Import Base.Bytes Generated.
Open Scope nat_scope.

Record outbuf := { ob_buf : bytes; ob_off : nat }.
Definition ob_empty : outbuf := {| ob_buf := []; ob_off := 0 |}.

(** send_frame / send_raw: append, never flush *)
Definition ob_send (o : outbuf) (b : bytes) : outbuf := {| ob_buf := ob_buf o ++ b; ob_off := ob_off o |}.

Definition ob_pending (o : outbuf) : bytes := skipn (ob_off o) (ob_buf o).
Definition ob_has_pending (o : outbuf) : bool := Nat.ltb (ob_off o) (length (ob_buf o)).

(** what one call of [TcpStream::write] on a non-blocking socket may answer *)
Inductive wres := WAccept (n : nat) | WBlock | WIntr | WOther | WFatal.

Definition ob_settle (o : outbuf) : outbuf :=
  if flush_clears (ob_off o) (length (ob_buf o)) then ob_empty else o.

Definition max_attempts : nat := 5.

(** the loop of [flush]: returns the buffer, the bytes put on the wire (in order), the
    unused oracle answers and whether flush returned an error *)
Fixpoint flush_loop (fuel : nat) (attempts : nat) (o : outbuf) (rs : list wres) (wire : bytes)
  : outbuf * bytes * list wres * bool :=
  match fuel with
  | O => (o, wire, rs, false)
  | S fuel' =>
    if Nat.ltb (ob_off o) (length (ob_buf o)) && Nat.ltb attempts max_attempts then
      match rs with
      | [] => (o, wire, rs, false)                 (* oracle exhausted: treated as "would block" forever *)
      | r :: rs' =>
        match r with
        | WAccept n =>
            let tail := skipn (flush_writes_from (ob_off o)) (ob_buf o) in
            let n' := Nat.min n (length tail) in      (* write never reports more than it was given *)
            if Nat.eqb n' 0 then (o, wire, rs', true)  (* Ok(0): "Cannot write to connection" *)
            else flush_loop fuel' attempts
                   {| ob_buf := ob_buf o; ob_off := flush_offset_update (ob_off o) n' |} rs'
                   (wire ++ firstn n' tail)
        | WBlock => if Nat.ltb (S attempts) max_attempts then flush_loop fuel' (S attempts) o rs' wire
                    else (o, wire, rs', false)        (* the peer reads slowly: keep everything, retry next cycle *)
        | WIntr => flush_loop fuel' (S attempts) o rs' wire
        | WOther => if Nat.ltb (S attempts) max_attempts then flush_loop fuel' (S attempts) o rs' wire
                    else (o, wire, rs', true)
        | WFatal => (o, wire, rs', true)
        end
      end
    else (o, wire, rs, false)
  end.

Definition ob_flush (o : outbuf) (rs : list wres) : outbuf * bytes * list wres * bool :=
  if flush_clears (ob_off o) (length (ob_buf o)) then (ob_empty, [], rs, false)
  else
    match flush_loop (S (length rs)) 0 o rs [] with
    | (o', wire, rs', err) => if err then (o', wire, rs', true) else (ob_settle o', wire, rs', false)
    end.

(** histories of a connection's output side, with ghost variables: everything handed to
    send_frame so far and everything the socket accepted so far *)
Inductive ob_op := OSend (b : bytes) | OFlush (rs : list wres).
Record ob_state := { os_buf : outbuf; os_sent : bytes; os_wire : bytes }.
Definition os_init : ob_state := {| os_buf := ob_empty; os_sent := []; os_wire := [] |}.
Definition ob_step (s : ob_state) (op : ob_op) : ob_state :=
  match op with
  | OSend b => {| os_buf := ob_send (os_buf s) b; os_sent := os_sent s ++ b; os_wire := os_wire s |}
  | OFlush rs => match ob_flush (os_buf s) rs with
                 | (o', wire, _, _) => {| os_buf := o'; os_sent := os_sent s; os_wire := os_wire s ++ wire |}
                 end
  end.
Definition ob_run (ops : list ob_op) : ob_state := fold_left ob_step ops os_init.
