(** Model of src/pubsub.rs: the byte-level glob matcher [pattern_matches]
    (a different function from engine.rs's, which is Model/Glob.v) and
    PubSubManager: the three maps and subscribe / unsubscribe / psubscribe /
    punsubscribe / publish / unsubscribe_all exactly as coded.

    HashMap / HashSet are association lists / duplicate-free lists; their
    iteration order is unobservable after canonicalisation (the harness sorts). *)
From Ferrous Require Import Base.Bytes Model.Types.
Open Scope Z_scope.

Definition is_nil {A} (l : list A) : bool := match l with [] => true | _ => false end.

(** ---- pubsub.rs:366-455 pattern_matches (after eb2d54d: with [...] classes) ---- *)
Inductive pstep := PAdvance (p : bytes) | PStar (p : bytes) | PFail.

(** pattern[p_idx..].iter().position(|&c| c == b']') seen from the byte after the '[':
    (bytes strictly between '[' and the FIRST ']', pattern after that ']') *)
Fixpoint split_close (p : bytes) : option (bytes * bytes) :=
  match p with
  | [] => None
  | c :: r => if c =? 93 then Some ([], r)
              else match split_close r with Some (a, b) => Some (c :: a, b) | None => None end
  end.

(** the inner while loop over pattern[start_idx..class_end] = [body]: `x-y` is a range when
    i + 2 < class_end (at least three bytes remain) and the middle one is '-', otherwise the
    byte stands for itself; the first hit breaks *)
Fixpoint class_loop (body : bytes) (tc : Z) : bool :=
  match body with
  | [] => false
  | lo :: rest =>
      match rest with
      | m :: hi :: rest' =>
          if m =? 45 then (if (lo <=? tc) && (tc <=? hi) then true else class_loop rest' tc)
          else if tc =? lo then true else class_loop rest tc
      | _ => if tc =? lo then true else class_loop rest tc
      end
  end.

(** negate = p_idx + 1 < class_end && pattern[p_idx + 1] == b'^'; matched != negate *)
Definition class_ok (inner : bytes) (tc : Z) : bool :=
  let negate := match inner with c :: _ => c =? 94 | [] => false end in
  let body := if negate then tl inner else inner in
  negb (Bool.eqb (class_loop body tc) negate).

(** one attempt at the current position (channel[c_idx] = tc exists) *)
Definition ps_try (p : bytes) (tc : Z) : pstep :=
  match p with
  | [] => PFail                                             (* p_idx >= pattern.len() *)
  | pc :: p' =>
      if pc =? 63 then PAdvance p'                          (* b'?' *)
      else if pc =? 42 then PStar p'                        (* b'*' *)
      else if pc =? 91 then                                 (* b'[': no ']' at all -> no match *)
        match split_close p' with
        | Some (inner, rest) => if class_ok inner tc then PAdvance rest else PFail
        | None => PFail
        end
      else if (pc =? 92) && negb (is_nil p') then           (* b'\\' if p_idx + 1 < len *)
        match p' with
        | q :: p'' => if q =? tc then PAdvance p'' else PFail
        | [] => PFail
        end
      else if pc =? tc then PAdvance p' else PFail          (* regular character (also a trailing '\\') *)
  end.

(** the while loop; [star] = (pattern after the last '*', text from star_match_idx) *)
Fixpoint ps_loop (fuel : nat) (p t : bytes) (star : option (bytes * bytes)) : bool :=
  match fuel with
  | O => false
  | S f =>
    match t with
    | [] => is_nil (drop_while (fun c => c =? 42) p)        (* skip trailing '*', p_idx == len *)
    | tc :: t' =>
        match ps_try p tc with
        | PAdvance p2 => ps_loop f p2 t' star
        | PStar p2 => ps_loop f p2 t (Some (p2, t))
        | PFail =>
            match star with
            | Some (sp, st) => let st' := tl st in ps_loop f sp st' (Some (sp, st'))
            | None => false
            end
        end
    end
  end.

Definition ps_fuel (p t : bytes) : nat := S ((S (length t)) * (S (S (length p)))).
Definition ps_match (p t : bytes) : bool := ps_loop (ps_fuel p t) p t None.

(** ---- PubSubManager ---- *)
Record subinfo := { si_ch : list bytes; si_pat : list bytes }.
Definition empty_info : subinfo := {| si_ch := []; si_pat := [] |}.
Definition cmap := list (Z * subinfo).
Definition gmap := list (bytes * list Z).      (* channel or pattern -> subscriber connection ids *)
Record pubsub := { ps_ch : gmap; ps_pat : gmap; ps_conns : cmap }.
Definition ps_init : pubsub := {| ps_ch := []; ps_pat := []; ps_conns := [] |}.

Fixpoint clookup (c : Z) (m : cmap) : option subinfo :=
  match m with [] => None | (c', i) :: r => if c =? c' then Some i else clookup c r end.
Fixpoint cremove (c : Z) (m : cmap) : cmap :=
  match m with [] => [] | (c', i) :: r => if c =? c' then cremove c r else (c', i) :: cremove c r end.
Definition cset (c : Z) (i : subinfo) (m : cmap) : cmap := (c, i) :: cremove c m.

Fixpoint zmem (x : Z) (l : list Z) : bool :=
  match l with [] => false | y :: r => (x =? y) || zmem x r end.
Fixpoint zdrop (x : Z) (l : list Z) : list Z :=
  match l with [] => [] | y :: r => if x =? y then zdrop x r else y :: zdrop x r end.

Definition g_subs (name : bytes) (g : gmap) : list Z :=
  match alookup name g with Some l => l | None => [] end.
(** entry(name).or_insert_with(HashSet::new).insert(c) *)
Definition g_add (name : bytes) (c : Z) (g : gmap) : gmap :=
  match alookup name g with
  | Some subs => if zmem c subs then g else aset name (c :: subs) g
  | None => aset name [c] g
  end.
(** get_mut(name): remove c; remove the entry when it became empty *)
Definition g_del (name : bytes) (c : Z) (g : gmap) : gmap :=
  match alookup name g with
  | Some subs => match zdrop c subs with
                 | [] => aremove name g
                 | subs' => aset name subs' g
                 end
  | None => g
  end.
(** unsubscribe_all: remove c from every entry, then remove the empty entries *)
Definition g_purge (c : Z) (g : gmap) : gmap :=
  filter (fun e => negb (is_nil (snd e))) (map (fun e => (fst e, zdrop c (snd e))) g).

(** SubResult (the subscription kind is determined by the operation) *)
Record subres := { r_name : bytes; r_count : Z; r_new : bool }.

(** the for loop of subscribe / psubscribe.  [mine] = the connection's set of
    this kind, [other] = size of its set of the other kind, [g] = the global
    map of this kind.  (subscribe tests contains() then inserts, psubscribe
    uses the result of insert(): the same function on sets.) *)
Fixpoint sub_loop (c : Z) (names mine : list bytes) (other : Z) (g : gmap)
  : list subres * list bytes * gmap :=
  match names with
  | [] => ([], mine, g)
  | n :: rest =>
      let already := bmem n mine in
      let mine' := if already then mine else n :: mine in
      let g' := if already then g else g_add n c g in
      let r := {| r_name := n; r_count := len mine' + other; r_new := negb already |} in
      match sub_loop c rest mine' other g' with
      | (rs, m, g2) => (r :: rs, m, g2)
      end
  end.

(** the for loop of unsubscribe / punsubscribe *)
Fixpoint unsub_loop (c : Z) (names mine : list bytes) (other : Z) (g : gmap)
  : list subres * list bytes * gmap :=
  match names with
  | [] => ([], mine, g)
  | n :: rest =>
      let was := bmem n mine in
      let mine' := bremove n mine in
      let g' := if was then g_del n c g else g in
      let r := {| r_name := n; r_count := len mine' + other; r_new := false |} in
      match unsub_loop c rest mine' other g' with
      | (rs, m, g2) => (r :: rs, m, g2)
      end
  end.

Definition conn_info (s : pubsub) (c : Z) : subinfo :=
  match clookup c (ps_conns s) with Some i => i | None => empty_info end.

(** pubsub.rs:76-128.  entry(c).or_insert: the connection entry exists afterwards
    even when [names] is empty (the server never passes an empty list). *)
Definition subscribe (s : pubsub) (c : Z) (names : list bytes) : list subres * pubsub :=
  let info := conn_info s c in
  match sub_loop c names (si_ch info) (len (si_pat info)) (ps_ch s) with
  | (rs, mine, g) =>
      (rs, {| ps_ch := g; ps_pat := ps_pat s;
              ps_conns := cset c {| si_ch := mine; si_pat := si_pat info |} (ps_conns s) |})
  end.

(** pubsub.rs:180-218 *)
Definition psubscribe (s : pubsub) (c : Z) (names : list bytes) : list subres * pubsub :=
  let info := conn_info s c in
  match sub_loop c names (si_pat info) (len (si_ch info)) (ps_pat s) with
  | (rs, mine, g) =>
      (rs, {| ps_ch := ps_ch s; ps_pat := g;
              ps_conns := cset c {| si_ch := si_ch info; si_pat := mine |} (ps_conns s) |})
  end.

(** pubsub.rs:131-177.  No connection entry: no result at all.  [None] =
    every channel of the connection, in HashSet order (canonical: sorted). *)
Definition unsubscribe (s : pubsub) (c : Z) (names : option (list bytes)) : list subres * pubsub :=
  match clookup c (ps_conns s) with
  | None => ([], s)
  | Some info =>
      let todo := match names with Some l => l | None => bsort (si_ch info) end in
      match unsub_loop c todo (si_ch info) (len (si_pat info)) (ps_ch s) with
      | (rs, mine, g) =>
          (rs, {| ps_ch := g; ps_pat := ps_pat s;
                  ps_conns := if is_nil mine && is_nil (si_pat info) then cremove c (ps_conns s)
                              else cset c {| si_ch := mine; si_pat := si_pat info |} (ps_conns s) |})
      end
  end.

(** pubsub.rs:221-267 *)
Definition punsubscribe (s : pubsub) (c : Z) (names : option (list bytes)) : list subres * pubsub :=
  match clookup c (ps_conns s) with
  | None => ([], s)
  | Some info =>
      let todo := match names with Some l => l | None => bsort (si_pat info) end in
      match unsub_loop c todo (si_pat info) (len (si_ch info)) (ps_pat s) with
      | (rs, mine, g) =>
          (rs, {| ps_ch := ps_ch s; ps_pat := g;
                  ps_conns := if is_nil (si_ch info) && is_nil mine then cremove c (ps_conns s)
                              else cset c {| si_ch := si_ch info; si_pat := mine |} (ps_conns s) |})
      end
  end.

(** pubsub.rs:305-341 *)
Definition unsubscribe_all (s : pubsub) (c : Z) : pubsub :=
  {| ps_ch := g_purge c (ps_ch s); ps_pat := g_purge c (ps_pat s); ps_conns := cremove c (ps_conns s) |}.

(** pubsub.rs publish (after 4d06fbe): one entry per matching subscription -
    (connection, None) for each subscriber of the channel, then (connection, Some pattern)
    for each subscriber of each matching pattern, in map iteration order *)
Definition receiver := (Z * option bytes)%type.
Definition pat_receivers (ch : bytes) (pats : gmap) : list receiver :=
  flat_map (fun e => if ps_match (fst e) ch then map (fun c => (c, Some (fst e))) (snd e) else []) pats.
Definition publish (s : pubsub) (ch : bytes) : list receiver :=
  map (fun c => (c, None)) (g_subs ch (ps_ch s)) ++ pat_receivers ch (ps_pat s).

(** observers: get_subscription_info, is_subscribed, channel_subscriber_count *)
Definition is_subscribed (s : pubsub) (c : Z) : bool :=
  match clookup c (ps_conns s) with Some _ => true | None => false end.
Definition channel_subscriber_count (s : pubsub) (ch : bytes) : Z := len (g_subs ch (ps_ch s)).

(** ---- histories ---- *)
Inductive psop :=
| OSub (c : Z) (names : list bytes)
| OPSub (c : Z) (names : list bytes)
| OUnsub (c : Z) (names : option (list bytes))
| OPUnsub (c : Z) (names : option (list bytes))
| OUnsubAll (c : Z)
| OPublish (ch : bytes).
Inductive psout := RSubs (l : list subres) | RNone | RRecv (l : list receiver).

Definition ps_step (s : pubsub) (o : psop) : psout * pubsub :=
  match o with
  | OSub c l => match subscribe s c l with (r, s') => (RSubs r, s') end
  | OPSub c l => match psubscribe s c l with (r, s') => (RSubs r, s') end
  | OUnsub c l => match unsubscribe s c l with (r, s') => (RSubs r, s') end
  | OPUnsub c l => match punsubscribe s c l with (r, s') => (RSubs r, s') end
  | OUnsubAll c => (RNone, unsubscribe_all s c)
  | OPublish ch => (RRecv (publish s ch), s)
  end.
Fixpoint ps_run (s : pubsub) (ops : list psop) : pubsub :=
  match ops with [] => s | o :: r => ps_run (snd (ps_step s o)) r end.
