(** Byte-level model of src/storage/rdb.rs: the snapshot writer (write_snapshot,
    RdbWriter) and the loader (RdbReader::load_into), together with the storage
    API calls the loader re-inserts through (engine.rs set_value, zadd, rpush,
    sadd, hset, xadd_with_id, expire; skiplist.rs insert; stream.rs add_with_id).

    Dataset = [list db] (16 databases, Model/Types.v).  Time is explicit:
    [now] is the engine's monotonic clock (ms, the clock of [e_exp]) and
    [wall] the SystemTime clock (ms since the epoch), both read at the save /
    at the load.  No proofs here (Proofs/RdbFacts.v, Props/C09.v, Props/C10.v). *)
From Ferrous Require Import Base.Bytes Model.Resp Model.Types Model.Strings.
Open Scope Z_scope.

(** ------------------------------------------------------------------ *)
(** * Integers on the wire *)

Fixpoint le_bytes (n : nat) (x : Z) : bytes :=
  match n with O => [] | S k => x mod 256 :: le_bytes k (x / 256) end.
Fixpoint le_val (l : bytes) : Z :=
  match l with [] => 0 | c :: r => c + 256 * le_val r end.
Definition u64_le (x : Z) : bytes := le_bytes 8 x.       (* to_le_bytes; also f64 bit patterns *)
Definition u32_be (x : Z) : bytes := rev (le_bytes 4 x). (* to_be_bytes *)
Definition be_val (l : bytes) : Z := le_val (rev l).

Definition two32 := 4294967296.
(** linear-time reversal (List.rev is quadratic when executed) *)
Definition frev {A} (l : list A) : list A := rev_append l [].

(** opcodes (enum RdbOpcode) *)
Definition OP_EOF := 255.
Definition OP_SELECTDB := 254.
Definition OP_EXPIRE_S := 253.
Definition OP_EXPIRE_MS := 252.
Definition OP_RESIZEDB := 251.
Definition OP_AUX := 250.
Definition T_STRING := 0.
Definition T_LIST := 1.
Definition T_SET := 2.
Definition T_ZSET := 3.
Definition T_HASH := 4.
Definition T_ZSET2 := 5.

Definition marker : bytes := bs "__FERROUS_STREAM_MARKER__".
Definition magic : bytes := bs "REDIS".
Definition version4 : bytes := bs "0009".        (* format!("{:04}", RDB_VERSION) *)

(** ------------------------------------------------------------------ *)
(** * Writer (RdbWriter) *)

(** write_length (rdb.rs:702-722): 6-bit, 14-bit, else 0x80 + (len as u32) big endian.
    [(len >> 8) & 0x3F | 0x40] is [len / 256 + 64] on 64..16383; [len as u32] wraps. *)
Definition write_length (n : Z) : bytes :=
  if n <=? 63 then [n]
  else if n <=? 16383 then [n / 256 + 64; n mod 256]
  else 128 :: u32_be (n mod two32).

Definition write_string (s : bytes) : bytes := write_length (len s) ++ s.

Definition write_aux (k v : bytes) : bytes := OP_AUX :: write_string k ++ write_string v.

Definition sid_text (i : sid) : bytes := print_nat (fst i) ++ [45] ++ print_nat (snd i).

Definition write_pair (p : bytes * bytes) : bytes := write_string (fst p) ++ write_string (snd p).
Definition write_zitem (p : bytes * Z) : bytes := write_string (fst p) ++ u64_le (snd p).
Definition write_sentry (e : sid * list (bytes * bytes)) : bytes :=
  write_string (sid_text (fst e)) ++ write_string (print_nat (len (snd e)))
  ++ flat_map write_pair (snd e).
(** total_items = 1 + sum (2 + 2 * fields) *)
Definition stream_items (es : list (sid * list (bytes * bytes))) : Z :=
  fold_right (fun e acc => 2 + 2 * len (snd e) + acc) 1 es.

(** a list that itself starts with the stream marker is written with the marker doubled (6aaeb35) *)
Definition list_escaped (l : list bytes) : bool :=
  match l with h :: _ => beq h marker | [] => false end.
(** the type byte, the key and the payload of write_key_value (rdb.rs:556-660) *)
Definition write_value (k : bytes) (v : value) : bytes :=
  match v with
  | VStr b => T_STRING :: write_string k ++ write_string b
  | VZSet z => T_ZSET :: write_string k ++ write_length (len z) ++ flat_map write_zitem z
  | VStream s => T_LIST :: write_string k ++ write_length (stream_items (s_entries s))
                 ++ write_string marker ++ flat_map write_sentry (s_entries s)
  | VList l => T_LIST :: write_string k ++ write_length (len l + (if list_escaped l then 1 else 0))
               ++ (if list_escaped l then write_string marker else []) ++ flat_map write_string l
  | VSet s => T_SET :: write_string k ++ write_length (len s) ++ flat_map write_string s
  | VHash h => T_HASH :: write_string k ++ write_length (len h) ++ flat_map write_pair h
  end.

(** [expiry_ms]: [u64::try_from(ttl.as_millis()).unwrap_or(u64::MAX)] saturating-added to the
    wall clock (745a34c) *)
Definition expiry_of (now wall t : Z) : Z := Z.min u64_max (wall + Z.min u64_max (t - now)).
(** one key of write_snapshot's loop: [storage.get_with_ttl] (880a648: value and remaining TTL
    under one lock acquisition; an expired or missing key is skipped), then write_key_value *)
Definition write_key (now wall : Z) (ke : bytes * entry) : bytes :=
  let (k, e) := ke in
  if expired now e then []
  else match e_exp e with
       | Some t => OP_EXPIRE_MS :: u64_le (expiry_of now wall t) ++ write_value k (e_val e)
       | None => write_value k (e_val e)
       end.

(** one database: nothing at all when it holds no key (expired-but-unswept keys count) *)
Definition write_db (now wall : Z) (i : Z) (d : db) : bytes :=
  match d_data d with
  | [] => []
  | _ => OP_SELECTDB :: write_length i ++ OP_RESIZEDB :: write_length (len (d_data d))
         ++ write_length (len (d_data d)) ++ flat_map (write_key now wall) (d_data d)
  end.

Fixpoint write_dbs (now wall : Z) (i : Z) (ds : list db) : bytes :=
  match ds with
  | [] => []
  | d :: r => write_db now wall i d ++ write_dbs now wall (i + 1) r
  end.

Definition byte_sum (l : bytes) : Z := fold_left Z.add l 0.

(** header, metadata, databases, EOF; then the "checksum" (wrapping byte sum) *)
Definition save_body (ver : bytes) (ctime now wall : Z) (ds : list db) : bytes :=
  magic ++ version4 ++ write_aux (bs "redis-ver") ver ++ write_aux (bs "ctime") (print_nat ctime)
  ++ write_dbs now wall 0 ds ++ [OP_EOF].
Definition save (ver : bytes) (ctime now wall : Z) (ds : list db) : bytes :=
  let b := save_body ver ctime now wall ds in b ++ u64_le (byte_sum b mod two64).

(** The writer has no panicking arithmetic left: the expiry saturates (745a34c) and a sorted set
    is written as the items taken once with THEIR count (e63a0b6; an empty one - not storable
    through the commands - is written with count 0 and is not restored).  Kept for the runner. *)
Definition save_panics (now wall : Z) (ds : list db) : bool := false.

(** the write_raw calls of one save are not modelled one by one here; Props/C10.v is
    stated for an arbitrary list of writes whose concatenation is [save ...]. *)

(** ------------------------------------------------------------------ *)
(** * Reader primitives (RdbReader).  State = unread input + ghost [r_resv]: the
      largest buffer the reader has asked the allocator for ([vec![0u8; len]] in
      read_string, rdb.rs:1016-1021). *)

Record rd := { r_in : bytes; r_resv : Z }.
Definition rres (A : Type) : Type := (option A * rd)%type.
Definition ret {A} (a : A) : rd -> rres A := fun s => (Some a, s).
Definition fail {A} : rd -> rres A := fun s => (None, s).
Definition bind {A B} (m : rd -> rres A) (f : A -> rd -> rres B) : rd -> rres B :=
  fun s => match m s with (Some a, s') => f a s' | (None, s') => (None, s') end.
Notation "x <- m ;; k" := (bind m (fun x => k)) (at level 61, m at next level, right associativity).
Notation "' p <- m ;; k" := (bind m (fun p => k)) (at level 61, p pattern, m at next level, right associativity).

(** first [n] bytes of [l] and the rest; None when fewer are present (read_exact) *)
Fixpoint take (l : bytes) (n : Z) : option (bytes * bytes) :=
  if n <=? 0 then Some ([], l) else
  match l with
  | [] => None
  | c :: r => match take r (n - 1) with Some (a, b) => Some (c :: a, b) | None => None end
  end.
Definition read_exact (n : Z) : rd -> rres bytes := fun s =>
  match take (r_in s) n with
  | Some (a, b) => (Some a, {| r_in := b; r_resv := r_resv s |})
  | None => (None, s)
  end.
Definition read_byte : rd -> rres Z := fun s =>
  match r_in s with
  | [] => (None, s)
  | c :: r => (Some c, {| r_in := r; r_resv := r_resv s |})
  end.
Definition reserve (n : Z) : rd -> rres unit := fun s =>
  (Some tt, {| r_in := r_in s; r_resv := Z.max (r_resv s) n |}).

Definition read_u32_be : rd -> rres Z := b <- read_exact 4 ;; ret (be_val b).
Definition read_u32_le : rd -> rres Z := b <- read_exact 4 ;; ret (le_val b).
Definition read_u64_le : rd -> rres Z := b <- read_exact 8 ;; ret (le_val b).

(** read_length (rdb.rs:998-1013): by the two top bits of the first byte *)
Definition read_length : rd -> rres Z :=
  first <- read_byte ;;
  let t := first / 64 in
  if t =? 0 then ret first
  else if t =? 1 then (second <- read_byte ;; ret ((first mod 64) * 256 + second))
  else if t =? 2 then read_u32_be
  else fail.

(** read_string (43b3590): [Vec::with_capacity(min(len, 64 KiB))], then
    [take(len).read_to_end]: the buffer grows (by doubling, plus read_to_end's 32-byte probe)
    only with the bytes actually read, [got] = min(len, bytes present); a short read is an error.
    Ghost: every request is at most [min(len, 65536)] or [2 * got + 32]. *)
Definition read_string : rd -> rres bytes :=
  n <- read_length ;; _ <- reserve (Z.min n 65536) ;;
  fun s => match take (r_in s) n with
           | Some (a, b) => (Some a, {| r_in := b; r_resv := Z.max (r_resv s) (2 * n + 32) |})
           | None => (None, {| r_in := []; r_resv := Z.max (r_resv s) (2 * len (r_in s) + 32) |})
           end.

(** [for _ in 0..n { read_string()? }]: every iteration consumes at least one byte, so
    [fuel >= length input] iterations suffice; the counter stays in Z (a corrupt count
    can be 2^32-1) *)
Fixpoint read_strings (fuel : nat) (n : Z) (acc : list bytes) : rd -> rres (list bytes) :=
  if n <=? 0 then ret (frev acc) else
  match fuel with
  | O => fail
  | S f => s <- read_string ;; read_strings f (n - 1) (s :: acc)
  end.
Fixpoint read_pairs (fuel : nat) (n : Z) (acc : list (bytes * bytes)) : rd -> rres (list (bytes * bytes)) :=
  if n <=? 0 then ret (frev acc) else
  match fuel with
  | O => fail
  | S f => a <- read_string ;; b <- read_string ;; read_pairs f (n - 1) ((a, b) :: acc)
  end.

(** ------------------------------------------------------------------ *)
(** * The storage API as the loader uses it *)

(** f64 on bit patterns: partial_cmp without NaN is the order of sign-magnitude integers
    (with -0 = +0); NaN = exponent all ones, mantissa non-zero *)
Definition two63 := 9223372036854775808.
Definition f_inf := 9218868437227405312.     (* 0x7ff0000000000000 *)
Definition f_mag (b : Z) : Z := if b <? two63 then b else b - two63.
Definition f_nan (b : Z) : bool := f_inf <? f_mag b.
Definition f_ord (b : Z) : Z := if b <? two63 then b else - (b - two63).
Definition f_cmp (a b : Z) : option comparison :=
  if f_nan a || f_nan b then None else Some (f_ord a ?= f_ord b).
Definition f_eqb (a b : Z) : bool := match f_cmp a b with Some Eq => true | _ => false end.

(** skiplist.rs compare_nodes: (score, member); NaN sorts after everything *)
Definition cmp_nodes (v1 : Z) (k1 : bytes) (v2 : Z) (k2 : bytes) : comparison :=
  match f_cmp v1 v2 with
  | Some Eq => bcmp k1 k2
  | Some c => c
  | None => if f_nan v1 && f_nan v2 then bcmp k1 k2 else if f_nan v1 then Gt else Lt
  end.
(** insert_new_node: before the first node that is not Less than the new one *)
Fixpoint zs_place (m : bytes) (sc : Z) (z : list (bytes * Z)) : list (bytes * Z) :=
  match z with
  | [] => [(m, sc)]
  | (m', sc') :: r =>
      match cmp_nodes sc' m' sc m with
      | Lt => (m', sc') :: zs_place m sc r
      | _ => (m, sc) :: z
      end
  end.
Fixpoint zs_score (m : bytes) (z : list (bytes * Z)) : option Z :=
  match z with [] => None | (m', sc) :: r => if beq m m' then Some sc else zs_score m r end.
(** remove_node_by_score removes the node only if [node.value == score] (false for NaN) *)
Fixpoint zs_unlink (m : bytes) (z : list (bytes * Z)) : list (bytes * Z) :=
  match z with
  | [] => []
  | (m', sc) :: r => if beq m m' then r else (m', sc) :: zs_unlink m r
  end.
Definition zs_insert (m : bytes) (sc : Z) (z : list (bytes * Z)) : list (bytes * Z) :=
  match zs_score m z with
  | Some old => zs_place m sc (if f_nan old then z else zs_unlink m z)
  | None => zs_place m sc z
  end.

(** HashSet / HashMap insertion: a new element goes to the end of the enumeration, an
    existing field keeps its place (the order is unobservable; fixed here so that the
    round-trip is an equation) *)
Definition s_ins (s : list bytes) (x : bytes) : list bytes := if bmem x s then s else s ++ [x].
Fixpoint h_ins (h : list (bytes * bytes)) (f v : bytes) : list (bytes * bytes) :=
  match h with
  | [] => [(f, v)]
  | (f', v') :: r => if beq f f' then (f', v) :: r else (f', v') :: h_ins r f v
  end.
Definition h_ins_all (h : list (bytes * bytes)) (l : list (bytes * bytes)) : list (bytes * bytes) :=
  fold_left (fun h p => h_ins h (fst p) (snd p)) l h.

Definition ndb := 16.
Definition get_dbi (ds : list db) (i : Z) : option db :=
  if (i <? 0) || (ndb <=? i) then None else nth_error ds (Z.to_nat i).
Fixpoint set_nth {A} (l : list A) (i : nat) (x : A) : list A :=
  match l, i with
  | [], _ => []
  | _ :: r, O => x :: r
  | y :: r, S i' => y :: set_nth r i' x
  end.
Definition set_dbi (ds : list db) (i : Z) (d : db) : list db := set_nth ds (Z.to_nat i) d.

(** result of one storage call: None = Err (InvalidDatabase / WrongType) *)
Definition keep_exp (d : db) (k : bytes) (v : value) (e : entry) : db :=
  put_entry d k {| e_val := v; e_exp := e_exp e |}.
Definition new_key (d : db) (k : bytes) (v : value) : db :=
  put_entry d k {| e_val := v; e_exp := None |}.

Definition api_set (now : Z) (ds : list db) (i : Z) (k v : bytes) (ttl : option Z) : option (list db) :=
  match get_dbi ds i with
  | Some d => Some (set_dbi ds i (set_value now d k (VStr v) ttl))
  | None => None
  end.
(** zadd refuses a NaN score before anything else (engine.rs, after the repair of the
    NaN-node defect) *)
Definition api_set_value (now : Z) (ds : list db) (i : Z) (k : bytes) (v : value) (ttl : option Z) : option (list db) :=
  match get_dbi ds i with
  | Some d => Some (set_dbi ds i (set_value now d k v ttl))
  | None => None
  end.
Definition api_zadd (ds : list db) (i : Z) (k m : bytes) (sc : Z) : option (list db) :=
  if f_nan sc then None else
  match get_dbi ds i with
  | Some d =>
      match get_entry d k with
      | Some e => match e_val e with
                  | VZSet z => Some (set_dbi ds i (keep_exp d k (VZSet (zs_insert m sc z)) e))
                  | _ => None
                  end
      | None => Some (set_dbi ds i (new_key d k (VZSet [(m, sc)])))
      end
  | None => None
  end.
(** rpush of one or more elements *)
Definition api_rpush (ds : list db) (i : Z) (k : bytes) (els : list bytes) : option (list db) :=
  match get_dbi ds i with
  | Some d =>
      match get_entry d k with
      | Some e => match e_val e with
                  | VList l => Some (set_dbi ds i (keep_exp d k (VList (l ++ els)) e))
                  | _ => None
                  end
      | None => Some (set_dbi ds i (new_key d k (VList els)))
      end
  | None => None
  end.
(** sadd: creates the key even for an empty member vector *)
Definition api_sadd (ds : list db) (i : Z) (k : bytes) (ms : list bytes) : option (list db) :=
  match get_dbi ds i with
  | Some d =>
      match get_entry d k with
      | Some e => match e_val e with
                  | VSet s => Some (set_dbi ds i (keep_exp d k (VSet (fold_left s_ins ms s)) e))
                  | _ => None
                  end
      | None => Some (set_dbi ds i (new_key d k (VSet (fold_left s_ins ms []))))
      end
  | None => None
  end.
Definition api_hset (ds : list db) (i : Z) (k : bytes) (fv : list (bytes * bytes)) : option (list db) :=
  match get_dbi ds i with
  | Some d =>
      match get_entry d k with
      | Some e => match e_val e with
                  | VHash h => Some (set_dbi ds i (keep_exp d k (VHash (h_ins_all h fv)) e))
                  | _ => None
                  end
      | None => Some (set_dbi ds i (new_key d k (VHash (h_ins_all [] fv))))
      end
  | None => None
  end.
(** a stream without consumer groups whose atomics (last_id_millis / last_id_seq) equal [last]
    and whose length counter is [n] *)
Definition mkstream (es : list (sid * list (bytes * bytes))) (last : sid) (n : Z) : stream :=
  {| s_entries := es; s_last := last; s_ams := fst last; s_aseq := snd last; s_len := n; s_groups := [] |}.
(** xadd_with_id + Stream::add_with_id: the ID must exceed last_id (0-0 for a new stream; the
    duplicate test by binary search that follows in the code cannot succeed once the ID exceeds
    last_id in a stream built by add_with_id);
    None = Err (invalid database, wrong type, ID not above last_id) *)
Definition api_xadd_r (ds : list db) (i : Z) (k : bytes) (id : sid) (fields : list (bytes * bytes)) : option (list db) :=
  match get_dbi ds i with
  | Some d =>
      match get_entry d k with
      | Some e => match e_val e with
                  | VStream s =>
                      if sid_leb id (s_last s) then None
                      else Some (set_dbi ds i (keep_exp d k (VStream {| s_entries := s_entries s ++ [(id, fields)];
                                                                        s_last := id; s_ams := fst id; s_aseq := snd id;
                                                                        s_len := s_len s + 1; s_groups := s_groups s |}) e))
                  | _ => None
                  end
      | None => if sid_leb id (0, 0) then None
                else Some (set_dbi ds i (new_key d k (VStream (mkstream [(id, fields)] id 1))))
      end
  | None => None
  end.
(** the loader ignores the result ([let _ = storage.xadd_with_id(..)]) *)
Definition api_xadd (ds : list db) (i : Z) (k : bytes) (id : sid) (fields : list (bytes * bytes)) : list db :=
  match api_xadd_r ds i k id fields with Some ds' => ds' | None => ds end.
(** expire: Err only for an invalid database; Ok(false) when the key is missing *)
Definition api_expire (now : Z) (ds : list db) (i : Z) (k : bytes) (ttl : Z) : option (list db) :=
  match get_dbi ds i with
  | Some d => Some (set_dbi ds i (snd (eng_expire now d k ttl)))
  | None => None
  end.
Definition api_expire_opt (now : Z) (ds : list db) (i : Z) (k : bytes) (ttl : option Z) : option (list db) :=
  match ttl with Some t => api_expire now ds i k t | None => Some ds end.

(** StreamId::from_string: the first '-' splits; both halves must be non-empty, digits only and
    fit u64 (checked arithmetic since the repair of the wrapping parse); not UTF-8 => "" => None
    (a non-digit byte fails anyway) *)
Fixpoint split_dash (l : bytes) : option (bytes * bytes) :=
  match l with
  | [] => None
  | c :: r => if c =? 45 then Some ([], r)
              else match split_dash r with Some (a, b) => Some (c :: a, b) | None => None end
  end.
Fixpoint parse_u64_go (l : bytes) (acc : Z) : option Z :=
  match l with
  | [] => Some acc
  | c :: r => if is_digit c
              then (let v := acc * 10 + (c - 48) in if v <? two64 then parse_u64_go r v else None)
              else None
  end.
Definition parse_u64_fast (l : bytes) : option Z :=
  match l with [] => None | _ => parse_u64_go l 0 end.
Definition sid_of_text (l : bytes) : option sid :=
  match split_dash l with
  | Some (a, b) => match parse_u64_fast a, parse_u64_fast b with
                   | Some ms, Some sq => Some (ms, sq)
                   | _, _ => None
                   end
  | None => None
  end.

(** ------------------------------------------------------------------ *)
(** * Loader (load_into, read_key_value_with_expiry, read_key_value_with_type) *)

Inductive lstatus := LOk | LErr | LPanic.

(** state of the load: reader + the databases loaded so far + panic flag *)
Record lst := { l_rd : rd; l_dbs : list db }.

(** outcome of one step *)
Inductive step A := SOk (a : A) (s : rd) (ds : list db) | SErr (s : rd) (ds : list db) | SPanic (s : rd) (ds : list db).
Arguments SOk {A}. Arguments SErr {A}. Arguments SPanic {A}.

(** stream reconstruction loop (rdb.rs); [pre]: the ID string of the first entry, already read
    while telling a stream from a list that starts with the marker.  An entry takes two strings
    (ID, field count) and its pairs (31c6d8d: [entry_idx + 2 > remaining] breaks); the field
    count's arithmetic is checked (bcfe7be): an overflow is "not enough data" *)
Fixpoint load_stream (fuel : nat) (ds : list db) (i : Z) (k : bytes)
         (idx remaining : Z) (pre : option bytes) (s : rd) : step unit :=
  match fuel with
  | O => SErr s ds
  | S f =>
    if remaining <=? idx then SOk tt s ds else
    if remaining <? idx + 2 then SOk tt s ds else             (* break: not enough for an entry *)
    match (match pre with Some id => (Some id, s) | None => read_string s end) with
    | (None, s1) => SErr s1 ds
    | (Some id_str, s1) =>
      match read_string s1 with
      | (None, s2) => SErr s2 ds
      | (Some fc_str, s2) =>
        let idx2 := idx + 2 in
        let fc := match parse_usize fc_str with Some n => n | None => 0 end in
        if (two64 <=? idx2 + fc * 2) || (remaining <? idx2 + fc * 2) then SOk tt s2 ds else   (* break *)
        match read_pairs (S (length (r_in s2))) fc [] s2 with
        | (None, s3) => SErr s3 ds
        | (Some fv, s3) =>
            let ds' := match sid_of_text id_str with
                       | Some id => api_xadd ds i k id (h_ins_all [] fv)
                       | None => ds
                       end in
            load_stream f ds' i k (idx2 + 2 * fc) remaining None s3
        end
      end
    end
  end.

Definition lift_api {A} (a : A) (s : rd) (ds : list db) (r : option (list db)) : step A :=
  match r with Some ds' => SOk a s ds' | None => SErr s ds end.

(** the sorted-set loop: [for _ in 0..count { member; score; storage.zadd(..)? }] - any zadd
    can fail (invalid database or wrong type at the first item, a NaN score at any item) and
    the loader returns there, keeping what was inserted before *)
Fixpoint load_zitems (fuel : nat) (n : Z) (ds : list db) (i : Z) (k : bytes) (s : rd) : step unit :=
  if n <=? 0 then SOk tt s ds else
  match fuel with
  | O => SErr s ds
  | S f =>
    match read_string s with
    | (None, s1) => SErr s1 ds
    | (Some m, s1) =>
      match read_u64_le s1 with
      | (None, s2) => SErr s2 ds
      | (Some sc, s2) =>
        match api_zadd ds i k m sc with
        | None => SErr s2 ds
        | Some ds' => load_zitems f (n - 1) ds' i k s2
        end
      end
    end
  end.
(** the elements read before a short read have already been inserted: the same loop,
    returning what was read together with the failure *)
Fixpoint read_strings_partial (fuel : nat) (n : Z) (acc : list bytes) (s : rd)
  : list bytes * bool * rd :=
  if n <=? 0 then (frev acc, true, s) else
  match fuel with
  | O => (frev acc, false, s)
  | S f => match read_string s with
           | (None, s1) => (frev acc, false, s1)
           | (Some x, s1) => read_strings_partial f (n - 1) (x :: acc) s1
           end
  end.

(** read_key_value_with_type (rdb.rs:843-982) *)
Definition load_kv (now : Z) (ds : list db) (i : Z) (vt : Z) (ttl : option Z) (s : rd) : step unit :=
  let fuel := S (length (r_in s)) in
  if vt =? T_STRING then
    match read_string s with
    | (None, s1) => SErr s1 ds
    | (Some k, s1) =>
      match read_string s1 with
      | (None, s2) => SErr s2 ds
      | (Some v, s2) => lift_api tt s2 ds (api_set now ds i k v ttl)
      end
    end
  else if (vt =? T_ZSET) || (vt =? T_ZSET2) then
    match read_string s with
    | (None, s1) => SErr s1 ds
    | (Some k, s1) =>
      match read_length s1 with
      | (None, s2) => SErr s2 ds
      | (Some n, s2) =>
        match load_zitems fuel n ds i k s2 with
        | SOk _ s3 ds1 => lift_api tt s3 ds1 (api_expire_opt now ds1 i k ttl)
        | r => r
        end
      end
    end
  else if vt =? T_LIST then
    match read_string s with
    | (None, s1) => SErr s1 ds
    | (Some k, s1) =>
      match read_length s1 with
      | (None, s2) => SErr s2 ds
      | (Some n, s2) =>
        if 1 <=? n then
          match read_string s2 with
          | (None, s3) => SErr s3 ds
          | (Some first, s3) =>
            (* marker twice = a list that starts with the marker: the first one is dropped;
               marker then something else = a stream, that string is its first ID *)
            let look :=
              if beq first marker && (2 <=? n) then
                match read_string s3 with
                | (None, s4) => (None, s4)
                | (Some second, s4) =>
                    if beq second marker then (Some (false, n - 1, None), s4)
                    else (Some (true, n, Some second), s4)
                end
              else (Some (beq first marker, n, None), s3) in
            match look with
            | (None, s4) => SErr s4 ds
            | (Some (is_stream, n', pre), s4) =>
              if is_stream then
                (* the key exists even when no entry follows (1a77fe9) *)
                match api_set_value now ds i k (VStream (mkstream [] (0, 0) 0)) None with
                | None => SErr s4 ds
                | Some ds0 =>
                  match load_stream fuel ds0 i k 0 (n' - 1) pre s4 with
                  | SOk _ s5 ds1 => lift_api tt s5 ds1 (api_expire_opt now ds1 i k ttl)
                  | r => r
                  end
                end
              else
                match api_rpush ds i k [first] with
                | None => SErr s4 ds
                | Some ds1 =>
                  match read_strings_partial fuel (n' - 1) [] s4 with
                  | (els, ok, s5) =>
                    match (match els with [] => Some ds1 | _ => api_rpush ds1 i k els end) with
                    | None => SErr s5 ds1
                    | Some ds2 =>
                        if ok then lift_api tt s5 ds2 (api_expire_opt now ds2 i k ttl) else SErr s5 ds2
                    end
                  end
                end
            end
          end
        else lift_api tt s2 ds (api_expire_opt now ds i k ttl)
      end
    end
  else if vt =? T_SET then
    match read_string s with
    | (None, s1) => SErr s1 ds
    | (Some k, s1) =>
      match read_length s1 with
      | (None, s2) => SErr s2 ds
      | (Some n, s2) =>
        match read_strings fuel n [] s2 with
        | (None, s3) => SErr s3 ds
        | (Some ms, s3) =>
          match api_sadd ds i k ms with
          | None => SErr s3 ds
          | Some ds1 => lift_api tt s3 ds1 (api_expire_opt now ds1 i k ttl)
          end
        end
      end
    end
  else if vt =? T_HASH then
    match read_string s with
    | (None, s1) => SErr s1 ds
    | (Some k, s1) =>
      match read_length s1 with
      | (None, s2) => SErr s2 ds
      | (Some n, s2) =>
        match read_pairs fuel n [] s2 with
        | (None, s3) => SErr s3 ds
        | (Some fv, s3) =>
          match api_hset ds i k fv with
          | None => SErr s3 ds
          | Some ds1 => lift_api tt s3 ds1 (api_expire_opt now ds1 i k ttl)
          end
        end
      end
    end
  else SErr s ds.

(** read_key_value_with_expiry: "already expired" => ttl = Some(ZERO) (e11d87f): the key is
    inserted with the deadline "now": expired for every reader *)
Definition load_kv_expiry (now wall : Z) (ds : list db) (i : Z) (expiry : Z) (s : rd) : step unit :=
  match read_byte s with
  | (None, s1) => SErr s1 ds
  | (Some vt, s1) =>
      let ttl := if wall <? expiry then Some (expiry - wall) else Some 0 in
      load_kv now ds i vt ttl s1
  end.

(** the opcode loop of load_into; [cur] = current_db *)
Fixpoint load_loop (now wall : Z) (fuel : nat) (cur : Z) (ds : list db) (s : rd)
  : lstatus * list db * rd :=
  match fuel with
  | O => (LErr, ds, s)
  | S f =>
    match read_byte s with
    | (None, s1) => (LErr, ds, s1)
    | (Some op, s1) =>
      if op =? OP_EOF then
        match read_u64_le s1 with
        | (Some _, s2) => (LOk, ds, s2)
        | (None, s2) => (LErr, ds, s2)
        end
      else if op =? OP_SELECTDB then
        match read_length s1 with
        | (Some n, s2) => load_loop now wall f n ds s2
        | (None, s2) => (LErr, ds, s2)
        end
      else if op =? OP_RESIZEDB then
        match (_ <- read_length ;; read_length) s1 with
        | (Some _, s2) => load_loop now wall f cur ds s2
        | (None, s2) => (LErr, ds, s2)
        end
      else if op =? OP_AUX then
        match (_ <- read_string ;; read_string) s1 with
        | (Some _, s2) => load_loop now wall f cur ds s2
        | (None, s2) => (LErr, ds, s2)
        end
      else
        let r := if op =? OP_EXPIRE_MS then
                   match read_u64_le s1 with
                   | (Some e, s2) => load_kv_expiry now wall ds cur e s2
                   | (None, s2) => SErr s2 ds
                   end
                 else if op =? OP_EXPIRE_S then
                   match read_u32_le s1 with
                   | (Some e, s2) => load_kv_expiry now wall ds cur (e * 1000) s2
                   | (None, s2) => SErr s2 ds
                   end
                 else load_kv now ds cur op None s1 in
        match r with
        | SOk _ s2 ds' => load_loop now wall f cur ds' s2
        | SErr s2 ds' => (LErr, ds', s2)
        | SPanic s2 ds' => (LPanic, ds', s2)
        end
    end
  end.

(** read_header: "REDIS" + 4 bytes that parse as u16 (from_utf8_lossy: a non-ASCII byte is
    not a digit either way) *)
Definition read_header : rd -> rres unit :=
  m <- read_exact 5 ;;
  if negb (beq m magic) then fail else
  v <- read_exact 4 ;;
  match parse_unsigned 65535 v with Some _ => ret tt | None => fail end.

Definition empty_dbs : list db := repeat empty_db 16.

(** RdbEngine::load into the databases [ds0] (a fresh engine: [empty_dbs]) *)
Definition load_from (now wall : Z) (ds0 : list db) (b : bytes) : lstatus * list db * rd :=
  let s0 := {| r_in := b; r_resv := 0 |} in
  match read_header s0 with
  | (None, s1) => (LErr, ds0, s1)
  | (Some _, s1) => load_loop now wall (S (length b)) 0 ds0 s1
  end.
Definition load (now wall : Z) (b : bytes) : lstatus * list db * rd :=
  load_from now wall empty_dbs b.

Definition load_status (r : lstatus * list db * rd) : lstatus := fst (fst r).
Definition load_dbs (r : lstatus * list db * rd) : list db := snd (fst r).
Definition load_resv (r : lstatus * list db * rd) : Z := r_resv (snd r).

(** ------------------------------------------------------------------ *)
(** * Number of write calls of one save (write_raw calls + the final flush): the indices
      the fail-the-n-th-write hook (patches/hook-rdb-failat.diff) ranges over *)
Definition calls_length (n : Z) : Z := if n <=? 63 then 1 else 2.
Definition calls_string (s : bytes) : Z := calls_length (len s) + 1.
Definition zsum {A} (f : A -> Z) (l : list A) : Z := fold_left (fun acc x => acc + f x) l 0.
Definition calls_pair (p : bytes * bytes) : Z := calls_string (fst p) + calls_string (snd p).
Definition calls_value (k : bytes) (v : value) : Z :=
  1 + calls_string k +
  match v with
  | VStr b => calls_string b
  | VZSet z => calls_length (len z) + zsum (fun p => calls_string (fst p) + 1) z
  | VStream s => calls_length (stream_items (s_entries s)) + calls_string marker
                 + zsum (fun e => calls_string (sid_text (fst e)) + calls_string (print_nat (len (snd e)))
                                  + zsum calls_pair (snd e)) (s_entries s)
  | VList l => calls_length (len l + (if list_escaped l then 1 else 0))
               + (if list_escaped l then calls_string marker else 0) + zsum calls_string l
  | VSet s => calls_length (len s) + zsum calls_string s
  | VHash h => calls_length (len h) + zsum calls_pair h
  end.
Definition calls_key (now : Z) (ke : bytes * entry) : Z :=
  if expired now (snd ke) then 0
  else (match e_exp (snd ke) with Some _ => 2 | None => 0 end) + calls_value (fst ke) (e_val (snd ke)).
Fixpoint calls_dbs (now : Z) (i : Z) (ds : list db) : Z :=
  match ds with
  | [] => 0
  | d :: r =>
      (match d_data d with
       | [] => 0
       | _ => 1 + calls_length i + 1 + 2 * calls_length (len (d_data d)) + zsum (calls_key now) (d_data d)
       end) + calls_dbs now (i + 1) r
  end.
Definition calls_save (ver : bytes) (ctime now : Z) (ds : list db) : Z :=
  2 + (1 + calls_string (bs "redis-ver") + calls_string ver)
    + (1 + calls_string (bs "ctime") + calls_string (print_nat ctime))
    + calls_dbs now 0 ds + 1 + 1 + 1.

(** ------------------------------------------------------------------ *)
(** * The decidable guard of the round-trip theorem (Props/C09.v) and the dataset a
      restart yields.  The executable tie (Model/RunRdb.v, ISAVE) uses the same guard. *)
Fixpoint nodupb (l : list bytes) : bool :=
  match l with [] => true | x :: r => negb (bmem x r) && nodupb r end.
Definition lt32 (n : Z) : bool := n <? two32.
Definition str_ok (b : bytes) : bool := lt32 (len b).
Definition pair_ok (p : bytes * bytes) : bool := str_ok (fst p) && str_ok (snd p).
Definition u64b (z : Z) : bool := (0 <=? z) && (z <? two64).

Fixpoint zlist_eqb (a b : list (bytes * Z)) : bool :=
  match a, b with
  | [], [] => true
  | (m, s) :: a', (m', s') :: b' => beq m m' && (s =? s') && zlist_eqb a' b'
  | _, _ => false
  end.
(** a sorted set as the skip list holds it: inserting its items one by one rebuilds it
    (sorted by (score, member) with NaN last, no member twice) *)
Definition zs_rebuild (z : list (bytes * Z)) : list (bytes * Z) :=
  fold_left (fun acc p => zs_insert (fst p) (snd p) acc) z [].
Definition zs_canonical (z : list (bytes * Z)) : bool := zlist_eqb (zs_rebuild z) z.

(** stream IDs strictly increasing, above [last], components u64 *)
Fixpoint sids_ok (last : sid) (es : list (sid * list (bytes * bytes))) : bool :=
  match es with
  | [] => true
  | e :: r => negb (sid_leb (fst e) last) && u64b (fst (fst e)) && u64b (snd (fst e)) && sids_ok (fst e) r
  end.
Definition sentry_ok (e : sid * list (bytes * bytes)) : bool :=
  forallb pair_ok (snd e) && nodupb (map fst (snd e)).
Definition value_ok (v : value) : bool :=
  match v with
  | VStr b => str_ok b
  | VList l => lt32 (len l + 1) && forallb str_ok l && negb (len l =? 0)
  | VSet s => lt32 (len s) && forallb str_ok s && nodupb s
  | VHash h => lt32 (len h) && forallb pair_ok h && nodupb (map fst h)
  | VZSet z => lt32 (len z) && forallb (fun p => str_ok (fst p) && u64b (snd p) && negb (f_nan (snd p))) z
               && negb (len z =? 0) && zs_canonical z
  | VStream s => lt32 (stream_items (s_entries s))
                 && sids_ok (0, 0) (s_entries s) && forallb sentry_ok (s_entries s)
  end.
(** A key already expired at the save is simply not written; a live key must be well formed
    and its expiry must fit u64 (it saturates otherwise).  [wl] (wall clock at the load) is no
    longer constrained: a deadline that passes during the downtime is handled by [shift]. *)
Definition entry_ok (now ws wl : Z) (ke : bytes * entry) : bool :=
  expired now (snd ke)
  || (str_ok (fst ke) && value_ok (e_val (snd ke))
      && match e_exp (snd ke) with
         | Some t => ws + (t - now) <? two64
         | None => true
         end).
Definition db_ok (now ws wl : Z) (d : db) : bool :=
  lt32 (len (d_data d)) && nodupb (map fst (d_data d)) && forallb (entry_ok now ws wl) (d_data d).
Definition rt_guard (now ws wl : Z) (ds : list db) : bool :=
  Nat.eqb (length ds) 16 && forallb (db_ok now ws wl) ds.

(** what is not persisted: consumer groups, last_id (and the ID atomics) beyond the last entry;
    the length counter is rebuilt from the entries *)
Fixpoint last_sid (dflt : sid) (es : list (sid * list (bytes * bytes))) : sid :=
  match es with [] => dflt | e :: r => last_sid (fst e) r end.
Definition norm_value (v : value) : value :=
  match v with
  | VStream s => VStream (mkstream (s_entries s) (last_sid (0, 0) (s_entries s)) (len (s_entries s)))
  | _ => v
  end.
(** the deadline on the clock of the restarted engine ([now'] at the load); a deadline that
    passed during the downtime becomes [now']: already expired *)
Definition shift (now now' ws wl t : Z) : Z := now' + Z.max 0 (ws + (t - now) - wl).
Definition aged_entry (now now' ws wl : Z) (e : entry) : entry :=
  {| e_val := norm_value (e_val e);
     e_exp := match e_exp e with Some t => Some (shift now now' ws wl t) | None => None end |}.
Definition live_keys (now : Z) (d : db) : list (bytes * entry) :=
  filter (fun ke => negb (expired now (snd ke))) (d_data d).
Definition aged_db (now now' ws wl : Z) (d : db) : db :=
  {| d_data := rev (map (fun ke => (fst ke, aged_entry now now' ws wl (snd ke))) (live_keys now d));
     d_index := rev (flat_map (fun ke => match e_exp (snd ke) with
                                         | Some t => [(fst ke, shift now now' ws wl t)]
                                         | None => [] end) (live_keys now d)) |}.

(** ------------------------------------------------------------------ *)
(** * The dump file on disk (RdbEngine::save, rdb.rs:136-160): write everything to
      <file>.tmp (created/truncated), flush, rename over the dump.  A save is a list of
      write calls (the flush counts as the last one); [failat = Some k] = the k-th call
      (0-based) fails, [open_fails] = the temporary file cannot be created. *)
Record disk := { dk_dump : option bytes; dk_tmp : option bytes }.

Fixpoint do_writes (ws : list bytes) (failat : option nat) (acc : bytes) : bytes * bool :=
  match ws with
  | [] => (acc, true)
  | w :: r =>
      match failat with
      | Some O => (acc, false)
      | Some (S k) => do_writes r (Some k) (acc ++ w)
      | None => do_writes r None (acc ++ w)
      end
  end.

Definition save_run (ws : list bytes) (failat : option nat) (open_fails rename_fails : bool) (d : disk) : disk * bool :=
  if open_fails then (d, false) else
  match do_writes ws failat [] with
  | (b, true) => if rename_fails then ({| dk_dump := dk_dump d; dk_tmp := Some b |}, false)
                 else ({| dk_dump := Some b; dk_tmp := None |}, true)
  | (b, false) => ({| dk_dump := dk_dump d; dk_tmp := Some b |}, false)
  end.

(** one save attempt of a history *)
Record attempt := { a_writes : list bytes; a_failat : option nat; a_open_fails : bool; a_rename_fails : bool }.
Definition run_attempt (d : disk) (a : attempt) : disk :=
  fst (save_run (a_writes a) (a_failat a) (a_open_fails a) (a_rename_fails a) d).

(** ------------------------------------------------------------------ *)
(** * Foreground and background saves (RdbEngine::save / bgsave, rdb.rs:136-192; the auto-save
      monitor, monitor.rs:71-121, calls bgsave and consults is_bgsave_in_progress).
      bgsave: refused while [bgsave_in_progress]; otherwise the flag is set and a thread runs
      [save]; the thread clears the flag after the [match] on the save's result, i.e. on success
      AND on failure ([rdb_bgsave_clears_flag_after_match], regenerated from rdb.rs).
      Events: a foreground save runs as a whole; a background save starts ([EvBgStart]) and
      later finishes ([EvBgEnd]).  (Interleaved writes of a SAVE and a BGSAVE into the one
      temporary file, and a save thread that panics, are not modelled: class save-race.) *)
Record pstate := { ps_disk : disk; ps_flag : bool; ps_running : option attempt }.
Inductive sv_event := EvSave (a : attempt) | EvBgStart (a : attempt) | EvBgEnd.
Definition ps_init (d : disk) : pstate := {| ps_disk := d; ps_flag := false; ps_running := None |}.
Definition ps_step (s : pstate) (e : sv_event) : pstate :=
  match e with
  | EvSave a => {| ps_disk := run_attempt (ps_disk s) a; ps_flag := ps_flag s; ps_running := ps_running s |}
  | EvBgStart a =>
      if ps_flag s then s        (* Err "Background save already in progress" *)
      else {| ps_disk := ps_disk s; ps_flag := true; ps_running := Some a |}
  | EvBgEnd =>
      match ps_running s with
      | Some a => {| ps_disk := run_attempt (ps_disk s) a; ps_flag := false; ps_running := None |}
      | None => s
      end
  end.
Definition bg_accepted (s : pstate) : bool := negb (ps_flag s).
Definition ev_attempts (e : sv_event) : list attempt :=
  match e with EvSave a => [a] | EvBgStart a => [a] | EvBgEnd => [] end.

(** ------------------------------------------------------------------ *)
(** * C10 (2): one key under a save that runs beside the command thread (write_snapshot).
      The save thread reads the key ONCE: [storage.get_with_ttl] returns the value (a deep clone;
      a sorted set's items are taken once, under the skip list's lock, together with their count)
      and the deadline under one acquisition of the shard lock (880a648, e63a0b6).  Client
      commands are atomic with respect to that read; [before] run before it during the save,
      [after] after it. *)
Definition kstate := option (value * option Z).          (* absent | (value, deadline) *)
Inductive cev := CSet (v : value) (dl : option Z) | CExpire (dl : Z) | CPersist | CDel.
Definition cstep (s : kstate) (c : cev) : kstate :=
  match c with
  | CSet v dl => Some (v, dl)
  | CExpire dl => match s with Some (v, _) => Some (v, Some dl) | None => None end
  | CPersist => match s with Some (v, _) => Some (v, None) | None => None end
  | CDel => None
  end.
(** what the save writes for the key: its state at the read, nothing if it is absent or past
    its deadline then ([now] = the engine clock at the read) *)
Definition snapshot_key (now : Z) (s0 : kstate) (before after : list cev) : kstate :=
  match fold_left cstep before s0 with
  | Some (v, Some dl) => if dl <=? now then None else Some (v, Some dl)
  | x => x
  end.
(** the states the key goes through during the save *)
Fixpoint states_of (s : kstate) (l : list cev) : list kstate :=
  match l with [] => [s] | c :: r => s :: states_of (cstep s c) r end.
