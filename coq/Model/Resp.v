(** Model of src/protocol/{resp,parser,serializer}.rs (RESP2/RESP3 codec).
    Code-shaped: same order of tests as the Rust functions.  No proofs here. *)
From Ferrous Require Import Base.Bytes.
Open Scope Z_scope.

Inductive frame :=
| FSimple (b : bytes)
| FError (b : bytes)
| FInt (z : Z)
| FBulk (b : bytes)
| FNullBulk
| FArray (l : list frame)
| FNullArray
| FNoResponse
| FNull
| FBool (b : bool)
| FDouble (bits : Z)                (* IEEE-754 bit pattern of the f64 *)
| FMap (kvs : list frame)           (* k1 v1 k2 v2 ...; Vec<(RespFrame,RespFrame)> flattened *)
| FSet (l : list frame).

(** parser.rs:MAX_NESTING_DEPTH = 32: depths 0..=32 accepted, i.e. 33 levels *)
Definition max_levels : nat := 33.

Inductive pres := Done (f : frame) (rest : bytes) | More | Err.
Inductive seqres := SDone (fs : list frame) (rest : bytes) | SMore | SErr.

Section Resp.
(** Oracles for Rust std's decimal <-> f64 conversion (trusted base):
    [dparse line] = bits of [line.parse::<f64>()], [dprint bits] = [f.to_string()] *)
Variable dparse : bytes -> option Z.
Variable dprint : Z -> bytes.

(** the `for _ in 0..len` loops of parse_array / parse_map / parse_set.
    fuel: every successful element consumes at least one byte, so
    [S (length data)] iterations always suffice (Proofs/RespFacts.v: parse_seq_fuel). *)
Fixpoint parse_seq (pf : bytes -> pres) (fuel : nat) (n : Z) (data : bytes)
         (acc : list frame) : seqres :=
  if n <=? 0 then SDone (rev acc) data else
  match fuel with
  | O => SMore
  | S fuel' =>
      match pf data with
      | Done f rest => parse_seq pf fuel' (n - 1) rest (f :: acc)
      | More => SMore
      | Err => SErr
      end
  end.

Definition parse_bulk_body (n : Z) (rest : bytes) : pres :=
  if len rest <? n + 2 then More
  else match zskipn n rest with
       | c1 :: c2 :: rest' =>
           if (c1 =? 13) && (c2 =? 10) then Done (FBulk (zfirstn n rest)) rest' else Err
       | _ => More (* unreachable: len rest >= n + 2 *)
       end.

Fixpoint parse_frame (d : nat) (data : bytes) : pres :=
  match d with
  | O => Err                                   (* "RESP nesting too deep" *)
  | S d' =>
  match data with
  | [] => More
  | t :: body =>
    if t =? 43 then                            (* '+' *)
      match split_crlf body with
      | None => More
      | Some (line, rest) => Done (FSimple line) rest
      end
    else if t =? 45 then                       (* '-' *)
      match split_crlf body with
      | None => More
      | Some (line, rest) => Done (FError line) rest
      end
    else if t =? 58 then                       (* ':' *)
      match split_crlf body with
      | None => More
      | Some (line, rest) =>
          match parse_i64 line with Some z => Done (FInt z) rest | None => Err end
      end
    else if t =? 36 then                       (* '$' *)
      match split_crlf body with
      | None => More
      | Some (line, rest) =>
          match parse_i64 line with
          | None => Err
          | Some n =>
              if n =? -1 then Done FNullBulk rest
              else if n <? 0 then Err
              else parse_bulk_body n rest
          end
      end
    else if t =? 42 then                       (* '*' *)
      match split_crlf body with
      | None => More
      | Some (line, rest) =>
          match parse_i64 line with
          | None => Err
          | Some n =>
              if n =? -1 then Done FNullArray rest
              else if n <? 0 then Err
              else match parse_seq (parse_frame d') (S (length rest)) n rest [] with
                   | SDone fs rest' => Done (FArray fs) rest'
                   | SMore => More
                   | SErr => Err
                   end
          end
      end
    else if t =? 95 then                       (* '_' *)
      match body with
      | c1 :: c2 :: rest => if (c1 =? 13) && (c2 =? 10) then Done FNull rest else Err
      | _ => More
      end
    else if t =? 35 then                       (* '#' *)
      match body with
      | c1 :: c2 :: c3 :: rest =>
          if (c1 =? 116) && (c2 =? 13) && (c3 =? 10) then Done (FBool true) rest
          else if (c1 =? 102) && (c2 =? 13) && (c3 =? 10) then Done (FBool false) rest
          else Err
      | _ => More
      end
    else if t =? 44 then                       (* ',' *)
      match split_crlf body with
      | None => More
      | Some (line, rest) =>
          match dparse line with Some b => Done (FDouble b) rest | None => Err end
      end
    else if t =? 37 then                       (* '%' *)
      match split_crlf body with
      | None => More
      | Some (line, rest) =>
          match parse_usize line with
          | None => Err
          | Some n =>
              match parse_seq (parse_frame d') (S (length rest)) (2 * n) rest [] with
              | SDone fs rest' => Done (FMap fs) rest'
              | SMore => More
              | SErr => Err
              end
          end
      end
    else if t =? 126 then                      (* '~' *)
      match split_crlf body with
      | None => More
      | Some (line, rest) =>
          match parse_usize line with
          | None => Err
          | Some n =>
              match parse_seq (parse_frame d') (S (length rest)) n rest [] with
              | SDone fs rest' => Done (FSet fs) rest'
              | SMore => More
              | SErr => Err
              end
          end
      end
    else Err                                   (* invalid type byte *)
  end
  end.

(** Vec::with_capacity requests made while parsing [data] (element counts),
    after the F-20a repair: min(declared, bytes in hand). The outermost
    request only; nested ones are the same function on a suffix. *)
Definition reserve_request (declared : Z) (data : bytes) : Z := Z.min declared (len data).

(** ---- RespParser (buffer + position; compaction is unobservable) ---- *)
Definition is_ws (c : Z) : bool := (c =? 32) || (c =? 13) || (c =? 10) || (c =? 9).
Definition is_ws2 (c : Z) : bool := (c =? 32) || (c =? 13) || (c =? 10).
Definition is_nl (c : Z) : bool := (c =? 13) || (c =? 10).
Definition ping : bytes := [80; 73; 78; 71].

(** RespParser::parse: result and the unconsumed buffer afterwards *)
Definition parse_top (buf : bytes) : pres * bytes :=
  let b := drop_while is_ws buf in
  match b with
  | [] => (More, b)
  | _ =>
    if (len b <? 4) && is_prefix b ping then (More, b)
    else if is_prefix ping b then
      (Done (FArray [FBulk ping]) [], drop_while is_ws2 (skipn 4 b))
    else match parse_frame max_levels b with
         | Done f rest => (Done f [], drop_while is_nl rest)
         | More => (More, b)
         | Err => (Err, b)
         end
  end.

Inductive status := NeedMore | Failed.

(** the server's loop: parse until "no complete frame" or an error *)
Fixpoint drain (fuel : nat) (buf : bytes) (acc : list frame) : list frame * status * bytes :=
  match fuel with
  | O => (rev acc, NeedMore, buf)
  | S fuel' =>
      match parse_top buf with
      | (Done f _, buf') => drain fuel' buf' (f :: acc)
      | (More, buf') => (rev acc, NeedMore, buf')
      | (Err, buf') => (rev acc, Failed, buf')
      end
  end.
Definition drain_buf (buf : bytes) := drain (S (length buf)) buf [].

(** feed chunk by chunk, draining after each feed; all frames in order and the
    final status *)
Fixpoint feed_all (buf : bytes) (chunks : list bytes) (acc : list frame) (st : status)
  : list frame * status :=
  match chunks with
  | [] => (acc, st)
  | c :: cs =>
      match drain_buf (buf ++ c) with
      | (fs, st', buf') => feed_all buf' cs (acc ++ fs) st'
      end
  end.
Definition run_chunks (chunks : list bytes) := feed_all [] chunks [] NeedMore.

(** ---- serializer ---- *)
(** write_line_payload: CR and LF inside a simple string / error are written as spaces *)
Definition clean1 (c : Z) : Z := if (c =? 13) || (c =? 10) then 32 else c.
Definition clean (b : bytes) : bytes := map clean1 b.
Definition no_crnl (b : bytes) : bool := forallb (fun c => negb ((c =? 13) || (c =? 10))) b.

(** bytes written and whether serialisation completed; a NoResponse frame makes
    serialize_resp_frame return Err after the bytes written so far *)
Fixpoint ser (f : frame) : bytes * bool :=
  let ser_list := fix ser_list (l : list frame) : bytes * bool :=
    match l with
    | [] => ([], true)
    | x :: r => match ser x with
                | (b, true) => match ser_list r with (b', ok) => (b ++ b', ok) end
                | (b, false) => (b, false)
                end
    end in
  match f with
  | FSimple b => (43 :: clean b ++ crlf, true)
  | FError b => (45 :: clean b ++ crlf, true)
  | FInt z => (58 :: print_int z ++ crlf, true)
  | FBulk b => (36 :: print_nat (len b) ++ crlf ++ b ++ crlf, true)
  | FNullBulk => (36 :: 45 :: 49 :: crlf, true)
  | FArray l => match ser_list l with
                | (b, ok) => (42 :: print_nat (len l) ++ crlf ++ b, ok) end
  | FNullArray => (42 :: 45 :: 49 :: crlf, true)
  | FNoResponse => ([], false)
  | FNull => (95 :: crlf, true)
  | FBool true => (35 :: 116 :: crlf, true)
  | FBool false => (35 :: 102 :: crlf, true)
  | FDouble b => (44 :: dprint b ++ crlf, true)
  | FMap l => match ser_list l with
              | (b, ok) => (37 :: print_nat (len l / 2) ++ crlf ++ b, ok) end
  | FSet l => match ser_list l with
              | (b, ok) => (126 :: print_nat (len l) ++ crlf ++ b, ok) end
  end.

Fixpoint ser_list (l : list frame) : bytes * bool :=
  match l with
  | [] => ([], true)
  | x :: r => match ser x with
              | (b, true) => match ser_list r with (b', ok) => (b ++ b', ok) end
              | (b, false) => (b, false)
              end
  end.

(** well-formed frames: exactly those the codec round-trips *)
Fixpoint wf (d : nat) (f : frame) : Prop :=
  match d with
  | O => False
  | S d' =>
    match f with
    | FSimple b | FError b => no_crnl b = true
    | FInt z => in_i64 z = true
    | FBulk b => len b <= i64_max
    | FNullBulk | FNullArray | FNull | FBool _ => True
    | FNoResponse => False
    | FDouble b => dparse (dprint b) = Some b /\ has_crlf (dprint b) = false
    | FArray l => len l <= i64_max /\ Forall (wf d') l
    | FMap l => len l / 2 <= u64_max /\ Z.even (len l) = true /\ Forall (wf d') l
    | FSet l => len l <= u64_max /\ Forall (wf d') l
    end
  end.

(** what any frame reads back as: line payloads cleaned (Proofs: reply framing) *)
Fixpoint sanitize (f : frame) : frame :=
  match f with
  | FSimple b => FSimple (clean b)
  | FError b => FError (clean b)
  | FArray l => FArray (map sanitize l)
  | FMap l => FMap (map sanitize l)
  | FSet l => FSet (map sanitize l)
  | _ => f
  end.

(** the same as a boolean (evaluable) predicate *)
Fixpoint wfb (d : nat) (f : frame) : bool :=
  match d with
  | O => false
  | S d' =>
    match f with
    | FSimple b | FError b => no_crnl b
    | FInt z => in_i64 z
    | FBulk b => len b <=? i64_max
    | FNullBulk | FNullArray | FNull | FBool _ => true
    | FNoResponse => false
    | FDouble b => match dparse (dprint b) with Some b' => b' =? b | None => false end
                   && negb (has_crlf (dprint b))
    | FArray l => (len l <=? i64_max) && forallb (wfb d') l
    | FMap l => (len l / 2 <=? u64_max) && Z.even (len l) && forallb (wfb d') l
    | FSet l => (len l <=? u64_max) && forallb (wfb d') l
    end
  end.

End Resp.
