(** Dispatcher of executable models: property id -> run function.
    [run prop ops] maps each harness operation of a case to the model's
    canonical output tokens. *)
From Ferrous Require Import Base.Bytes Model.Resp Model.RunBase Model.RunSrv Model.RunRdb.
Open Scope Z_scope.

Definition run (prop : bytes) (ops : list (list tok)) : list (list tok) :=
  if beq prop (bs "C20") then run_c20 ops
  else if beq prop (bs "C01") || beq prop (bs "C03") || beq prop (bs "C04") then run_srv ops
  else if beq prop (bs "C09") || beq prop (bs "C10") then run_rdb ops
  else [[TB (bs "NOMODEL")]].
