(** Dispatcher of executable models: property id -> run function.
    [run prop ops] maps each harness operation of a case to the model's
    canonical output tokens. *)
From Ferrous Require Import Base.Bytes Model.Resp Model.RunBase Model.RunSrv Model.RunC04 Model.RunPubSub Model.RunScan Model.RunLua Model.RunBlk Model.RunAof Model.RunRdb.
Open Scope Z_scope.

Definition run (prop : bytes) (ops : list (list tok)) : list (list tok) :=
  if beq prop (bs "C20") then run_c20 ops
  else if beq prop (bs "C04") then run_c04 ops
  else if beq prop (bs "C01") || beq prop (bs "C03") || beq prop (bs "C17")
          || beq prop (bs "C18") || beq prop (bs "C07") || beq prop (bs "C08") || beq prop (bs "C05")
          || beq prop (bs "C02") || beq prop (bs "C06") || beq prop (bs "C15") || beq prop (bs "C16") then run_srv ops
  else if beq prop (bs "C11") then run_c11 ops
  else if beq prop (bs "C12") then run_c12 ops
  else if beq prop (bs "C14") then
    (* in-process PubSubManager histories, or server-level histories over TCP (first op CONN) *)
    match ops with
    | (TB n :: _) :: _ => if beq n (bs "CONN") then run_srv ops else run_c14 ops
    | _ => run_c14 ops
    end
  else if beq prop (bs "C19") then run_c19 ops
  else if beq prop (bs "C13") then run_c13 ops
  else if beq prop (bs "C09") || beq prop (bs "C10") then run_rdb ops
  else [[TB (bs "NOMODEL")]].
