(** Dispatcher of executable models: property id -> run function.
    [run prop ops] maps each harness operation of a case to the model's
    canonical output tokens. *)
From Ferrous Require Import Base.Bytes Model.Resp Model.RunBase.
Open Scope Z_scope.

Definition run (prop : bytes) (ops : list (list tok)) : list (list tok) :=
  if beq prop (bs "C20") then run_c20 ops
  else [[TB (bs "NOMODEL")]].
