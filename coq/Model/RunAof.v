(** Token-level runner of C11 histories: everything of Model/RunSrv.v plus
    [TB "AOFREAD"; TI t]
        -> [TB file bytes; TI 0 (ends on a frame boundary) / 1; TI n; the n frames decoded from the file]
        in the canonical form of Model/Aof.v canon_record (PEXPIREAT deadlines as "still ahead at t" 1 / 0,
        SREM members sorted)
    [TB "AOFREPLAY"; TI c; TI t; TI mode; TI k; k dump request frames; (TI n; n replies of the replay server)]
        the logged commands are re-executed at time t on an empty server (the replies of the
        implementation's second server serve as oracles for random commands); the k dump requests are
        run on the live server (connection c) and on the replayed one
        mode 1 -> [TI agree; TI n; n replay replies; TI k; k live dump replies; k replay dump replies]
        mode 0 -> [TI agree; TI n; TI k; k flags (1 = this dump request got the same answer)]
    [TB "AOFRESTART"; TI c; TI t; TI k; k dump request frames; (TI n; n oracles as for AOFREPLAY)]
        the server process is restarted on the same directory and replays the file (831b342):
        -> [TI 1; k dump replies] from a new connection c ([TI 0] = start-up failed: never, after 39510e9)
    The plain ops go through Model/RunLua.v (script cache: SCRIPT LOAD / EVALSHA).  The second
    server of AOFREPLAY has an empty script cache: EVALSHA answers NOSCRIPT there.
    [TB "CMDQ"; TI c; TI t; request frame]    -> []   (the command runs, its reply is not compared) *)
From Ferrous Require Import Base.Bytes Model.Resp Model.Types Model.Server Model.Conn Model.RunBase
  Model.RunSrv Model.RunLua Model.Blocking Model.RunBlk Model.Aof.
Open Scope Z_scope.

Definition tok_eqb (a b : tok) : bool :=
  match a, b with
  | TI x, TI y => x =? y
  | TB x, TB y => beq x y
  | _, _ => false
  end.
Fixpoint toks_eqb (a b : list tok) : bool :=
  match a, b with
  | [], [] => true
  | x :: a', y :: b' => tok_eqb x y && toks_eqb a' b'
  | _, _ => false
  end.
Definition frame_eqb (f g : frame) : bool := toks_eqb (enc_frame f) (enc_frame g).
Fixpoint flags (a b : list frame) : list bool :=
  match a, b with
  | x :: a', y :: b' => frame_eqb x y :: flags a' b'
  | _, _ => []
  end.

(** [n] frames from the token list *)
Fixpoint dec_frames (n : nat) (t : list tok) (acc : list frame) : list frame * list tok :=
  match n with
  | O => (rev acc, t)
  | S n' => match dec_frame (S (length t)) t with
            | Some (f, t') => dec_frames n' t' (f :: acc)
            | None => (rev acc, t)
            end
  end.

(** the dump requests are ordinary reads sent on connection [c] *)
Fixpoint run_dump (now : Z) (s : server) (c : Z) (reqs : list frame) (acc : list frame) : list frame * server :=
  match reqs with
  | [] => (rev acc, s)
  | req :: r => match process_frame now s c req None with
                | (rep, s') => run_dump now s' c r (canon_reply (req_name req) rep :: acc)
                end
  end.

Fixpoint zip_oracles (log : list (list frame)) (os : list frame) : list (list frame * option frame) :=
  match log, os with
  | p :: l', o :: os' => (p, Some o) :: zip_oracles l' os'
  | p :: l', [] => (p, None) :: zip_oracles l' []
  | [], _ => []
  end.

Definition b2z (b : bool) : Z := if b then 1 else 0.

(** the redo as the harness performs it: like [replay_run], but EVALSHA is answered by
    handle_evalsha_command against the EMPTY script cache of the second server *)
Fixpoint redo_run (now : Z) (s : server) (log : list (list frame * option frame)) (acc : list frame)
  : list frame * server :=
  match log with
  | [] => (rev acc, s)
  | (parts, o) :: r =>
      let name := req_name (FArray parts) in
      match (if beq name (bs "EVALSHA")
             then h_evalsha now s replay_conn (conn_db s replay_conn) [] parts
             else normal_command now s replay_conn (conn_db s replay_conn) parts o) with
      | (rep, s') => redo_run now s' r (canon_reply name rep :: acc)
      end
  end.
Definition dump_conn : Z := 2.

Definition aof_op (s : server) (op : list tok) : option (list tok * server) :=
  match op with
  | TB name :: rest =>
      if beq name (bs "AOFREAD") then
        let file := aof_canon_bytes (match rest with (TI t) :: _ => t | _ => 0 end) s in
        match aof_decode file with
        | (fs, st, rest') =>
            Some (TB file :: TI (match st, rest' with NeedMore, [] => 0 | _, _ => 1 end)
                     :: TI (len fs) :: enc_frames fs, s)
        end
      else if beq name (bs "AOFREPLAY") then
        match rest with
        | TI c :: TI t :: TI mode :: TI k :: ft =>
            match dec_frames (Z.to_nat k) ft [] with
            | (dump, ft') =>
                let oracles := match ft' with
                               | TI n :: rt => fst (dec_frames (Z.to_nat n) rt [])
                               | _ => []
                               end in
                match redo_run t replay_init (zip_oracles (aof_log s) oracles) [] with
                | (reps, rs) =>
                    (* both dumps from connections of their own, in database 0 *)
                    match run_dump t s c dump [], run_dump t (connect rs dump_conn) dump_conn dump [] with
                    | (live, s'), (repl, _) =>
                        let fl := flags live repl in
                        let agree := forallb (fun b => b) fl && (len live =? len repl) in
                        Some (if mode =? 1 then
                                TI (b2z agree) :: TI (len reps) :: enc_frames reps
                                  ++ TI (len live) :: enc_frames live ++ enc_frames repl
                              else
                                TI (b2z agree) :: TI (len reps) :: TI (len fl) :: map (fun b => TI (b2z b)) fl,
                              s')
                    end
                end
            end
        | _ => Some ([TB (bs "BADOP")], s)
        end
      else if beq name (bs "AOFRESTART") then
        match rest with
        | TI c :: TI t :: TI k :: ft =>
            match dec_frames (Z.to_nat k) ft [] with
            | (dump, ft') =>
                let oracles := match ft' with
                               | TI n :: rt => fst (dec_frames (Z.to_nat n) rt [])
                               | _ => []
                               end in
                match run_dump t (connect (restart_o t s (zip_oracles (aof_log s) oracles)) c) c dump [] with
                | (reps, s') => Some (TI 1 :: enc_frames reps, s')
                end
            end
        | _ => Some ([TB (bs "BADOP")], s)
        end
      else if beq name (bs "CMDQ") then
        match rest with
        | TI c :: TI t :: ft =>
            match dec_frame (S (length ft)) ft with
            | Some (req, _) =>
                match zlookup c (s_conns s) with
                | None => Some ([], s)
                | Some _ => Some ([], snd (process_frame t s c req None))
                end
            | None => Some ([TB (bs "BADFRAME")], s)
            end
        | _ => Some ([TB (bs "BADOP")], s)
        end
      else None
  | _ => None
  end.

(** the AOF ops see the server only; a restart also empties the runner's outbox and the script
    cache (both live in the process) *)
Definition c11_op (st : lua_state) (op : list tok) : list tok * lua_state :=
  match st with
  | ((s, ob, pend), ca) =>
      match aof_op s op with
      | Some (o, s') =>
          (o, match op with
              | TB name :: _ => if beq name (bs "AOFRESTART") then ((s', [], []), []) else ((s', ob, pend), ca)
              | _ => ((s', ob, pend), ca)
              end)
      | None => lua_op st op
      end
  end.
Fixpoint c11_ops (st : lua_state) (ops : list (list tok)) : list (list tok) :=
  match ops with
  | [] => []
  | op :: r => match c11_op st op with (o, st') => o :: c11_ops st' r end
  end.
(** histories with blocking pops (BSEND / BRECV ...) run on the runner of C13 (Model/RunBlk.v: server and
    blocking manager side by side, event-loop iterations after every op) *)
Definition with_server (r : rstate) (s : server) : rstate :=
  {| r_s := s; r_b := r_b r; r_now := r_now r; r_sent := r_sent r; r_read := r_read r; r_fin := r_fin r |}.
Definition c11b_op (r : rstate) (op : list tok) : list tok * rstate :=
  match aof_op (r_s r) op with
  | Some (o, s') =>
      (o, match op with
          | TB name :: _ => if beq name (bs "AOFRESTART") then with_server init_rstate s' else with_server r s'
          | _ => with_server r s'
          end)
  | None => blk_op r op
  end.
Fixpoint c11b_ops (r : rstate) (ops : list (list tok)) : list (list tok) :=
  match ops with
  | [] => []
  | op :: rest => match c11b_op r op with (o, r') => o :: c11b_ops r' rest end
  end.
Definition is_bop (op : list tok) : bool :=
  match op with TB name :: _ => beq name (bs "BSEND") || beq name (bs "BRECV") | _ => false end.
Definition run_c11 (ops : list (list tok)) : list (list tok) :=
  if existsb is_bop ops then c11b_ops init_rstate ops
  else c11_ops ((init_server None, [], []), []) ops.
