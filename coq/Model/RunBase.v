(** Token-level glue shared by every executable model: decoding of harness
    operations, encoding of results.  Evaluated by the extracted driver and by
    vm_compute inside Coq (witness lemmas). *)
From Ferrous Require Import Base.Bytes Model.Resp.
Open Scope Z_scope.

(** ---- frames <-> tokens ---- *)
Fixpoint enc_frame (f : frame) : list tok :=
  let enc_list := fix enc_list (l : list frame) : list tok :=
    match l with [] => [] | x :: r => enc_frame x ++ enc_list r end in
  match f with
  | FSimple b => [TI 0; TB b]
  | FError b => [TI 1; TB b]
  | FInt z => [TI 2; TI z]
  | FBulk b => [TI 3; TB b]
  | FNullBulk => [TI 4]
  | FArray l => TI 5 :: TI (len l) :: enc_list l
  | FNullArray => [TI 6]
  | FNoResponse => [TI 7]
  | FNull => [TI 8]
  | FBool b => [TI 9; TI (if b then 1 else 0)]
  | FDouble b => [TI 10; TI b]
  | FMap l => TI 11 :: TI (len l) :: enc_list l
  | FSet l => TI 12 :: TI (len l) :: enc_list l
  end.
Definition enc_frames (l : list frame) : list tok := flat_map enc_frame l.

Fixpoint dec_frame (fuel : nat) (t : list tok) : option (frame * list tok) :=
  match fuel with
  | O => None
  | S fuel' =>
    let dec_n := fix dec_n (k : nat) (n : Z) (t : list tok) (acc : list frame)
                   : option (list frame * list tok) :=
      if n <=? 0 then Some (rev acc, t) else
      match k with
      | O => None
      | S k' => match dec_frame fuel' t with
                | Some (f, t') => dec_n k' (n - 1) t' (f :: acc)
                | None => None
                end
      end in
    match t with
    | TI 0 :: TB b :: r => Some (FSimple b, r)
    | TI 1 :: TB b :: r => Some (FError b, r)
    | TI 2 :: TI z :: r => Some (FInt z, r)
    | TI 3 :: TB b :: r => Some (FBulk b, r)
    | TI 4 :: r => Some (FNullBulk, r)
    | TI 5 :: TI n :: r =>
        match dec_n (length r) n r [] with Some (l, r') => Some (FArray l, r') | None => None end
    | TI 6 :: r => Some (FNullArray, r)
    | TI 7 :: r => Some (FNoResponse, r)
    | TI 8 :: r => Some (FNull, r)
    | TI 9 :: TI z :: r => Some (FBool (negb (z =? 0)), r)
    | TI 10 :: TI z :: r => Some (FDouble z, r)
    | TI 11 :: TI n :: r =>
        match dec_n (length r) n r [] with Some (l, r') => Some (FMap l, r') | None => None end
    | TI 12 :: TI n :: r =>
        match dec_n (length r) n r [] with Some (l, r') => Some (FSet l, r') | None => None end
    | _ => None
    end
  end.

(** ---- oracle tables for f64 text ---- *)
Fixpoint lookup_b {A} (k : bytes) (l : list (bytes * A)) : option A :=
  match l with
  | [] => None
  | (k', v) :: r => if beq k k' then Some v else lookup_b k r
  end.
Fixpoint lookup_z {A} (k : Z) (l : list (Z * A)) : option A :=
  match l with
  | [] => None
  | (k', v) :: r => if k =? k' then Some v else lookup_z k r
  end.

(** [TI k; (TB line; TI bits_or_-1) * k] *)
Fixpoint dec_dparse (k : nat) (t : list tok) (acc : list (bytes * option Z))
  : list (bytes * option Z) * list tok :=
  match k, t with
  | S k', TB l :: TI z :: r => dec_dparse k' r ((l, if z <? 0 then None else Some z) :: acc)
  | _, _ => (acc, t)
  end.
Fixpoint dec_dprint (k : nat) (t : list tok) (acc : list (Z * bytes))
  : list (Z * bytes) * list tok :=
  match k, t with
  | S k', TI z :: TB l :: r => dec_dprint k' r ((z, l) :: acc)
  | _, _ => (acc, t)
  end.

Definition tab_dparse (tab : list (bytes * option Z)) (line : bytes) : option Z :=
  match lookup_b line tab with Some r => r | None => None end.
Definition tab_dprint (tab : list (Z * bytes)) (bits : Z) : bytes :=
  match lookup_z bits tab with Some r => r | None => [] end.

Fixpoint dec_chunks (t : list tok) : list bytes :=
  match t with
  | TB b :: r => b :: dec_chunks r
  | _ => []
  end.

Definition enc_status (s : status) : tok := TI (match s with NeedMore => 0 | Failed => 1 end).

(** C20 operations:
    [TB "SER"; TI k; dprint table; frame]      -> [TB bytes; TI ok]
    [TB "PARSE"; TI k; dparse table; chunks..] -> [TI status; TI alloc_bounded(=1); frames..]   *)
Definition run_c20_op (op : list tok) : list tok :=
  match op with
  | TB name :: TI k :: r =>
      if beq name (bs "SER") then
        match dec_dprint (Z.to_nat k) r [] with
        | (tab, r') =>
            match dec_frame (S (length r')) r' with
            | Some (f, _) => match ser (tab_dprint tab) f with
                             | (b, ok) => [TB b; TI (if ok then 1 else 0)] end
            | None => [TB (bs "BADFRAME")]
            end
        end
      else if beq name (bs "PARSE") then
        match dec_dparse (Z.to_nat k) r [] with
        | (tab, r') =>
            match run_chunks (tab_dparse tab) (dec_chunks r') with
            | (fs, st) => enc_status st :: TI 1 :: enc_frames fs
            end
        end
      else [TB (bs "BADOP")]
  | _ => [TB (bs "BADOP")]
  end.
Definition run_c20 (ops : list (list tok)) : list (list tok) := map run_c20_op ops.
