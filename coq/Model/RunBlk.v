(** Token-level runner for the blocking-pop histories (C13).  The server and the blocking
    state are threaded side by side; after every operation the model runs iterations of the
    event loop (wake-ups, reads of the connections that are no longer blocked, timeouts at
    the logical instant), as the implementation does while the harness waits for it to settle.

    [CONN c]                               -> [TI 1]
    [SLEEP ms]                             -> []            the logical clock advances
    [CMD c t frame (oracle)]               -> reply         (connections that never block)
    [BSEND c t n frame*n oracle_ms*n]      -> [TI skipped; VERIF BLOCKING dump]
         one write of n requests, no reply awaited (oracle_ms: -2 none, -1 refused timeout,
         0 forever, else milliseconds)
    [BRECV c t]                            -> [TI 0; frames received on c since the last BRECV]   (nothing once the client has gone)
    [BCLOSE c t]                           -> [TI skipped; TI owed; frames not yet read]   the client goes away
    [BDUMP t]                              -> VERIF BLOCKING dump

    Harness discipline, computed alike on both sides from counts of requests written and
    frames received ([owed] = written - received): a BSEND that may leave requests waiting
    (to a connection that owes a reply, or with requests behind a blocking pop) is skipped while
    another connection has requests waiting behind a blocking call, and so is a BCLOSE of a connection with requests waiting - the order in
    which the server would read two such connections is a HashMap iteration order. *)
From Ferrous Require Import Base.Bytes Model.Resp Model.Types Model.Server Model.Conn Model.RunBase
  Model.RunSrv Model.Blocking.
Open Scope Z_scope.

Record rstate := {
  r_s : server; r_b : blocking; r_now : Z;
  r_sent : list (Z * Z);      (* requests written per connection by BSEND *)
  r_read : list (Z * Z);      (* frames already handed out by BRECV per connection *)
  r_fin : list (Z * Z)        (* 1: a blocking call with a finite timeout was written since the connection last owed nothing *)
}.
Definition init_rstate : rstate :=
  {| r_s := init_server None; r_b := init_blocking; r_now := 0; r_sent := []; r_read := []; r_fin := [] |}.

Definition zget (l : list (Z * Z)) (c : Z) : Z := match zlookup c l with Some n => n | None => 0 end.
(** what the client of connection [c] has decoded so far: the frames written to the connection
    are serialised into its write buffer (a frame whose serialisation fails half-way - NoResponse
    nested in an EXEC reply - leaves its bytes so far) and the client decodes the byte stream *)
Definition frames_of (b : blocking) (c : Z) : list frame :=
  fst (decode_out (write_replies (rev (map snd (filter (fun cf => fst cf =? c) (b_out b)))))).
Definition owed (r : rstate) (c : Z) : Z := zget (r_sent r) c - len (frames_of (r_b r) c).

Definition loop_iterations : nat := 8.
Definition settle (r : rstate) (now : Z) (sb : server * blocking) : rstate :=
  match iterations loop_iterations now sb with
  | (s', b') => {| r_s := s'; r_b := b'; r_now := now; r_sent := r_sent r; r_read := r_read r; r_fin := r_fin r |}
  end.

Fixpoint dec_frames (n : nat) (t : list tok) (acc : list frame) : option (list frame * list tok) :=
  match n with
  | O => Some (rev acc, t)
  | S n' => match dec_frame (S (length t)) t with
            | Some (f, t') => dec_frames n' t' (f :: acc)
            | None => None
            end
  end.
Fixpoint zip_oracles (fs : list frame) (t : list tok) : list (frame * option Z) :=
  match fs with
  | [] => []
  | f :: r => match t with
              | TI z :: t' => (f, if z =? -2 then None else Some z) :: zip_oracles r t'
              | _ => (f, None) :: zip_oracles r t
              end
  end.

(** may this write leave requests waiting: it goes to a connection that owes a reply, or it has
    requests behind a blocking pop *)
Definition may_wait (r : rstate) (c : Z) (batch : list (frame * option Z)) : bool :=
  (0 <? owed r c) || existsb (fun fo => match snd fo with Some z => 0 <=? z | None => false end) (removelast batch).
Definition skip_send (r : rstate) (c : Z) (batch : list (frame * option Z)) : bool :=
  ((0 <? owed r c) && (zget (r_fin r) c =? 1))
  || (may_wait r c batch && existsb (fun c' => negb (c' =? c) && (1 <? owed r c')) (map fst (r_sent r))).
Definition has_finite (batch : list (frame * option Z)) : bool :=
  existsb (fun fo => match snd fo with Some z => 0 <? z | None => false end) batch.
Definition unread (r : rstate) (c : Z) : list frame :=
  skipn (Z.to_nat (zget (r_read r) c)) (frames_of (r_b r) c).

Definition dead_out : list tok := [TB (bs "CLOSED")].

Definition blk_op (r : rstate) (op : list tok) : list tok * rstate :=
  match op with
  | TB name :: rest =>
      if b_crashed (r_b r) then (dead_out, r)
      else if beq name (bs "CONN") || beq name (bs "BCONN") then
        match rest with
        | TI c :: _ => ([TI 1], settle r (r_now r) (connect (r_s r) c, r_b r))
        | _ => ([TB (bs "BADOP")], r)
        end
      else if beq name (bs "SLEEP") || beq name (bs "BSLEEP") then
        match rest with
        | TI ms :: _ => ([], settle r (r_now r + ms) (r_s r, r_b r))
        | _ => ([TB (bs "BADOP")], r)
        end
      else if beq name (bs "CMD") then
        match rest with
        | TI c :: TI t :: ft =>
            match dec_frame (S (length ft)) ft with
            | Some (req, ft') =>
                let oracle := match dec_frame (S (length ft')) ft' with
                              | Some (o, _) => Some o | None => None end in
                let r := settle r t (r_s r, r_b r) in
                match zlookup c (s_conns (r_s r)) with
                | None => ([TB (bs "CLOSED")], r)
                | Some _ =>
                    match bprocess_frame t (r_s r) (r_b r) c req oracle None with
                    | (rep, s', b') =>
                        let r' := settle r t (if is_quit req then del_conn s' c else s', b') in
                        if b_crashed (r_b r') then (dead_out, r')
                        else (match rep with
                              | FNoResponse => [TB (bs "TIMEOUT")]
                              | _ => enc_frame (canon_exec (r_s r) c (req_name req) rep)
                              end, r')
                    end
                end
            | None => ([TB (bs "BADFRAME")], r)
            end
        | _ => ([TB (bs "BADOP")], r)
        end
      else if beq name (bs "BSEND") then
        match rest with
        | TI c :: TI t :: TI n :: ft =>
            match dec_frames (Z.to_nat n) ft [] with
            | Some (fs, ot) =>
                let r := settle r t (r_s r, r_b r) in      (* the clock may have moved: timeouts first *)
                if b_crashed (r_b r) then (dead_out, r) else
                let fin0 := if owed r c =? 0 then zset_ c 0 (r_fin r) else r_fin r in
                let r := {| r_s := r_s r; r_b := r_b r; r_now := r_now r; r_sent := r_sent r; r_read := r_read r; r_fin := fin0 |} in
                let batch := zip_oracles fs ot in
                if skip_send r c batch then (TI 1 :: dump_blocking (r_b r), r)
                else
                  let sent := zset_ c (zget (r_sent r) c + n) (r_sent r) in
                  let r1 := {| r_s := r_s r; r_b := r_b r; r_now := t; r_sent := sent; r_read := r_read r;
                               r_fin := if has_finite batch then zset_ c 1 (r_fin r) else r_fin r |} in
                  let sb :=
                    if is_blocked (r_b r) c then
                      (r_s r, with_in (r_b r) (zset_ c (match zlookup c (b_in (r_b r)) with
                                                         | Some l => l ++ batch | None => batch end)
                                                     (b_in (r_b r))))
                    else match zlookup c (s_conns (r_s r)) with
                         | Some _ => serve_batch t (r_s r) (r_b r) c batch false
                         | None => (r_s r, r_b r)
                         end in
                  let r' := settle r1 t sb in
                  if b_crashed (r_b r') then (dead_out, r')
                  else (TI 0 :: dump_blocking (r_b r'), r')
            | None => ([TB (bs "BADFRAME")], r)
            end
        | _ => ([TB (bs "BADOP")], r)
        end
      else if beq name (bs "BRECV") then
        match rest with
        | TI c :: TI t :: _ =>
            let r' := settle r t (r_s r, r_b r) in
            if b_crashed (r_b r') then (dead_out, r') else
            let all := frames_of (r_b r') c in
            let rd := zget (r_read r') c in      (* -1: the client has gone *)
            let fresh := if rd <? 0 then [] else skipn (Z.to_nat rd) all in
            (TI 0 :: enc_frames (map canon fresh),
             {| r_s := r_s r'; r_b := r_b r'; r_now := r_now r'; r_sent := r_sent r';
                r_read := (if rd <? 0 then r_read r' else zset_ c (len all) (r_read r')); r_fin := r_fin r' |})
        | _ => ([TB (bs "BADOP")], r)
        end
      else if beq name (bs "BDUMP") then
        let t := match rest with TI t :: _ => t | _ => r_now r end in
        let r' := settle r t (r_s r, r_b r) in
        if b_crashed (r_b r') then (dead_out, r') else (dump_blocking (r_b r'), r')
      else if beq name (bs "BCLOSE") then
        match rest with
        | TI c :: TI t :: _ =>
            let r := settle r t (r_s r, r_b r) in
            let o := owed r c in
            if 1 <? o then ([TI 1; TI o], r)
            else
              let b1 := if is_blocked (r_b r) c then with_dead (r_b r) (c :: b_dead (r_b r)) else drop_conn (r_b r) c in
              let r' := settle r t (del_conn (r_s r) c, b1) in
              (* the client is gone: a later BRECV of this connection reports nothing *)
              (TI 0 :: TI o :: enc_frames (map canon (unread r c)),
               {| r_s := r_s r'; r_b := r_b r'; r_now := r_now r'; r_sent := r_sent r';
                  r_read := zset_ c (-1) (r_read r'); r_fin := r_fin r' |})
        | _ => ([TB (bs "BADOP")], r)
        end
      else ([TB (bs "BADOP")], r)
  | _ => ([TB (bs "BADOP")], r)
  end.

Fixpoint blk_ops (r : rstate) (ops : list (list tok)) : list (list tok) :=
  match ops with
  | [] => []
  | op :: t => match blk_op r op with (o, r') => o :: blk_ops r' t end
  end.
Definition run_c13 (ops : list (list tok)) : list (list tok) := blk_ops init_rstate ops.
