(** Token-level runner of C04 cases.  Two kinds of case:
    - in-process skip-list histories (first op [SLNEW]) run on Model/SkipList.v:
        [SLNEW]                         -> []
        [SLINS m bits (h)]              -> old score option      (h = height drawn, hook mode)
        [SLREM m]                       -> old score option
        [SLSCORE m] [SLRANK m]          -> option
        [SLGBR rank]                    -> option (m, bits)
        [SLRBR start end] [SLRBS mn mx] -> n, (m, bits)*
        [SLDUMP full]                   -> length, level-0 chain, per node get_score/get_rank;
                                           full=1 (verif_dump hook): + level, key_index (sorted),
                                           heights, chains of levels 1..level
    - TCP command histories (CONN/CMD/...) run on the server model. *)
From Ferrous Require Import Base.Bytes Model.Resp Model.Types Model.SkipList Model.RunBase Model.RunSrv.
Open Scope Z_scope.

Definition enc_optz (o : option Z) : list tok :=
  match o with Some z => [TI 1; TI z] | None => [TI 0] end.
Definition enc_score (o : option Z) : list tok :=
  match o with Some z => [TI 1; TI (f_canon z)] | None => [TI 0] end.
Definition enc_nodes (l : list node) : list tok :=
  TI (len l) :: flat_map (fun n => [TB (n_key n); TI (f_canon (n_val n))]) l.

Fixpoint levels_from (nodes : list node) (i : nat) (count : nat) : list tok :=
  match count with
  | O => []
  | S c => enc_nodes (chain i nodes) ++ levels_from nodes (S i) c
  end.

Definition sl_dump (s : sl) (full : bool) : list tok :=
  let nodes := sl_nodes s in
  TI (sl_length s) :: enc_nodes nodes
  ++ flat_map (fun n => enc_score (sl_get_score s (n_key n)) ++ enc_optz (sl_get_rank s (n_key n))) nodes
  ++ (if full then
        TI (Z.of_nat (sl_level s)) :: TI (len (sl_index s))
        :: flat_map (fun k => TB k :: enc_score (alookup k (sl_index s))) (bsort (map fst (sl_index s)))
        ++ map (fun n => TI (Z.of_nat (n_lvl n))) nodes
        ++ levels_from nodes 1 (sl_level s)
      else []).

Definition sl_op (s : sl) (op : list tok) : list tok * sl :=
  match op with
  | TB name :: rest =>
      if beq name (bs "SLNEW") then ([], sl_new)
      else if beq name (bs "SLINS") then
        match rest with
        | TB m :: TI b :: r =>
            let h := match r with TI h :: _ => Z.to_nat h | _ => 0%nat end in
            match sl_insert s m b h with (old, s') => (enc_score old, s') end
        | _ => ([TB (bs "BADOP")], s)
        end
      else if beq name (bs "SLREM") then
        match rest with
        | TB m :: _ => match sl_remove s m with (old, s') => (enc_score old, s') end
        | _ => ([TB (bs "BADOP")], s)
        end
      else if beq name (bs "SLSCORE") then
        match rest with
        | TB m :: _ => (enc_score (sl_get_score s m), s)
        | _ => ([TB (bs "BADOP")], s)
        end
      else if beq name (bs "SLRANK") then
        match rest with
        | TB m :: _ => (enc_optz (sl_get_rank s m), s)
        | _ => ([TB (bs "BADOP")], s)
        end
      else if beq name (bs "SLGBR") then
        match rest with
        | TI r :: _ => (match sl_get_by_rank s r with
                        | Some n => [TI 1; TB (n_key n); TI (f_canon (n_val n))]
                        | None => [TI 0] end, s)
        | _ => ([TB (bs "BADOP")], s)
        end
      else if beq name (bs "SLRBR") then
        match rest with
        | TI a :: TI b :: _ => (enc_nodes (sl_range_by_rank s a b), s)
        | _ => ([TB (bs "BADOP")], s)
        end
      else if beq name (bs "SLRBS") then
        match rest with
        | TI a :: TI b :: _ => (enc_nodes (sl_range_by_score s a b), s)
        | _ => ([TB (bs "BADOP")], s)
        end
      else if beq name (bs "SLDUMP") then
        match rest with
        | TI f :: _ => (sl_dump s (negb (f =? 0)), s)
        | _ => ([TB (bs "BADOP")], s)
        end
      else ([TB (bs "BADOP")], s)
  | _ => ([TB (bs "BADOP")], s)
  end.

Fixpoint sl_ops (s : sl) (ops : list (list tok)) : list (list tok) :=
  match ops with
  | [] => []
  | op :: r => match sl_op s op with (o, s') => o :: sl_ops s' r end
  end.

Definition run_c04 (ops : list (list tok)) : list (list tok) :=
  match ops with
  | (TB n :: _) :: _ => if beq n (bs "SLNEW") then sl_ops sl_new ops else run_srv ops
  | _ => run_srv ops
  end.
