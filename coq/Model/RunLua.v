(** Runner for C12 histories: the server runner of Model/RunSrv.v plus the global
    script cache (server.rs script_cache: sha1 hex -> source) as runner state.

    SCRIPT LOAD / EXISTS / FLUSH / KILL (server.rs handle_script_command) and EVALSHA
    (handle_evalsha_command) are interpreted here when the connection is in the state
    where process_frame hands the command to process_normal_command (authenticated, no
    open MULTI); otherwise the op falls through to the plain runner (NOAUTH / QUEUED).
    The SHA-1 of a script is an oracle: the implementation's SCRIPT LOAD reply is
    followed when it is a 40-digit lower-case hex string consistent with the cache
    (same source <-> same digest). *)
From Ferrous Require Import Base.Bytes Generated Model.Resp Model.Types Model.Utf8 Model.Strings Model.Lists
  Model.Server Model.Conn Model.RunBase Model.RunSrv Model.Exec Model.Lua.
Open Scope Z_scope.

Definition cache := list (bytes * bytes).

Definition lower1 (c : Z) : Z := if (65 <=? c) && (c <=? 90) then c + 32 else c.
Definition lower (b : bytes) : bytes := map lower1 b.
Definition is_hex_lc (c : Z) : bool := is_digit c || ((97 <=? c) && (c <=? 102)).
Definition is_sha (b : bytes) : bool := (len b =? 40) && forallb is_hex_lc b.

Definition str_arg (f : frame) : option bytes :=
  match f with FBulk b => if utf8_valid b then Some b else None | _ => None end.

(** the source compiles (script_load validates by compiling): DSL scripts and probes do,
    the fixed ill-formed script does not; anything else is outside the model *)
Inductive compiles := CompYes | CompNo | CompUnknown.
Definition compile (src : bytes) : compiles :=
  match parse_script src with
  | Some _ => CompYes
  | None => match probe src with
            | Some _ => CompYes
            | None => if beq src compile_error_script then CompNo else CompUnknown
            end
  end.

(** the digest reported by the implementation is admissible *)
Definition sha_consistent (ca : cache) (sha src : bytes) : bool :=
  is_sha sha
  && forallb (fun e => Bool.eqb (beq (fst e) sha) (beq (snd e) src)) ca.

Definition h_script (ca : cache) (parts : list frame) (oracle : option frame) : frame * cache :=
  match parts with
  | _ :: sub :: rest =>
      match str_arg sub with
      | None => (r_err, ca)
      | Some sb =>
          let sc := lower sb in
          if beq sc (bs "load") then
            match rest with
            | [a] =>
                match str_arg a with
                | None => (r_err, ca)
                | Some src =>
                    match compile src with
                    | CompNo => (r_err, ca)
                    | CompUnknown => (FError (bs "NOTDSL"), ca)
                    | CompYes =>
                        match oracle with
                        | Some (FBulk sha) =>
                            if sha_consistent ca sha src then (FBulk sha, aset sha src ca)
                            else (FError (bs "BADORACLE"), ca)
                        | _ => (FError (bs "NOORACLE"), ca)
                        end
                    end
                end
            | _ => (r_err, ca)
            end
          else if beq sc (bs "exists") then
            match rest with
            | [] => (r_err, ca)
            | _ => (FArray (map (fun a => match str_arg a with
                                         | Some h => FInt (if amem (lower h) ca then 1 else 0)   (* 0f156f9 *)
                                         | None => FInt 0
                                         end) rest), ca)
            end
          else if beq sc (bs "flush") then
            match rest with [] => (r_ok, []) | _ => (r_err, ca) end
          else if beq sc (bs "kill") then
            match rest with [] => (r_ok, ca) | _ => (r_err, ca) end
          else (r_err, ca)
      end
  | _ => (r_err, ca)
  end.

(** EVAL's effect on the cache; None = the digest reported for the source is inadmissible *)
Definition eval_caches (ca : cache) (parts : list frame) (oracle : option frame) : option cache :=
  match parts with
  | _ :: a :: _ =>
      match str_arg a with
      | None => Some ca
      | Some src =>
          if existsb (fun e => beq (snd e) src) ca then Some ca else    (* contains_key(sha1(src)) *)
          match compile src with
          | CompYes =>
              match oracle with
              | Some (FBulk sha) => if sha_consistent ca sha src then Some (aset sha src ca) else None
              | _ => None
              end
          | _ => Some ca
          end
      end
  | _ => Some ca
  end.

(** process_frame would reach process_normal_command *)
Definition at_normal (s : server) (c : Z) : bool :=
  match zlookup c (s_conns s) with
  | Some cn => ((match s_password s with Some _ => false | None => true end) || c_auth cn) && negb (c_intx cn)
  | None => false
  end.

Definition set_aof (s : server) (a : list (list frame)) : server :=
  {| s_dbs := s_dbs s; s_trk := s_trk s; s_conns := s_conns s; s_password := s_password s; s_aof := a;
     s_pubsub := s_pubsub s |}.

(** the database EVALSHA runs its script in: the one the connection has selected
    (handle_evalsha_command(parts, db), after the repair f97685e) *)
Definition evalsha_db (selected : Z) : Z := selected.

(** handle_evalsha_command *)
Definition h_evalsha (t : Z) (s : server) (c : Z) (dbi : Z) (ca : cache) (parts : list frame) : frame * server :=
  match parts with
  | _ :: h :: (_ :: _) as tail =>
      match str_arg h with
      | None => (r_err, s)
      | Some sha0 =>
          let sha := lower sha0 in                           (* the digest is not case sensitive (0f156f9) *)
          match alookup sha ca with
          | None => (FError (bs "NOSCRIPT"), s)
          | Some src =>
              (* appended by process_normal_command before dispatch, with the connection's database (7ef6fad),
                 as the EVAL of the script the digest names (a8393c5) *)
              let aof := if mem_name (bs "EVALSHA") write_commands
                         then s_aof (log_aof_in s dbi (FBulk (bs "EVAL") :: FBulk src :: tail)) else s_aof s in
              match normal_command t s c (evalsha_db dbi) (FBulk (bs "EVAL") :: FBulk src :: tail) None with
              | (r, s1) => (r, set_aof s1 aof)
              end
          end
      end
  | _ => (r_err, s)
  end.

Definition lua_state := ((server * outbox * list (list bytes)) * cache)%type.

Definition lua_op (st : lua_state) (op : list tok) : list tok * lua_state :=
  match st with
  | ((s, ob, pend), ca) =>
    let plain := match srv_op2 (s, ob, pend) op with (o, sp) => (o, (sp, ca)) end in
    match op with
    | TB name :: TB _ :: _ => if beq name (bs "NOTE") then ([], st) else plain
    | TB name :: TI c :: TI t :: ft =>
        if beq name (bs "CMD") then
          match dec_frame (S (length ft)) ft with
          | Some (FArray (FBulk nm :: rest), ft') =>
              let command := upper (trim nm) in
              let parts := FBulk nm :: rest in
              let oracle := match dec_frame (S (length ft')) ft' with Some (o, _) => Some o | None => None end in
              if at_normal s c then
                if beq command (bs "SCRIPT") then
                  match h_script ca parts oracle with
                  | (r, ca') => (enc_frame (canon_reply command r), ((s, ob, pend), ca'))
                  end
                else if beq command (bs "EVAL") then
                  (* cache_evaluated_script (0f156f9): before the handler runs, a script that is valid UTF-8,
                     not yet cached and compiles is added to the cache; its digest is the oracle *)
                  match eval_caches ca parts oracle with
                  | Some ca' => match srv_op2 (s, ob, pend) op with (o, sp) => (o, (sp, ca')) end
                  | None => ([TB (bs "BADORACLE")], st)
                  end
                else if beq command (bs "EVALSHA") then
                  match h_evalsha t s c (match zlookup c (s_conns s) with Some cn => c_db cn | None => 0 end) ca parts with
                  | (r, s') => (enc_frame (canon_reply command r), ((s', ob, pend), ca))
                  end
                else plain
              else plain
          | _ => plain
          end
        else plain
    | _ => plain
    end
  end.

Fixpoint lua_ops (st : lua_state) (ops : list (list tok)) : list (list tok) :=
  match ops with
  | [] => []
  | op :: r => match lua_op st op with (o, st') => o :: lua_ops st' r end
  end.
Definition run_c12 (ops : list (list tok)) : list (list tok) := lua_ops ((init_server None, [], []), []) ops.
