(** Token-level runner of the pub/sub model (in-process harness c14.rs):
    [SUB c n..] [PSUB c n..]            -> (name count is_new)*
    [UNSUB c k n..] [PUNSUB c k n..]    -> (name count is_new)*      k = 0: all (None), 1: Some(names)
    [UNSUBALL c]                        -> []
    [PUB ch msg]                        -> n (c haspat pat)*  sorted by (c, haspat, pat)
    [INFO c]                            -> exists nch ch.. npat pat..   (sorted)
    [ISSUB c] [CNT ch]                  -> 0/1, count
    [MATCH pat text]                    -> 0/1
    [MATCHP pat maxlen alphabet]        -> one byte 0/1 per text over the alphabet up to maxlen *)
From Ferrous Require Import Base.Bytes Model.Types Model.PubSub.
Open Scope Z_scope.

Fixpoint tok_names (t : list tok) : list bytes :=
  match t with TB b :: r => b :: tok_names r | _ => [] end.
Definition enc_subres (l : list subres) : list tok :=
  flat_map (fun r => [TB (r_name r); TI (r_count r); TI (if r_new r then 1 else 0)]) l.

(** canonical order of a receiver list: by connection, channel entry before pattern entries,
    patterns in byte order (= Rust's Ord on (u64, Option<Vec<u8>>)) *)
Definition rleb (x y : receiver) : bool :=
  if fst x <? fst y then true else if fst y <? fst x then false else
  match snd x, snd y with
  | None, _ => true
  | Some _, None => false
  | Some p, Some q => bleb p q
  end.
Fixpoint rinsert (x : receiver) (l : list receiver) : list receiver :=
  match l with
  | [] => [x]
  | y :: r => if rleb x y then x :: l else y :: rinsert x r
  end.
Definition rsort (l : list receiver) : list receiver := fold_right rinsert [] l.
Definition enc_receivers (l : list receiver) : list tok :=
  TI (len l) :: flat_map (fun r => match r with
                                   | (c, Some p) => [TI c; TI 1; TB p]
                                   | (c, None) => [TI c; TI 0; TB []]
                                   end) (rsort l).

Fixpoint strings_of_len (alpha : bytes) (n : nat) : list bytes :=
  match n with
  | O => [[]]
  | S k => flat_map (fun c => map (cons c) (strings_of_len alpha k)) alpha
  end.
Fixpoint strings_upto (alpha : bytes) (n : nat) : list bytes :=
  match n with
  | O => [[]]
  | S k => strings_upto alpha k ++ strings_of_len alpha (S k)
  end.

Definition c14_op (s : pubsub) (op : list tok) : list tok * pubsub :=
  match op with
  | TB name :: rest =>
      if beq name (bs "SUB") then
        match rest with
        | TI c :: ns => match subscribe s c (tok_names ns) with (r, s') => (enc_subres r, s') end
        | _ => ([TB (bs "BADOP")], s)
        end
      else if beq name (bs "PSUB") then
        match rest with
        | TI c :: ns => match psubscribe s c (tok_names ns) with (r, s') => (enc_subres r, s') end
        | _ => ([TB (bs "BADOP")], s)
        end
      else if beq name (bs "UNSUB") then
        match rest with
        | TI c :: TI k :: ns =>
            match unsubscribe s c (if k =? 0 then None else Some (tok_names ns)) with
            | (r, s') => (enc_subres r, s') end
        | _ => ([TB (bs "BADOP")], s)
        end
      else if beq name (bs "PUNSUB") then
        match rest with
        | TI c :: TI k :: ns =>
            match punsubscribe s c (if k =? 0 then None else Some (tok_names ns)) with
            | (r, s') => (enc_subres r, s') end
        | _ => ([TB (bs "BADOP")], s)
        end
      else if beq name (bs "UNSUBALL") then
        match rest with
        | TI c :: _ => ([], unsubscribe_all s c)
        | _ => ([TB (bs "BADOP")], s)
        end
      else if beq name (bs "PUB") then
        match rest with
        | TB ch :: TB _ :: _ => (enc_receivers (publish s ch), s)
        | _ => ([TB (bs "BADOP")], s)
        end
      else if beq name (bs "INFO") then
        match rest with
        | TI c :: _ =>
            match clookup c (ps_conns s) with
            | Some i => (TI 1 :: TI (len (si_ch i)) :: map TB (bsort (si_ch i))
                          ++ TI (len (si_pat i)) :: map TB (bsort (si_pat i)), s)
            | None => ([TI 0], s)
            end
        | _ => ([TB (bs "BADOP")], s)
        end
      else if beq name (bs "ISSUB") then
        match rest with
        | TI c :: _ => ([TI (if is_subscribed s c then 1 else 0)], s)
        | _ => ([TB (bs "BADOP")], s)
        end
      else if beq name (bs "CNT") then
        match rest with
        | TB ch :: _ => ([TI (channel_subscriber_count s ch)], s)
        | _ => ([TB (bs "BADOP")], s)
        end
      else if beq name (bs "MATCH") then
        match rest with
        | TB p :: TB t :: _ => ([TI (if ps_match p t then 1 else 0)], s)
        | _ => ([TB (bs "BADOP")], s)
        end
      else if beq name (bs "MATCHP") then
        match rest with
        | TB p :: TI n :: TB alpha :: _ =>
            ([TB (map (fun t => if ps_match p t then 1 else 0) (strings_upto alpha (Z.to_nat n)))], s)
        | _ => ([TB (bs "BADOP")], s)
        end
      else ([TB (bs "BADOP")], s)
  | _ => ([TB (bs "BADOP")], s)
  end.

Fixpoint c14_ops (s : pubsub) (ops : list (list tok)) : list (list tok) :=
  match ops with
  | [] => []
  | op :: r => match c14_op s op with (o, s') => o :: c14_ops s' r end
  end.
Definition run_c14 (ops : list (list tok)) : list (list tok) := c14_ops ps_init ops.
