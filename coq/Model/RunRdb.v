(** Token-level runner for the RDB persistence cases (C09, C10), in-process harness
    harness/src/c09.rs, c10.rs.  State = the 16 databases + the dump file.

    Build ops (every op: [TB name; TI t; ...], t = ms since the start of the case):
      SET db key val ttl(-1 = none)      -> [TI ok]
      RPUSH db key e..   SADD db key m..   HSET db key f v ..   -> [TI ok]
      ZADD db key member bits            -> [TI ok]
      XADD db key ms seq f v ..          -> [TI ok]
      XDEL db key ms seq                 -> [TI ok]
      EXPIRE db key ms                   -> [TI found]
    Persistence ops:
      DUMP t slack k ttl_1..ttl_k        -> canonical dump (TTLs snapped to the oracle within slack)
      ISAVE t wall chk bytes             -> [TI status; TI tie]   (bytes = the implementation's file)
      MSAVE t downtime wall              -> [TI length]           (the model writes the file as of wall)
      MBYTES t wall                      -> [TB bytes]            (same, returns it; used by the harness)
      PUTFILE t bytes                    -> [TI length]
      RELOAD t wall chk                  -> [TI status]
      SWEEP t wall chk k v.. j x..       -> [TI n; (TI status+4*big; TI hash) * n]
      BLOCKSAVE t                        -> [TI 1; TI 1]  (save fails at open; dump unchanged)
      FAILSWEEP t wall                   -> [TI calls; TI all failed; TI dump unchanged; TI later save ok]
      BGSWEEP t wall                     -> [TI calls; accepted; flag cleared; dump unchanged; later bgsave ok; newer data; mixed ok]
      STALETMP t                         -> [TI 1; TI 1]  (a save over a leftover temporary file succeeds; dump = dataset, no temporary file)
      SAVERACE t                         -> [TI 1; TI 1; TI 1]  (foreground saves ok; background saves end; dump = dataset)
      TEARSTRESS t saves torn runs       -> [TI 1]  (C10 (2): racing saves; the observation is judged, not compared)
      PROBE t wall chk                   -> [TI status+4*big; TI hash]  (load the file, flags-only hash)
      SLEEP t ms                         -> []                                      *)
From Ferrous Require Import Base.Bytes Model.Resp Model.Types Model.Strings Model.Streams Model.Rdb.
Open Scope Z_scope.

Record mst := { m_ds : list db; m_disk : option bytes }.
Definition init_mst : mst := {| m_ds := empty_dbs; m_disk := None |}.

(** ---- canonical dump ---- *)
Fixpoint kinsert {A} (x : bytes * A) (l : list (bytes * A)) : list (bytes * A) :=
  match l with
  | [] => [x]
  | y :: r => if bleb (fst x) (fst y) then x :: l else y :: kinsert x r
  end.
Definition ksort {A} (l : list (bytes * A)) : list (bytes * A) := fold_right kinsert [] l.

Definition dump_pairs (l : list (bytes * bytes)) : list tok :=
  flat_map (fun p => [TB (fst p); TB (snd p)]) (ksort l).
Definition dump_value (v : value) : list tok :=
  match v with
  | VStr b => [TI 0; TB b]
  | VList l => TI 1 :: TI (len l) :: map TB l
  | VSet s => TI 2 :: TI (len s) :: map TB (bsort s)
  | VHash h => TI 3 :: TI (len h) :: dump_pairs h
  | VZSet z => TI 4 :: TI (len z) :: flat_map (fun p => [TB (fst p); TI (snd p)]) z
  | VStream s => TI 5 :: TI (len (s_entries s))
                 :: flat_map (fun e => TI (fst (fst e)) :: TI (snd (fst e)) :: TI (len (snd e)) :: dump_pairs (snd e))
                             (s_entries s)
  end.

(** storage.get drops an expired key (lazy expiry) *)
Definition live (t : Z) (d : db) : list (bytes * entry) :=
  filter (fun ke => negb (expired t (snd ke))) (d_data d).
Definition purge (t : Z) (d : db) : db :=
  {| d_data := live t d;
     d_index := filter (fun kt => match alookup (fst kt) (d_data d) with
                                  | Some e => negb (expired t e) | None => true end) (d_index d) |}.

Fixpoint dump_keys (t slack : Z) (l : list (bytes * entry)) (orc : list Z) : list tok :=
  match l with
  | [] => []
  | (k, e) :: r =>
      let m := match e_exp e with Some dl => dl - t | None => -1 end in
      let o := match orc with x :: _ => x | [] => m end in
      let shown := if (0 <=? m) && (0 <=? o) && (Z.abs (m - o) <=? slack) then o else m in
      TB k :: TI shown :: dump_value (e_val e) ++ dump_keys t slack r (tl orc)
  end.
Fixpoint dump_dbs (t slack : Z) (i : Z) (ds : list db) (orc : list Z) : list tok :=
  match ds with
  | [] => []
  | d :: r =>
      let ks := ksort (live t d) in
      match ks with
      | [] => dump_dbs t slack (i + 1) r orc
      | _ => TI i :: TI (len ks) :: dump_keys t slack ks orc
             ++ dump_dbs t slack (i + 1) r (skipn (length ks) orc)
      end
  end.

(** flags-only dump for the corruption sweep (no TTL values: they depend on the clock) *)
Fixpoint flag_keys (l : list (bytes * entry)) : list tok :=
  match l with
  | [] => []
  | (k, e) :: r => TB k :: TI (match e_exp e with Some _ => 1 | None => 0 end) :: dump_value (e_val e) ++ flag_keys r
  end.
Fixpoint flag_dbs (t : Z) (i : Z) (ds : list db) : list tok :=
  match ds with
  | [] => []
  | d :: r =>
      let ks := ksort (live t d) in
      match ks with
      | [] => flag_dbs t (i + 1) r
      | _ => TI i :: TI (len ks) :: flag_keys ks ++ flag_dbs t (i + 1) r
      end
  end.

(** Fletcher-style hash of a token list (same arithmetic in harness/src/c09.rs) *)
Definition hmod := 2147483647.
Definition hstep (st : Z * Z) (v : Z) : Z * Z :=
  let a := (fst st + v + 1) mod hmod in (a, (snd st + a) mod hmod).
Definition hash_tok (st : Z * Z) (t : tok) : Z * Z :=
  match t with
  | TI z => hstep (hstep st 1) (z mod hmod)
  | TB b => fold_left hstep b (hstep (hstep st 2) (len b))
  end.
Definition hash_toks (l : list tok) : Z :=
  let st := fold_left hash_tok l (0, 0) in fst st + hmod * snd st.

(** ---- decoding helpers ---- *)
Fixpoint tbs (l : list tok) : list bytes :=
  match l with TB b :: r => b :: tbs r | _ => [] end.
Fixpoint tis (l : list tok) : list Z :=
  match l with TI z :: r => z :: tis r | _ => [] end.
Fixpoint pairs_of (l : list bytes) : list (bytes * bytes) :=
  match l with a :: b :: r => (a, b) :: pairs_of r | _ => [] end.
Definition okf (r : option (list db)) (s : mst) : list tok * mst :=
  match r with
  | Some ds => ([TI 1], {| m_ds := ds; m_disk := m_disk s |})
  | None => ([TI 0], s)
  end.
Definition st_code (s : lstatus) : Z := match s with LOk => 0 | LErr => 1 | LPanic => 2 end.

Definition api_xdel (ds : list db) (i : Z) (k : bytes) (id : sid) : option (list db) :=
  match get_dbi ds i with
  | Some d =>
      match get_entry d k with
      | Some e => match e_val e with
                  | VStream s => Some (set_dbi ds i (keep_exp d k (VStream (snd (st_delete s [id]))) e))
                  | _ => None
                  end
      | None => Some ds
      end
  | None => None
  end.

(** the file order of a loaded dataset: keys were inserted at the head *)
Definition rev_db (d : db) : db := {| d_data := frev (d_data d); d_index := d_index d |}.

(** ---- the corruption sweep ---- *)
Fixpoint set_byte (l : bytes) (p : nat) (v : Z) : bytes :=
  match l, p with
  | [], _ => []
  | _ :: r, O => v :: r
  | c :: r, S p' => c :: set_byte r p' v
  end.
Definition variant_out (t wall : Z) (b : bytes) : list tok :=
  match load t wall b with
  | (st, ds, r) =>
      let big := if 64 * len b + 1048576 <? r_resv r then 4 else 0 in
      [TI (st_code st + big); TI (hash_toks (flag_dbs t 0 ds))]
  end.
Fixpoint prefixes_out (t wall : Z) (b : bytes) (n : nat) (acc : list tok) : list tok :=
  match n with
  | O => acc
  | S k => prefixes_out t wall b k (variant_out t wall (firstn k b) ++ acc)
  end.
Definition byte_variants (c : Z) (abs xors : list Z) : list Z :=
  filter (fun v => negb (v =? c)) (abs ++ map (fun x => Z.lxor c x) xors).
Fixpoint corrupt_out (t wall : Z) (b : bytes) (abs xors : list Z) (pre : bytes) (post : bytes)
  : list tok :=
  match post with
  | [] => []
  | c :: r =>
      flat_map (fun v => variant_out t wall (rev_append pre (v :: r))) (byte_variants c abs xors)
      ++ corrupt_out t wall b abs xors (c :: pre) r
  end.

(** ---- one operation ---- *)
Definition ver_default : bytes := bs "0.1.0".
Definition model_save (t wall : Z) (ds : list db) : bytes := save ver_default (wall / 1000) t wall ds.

Definition aux_of (b : bytes) : bytes * Z :=
  (* version string and ctime of a file written by the implementation:
     magic(5) version(4) FA <"redis-ver"> <ver> FA <"ctime"> <digits> *)
  let s0 := {| r_in := skipn 9 b; r_resv := 0 |} in
  match (_ <- read_byte ;; _ <- read_string ;; v <- read_string ;;
         _ <- read_byte ;; _ <- read_string ;; c <- read_string ;; ret (v, c)) s0 with
  | (Some (v, c), _) => (v, match parse_digits c with Some n => n | None => 0 end)
  | (None, _) => ([], 0)
  end.

Definition rdb_op (s : mst) (op : list tok) : list tok * mst :=
  match op with
  | TB name :: TI t :: rest =>
      let ds := m_ds s in
      if beq name (bs "SET") then
        match rest with
        | [TI i; TB k; TB v; TI ttl] => okf (api_set t ds i k v (if ttl <? 0 then None else Some ttl)) s
        | _ => ([TB (bs "BADOP")], s)
        end
      else if beq name (bs "RPUSH") then
        match rest with
        | TI i :: TB k :: els => okf (api_rpush ds i k (tbs els)) s
        | _ => ([TB (bs "BADOP")], s)
        end
      else if beq name (bs "SADD") then
        match rest with
        | TI i :: TB k :: els => okf (api_sadd ds i k (tbs els)) s
        | _ => ([TB (bs "BADOP")], s)
        end
      else if beq name (bs "HSET") then
        match rest with
        | TI i :: TB k :: els => okf (api_hset ds i k (pairs_of (tbs els))) s
        | _ => ([TB (bs "BADOP")], s)
        end
      else if beq name (bs "ZADD") then
        match rest with
        | [TI i; TB k; TB m; TI bits] => okf (api_zadd ds i k m bits) s
        | _ => ([TB (bs "BADOP")], s)
        end
      else if beq name (bs "XADD") then
        match rest with
        | TI i :: TB k :: TI ms :: TI sq :: els => okf (api_xadd_r ds i k (ms, sq) (h_ins_all [] (pairs_of (tbs els)))) s
        | _ => ([TB (bs "BADOP")], s)
        end
      else if beq name (bs "XDEL") then
        match rest with
        | [TI i; TB k; TI ms; TI sq] => okf (api_xdel ds i k (ms, sq)) s
        | _ => ([TB (bs "BADOP")], s)
        end
      else if beq name (bs "EXPIRE") then
        match rest with
        | [TI i; TB k; TI ms] =>
            match get_dbi ds i with
            | Some d => match eng_expire t d k ms with
                        | (found, d') => ([TI (if found then 1 else 0)],
                                          {| m_ds := set_dbi ds i d'; m_disk := m_disk s |})
                        end
            | None => ([TI (-1)], s)
            end
        | _ => ([TB (bs "BADOP")], s)
        end
      else if beq name (bs "DUMP") then
        match rest with
        | TI slack :: TI _ :: orc =>
            (dump_dbs t slack 0 ds (tis orc), {| m_ds := map (purge t) ds; m_disk := m_disk s |})
        | _ => ([TB (bs "BADOP")], s)
        end
      else if beq name (bs "ISAVE") then
        match rest with
        | [TI wall; TI chk; TB b] =>
            if (0 <? chk) && save_panics t wall ds then ([TI 2; TI 1], s)
            else
              let tie :=
                if rt_guard t wall wall ds && forallb (fun d => forallb (fun ke => negb (expired t (snd ke))) (d_data d)) ds then
                  match load t wall b with
                  | (LOk, ds', _) =>
                      let (ver, ctime) := aux_of b in
                      if beq (save ver ctime t wall (map rev_db ds')) b then 1 else 0
                  | _ => 0
                  end
                else 1 in
              ([TI 0; TI tie], {| m_ds := ds; m_disk := Some b |})
        | _ => ([TB (bs "BADOP")], s)
        end
      else if beq name (bs "MSAVE") then
        match rest with
        | [TI _; TI wall] => let b := model_save t wall ds in
                             ([TI (len b)], {| m_ds := ds; m_disk := Some b |})
        | _ => ([TB (bs "BADOP")], s)
        end
      else if beq name (bs "MBYTES") then
        match rest with
        | [TI wall] => ([TB (model_save t wall ds)], s)
        | _ => ([TB (bs "BADOP")], s)
        end
      else if beq name (bs "PUTFILE") then
        match rest with
        | [TB b] => ([TI (len b)], {| m_ds := ds; m_disk := Some b |})
        | _ => ([TB (bs "BADOP")], s)
        end
      else if beq name (bs "RELOAD") then
        match rest with
        | [TI wall; TI chk] =>
            match m_disk s with
            | None => ([TI 0], {| m_ds := empty_dbs; m_disk := None |})
            | Some b => match load t wall b with
                        | (st, ds', _) => ([TI (st_code st)], {| m_ds := ds'; m_disk := m_disk s |})
                        end
            end
        | _ => ([TB (bs "BADOP")], s)
        end
      else if beq name (bs "SWEEP") then
        match rest with
        | TI wall :: TI chk :: TI k :: r =>
            match m_disk s with
            | None => ([TI 0], s)
            | Some b =>
                let abs := firstn (Z.to_nat k) (tis r) in
                let xors := tis (tl (skipn (Z.to_nat k) r)) in
                let outs := prefixes_out t wall b (length b) [] ++ corrupt_out t wall b abs xors [] b in
                (TI (len outs / 2) :: outs, s)
            end
        | _ => ([TB (bs "BADOP")], s)
        end
      else if beq name (bs "BLOCKSAVE") then
        (* the temporary file cannot be opened: write_snapshot fails before its first write;
           the dump is untouched (Props/C10.v c10_failed_save_keeps_dump with k = 0) *)
        ([TI 1; TI 1], s)
      else if beq name (bs "FAILSWEEP") then
        (* every write call of a save fails in turn (hook-rdb-failat): each such save reports
           failure and leaves the dump unchanged, a later save succeeds (Props/C10.v); the
           number of calls is that of the writer model.  [TI wall] = ctime*1000 read by the harness *)
        match rest with
        | [TI wall] => ([TI (calls_save ver_default (wall / 1000) t ds); TI 1; TI 1; TI 1], s)
        | _ => ([TB (bs "BADOP")], s)
        end
      else if beq name (bs "BGSWEEP") then
        (* background saves with an armed write failure, then undisturbed ones (Props/C10.v
           c10_bgsave_flag_clear_when_idle, c10_later_bgsave_succeeds): every failing BGSAVE is
           accepted, its thread ends, the flag clears, the dump is unchanged; a later BGSAVE is
           accepted and publishes the newer data; likewise failing SAVE then BGSAVE and failing
           BGSAVE then SAVE *)
        match rest with
        | [TI wall] => ([TI (calls_save ver_default (wall / 1000) t ds); TI 1; TI 1; TI 1; TI 1; TI 1; TI 1], s)
        | _ => ([TB (bs "BADOP")], s)
        end
      else if beq name (bs "STALETMP") then
        (* the temporary file holds the leftover of a save that never finished: write_snapshot opens it
           truncating (Generated.rdb_tmp_opened_afresh), so the save is the save of
           Props/C10.v c10_later_save_succeeds - whatever dk_tmp held; the harness puts the dump back *)
        ([TI 1; TI 1], s)
      else if beq name (bs "SAVERACE") then
        (* a foreground save issued while a background save is writing: saves are serialised
           (Generated.rdb_save_serialised, Props/C10.v), so each is an undisturbed save; the
           harness puts the dump file back as it was *)
        ([TI 1; TI 1; TI 1], s)
      else if beq name (bs "TEARSTRESS") then ([TI 1], s)   (* schedule-dependent observation, judged only *)
      else if beq name (bs "PROBE") then
        match rest with
        | [TI wall; TI chk] =>
            match m_disk s with
            | None => ([TI 0; TI 0], s)
            | Some b => match load t wall b with
                        | (_, ds', _) => (variant_out t wall b, {| m_ds := ds'; m_disk := m_disk s |})
                        end
            end
        | _ => ([TB (bs "BADOP")], s)
        end
      else if beq name (bs "SLEEP") then ([], s)
      else ([TB (bs "BADOP")], s)
  | _ => ([TB (bs "BADOP")], s)
  end.

Fixpoint rdb_ops (s : mst) (ops : list (list tok)) : list (list tok) :=
  match ops with
  | [] => []
  | op :: r => match rdb_op s op with (o, s') => o :: rdb_ops s' r end
  end.
Definition run_rdb (ops : list (list tok)) : list (list tok) := rdb_ops init_mst ops.
