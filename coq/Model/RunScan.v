(** Token-level runner for C19: the TCP ops of RunSrv (CONN/CLOSE/SLEEP/CMD) plus in-process
    engine ops on database 0 (harness c19.rs calls ferrous::storage::StorageEngine directly).
    Every engine op carries the logical time [t] (ms) as its second token.
    [ESET t k v ttl]   (ttl < 0: none)            -> []
    [EDEL t k]                                    -> deleted 0/1
    [EPEXPIRE t k ms]                             -> 0/1
    [ESADD t k m..] [ESREM t k m..]               -> n | "WRONGTYPE"
    [EHSET t k f v ..] [EHDEL t k f..]            -> n | "WRONGTYPE"
    [EZADD t k m bits] [EZREM t k m]              -> 0/1 | "WRONGTYPE"
    [ELPUSH t k e..]                              -> n | "WRONGTYPE"
    [ESCAN t cursor haspat pat hastype type count]      -> next key..
    [EHSCAN t k cursor haspat pat count novalues]       -> ok next item..     (ok = 0: WRONGTYPE)
    [ESSCAN t k cursor haspat pat count]                -> ok next member..
    [EZSCAN t k cursor haspat pat count text..]         -> ok next (member bits text)..
       (text.. = the implementation's score texts, oracle for non-integer scores) *)
From Ferrous Require Import Base.Bytes Model.Resp Model.Types Model.Strings Model.Scan Model.Server
  Model.RunBase Model.RunSrv Model.RunPubSub.
Open Scope Z_scope.

Definition opt_tok (has : Z) (b : bytes) : option bytes := if has =? 0 then None else Some b.

Definition badd (acc : list bytes) (m : bytes) : list bytes := if bmem m acc then acc else m :: acc.

(** sadd / srem / hset / hdel / zadd / zrem / lpush of engine.rs, as far as the scan tie needs
    them (no expiry check in any of them; the key is removed when the collection empties in
    srem / hdel / zrem; sadd with no member creates an empty set) *)
Definition e_sadd (d : db) (k : bytes) (ms : list bytes) : option Z * db :=
  match get_entry d k with
  | Some e => match e_val e with
              | VSet s => let s' := fold_left badd ms s in
                          (Some (len s' - len s), put_entry d k {| e_val := VSet s'; e_exp := e_exp e |})
              | _ => (None, d)
              end
  | None => let s' := fold_left badd ms [] in
            (Some (len s'), put_entry d k {| e_val := VSet s'; e_exp := None |})
  end.
Definition e_srem (d : db) (k : bytes) (ms : list bytes) : option Z * db :=
  match get_entry d k with
  | Some e => match e_val e with
              | VSet s => let s' := fold_left (fun acc m => bremove m acc) ms s in
                          (Some (len s - len s'),
                           match s' with
                           | [] => del_entry d k
                           | _ => put_entry d k {| e_val := VSet s'; e_exp := e_exp e |}
                           end)
              | _ => (None, d)
              end
  | None => (Some 0, d)
  end.
Definition e_hset (d : db) (k : bytes) (fvs : list (bytes * bytes)) : option Z * db :=
  match get_entry d k with
  | Some e => match e_val e with
              | VHash h => let h' := fold_left (fun acc fv => aset (fst fv) (snd fv) acc) fvs h in
                           (Some (len h' - len h), put_entry d k {| e_val := VHash h'; e_exp := e_exp e |})
              | _ => (None, d)
              end
  | None => let h' := fold_left (fun acc fv => aset (fst fv) (snd fv) acc) fvs [] in
            (Some (len fvs), put_entry d k {| e_val := VHash h'; e_exp := None |})
  end.
Definition e_hdel (d : db) (k : bytes) (fs : list bytes) : option Z * db :=
  match get_entry d k with
  | Some e => match e_val e with
              | VHash h => let h' := fold_left (fun acc f => aremove f acc) fs h in
                           (Some (len h - len h'),
                            match h' with
                            | [] => del_entry d k
                            | _ => put_entry d k {| e_val := VHash h'; e_exp := e_exp e |}
                            end)
              | _ => (None, d)
              end
  | None => (Some 0, d)
  end.
Definition e_zadd (d : db) (k m : bytes) (bits : Z) : option Z * db :=
  match get_entry d k with
  | Some e => match e_val e with
              | VZSet z => (Some (if amem m z then 0 else 1),
                            put_entry d k {| e_val := VZSet (aset m bits z); e_exp := e_exp e |})
              | _ => (None, d)
              end
  | None => (Some 1, put_entry d k {| e_val := VZSet [(m, bits)]; e_exp := None |})
  end.
Definition e_zrem (d : db) (k m : bytes) : option Z * db :=
  match get_entry d k with
  | Some e => match e_val e with
              | VZSet z => if amem m z then
                             (Some 1, match aremove m z with
                                      | [] => del_entry d k
                                      | z' => put_entry d k {| e_val := VZSet z'; e_exp := e_exp e |}
                                      end)
                           else (Some 0, d)
              | _ => (None, d)
              end
  | None => (Some 0, d)
  end.
Definition e_lpush (d : db) (k : bytes) (es : list bytes) : option Z * db :=
  match get_entry d k with
  | Some e => match e_val e with
              | VList l => let l' := rev es ++ l in
                           (Some (len l'), put_entry d k {| e_val := VList l'; e_exp := e_exp e |})
              | _ => (None, d)
              end
  | None => (Some (len es), put_entry d k {| e_val := VList (rev es); e_exp := None |})
  end.

Definition enc_cnt (r : option Z) : list tok :=
  match r with Some n => [TI n] | None => [TB (bs "WRONGTYPE")] end.
Fixpoint tok_pairs (t : list tok) : list (bytes * bytes) :=
  match t with TB a :: TB b :: r => (a, b) :: tok_pairs r | _ => [] end.
Fixpoint zitems_toks (items : list (bytes * Z)) (texts : list bytes) : list tok :=
  match items with
  | [] => []
  | (m, sc) :: r =>
      TB m :: TI sc :: TB (f64_text sc (match texts with t :: _ => Some t | [] => None end))
      :: zitems_toks r (tl texts)
  end.

Definition eng_op (name : bytes) (now : Z) (d : db) (a : list tok) : list tok * db :=
  if beq name (bs "ESET") then
    match a with
    | [TB k; TB v; TI ttl] => ([], set_value now d k (VStr v) (if ttl <? 0 then None else Some ttl))
    | _ => ([TB (bs "BADOP")], d)
    end
  else if beq name (bs "EDEL") then
    match a with
    | [TB k] => match eng_delete d k with (b, d') => ([TI (if b then 1 else 0)], d') end
    | _ => ([TB (bs "BADOP")], d)
    end
  else if beq name (bs "EPEXPIRE") then
    match a with
    | [TB k; TI ms] => match eng_expire now d k ms with (b, d') => ([TI (if b then 1 else 0)], d') end
    | _ => ([TB (bs "BADOP")], d)
    end
  else if beq name (bs "ESADD") then
    match a with
    | TB k :: ms => match e_sadd d k (tok_names ms) with (r, d') => (enc_cnt r, d') end
    | _ => ([TB (bs "BADOP")], d)
    end
  else if beq name (bs "ESREM") then
    match a with
    | TB k :: ms => match e_srem d k (tok_names ms) with (r, d') => (enc_cnt r, d') end
    | _ => ([TB (bs "BADOP")], d)
    end
  else if beq name (bs "EHSET") then
    match a with
    | TB k :: fvs => match e_hset d k (tok_pairs fvs) with (r, d') => (enc_cnt r, d') end
    | _ => ([TB (bs "BADOP")], d)
    end
  else if beq name (bs "EHDEL") then
    match a with
    | TB k :: fs => match e_hdel d k (tok_names fs) with (r, d') => (enc_cnt r, d') end
    | _ => ([TB (bs "BADOP")], d)
    end
  else if beq name (bs "EZADD") then
    match a with
    | [TB k; TB m; TI bits] => match e_zadd d k m bits with (r, d') => (enc_cnt r, d') end
    | _ => ([TB (bs "BADOP")], d)
    end
  else if beq name (bs "EZREM") then
    match a with
    | [TB k; TB m] => match e_zrem d k m with (r, d') => (enc_cnt r, d') end
    | _ => ([TB (bs "BADOP")], d)
    end
  else if beq name (bs "ELPUSH") then
    match a with
    | TB k :: es => match e_lpush d k (tok_names es) with (r, d') => (enc_cnt r, d') end
    | _ => ([TB (bs "BADOP")], d)
    end
  else if beq name (bs "ESCAN") then
    match a with
    | [TI cursor; TI hp; TB p; TI ht; TB ty; TI count] =>
        match eng_scan now d cursor (opt_tok hp p) (opt_tok ht ty) count with
        | (c, keys) => (TI c :: map TB keys, d)
        end
    | _ => ([TB (bs "BADOP")], d)
    end
  else if beq name (bs "EHSCAN") then
    match a with
    | [TB k; TI cursor; TI hp; TB p; TI count; TI nov] =>
        match eng_hscan now d k cursor (opt_tok hp p) count (negb (nov =? 0)) with
        | (Some (c, l), d') =>
            (* canonical order (the harness sorts too): by field; the order inside a page is hash order *)
            (TI 1 :: TI c :: map TB (if nov =? 0 then flat_pairs false (psort (tok_pairs (map TB l))) else bsort l), d')
        | (None, d') => ([TI 0], d')
        end
    | _ => ([TB (bs "BADOP")], d)
    end
  else if beq name (bs "ESSCAN") then
    match a with
    | [TB k; TI cursor; TI hp; TB p; TI count] =>
        match eng_sscan now d k cursor (opt_tok hp p) count with
        | (Some (c, l), d') => (TI 1 :: TI c :: map TB (bsort l), d')
        | (None, d') => ([TI 0], d')
        end
    | _ => ([TB (bs "BADOP")], d)
    end
  else if beq name (bs "EZSCAN") then
    match a with
    | TB k :: TI cursor :: TI hp :: TB p :: TI count :: texts =>
        match eng_zscan now d k cursor (opt_tok hp p) count with
        | (Some (c, l), d') => (TI 1 :: TI c :: zitems_toks l (tok_names texts), d')
        | (None, d') => ([TI 0], d')
        end
    | _ => ([TB (bs "BADOP")], d)
    end
  else ([TB (bs "BADOP")], d).

Definition is_srv_op (name : bytes) : bool :=
  beq name (bs "CONN") || beq name (bs "CLOSE") || beq name (bs "SLEEP") || beq name (bs "CMD").

Definition c19_op (s : server) (op : list tok) : list tok * server :=
  match op with
  | TB name :: rest =>
      if is_srv_op name then srv_op_plain s op
      else match rest with
           | TI t :: a => match eng_op name t (get_db s 0) a with (o, d') => (o, set_db s 0 d') end
           | _ => ([TB (bs "BADOP")], s)
           end
  | _ => ([TB (bs "BADOP")], s)
  end.
Fixpoint c19_ops (s : server) (ops : list (list tok)) : list (list tok) :=
  match ops with
  | [] => []
  | op :: r => match c19_op s op with (o, s') => o :: c19_ops s' r end
  end.
Definition run_c19 (ops : list (list tok)) : list (list tok) := c19_ops (init_server None) ops.
