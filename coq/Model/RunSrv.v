(** Token-level runner for server histories (TCP harness):
    [TB "CONN"; TI c]                         -> [TI 1]
    [TB "CLOSE"; TI c]                        -> []
    [TB "SLEEP"; TI ms]                       -> []
    [TB "CMD"; TI c; TI t; request frame; (oracle frame)] -> canonical reply frame *)
From Ferrous Require Import Base.Bytes Model.Resp Model.Types Model.Server Model.RunBase.
Open Scope Z_scope.

(** replies inside an EXEC array are canonicalised by the queued command's name *)
Fixpoint canon_zip (q : list (list frame)) (l : list frame) : list frame :=
  match q, l with
  | parts :: q', x :: l' => canon_reply (req_name (FArray parts)) x :: canon_zip q' l'
  | _, _ => l
  end.
Definition canon_exec (s : server) (c : Z) (name : bytes) (r : frame) : frame :=
  if beq name (bs "EXEC") then
    match r, zlookup c (s_conns s) with
    | FArray l, Some cn => if len l =? len (c_queue cn) then canon_reply name (FArray (canon_zip (c_queue cn) l))
                           else canon_reply name r
    | _, _ => canon_reply name r
    end
  else canon_reply name r.

Definition srv_op (s : server) (op : list tok) : list tok * server :=
  match op with
  | TB name :: rest =>
      if beq name (bs "SERVER") then
        (* [TB "SERVER"; TB password ("" = none)]: (re)start with this configuration *)
        match rest with
        | TB pw :: _ => ([], init_server (match pw with [] => None | _ => Some pw end))
        | _ => ([TB (bs "BADOP")], s)
        end
      else if beq name (bs "CONN") then
        match rest with
        | TI c :: _ => ([TI 1], connect s c)
        | _ => ([TB (bs "BADOP")], s)
        end
      else if beq name (bs "CLOSE") then
        match rest with
        | TI c :: _ => ([], del_conn s c)
        | _ => ([TB (bs "BADOP")], s)
        end
      else if beq name (bs "SLEEP") then ([], s)
      else if beq name (bs "CMD") then
        match rest with
        | TI c :: TI t :: ft =>
            match dec_frame (S (length ft)) ft with
            | Some (req, ft') =>
                let oracle := match dec_frame (S (length ft')) ft' with
                              | Some (o, _) => Some o | None => None end in
                match zlookup c (s_conns s) with
                | None => ([TB (bs "CLOSED")], s)
                | Some _ =>
                    match process_frame t s c req oracle with
                    | (r, s') => (enc_frame (canon_exec s c (req_name req) r),
                                  if is_quit req then del_conn s' c else s')
                    end
                end
            | None => ([TB (bs "BADFRAME")], s)
            end
        | _ => ([TB (bs "BADOP")], s)
        end
      else ([TB (bs "BADOP")], s)
  | _ => ([TB (bs "BADOP")], s)
  end.

Fixpoint srv_ops (s : server) (ops : list (list tok)) : list (list tok) :=
  match ops with
  | [] => []
  | op :: r => match srv_op s op with (o, s') => o :: srv_ops s' r end
  end.
Definition run_srv (ops : list (list tok)) : list (list tok) := srv_ops (init_server None) ops.
