(** Token-level runner for server histories (TCP harness):
    [TB "CONN"; TI c]                         -> [TI 1]
    [TB "CLOSE"; TI c]                        -> []
    [TB "SLEEP"; TI ms]                       -> []
    [TB "CMD"; TI c; TI t; request frame; (oracle frame)] -> canonical reply frame *)
From Ferrous Require Import Base.Bytes Model.Resp Model.Types Model.Server Model.Conn Model.RunBase.
Open Scope Z_scope.

(** replies inside an EXEC array are canonicalised by the queued command's name *)
Fixpoint canon_zip (q : list (list frame)) (l : list frame) : list frame :=
  match q, l with
  | parts :: q', x :: l' => canon_reply (req_name (FArray parts)) x :: canon_zip q' l'
  | _, _ => l
  end.
Definition canon_exec (s : server) (c : Z) (name : bytes) (r : frame) : frame :=
  if beq name (bs "EXEC") then
    match r, zlookup c (s_conns s) with
    | FArray l, Some cn => if len l =? len (c_queue cn) then canon_reply name (FArray (canon_zip (c_queue cn) l))
                           else canon_reply name r
    | _, _ => canon_reply name r
    end
  else canon_reply name r.

(** a full sweeper pass: every database, collect then delete at the same instant *)
Definition sweep_db_at (now : Z) (dt : db * tracker) : db * tracker :=
  sweep_delete now (fst dt) (snd dt) (sweep_collect now (fst dt)).
Definition sweep_all (now : Z) (s : server) : server :=
  let dts := map (sweep_db_at now) (combine (s_dbs s) (s_trk s)) in
  {| s_dbs := map fst dts; s_trk := map snd dts; s_conns := s_conns s;
     s_password := s_password s; s_aof := s_aof s |}.

Definition conn_buf (c : Z) (bufs : unit) : bytes := [].
Definition bufs : unit := tt.

Definition srv_op (s : server) (op : list tok) : list tok * server :=
  match op with
  | TB name :: rest =>
      if beq name (bs "SERVER") then
        (* [TB "SERVER"; TB password ("" = none)]: (re)start with this configuration *)
        match rest with
        | TB pw :: _ => ([], init_server (match pw with [] => None | _ => Some pw end))
        | _ => ([TB (bs "BADOP")], s)
        end
      else if beq name (bs "CONN") then
        match rest with
        | TI c :: _ => ([TI 1], connect s c)
        | _ => ([TB (bs "BADOP")], s)
        end
      else if beq name (bs "CLOSE") then
        match rest with
        | TI c :: _ => ([], del_conn s c)
        | _ => ([TB (bs "BADOP")], s)
        end
      else if beq name (bs "SLEEP") then ([], s)
      else if beq name (bs "CMD") then
        match rest with
        | TI c :: TI t :: ft =>
            match dec_frame (S (length ft)) ft with
            | Some (req, ft') =>
                let oracle := match dec_frame (S (length ft')) ft' with
                              | Some (o, _) => Some o | None => None end in
                match zlookup c (s_conns s) with
                | None => ([TB (bs "CLOSED")], s)
                | Some _ =>
                    match process_frame t s c req oracle with
                    | (r, s') => (enc_frame (canon_exec s c (req_name req) r),
                                  if is_quit req then del_conn s' c else s')
                    end
                end
            | None => ([TB (bs "BADFRAME")], s)
            end
        | _ => ([TB (bs "BADOP")], s)
        end
      else if beq name (bs "SWEEP") then
        (* one full sweeper pass at model time t over all databases *)
        match rest with
        | TI t :: _ => ([], sweep_all t s)
        | _ => ([TB (bs "BADOP")], s)
        end
      else if beq name (bs "RAW") then
        (* [TB "RAW"; TI c; TI t; chunks...] -> [TI closed; canonical reply frames...] *)
        match rest with
        | TI c :: TI t :: chunks =>
            match zlookup c (s_conns s) with
            | None => ([TB (bs "CLOSED")], s)
            | Some _ =>
                match conn_feed t s c (conn_buf c bufs) (dec_chunks chunks) [] with
                | (out, buf', s', closed) =>
                    match decode_out out with
                    | (fs, st) =>
                        (TI (if closed then 1 else 0) :: enc_frames (map canon fs)
                           ++ (match st with Failed => [TB (bs "GARBAGE")] | NeedMore => [] end), s')
                    end
                end
            end
        | _ => ([TB (bs "BADOP")], s)
        end
      else ([TB (bs "BADOP")], s)
  | _ => ([TB (bs "BADOP")], s)
  end.

(** the sweeper stopped between its collect phase and its delete phase (gate hook):
    [SWEEP_GATE t] collects at time t, client commands run, [SWEEP_RELEASE t'] deletes at t' *)
Definition srv_op2 (sp : server * list (list bytes)) (op : list tok) : list tok * (server * list (list bytes)) :=
  let (s, pend) := sp in
  match op with
  | TB name :: TI t :: _ =>
      if beq name (bs "SWEEP_GATE") then ([], (s, map (sweep_collect t) (s_dbs s)))
      else if beq name (bs "SWEEP_RELEASE") then
        let dts := map (fun x => match x with (d, tr, ks) => sweep_delete t d tr ks end)
                       (combine (combine (s_dbs s) (s_trk s)) pend) in
        ([], ({| s_dbs := map fst dts; s_trk := map snd dts; s_conns := s_conns s;
                 s_password := s_password s; s_aof := s_aof s |}, []))
      else match srv_op s op with (o, s') => (o, (s', pend)) end
  | _ => match srv_op s op with (o, s') => (o, (s', pend)) end
  end.

Fixpoint srv_ops (sp : server * list (list bytes)) (ops : list (list tok)) : list (list tok) :=
  match ops with
  | [] => []
  | op :: r => match srv_op2 sp op with (o, sp') => o :: srv_ops sp' r end
  end.
Definition run_srv (ops : list (list tok)) : list (list tok) := srv_ops (init_server None, []) ops.
