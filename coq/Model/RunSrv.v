(** Token-level runner for server histories (TCP harness):
    [TB "CONN"; TI c]                         -> [TI 1]
    [TB "CLOSE"; TI c]                        -> []
    [TB "SLEEP"; TI ms]                       -> []
    [TB "CMD"; TI c; TI t; request frame; (oracle frame)] -> canonical reply frame *)
From Ferrous Require Import Base.Bytes Model.Resp Model.Types Model.Server Model.RunBase.
Open Scope Z_scope.

Definition srv_op (s : server) (op : list tok) : list tok * server :=
  match op with
  | TB name :: rest =>
      if beq name (bs "CONN") then
        match rest with
        | TI c :: _ => ([TI 1], set_conn s c new_conn)
        | _ => ([TB (bs "BADOP")], s)
        end
      else if beq name (bs "CLOSE") then
        match rest with
        | TI c :: _ => ([], {| s_dbs := s_dbs s; s_conns := zremove c (s_conns s) |})
        | _ => ([TB (bs "BADOP")], s)
        end
      else if beq name (bs "SLEEP") then ([], s)
      else if beq name (bs "CMD") then
        match rest with
        | TI c :: TI t :: ft =>
            match dec_frame (S (length ft)) ft with
            | Some (req, ft') =>
                let oracle := match dec_frame (S (length ft')) ft' with
                              | Some (o, _) => Some o | None => None end in
                match process_frame t s c req oracle with
                | (r, s') => (enc_frame (canon_reply (req_name req) r), s')
                end
            | None => ([TB (bs "BADFRAME")], s)
            end
        | _ => ([TB (bs "BADOP")], s)
        end
      else ([TB (bs "BADOP")], s)
  | _ => ([TB (bs "BADOP")], s)
  end.

Fixpoint srv_ops (s : server) (ops : list (list tok)) : list (list tok) :=
  match ops with
  | [] => []
  | op :: r => match srv_op s op with (o, s') => o :: srv_ops s' r end
  end.
Definition run_srv (ops : list (list tok)) : list (list tok) := srv_ops init_server ops.
