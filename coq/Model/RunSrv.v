(** Token-level runner for server histories (TCP harness):
    [TB "CONN"; TI c]                         -> [TI 1]
    [TB "CLOSE"; TI c]                        -> []
    [TB "SLEEP"; TI ms]                       -> []
    [TB "CMD"; TI c; TI t; request frame; (oracle frame)] -> canonical reply frame
    [TB "SUBCMD"; TI c; TI t; request frame]  -> [TI closed; every frame connection c has received and
                                                  not read yet, incl. what this request produces]
    [TB "DRAIN"; TI c; TI t]                  -> [TI 0; frames pushed to c and not read yet]
    [TB "SUBRAW"; TI c; TI t; TB bytes]       -> as RAW with one chunk (the harness delimits by a marker)
    The runner keeps, per connection, the frames the server has written and the client has not
    read yet ([outbox]): CMD reads exactly one frame, so after a PUBLISH that reaches the
    publisher itself, or a SUBSCRIBE with several channels, later reads see the leftovers. *)
From Ferrous Require Import Base.Bytes Model.Resp Model.Types Model.Server Model.Conn Model.RunBase.
Open Scope Z_scope.

(** replies inside an EXEC array are canonicalised by the queued command's name *)
Fixpoint canon_zip (q : list (list frame)) (l : list frame) : list frame :=
  match q, l with
  | parts :: q', x :: l' => canon_reply (req_name (FArray parts)) x :: canon_zip q' l'
  | _, _ => l
  end.
Definition canon_exec (s : server) (c : Z) (name : bytes) (r : frame) : frame :=
  if beq name (bs "EXEC") then
    match r, zlookup c (s_conns s) with
    | FArray l, Some cn => if len l =? len (c_queue cn) then canon_reply name (FArray (canon_zip (c_queue cn) l))
                           else canon_reply name r
    | _, _ => canon_reply name r
    end
  else canon_reply name r.

(** a full sweeper pass: every database, collect then delete at the same instant *)
Definition sweep_db_at (now : Z) (dt : db * tracker) : db * tracker :=
  sweep_delete now (fst dt) (snd dt) (sweep_collect now (fst dt)).
Definition sweep_all (now : Z) (s : server) : server :=
  let dts := map (sweep_db_at now) (combine (s_dbs s) (s_trk s)) in
  {| s_dbs := map fst dts; s_trk := map snd dts; s_conns := s_conns s;
     s_password := s_password s; s_aof := s_aof s; s_pubsub := s_pubsub s |}.

Definition conn_buf (c : Z) (bufs : unit) : bytes := [].
Definition bufs : unit := tt.

Definition outbox := list (Z * list frame).
Definition ob_get (o : outbox) (c : Z) : list frame := match zlookup c o with Some l => l | None => [] end.
Definition ob_put (o : outbox) (c : Z) (l : list frame) : outbox := zset_ c l o.
Fixpoint ob_push_all (o : outbox) (l : list (Z * frame)) : outbox :=
  match l with
  | [] => o
  | (c, f) :: r => ob_push_all (ob_put o c (ob_get o c ++ [f])) r
  end.

(** canonical order of pushed frames: the pmessage frames one PUBLISH delivers to one connection
    come in HashMap order of the pattern map - each maximal run of consecutive pmessage frames
    with the same channel and payload is sorted by pattern (mirrored in srv.rs canon_pushes) *)
Definition is_pmsg (f : frame) : option (bytes * bytes * bytes) :=
  match f with
  | FArray [FBulk k; FBulk p; FBulk ch; FBulk m] => if beq k (bs "pmessage") then Some (p, ch, m) else None
  | _ => None
  end.
Fixpoint pmsg_insert (p ch m : bytes) (f : frame) (l : list frame) : list frame :=
  match l with
  | g :: r =>
      match is_pmsg g with
      | Some (p2, ch2, m2) => if beq ch ch2 && beq m m2 && negb (bleb p p2) then g :: pmsg_insert p ch m f r else f :: l
      | None => f :: l
      end
  | [] => [f]
  end.
Fixpoint canon_pushes (l : list frame) : list frame :=
  match l with
  | [] => []
  | f :: r => match is_pmsg f with
              | Some (p, ch, m) => pmsg_insert p ch m f (canon_pushes r)
              | None => f :: canon_pushes r
              end
  end.
Definition enc_drained (closed : bool) (l : list frame) : list tok :=
  TI (if closed then 1 else 0) :: enc_frames (map canon (canon_pushes l)).

(** one request of connection c read alone: the server state, and the outbox after the frames it
    produced were written (own frames after whatever c had not read yet) *)
Definition step_request (t : Z) (s : server) (ob : outbox) (c : Z) (req : frame) (oracle : option frame)
  : server * outbox :=
  match process_frame_multi t s c req oracle with
  | (own, others, s') =>
      let s2 := if is_quit req then close_conn s' c else s' in
      (s2, ob_push_all (ob_put ob c (ob_get ob c ++ own)) others)
  end.

(** [BIG] (C05, the reply path under partial writes): a [size]-byte value with every byte
    value, CR, LF and reply look-alikes at position-dependent places; SET, then [count] GETs
    and a PING in one pipeline read by a client that starts reading late.  Bulk replies are
    reported as (length, 32-bit position-sensitive checksum of the payload). *)
Definition big_byte (seed i : Z) : Z := (i * 7 + i / 251 + seed) mod 256.
Definition big_value (seed size : Z) : bytes :=
  if size <=? 0 then [] else
  snd (Pos.iter (fun st => let i := fst st - 1 in (i, big_byte seed i :: snd st)) (size, []) (Z.to_pos size)).
Definition digest32 (v : bytes) : Z := fold_left (fun h b => Z.land (h * 33 + b) 4294967295) v 5381.
Definition digest_frame (f : frame) : list tok :=
  match f with
  | FBulk v => [TI 3; TI (len v); TI (digest32 v)]
  | _ => enc_frame f
  end.
Fixpoint big_gets (n : nat) (t : Z) (s : server) (ob : outbox) (c : Z) (req : frame) : server * outbox :=
  match n with
  | O => (s, ob)
  | S n' => match step_request t s ob c req None with (s', ob') => big_gets n' t s' ob' c req end
  end.

Definition srv_op (so : server * outbox) (op : list tok) : list tok * (server * outbox) :=
  let (s, ob) := so in
  match op with
  | TB name :: rest =>
      if beq name (bs "SERVER") then
        (* [TB "SERVER"; TB password ("" = none)]: (re)start with this configuration *)
        match rest with
        | TB pw :: _ => ([], (init_server (match pw with [] => None | _ => Some pw end), []))
        | _ => ([TB (bs "BADOP")], so)
        end
      else if beq name (bs "CONN") then
        match rest with
        | TI c :: _ => ([TI 1], (connect s c, ob_put ob c []))
        | _ => ([TB (bs "BADOP")], so)
        end
      else if beq name (bs "CLOSE") then
        match rest with
        (* the client closes its socket: the server reads EOF, marks the connection Closing and
           cleanup_connections removes it with its subscriptions *)
        | TI c :: _ => ([], (close_conn s c, ob_put ob c []))
        | _ => ([TB (bs "BADOP")], so)
        end
      else if beq name (bs "SLEEP") then ([], so)
      else if beq name (bs "CMD") then
        match rest with
        | TI c :: TI t :: ft =>
            match dec_frame (S (length ft)) ft with
            | Some (req, ft') =>
                let oracle := match dec_frame (S (length ft')) ft' with
                              | Some (o, _) => Some o | None => None end in
                match zlookup c (s_conns s) with
                | None => ([TB (bs "CLOSED")], so)
                | Some _ =>
                    match step_request t s ob c req oracle with
                    | (s', ob') =>
                        (* the client reads exactly one frame *)
                        match ob_get ob' c with
                        | r :: rest_frames => (enc_frame (canon_exec s c (req_name req) r), (s', ob_put ob' c rest_frames))
                        | [] => ([TB (bs "TIMEOUT")], (s', ob'))
                        end
                    end
                end
            | None => ([TB (bs "BADFRAME")], so)
            end
        | _ => ([TB (bs "BADOP")], so)
        end
      else if beq name (bs "BIG") then
        match rest with
        | TI c :: TI t :: TB key :: TI seed :: TI size :: TI count :: _ =>
            match zlookup c (s_conns s) with
            | None => ([TB (bs "CLOSED")], so)
            | Some _ =>
                let v := big_value seed size in
                match step_request t s ob c (FArray [FBulk (bs "SET"); FBulk key; FBulk v]) None with
                | (s1, ob1) =>
                    match big_gets (Z.to_nat count) t s1 ob1 c (FArray [FBulk (bs "GET"); FBulk key]) with
                    | (s2, ob2) =>
                        match step_request t s2 ob2 c (FArray [FBulk (bs "PING")]) None with
                        | (s3, ob3) => (flat_map digest_frame (ob_get ob3 c), (s3, ob_put ob3 c []))
                        end
                    end
                end
            end
        | _ => ([TB (bs "BADOP")], so)
        end
      else if beq name (bs "SUBCMD") then
        match rest with
        | TI c :: TI t :: ft =>
            match dec_frame (S (length ft)) ft with
            | Some (req, _) =>
                match zlookup c (s_conns s) with
                | None => ([TI 1], so)           (* closed, nothing received *)
                | Some _ =>
                    match step_request t s ob c req None with
                    | (s', ob') => (enc_drained (negb (has_conn s' c)) (ob_get ob' c), (s', ob_put ob' c []))
                    end
                end
            | None => ([TB (bs "BADFRAME")], so)
            end
        | _ => ([TB (bs "BADOP")], so)
        end
      else if beq name (bs "DRAIN") then
        match rest with
        | TI c :: _ =>
            match zlookup c (s_conns s) with
            | None => ([TI 1], so)           (* closed, nothing received *)
            | Some _ => (enc_drained false (ob_get ob c), (s, ob_put ob c []))
            end
        | _ => ([TB (bs "BADOP")], so)
        end
      else if beq name (bs "SWEEP") then
        (* one full sweeper pass at model time t over all databases *)
        match rest with
        | TI t :: _ => ([], (sweep_all t s, ob))
        | _ => ([TB (bs "BADOP")], so)
        end
      else if beq name (bs "PROBE") || beq name (bs "PROBERAW") then
        (* C06 liveness probe: whatever the input, the server stays alive and serves a fresh connection *)
        ([TI 1], so)
      else if beq name (bs "RAW") || beq name (bs "SUBRAW") then
        (* [TB "RAW"; TI c; TI t; chunks...] -> [TI closed; canonical reply frames...] *)
        match rest with
        | TI c :: TI t :: chunks =>
            match zlookup c (s_conns s) with
            | None => ([TB (bs "CLOSED")], so)
            | Some _ =>
                match conn_feed_x t s c (conn_buf c bufs) (dec_chunks chunks) [] [] with
                | (out, buf', pushes, s', closed) =>
                    match decode_out (write_replies (ob_get ob c) ++ out) with
                    | (fs, st) =>
                        (TI (if closed then 1 else 0) :: enc_frames (map canon (canon_pushes fs))
                           ++ (match st with Failed => [TB (bs "GARBAGE")] | NeedMore => [] end),
                         (s', ob_push_all (ob_put ob c []) pushes))
                    end
                end
            end
        | _ => ([TB (bs "BADOP")], so)
        end
      else ([TB (bs "BADOP")], so)
  | _ => ([TB (bs "BADOP")], so)
  end.
(** for runners without pub/sub traffic *)
Definition srv_op_plain (s : server) (op : list tok) : list tok * server :=
  match srv_op (s, []) op with (o, (s', _)) => (o, s') end.

(** the sweeper stopped between its collect phase and its delete phase (gate hook):
    [SWEEP_GATE t] collects at time t, client commands run, [SWEEP_RELEASE t'] deletes at t' *)
Definition srv_op2 (sp : server * outbox * list (list bytes)) (op : list tok)
  : list tok * (server * outbox * list (list bytes)) :=
  match sp with
  | (s, ob, pend) =>
  match op with
  | TB name :: TI t :: _ =>
      if beq name (bs "SWEEP_GATE") then ([], (s, ob, map (sweep_collect t) (s_dbs s)))
      else if beq name (bs "SWEEP_RELEASE") then
        let dts := map (fun x => match x with (d, tr, ks) => sweep_delete t d tr ks end)
                       (combine (combine (s_dbs s) (s_trk s)) pend) in
        ([], ({| s_dbs := map fst dts; s_trk := map snd dts; s_conns := s_conns s;
                 s_password := s_password s; s_aof := s_aof s; s_pubsub := s_pubsub s |}, ob, []))
      else match srv_op (s, ob) op with (o, (s', ob')) => (o, (s', ob', pend)) end
  | _ => match srv_op (s, ob) op with (o, (s', ob')) => (o, (s', ob', pend)) end
  end end.

Fixpoint srv_ops (sp : server * outbox * list (list bytes)) (ops : list (list tok)) : list (list tok) :=
  match ops with
  | [] => []
  | op :: r => match srv_op2 sp op with (o, sp') => o :: srv_ops sp' r end
  end.
Definition run_srv (ops : list (list tok)) : list (list tok) := srv_ops (init_server None, [], []) ops.
