(** Model of SCAN / HSCAN / SSCAN / ZSCAN: engine.rs scan, hscan, sscan, zscan and
    commands/scan.rs, after the repair e3de5de: elements are walked in the order of their FNV-1a
    hash (element_hash) and the cursor is the hash of the first element of the next page - a
    call returns the elements with hash >= cursor, one interval of hash values completely.
    MATCH uses engine.rs's matcher (Model/Glob.v).
    The page logic is parametrised by the hash function [hf] so that hash ties can be forged in
    proofs; the engine functions instantiate it with the real [fnv1a]. *)
From Ferrous Require Import Base.Bytes Model.Resp Model.Types Model.Glob Model.Strings.
Open Scope Z_scope.

(** scan_count = if count == 0 {10} else {count}; max_scan_count = min(scan_count, 1000) *)
Definition scan_limit (count : Z) : Z := Z.min (if count =? 0 then 10 else count) 1000.

Definition scan_inc {A} (keyof : A -> bytes) (pat : option bytes) (x : A) : bool :=
  match pat with Some p => glob_match p (keyof x) | None => true end.

(** sort_by_cached_key(element_hash): a stable sort of the HashMap iteration order, so elements with
    equal hashes come in an unspecified order; the model orders them by key *)
Definition hleb {A} (hf : A -> Z) (keyof : A -> bytes) (x y : A) : bool :=
  (hf x <? hf y) || ((hf x =? hf y) && bleb (keyof x) (keyof y)).
Fixpoint hinsert {A} (hf : A -> Z) (keyof : A -> bytes) (x : A) (l : list A) : list A :=
  match l with
  | [] => [x]
  | y :: r => if hleb hf keyof x y then x :: l else y :: hinsert hf keyof x r
  end.
Definition hsort {A} (hf : A -> Z) (keyof : A -> bytes) (l : list A) : list A :=
  fold_right (hinsert hf keyof) [] l.

(** hashes.partition_point(|h| h < cursor) on the sorted list: the elements from there on *)
Fixpoint from_hash {A} (hf : A -> Z) (cursor : Z) (l : list A) : list A :=
  match l with
  | [] => []
  | x :: r => if hf x <? cursor then from_hash hf cursor r else l
  end.

(** the page loop:
      while scan_page_continues(&hashes, pos, examined < max*10 && matched < max) { ... pos += 1; examined += 1 }
      scan_page_continues = pos < len && (has_room || (pos > 0 && hashes[pos] == hashes[pos-1]))
    [rest] = elements from the current position on, [prev] = hash of the element just taken (the
    element before the start position has a smaller hash than the first one taken, and the first
    step has room, so None is right at the start).  Returns (included elements, elements left). *)
Fixpoint page_walk {A} (hf : A -> Z) (inc : A -> bool) (rest : list A) (prev : option Z)
         (examined matched limE limM : Z) : list A * list A :=
  match rest with
  | [] => ([], [])
  | x :: r =>
      let has_room := (examined <? limE) && (matched <? limM) in
      if has_room || (match prev with Some h => hf x =? h | None => false end) then
        match page_walk hf inc r (Some (hf x)) (examined + 1) (if inc x then matched + 1 else matched) limE limM with
        | (res, remaining) => (if inc x then x :: res else res, remaining)
        end
      else ([], rest)
  end.

(** one call: (next cursor, included elements).  `start_pos >= len && !is_empty` returns (0, []);
    for an empty collection the loop does not run and next_cursor is 0: one case. *)
Definition scan_core {A} (hf : A -> Z) (keyof : A -> bytes) (items : list A) (cursor count : Z)
           (pat : option bytes) : Z * list A :=
  let maxc := scan_limit count in
  match from_hash hf cursor (hsort hf keyof items) with
  | [] => (0, [])
  | rest =>
      match page_walk hf (scan_inc keyof pat) rest None 0 0 (maxc * 10) maxc with
      | (res, remaining) => (match remaining with [] => 0 | y :: _ => hf y end, res)
      end
  end.

(** sort_by_cached_key: every hash is computed once.  (Same function as [scan_core hf keyof]:
    Proofs/ScanFacts.v scan_core_cached_eq; this is the one that is executed.) *)
Definition scan_core_cached {A} (hf : A -> Z) (keyof : A -> bytes) (items : list A) (cursor count : Z)
           (pat : option bytes) : Z * list A :=
  match scan_core (fun p => fst p) (fun p => keyof (snd p)) (map (fun x => (hf x, x)) items) cursor count pat with
  | (c, res) => (c, map snd res)
  end.

(** element_hash *)
Definition key_hash (k : bytes) : Z := fnv1a k.
Definition pair_hash {B} (kv : bytes * B) : Z := fnv1a (fst kv).

(** ---- engine.rs scan ---- *)
Definition scan_visible (now : Z) (tf : option bytes) (kv : bytes * entry) : bool :=
  negb (expired now (snd kv)) &&
  match tf with Some t => beq (type_name (e_val (snd kv))) t | None => true end.
Definition live_keys (now : Z) (d : db) (tf : option bytes) : list bytes :=
  map fst (filter (scan_visible now tf) (d_data d)).
Definition eng_scan (now : Z) (d : db) (cursor : Z) (pat tf : option bytes) (count : Z)
  : Z * list bytes :=
  scan_core_cached key_hash (fun k => k) (live_keys now d tf) cursor count pat.

(** sort pairs by their first component (items.sort_by(member); canonical form of fast paths) *)
Fixpoint pinsert {B} (x : bytes * B) (l : list (bytes * B)) : list (bytes * B) :=
  match l with
  | [] => [x]
  | y :: r => if bleb (fst x) (fst y) then x :: l else y :: pinsert x r
  end.
Definition psort {B} (l : list (bytes * B)) : list (bytes * B) := fold_right pinsert [] l.

Definition flat_pairs (novalues : bool) (l : list (bytes * bytes)) : list bytes :=
  flat_map (fun fv => if novalues then [fst fv] else [fst fv; snd fv]) l.

Definition no_pat (pat : option bytes) : bool := match pat with Some _ => false | None => true end.

(** None = Err(WrongType).  The fast path (small collection, cursor 0, no pattern) returns
    everything in HashMap order (canonical form: sorted); the slow path goes by hash. *)
Definition eng_hscan (now : Z) (d : db) (key : bytes) (cursor : Z) (pat : option bytes) (count : Z)
           (novalues : bool) : option (Z * list bytes) * db :=
  match eng_get now d key with
  | (Found (VHash h), d') =>
      if (len h <=? scan_limit count) && (cursor =? 0) && no_pat pat
      then (Some (0, flat_pairs novalues (psort h)), d')
      else match scan_core_cached pair_hash fst h cursor count pat with
           | (c, items) => (Some (c, flat_pairs novalues items), d')
           end
  | (Found _, d') => (None, d')
  | (_, d') => (Some (0, []), d')
  end.

Definition eng_sscan (now : Z) (d : db) (key : bytes) (cursor : Z) (pat : option bytes) (count : Z)
  : option (Z * list bytes) * db :=
  match eng_get now d key with
  | (Found (VSet s), d') =>
      if (len s <=? scan_limit count) && (cursor =? 0) && no_pat pat
      then (Some (0, bsort s), d')
      else (Some (scan_core_cached key_hash (fun m => m) s cursor count pat), d')
  | (Found _, d') => (None, d')
  | (_, d') => (Some (0, []), d')
  end.

(** the fast path returns the items sorted by member; scores are f64 bit patterns *)
Definition eng_zscan (now : Z) (d : db) (key : bytes) (cursor : Z) (pat : option bytes) (count : Z)
  : option (Z * list (bytes * Z)) * db :=
  match eng_get now d key with
  | (Found (VZSet z), d') =>
      if (len z <=? scan_limit count) && (cursor =? 0) && no_pat pat
      then (Some (0, psort z), d')
      else (Some (scan_core_cached pair_hash fst z cursor count pat), d')
  | (Found _, d') => (None, d')
  | (_, d') => (Some (0, []), d')
  end.

(** ---- commands/scan.rs ---- *)
Inductive scanopts := SOk (pat tf : option bytes) (count : Z) (novalues : bool) | SErr.

(** the option loop; every failure is an "ERR ..." reply *)
Fixpoint parse_scan_opts (allow_type allow_nov : bool) (opts : list frame)
         (pat tf : option bytes) (count : Z) (nov : bool) : scanopts :=
  match opts with
  | [] => SOk pat tf count nov
  | FBulk o :: rest =>
      let u := upper o in
      if beq u (bs "MATCH") then
        match rest with
        | FBulk p :: rest' => parse_scan_opts allow_type allow_nov rest' (Some p) tf count nov
        | _ => SErr
        end
      else if allow_type && beq u (bs "TYPE") then
        match rest with
        | FBulk t :: rest' => parse_scan_opts allow_type allow_nov rest' pat (Some t) count nov
        | _ => SErr
        end
      else if beq u (bs "COUNT") then
        match rest with
        | FBulk c :: rest' =>
            match parse_usize c with
            | Some n => parse_scan_opts allow_type allow_nov rest' pat tf n nov
            | None => SErr
            end
        | _ => SErr
        end
      else if allow_nov && beq u (bs "NOVALUES") then
        parse_scan_opts allow_type allow_nov rest pat tf count true
      else SErr
  | _ => SErr
  end.

Definition scan_reply (cursor : Z) (items : list frame) : frame :=
  FArray [FBulk (print_int cursor); FArray items].

Definition h_scan (now : Z) (d : db) (parts : list frame) : frame * db :=
  if nparts parts <? 2 then (r_err, d) else
  match nth_error parts 1 with
  | Some (FBulk cb) =>
      match parse_u64 cb with
      | Some cursor =>
          match parse_scan_opts true false (skipn 2 parts) None None 10 false with
          | SOk pat tf count _ =>
              match eng_scan now d cursor pat tf count with
              | (c, keys) => (scan_reply c (map FBulk keys), d)
              end
          | SErr => (r_err, d)
          end
      | None => (r_err, d)
      end
  | _ => (r_err, d)
  end.

(** key, cursor and options of HSCAN / SSCAN / ZSCAN *)
Inductive kscan_args := KArgs (key : bytes) (cursor : Z) (pat : option bytes) (count : Z) (nov : bool) | KErr.
Definition kscan_parse (allow_nov : bool) (parts : list frame) : kscan_args :=
  if nparts parts <? 3 then KErr else
  match nth_error parts 1 with
  | Some (FBulk key) =>
      match nth_error parts 2 with
      | Some (FBulk cb) =>
          match parse_u64 cb with
          | Some cursor =>
              match parse_scan_opts false allow_nov (skipn 3 parts) None None 10 false with
              | SOk pat _ count nov => KArgs key cursor pat count nov
              | SErr => KErr
              end
          | None => KErr
          end
      | _ => KErr
      end
  | _ => KErr
  end.

Definition h_hscan (now : Z) (d : db) (parts : list frame) : frame * db :=
  match kscan_parse true parts with
  | KErr => (r_err, d)
  | KArgs key cursor pat count nov =>
      match eng_hscan now d key cursor pat count nov with
      | (Some (c, l), d') => (scan_reply c (map FBulk l), d')
      | (None, d') => (r_wrongtype, d')
      end
  end.

Definition h_sscan (now : Z) (d : db) (parts : list frame) : frame * db :=
  match kscan_parse false parts with
  | KErr => (r_err, d)
  | KArgs key cursor pat count _ =>
      match eng_sscan now d key cursor pat count with
      | (Some (c, l), d') => (scan_reply c (map FBulk l), d')
      | (None, d') => (r_wrongtype, d')
      end
  end.

(** f64::to_string of a score.  Exact here for integer-valued doubles below 2^53, zeros,
    infinities and NaN; any other value is Rust std's shortest-round-trip decimal text, which
    is not modelled: it is taken from the oracle (the implementation's text) when there is one. *)
Definition f64_text (bits : Z) (orc : option bytes) : bytes :=
  let sign := bits / 9223372036854775808 in
  let e := (bits / 4503599627370496) mod 2048 in
  let m := bits mod 4503599627370496 in
  let neg (b : bytes) := if sign =? 1 then 45 :: b else b in
  if e =? 2047 then (if m =? 0 then neg (bs "inf") else bs "NaN")
  else if (e =? 0) && (m =? 0) then neg (bs "0")
  else if (1023 <=? e) && (e <=? 1075) && ((4503599627370496 + m) mod (2 ^ (1075 - e)) =? 0)
  then neg (print_nat ((4503599627370496 + m) / 2 ^ (1075 - e)))
  else match orc with Some t => t | None => bs "?" end.

(** score texts of the oracle reply [cursor, [m1, s1, m2, s2, ...]] by position *)
Definition zscan_oracle_texts (oracle : option frame) : list bytes :=
  match oracle with
  | Some (FArray [_; FArray l]) =>
      (fix go (l : list frame) : list bytes :=
         match l with
         | _ :: FBulk s :: r => s :: go r
         | _ => []
         end) l
  | _ => []
  end.
Fixpoint zscan_frames (items : list (bytes * Z)) (texts : list bytes) : list frame :=
  match items with
  | [] => []
  | (m, sc) :: r =>
      FBulk m :: FBulk (f64_text sc (match texts with t :: _ => Some t | [] => None end))
      :: zscan_frames r (tl texts)
  end.

Definition h_zscan (now : Z) (d : db) (parts : list frame) (oracle : option frame) : frame * db :=
  match kscan_parse false parts with
  | KErr => (r_err, d)
  | KArgs key cursor pat count _ =>
      match eng_zscan now d key cursor pat count with
      | (Some (c, l), d') => (scan_reply c (zscan_frames l (zscan_oracle_texts oracle)), d')
      | (None, d') => (r_wrongtype, d')
      end
  end.

(** dispatch of this family; None = not a command of this family *)
Definition exec_scan (now : Z) (d : db) (name : bytes) (parts : list frame) (oracle : option frame)
  : option (frame * db) :=
  if beq name (bs "SCAN") then Some (h_scan now d parts)
  else if beq name (bs "HSCAN") then Some (h_hscan now d parts)
  else if beq name (bs "SSCAN") then Some (h_sscan now d parts)
  else if beq name (bs "ZSCAN") then Some (h_zscan now d parts oracle)
  else None.
