(** The server transition system (server.rs): connections with their
    authentication / database selection / transaction / watch state, the WATCH
    tracker of engine.rs, command dispatch (process_frame,
    process_normal_command, handle_exec), the AOF log.  One [Frame] event of one
    connection is one step (single command thread, server.rs:367-422). *)
From Ferrous Require Import Base.Bytes Generated Model.Resp Model.Types Model.Glob Model.Strings
  Model.Lists Model.ZSets Model.Streams Model.Scan Model.PubSub Model.Lua.
Open Scope Z_scope.

Fixpoint nodup_b (l : list bytes) : list bytes :=
  match l with [] => [] | x :: r => if bmem x r then nodup_b r else x :: nodup_b r end.

(** ---- small maps keyed by Z ---- *)
Fixpoint zlookup {A} (k : Z) (l : list (Z * A)) : option A :=
  match l with [] => None | (k', v) :: r => if k =? k' then Some v else zlookup k r end.
Fixpoint zremove {A} (k : Z) (l : list (Z * A)) : list (Z * A) :=
  match l with [] => [] | (k', v) :: r => if k =? k' then zremove k r else (k', v) :: zremove k r end.
Definition zset_ {A} (k : Z) (v : A) (l : list (Z * A)) := (k, v) :: zremove k l.
Fixpoint list_set {A} (l : list A) (i : nat) (x : A) : list A :=
  match l, i with
  | [], _ => []
  | _ :: r, O => x :: r
  | y :: r, S i' => y :: list_set r i' x
  end.

(** ---- WATCH tracker of one database (engine.rs ShardWatchTracker, per shard) ---- *)
Record tracker := {
  t_active : list (Z * Z);        (* shard -> active_watchers (usize, wrapping) *)
  t_counters : list (bytes * Z);  (* key -> last modification stamp *)
  t_global : list (Z * Z)         (* shard -> global_counter *)
}.
Definition empty_tracker : tracker := {| t_active := []; t_counters := []; t_global := [] |}.
Definition active_of (t : tracker) (sh : Z) : Z := match zlookup sh (t_active t) with Some n => n | None => 0 end.
Definition counter_of (t : tracker) (k : bytes) : Z := match alookup k (t_counters t) with Some n => n | None => 0 end.
Definition global_of (t : tracker) (sh : Z) : Z := match zlookup sh (t_global t) with Some n => n | None => 0 end.

(** register_watch: active += 1, baseline = the key's counter *)
Definition register_watch (t : tracker) (k : bytes) : Z * tracker :=
  let sh := shard_of k in
  (counter_of t k,
   {| t_active := zset_ sh ((active_of t sh + 1) mod two64) (t_active t);
      t_counters := t_counters t; t_global := t_global t |}).
(** unregister_watch: fetch_sub(1), wrapping below zero *)
Definition unregister_watch (t : tracker) (k : bytes) : tracker :=
  let sh := shard_of k in
  {| t_active := zset_ sh ((active_of t sh - 1) mod two64) (t_active t);
     t_counters := t_counters t; t_global := t_global t |}.
(** mark_key_modified: nothing unless some watch is active in the key's shard *)
Definition mark (t : tracker) (k : bytes) : tracker :=
  let sh := shard_of k in
  if active_of t sh =? 0 then t else
  let g := global_of t sh + 1 in
  {| t_active := t_active t; t_counters := aset k g (t_counters t); t_global := zset_ sh g (t_global t) |}.
Definition mark_all (t : tracker) (ks : list bytes) : tracker := fold_left mark ks t.

(** ---- which keys a command marks (engine.rs mark_modified call sites; the
    table Generated.engine_census says which engine functions mark at all) ---- *)
Definition was_expired (now : Z) (d : db) (k : bytes) : bool :=
  match get_entry d k with Some e => expired now e | None => false end.
Fixpoint bulk_args (l : list frame) : list bytes :=
  match l with [] => [] | FBulk b :: r => b :: bulk_args r | _ :: r => bulk_args r end.
(** keys deleted by DEL, in order (a repeated key is deleted once) *)
Fixpoint del_marks (d : db) (ks : list bytes) : list bytes :=
  match ks with
  | [] => []
  | k :: r => if amem k (d_data d) then k :: del_marks (del_entry d k) r else del_marks d r
  end.
(** MGET: keys whose expired entry is removed on the way, up to the first non-string *)
Fixpoint mget_marks (now : Z) (d : db) (args : list frame) : list bytes :=
  match args with
  | FBulk k :: r =>
      match get_string now d k with
      | (Some _, d') => (if was_expired now d k then [k] else []) ++ mget_marks now d' r
      | (None, _) => []
      end
  | _ => []
  end.
Fixpoint mset_marks (args : list frame) : list bytes :=
  match args with
  | FBulk k :: FBulk _ :: r => k :: mset_marks r
  | _ => []
  end.

(** keys present before and gone after (lazy removal of expired entries by get) *)
Definition removed_keys (d d' : db) : list bytes :=
  filter (fun k => negb (amem k (d_data d'))) (map fst (d_data d)).

Definition marks_strings (d d' : db) (name : bytes) (parts : list frame) (reply : frame) : list bytes :=
  let k1 := match nth_arg parts 1 with Some k => [k] | None => [] end in
  let ok := negb (is_error reply) in
  if beq name (bs "SET") then (match reply with FSimple _ => k1 | _ => [] end)
  else if beq name (bs "SETEX") || beq name (bs "PSETEX") then (if ok then k1 else [])
  else if beq name (bs "SETNX") then (match reply with FInt 1 => k1 | _ => [] end)
  else if beq name (bs "GET") || beq name (bs "MGET") then removed_keys d d'
  else if beq name (bs "GETSET") then (if ok && (len parts =? 3) then k1 else [])
  else if beq name (bs "MSET") then
    (* 974d7d6: nothing is stored, hence nothing marked, unless every pair is well formed *)
    (if (len parts <? 3) || (len parts mod 2 =? 0) then [] else if mset_valid (tl parts) then mset_marks (tl parts) else [])
  else if beq name (bs "DEL") then (if len parts <? 2 then [] else del_marks d (bulk_args (tl parts)))
  else if beq name (bs "EXPIRE") || beq name (bs "PEXPIRE") || beq name (bs "PERSIST") || beq name (bs "PEXPIREAT") then
    (match reply with FInt 1 => k1 | _ => [] end)
  else if beq name (bs "FLUSHDB") then (if ok then map fst (d_data d) else [])
  else if beq name (bs "INCR") || beq name (bs "DECR") || beq name (bs "INCRBY") || beq name (bs "DECRBY")
          || beq name (bs "APPEND") || beq name (bs "SETRANGE") then
    (match reply with FInt _ => k1 | _ => [] end)
  else if beq name (bs "RENAME") then
    (match reply with FSimple _ => k1 ++ (match nth_arg parts 2 with Some n => [n] | None => [] end) | _ => [] end)
  else if beq name (bs "RENAMENX") then
    (match reply with FInt 1 => k1 ++ (match nth_arg parts 2 with Some n => [n] | None => [] end) | _ => [] end)
  else [].

(** ---- connections ---- *)
Record conn := {
  c_db : Z;
  c_auth : bool;                         (* ConnectionState::Authenticated *)
  c_intx : bool;                         (* transaction_state.in_transaction *)
  c_queue : list (list frame);           (* queued_commands *)
  c_watched : list (bytes * Z);          (* watched_keys: key -> baseline *)
  c_closing : bool
}.
Definition new_conn (authed : bool) : conn :=
  {| c_db := 0; c_auth := authed; c_intx := false; c_queue := []; c_watched := []; c_closing := false |}.

Record server := {
  s_dbs : list db;                 (* 16 databases *)
  s_trk : list tracker;            (* 16 trackers *)
  s_conns : list (Z * conn);
  s_password : option bytes;
  s_aof : list (list frame);       (* appended commands, newest first *)
  s_pubsub : pubsub                (* PubSubManager (Model/PubSub.v) *)
}.
Definition init_server (pw : option bytes) : server :=
  {| s_dbs := repeat empty_db 16; s_trk := repeat empty_tracker 16; s_conns := [];
     s_password := pw; s_aof := []; s_pubsub := ps_init |}.

Definition get_db (s : server) (i : Z) : db := nth (Z.to_nat i) (s_dbs s) empty_db.
Definition get_trk (s : server) (i : Z) : tracker := nth (Z.to_nat i) (s_trk s) empty_tracker.
Definition set_db (s : server) (i : Z) (d : db) : server :=
  {| s_dbs := list_set (s_dbs s) (Z.to_nat i) d; s_trk := s_trk s; s_conns := s_conns s;
     s_password := s_password s; s_aof := s_aof s; s_pubsub := s_pubsub s |}.
Definition set_trk (s : server) (i : Z) (t : tracker) : server :=
  {| s_dbs := s_dbs s; s_trk := list_set (s_trk s) (Z.to_nat i) t; s_conns := s_conns s;
     s_password := s_password s; s_aof := s_aof s; s_pubsub := s_pubsub s |}.
Definition set_conn (s : server) (c : Z) (cn : conn) : server :=
  {| s_dbs := s_dbs s; s_trk := s_trk s; s_conns := zset_ c cn (s_conns s);
     s_password := s_password s; s_aof := s_aof s; s_pubsub := s_pubsub s |}.
(** removal of a connection (EOF / read error: server.rs:600-609; cleanup_connections): the
    connection goes and PubSubManager::unsubscribe_all drops its subscriptions *)
Definition del_conn (s : server) (c : Z) : server :=
  {| s_dbs := s_dbs s; s_trk := s_trk s; s_conns := zremove c (s_conns s);
     s_password := s_password s; s_aof := s_aof s; s_pubsub := unsubscribe_all (s_pubsub s) c |}.
Definition set_pubsub (s : server) (p : pubsub) : server :=
  {| s_dbs := s_dbs s; s_trk := s_trk s; s_conns := s_conns s;
     s_password := s_password s; s_aof := s_aof s; s_pubsub := p |}.
Definition log_aof (s : server) (parts : list frame) : server :=
  {| s_dbs := s_dbs s; s_trk := s_trk s; s_conns := s_conns s;
     s_password := s_password s; s_aof := parts :: s_aof s; s_pubsub := s_pubsub s |}.

(** AofEngine::append_command(command, db) after the repair 7ef6fad: the engine remembers the
    database of the last command it wrote (None until the first append of a process) and writes
    `SELECT <db>` before a command that ran in another one.  The remembered database is read
    off the log: no client SELECT is ever appended (SELECT is not a write command), so the most
    recent SELECT record is the engine's; [aof_boundary] (an empty entry, no bytes in the file)
    marks a restart of the process, where the engine forgets. *)
Definition aof_boundary : list frame := [].
Definition aof_select (dbi : Z) : list frame := [FBulk (bs "SELECT"); FBulk (print_int dbi)].
Fixpoint aof_last_db (log : list (list frame)) : option Z :=
  match log with
  | [] => None
  | [] :: _ => None
  | [FBulk n; FBulk a] :: r => if beq n (bs "SELECT") then parse_usize a else aof_last_db r
  | _ :: r => aof_last_db r
  end.
Definition same_db (o : option Z) (dbi : Z) : bool := match o with Some n => n =? dbi | None => false end.
Definition log_aof_in (s : server) (dbi : Z) (parts : list frame) : server :=
  log_aof (if same_db (aof_last_db (s_aof s)) dbi then s else log_aof s (aof_select dbi)) parts.

(** which records a command leaves in the file (after the repairs a8393c5, f085462, 98d0d1a):
    - a write command is appended as it was sent BEFORE it runs, except
      SPOP and XADD with the ID * ([by_outcome]), and EVALSHA, whose record is the EVAL of the
      cached script (the script cache is runner state: Model/RunLua.v h_evalsha writes it);
    - SPOP / XADD * are appended AFTER they ran, in the deterministic form their reply determines
      (SREM key members / XADD with the generated ID); nil, empty and error replies append nothing;
    - after SET, SETEX, PSETEX, EXPIRE, PEXPIRE that did not answer an error, when the key (first
      argument) carries a deadline, `PEXPIREAT key deadline` follows: ttl() + the clock. *)
Definition by_outcome (name : bytes) (parts : list frame) : bool :=
  beq name (bs "SPOP")
  || (beq name (bs "XADD") && match nth_error parts 2 with Some (FBulk i) => beq i (bs "*") | _ => false end).
Definition logs_before (name : bytes) (parts : list frame) : bool :=
  bmem name write_commands && negb (by_outcome name parts) && negb (beq name (bs "EVALSHA")).
Definition deterministic_form (name : bytes) (parts : list frame) (reply : frame) : option (list frame) :=
  if beq name (bs "SPOP") then
    match nth_error parts 1, reply with
    | Some k, FBulk _ => Some [FBulk (bs "SREM"); k; reply]
    | Some k, FArray (m :: ms) => Some (FBulk (bs "SREM") :: k :: m :: ms)
    | _, _ => None
    end
  else
    match parts, reply with
    | a :: b :: _ :: rest, FBulk _ => Some (a :: b :: reply :: rest)
    | _, _ => None
    end.
Definition ttl_recorded (name : bytes) : bool :=
  beq name (bs "SET") || beq name (bs "SETEX") || beq name (bs "PSETEX") || beq name (bs "EXPIRE") || beq name (bs "PEXPIRE").
Definition pexpireat_record (k : bytes) (deadline : Z) : list frame :=
  [FBulk (bs "PEXPIREAT"); FBulk k; FBulk (print_int deadline)].
(** the log after the command ran in database [dbi], whose state is then [d'] *)
Definition aof_after (now : Z) (log : list (list frame)) (dbi : Z) (d' : db) (name : bytes) (parts : list frame)
           (reply : frame) : list (list frame) :=
  let log1 := if by_outcome name parts
              then match deterministic_form name parts reply with
                   | Some p => p :: (if same_db (aof_last_db log) dbi then log else aof_select dbi :: log)
                   | None => log
                   end
              else log in
  if ttl_recorded name && negb (match reply with FError _ => true | _ => false end) then
    match nth_error parts 1 with
    | Some (FBulk k) =>
        match eng_ttl now d' k with
        | Some rem => pexpireat_record k (now + rem)
                        :: (if same_db (aof_last_db log1) dbi then log1 else aof_select dbi :: log1)
        | None => log1
        end
    | _ => log1
    end
  else log1.
Definition log_after (now : Z) (s : server) (dbi : Z) (d' : db) (name : bytes) (parts : list frame) (reply : frame) : server :=
  {| s_dbs := s_dbs s; s_trk := s_trk s; s_conns := s_conns s; s_password := s_password s;
     s_aof := aof_after now (s_aof s) dbi d' name parts reply; s_pubsub := s_pubsub s |}.

(** a new connection is Authenticated at once when no password is configured (server.rs:443-448) *)
Definition connect (s : server) (c : Z) : server :=
  set_conn s c (new_conn (match s_password s with None => true | Some _ => false end)).

(** str::trim on the ASCII subset *)
Definition is_space (c : Z) : bool := (c =? 32) || ((9 <=? c) && (c <=? 13)).
Definition trim (b : bytes) : bytes := rev (drop_while is_space (rev (drop_while is_space b))).

(** commands that exist for the sake of the append-only file (98d0d1a): PEXPIREAT *)
Definition exec_aofcmds (now : Z) (d : db) (name : bytes) (parts : list frame) : option (frame * db) :=
  if beq name (bs "PEXPIREAT") then Some (h_pexpireat now d parts) else None.

(** commands of process_normal_command that only need the selected database *)
Definition exec_db (now : Z) (d : db) (name : bytes) (parts : list frame) (oracle : option frame)
  : option (frame * db) :=
  match exec_strings now d name parts with
  | Some r => Some r
  | None =>
  match exec_lists now d name parts oracle with
  | Some r => Some r
  | None =>
  match exec_zsets now d name parts oracle with
  | Some r => Some r
  | None =>
  match exec_streams now d name parts oracle with
  | Some r => Some r
  | None =>
  match exec_scan now d name parts oracle with
  | Some r => Some r
  | None =>
  match exec_scripts now d name parts oracle with
  | Some r => Some r
  | None => exec_aofcmds now d name parts
  end end end end end end.

Definition h_randomkey (d : db) (parts : list frame) (oracle : option frame) : frame :=
  if negb (len parts =? 1) then r_err else
  match d_data d with
  | [] => r_nil
  | _ => match oracle with
         | Some (FBulk k) => if amem k (d_data d) then FBulk k else FError (bs "NOTAKEY")
         | _ => FError (bs "NOORACLE")
         end
  end.

Definition h_auth (s : server) (c : Z) (parts : list frame) : frame * server :=
  match parts with
  | [_; FBulk p] =>
      (* String::from_utf8 must succeed; then byte equality *)
      match s_password s with
      | Some pw =>
          if beq p pw then
            (r_ok, match zlookup c (s_conns s) with
                   | Some cn => set_conn s c {| c_db := c_db cn; c_auth := true; c_intx := c_intx cn;
                                                 c_queue := c_queue cn; c_watched := c_watched cn;
                                                 c_closing := c_closing cn |}
                   | None => s end)
          else (r_err, s)
      | None => (r_err, s)
      end
  | [_; _] => (r_err, s)
  | _ => (r_err, s)
  end.

Definition mem_name (n : bytes) (l : list bytes) : bool := bmem n l.

(** the verification hook command (cfg ferrous_verif): sweeper control is a no-op for the
    model (its sweeper runs only on explicit events); INDEX dumps the deadline index *)
Definition sign01 (o : option Z) (now : Z) : Z :=
  match o with None => -1 | Some t => if t <=? now then 0 else 1 end.
Definition index_rows (now : Z) (d : db) : list frame :=
  let keys := bsort (nodup_b (map fst (d_data d) ++ map fst (d_index d))) in
  map (fun k => FArray [FBulk k;
                        FInt (sign01 (match get_entry d k with Some e => e_exp e | None => None end) now);
                        FInt (sign01 (alookup k (d_index d)) now);
                        FInt (if amem k (d_data d) then 1 else 0)]) keys.
Definition h_verif (now : Z) (s : server) (parts : list frame) : frame :=
  match parts with
  | [_; FBulk a; FBulk b] =>
      if beq (upper a) (bs "SWEEP") then r_ok
      else if beq (upper a) (bs "INDEX") then
        match parse_usize b with
        | Some n => FArray (index_rows now (nth (Z.to_nat n) (s_dbs s) empty_db))
        | None => r_err
        end
      else r_err
  | _ => r_err
  end.

(** lazy expiry (bdd75e8): whatever the command is, keys past their deadline are gone from the
    selected database before it runs, and their WATCHers are told *)
Definition lazy_expire (now : Z) (s : server) (dbi : Z) (name : bytes) (parts : list frame) : server :=
  if lazy_expiry_before_dispatch then
    match expire_before now (get_db s dbi) name parts with
    | (d1, removed) => set_trk (set_db s dbi d1) dbi (mark_all (get_trk s dbi) removed)
    end
  else s.

(** the body of process_normal_command after the lazy expiry: AOF record, dispatch *)
Definition dispatch_command (now : Z) (s : server) (c : Z) (dbi : Z) (parts : list frame)
           (oracle : option frame) : frame * server :=
  match parts with
  | FBulk nm :: _ =>
      let name := upper nm in
      (* AOF: appended before dispatch whenever the name is a write command, with the database it runs in *)
      let s := if logs_before name parts then log_aof_in s dbi parts else s in
      if beq name (bs "PING") then
        (match parts with _ :: a :: _ => a | _ => FSimple (bs "PONG") end, s)
      else if beq name (bs "ECHO") then
        (match parts with [_; a] => a | _ => r_err end, s)
      else if beq name (bs "SELECT") then
        match parts with
        | [_; FBulk a] =>
            match parse_usize a with
            | Some n => if 16 <=? n then (r_err, s)
                        else match zlookup c (s_conns s) with
                             | Some cn => (r_ok, set_conn s c {| c_db := n; c_auth := c_auth cn; c_intx := c_intx cn;
                                                                 c_queue := c_queue cn; c_watched := c_watched cn;
                                                                 c_closing := c_closing cn |})
                             | None => (r_ok, s)       (* connection id 0 inside EXEC: silent no-op *)
                             end
            | None => (r_err, s)
            end
        | _ => (r_err, s)
        end
      else if beq name (bs "FLUSHALL") then
        if negb (len parts =? 1) then (r_err, s)
        else (r_ok, {| s_dbs := map (fun _ => empty_db) (s_dbs s);
                       s_trk := map (fun td => mark_all (fst td) (map fst (d_data (snd td)))) (combine (s_trk s) (s_dbs s));
                       s_conns := s_conns s; s_password := s_password s; s_aof := s_aof s; s_pubsub := s_pubsub s |})
      else if beq name (bs "RANDOMKEY") then (h_randomkey (get_db s dbi) parts oracle, s)
      else if beq name (bs "AUTH") then h_auth s 0 parts      (* "AUTH" => self.handle_auth(parts, 0) *)
      else if beq name (bs "QUIT") then (r_ok, s)
      else if beq name (bs "VERIF") then (h_verif now s parts, s)
      else
        let d := get_db s dbi in
        match exec_db now d name parts oracle with
        | Some (r, d') =>
            let ms := marks_strings d d' name parts r ++ marks_lists d d' name parts r ++ marks_streams now d d' name parts r in
            (r, log_after now (set_trk (set_db s dbi d') dbi (mark_all (get_trk s dbi) ms)) dbi d' name parts r)
        | None => (FError (bs "ERR unknown command '" ++ name ++ bs "'"), s)
        end
  | _ => (r_err, s)
  end.

(** process_normal_command for connection [c] (0 inside EXEC) with database [dbi] *)
Definition normal_command (now : Z) (s : server) (c : Z) (dbi : Z) (parts : list frame)
           (oracle : option frame) : frame * server :=
  match parts with
  | FBulk nm :: _ => dispatch_command now (lazy_expire now s dbi (upper nm) parts) c dbi parts oracle
  | _ => (r_err, s)
  end.

(** ---- the expiry sweeper (engine.rs expiration_cleanup_loop, after the repair 9fbc313) ---- *)
(** collect phase: keys whose INDEXED deadline has passed *)
Definition sweep_collect (now : Z) (d : db) : list bytes :=
  map fst (filter (fun kt => snd kt <=? now) (d_index d)).
(** delete phase for one collected key: delete only if the STORED deadline has passed;
    otherwise repair the index entry *)
Definition sweep_key (now : Z) (dt : db * tracker) (k : bytes) : db * tracker :=
  let (d, t) := dt in
  match get_entry d k with
  | Some e =>
      if expired now e then (index_del (del_entry d k) k, mark t k)
      else match e_exp e with
           | Some t' => (index_set d k t', t)
           | None => (index_del d k, t)
           end
  | None => (index_del d k, t)
  end.
Definition sweep_delete (now : Z) (d : db) (t : tracker) (ks : list bytes) : db * tracker :=
  fold_left (sweep_key now) ks (d, t).

(** was_modified_since: the counter moved, or the stored entry has expired *)
Definition was_modified_since (now : Z) (s : server) (dbi : Z) (k : bytes) (baseline : Z) : bool :=
  (baseline <? counter_of (get_trk s dbi) k) || was_expired now (get_db s dbi) k.

(** watched_keys is keyed by (database the key was watched in, key) since a5f65e9; the pair is
    encoded as one byte string: the database index (0..15) followed by the key *)
Definition wkey (dbi : Z) (k : bytes) : bytes := dbi :: k.
Definition wkey_db (w : bytes) : Z := match w with d :: _ => d | [] => 0 end.
Definition wkey_key (w : bytes) : bytes := tl w.

Definition clear_tx (cn : conn) : conn :=
  {| c_db := c_db cn; c_auth := c_auth cn; c_intx := false; c_queue := []; c_watched := [];
     c_closing := c_closing cn |}.

(** the name handle_exec dispatches a queued command on: trimmed, upper-cased *)
Definition queued_name (parts : list frame) : bytes :=
  match parts with FBulk nm :: _ => upper (trim nm) | _ => [] end.
(** the queued commands run back to back through process_normal_command with connection id 0
    and the database selected when EXEC arrived; since 1ecc022 a queued SELECT runs for the
    connection [c] that sent EXEC, and the commands after it run in the database it selected *)
Fixpoint exec_queue (now : Z) (s : server) (c : Z) (dbi : Z) (q : list (list frame)) (acc : list frame)
  : list frame * server :=
  match q with
  | [] => (rev acc, s)
  | parts :: r =>
      if beq (queued_name parts) (bs "SELECT") then
        match normal_command now s c dbi parts None with
        | (rep, s') =>
            let dbi' := match zlookup c (s_conns s') with Some cn => c_db cn | None => dbi end in
            exec_queue now s' c dbi' r (rep :: acc)
        end
      else
        match normal_command now s 0 dbi parts None with
        | (rep, s') => exec_queue now s' c dbi r (rep :: acc)
        end
  end.

(** the watched keys are checked in the database each was watched in *)
Definition watch_violated (now : Z) (s : server) (cn : conn) : bool :=
  existsb (fun kb => was_modified_since now s (wkey_db (fst kb)) (wkey_key (fst kb)) (snd kb)) (c_watched cn).

Definition h_exec (now : Z) (s : server) (c : Z) (cn : conn) : frame * server :=
  if negb (c_intx cn) then (r_err, s) else
  if watch_violated now s cn
  then (FNullArray, set_conn s c (clear_tx cn))
  else
    let s1 := set_conn s c (clear_tx cn) in
    match exec_queue now s1 c (c_db cn) (c_queue cn) [] with
    | (reps, s2) => (FArray reps, s2)
    end.

(** WATCH: registers key by key under the connection's current database *)
(** on a non-bulk argument the handler answers an error having already registered
    the keys before it (they stay in watched_keys) *)
(** key by key: a key the connection already watches in this database keeps its first baseline
    (3f1b680); otherwise the key is expired lazily (d9330f8: removed and marked if its stored
    deadline has passed) and then registered *)
Fixpoint watch_loop_partial (now : Z) (dbi : Z) (d : db) (t : tracker) (args : list frame) (w : list (bytes * Z))
  : db * tracker * list (bytes * Z) * bool :=
  match args with
  | [] => (d, t, w, true)
  | FBulk k :: r =>
      match alookup (wkey dbi k) w with
      | Some _ => watch_loop_partial now dbi d t r w
      | None =>
          match purge_key now (d, []) k with
          | (d1, removed) =>
              match register_watch (mark_all t removed) k with
              | (b, t') => watch_loop_partial now dbi d1 t' r (aset (wkey dbi k) b w)
              end
          end
      end
  | _ :: _ => (d, t, w, false)
  end.
(** UNWATCH: every watch is unregistered in the database it was registered in *)
Definition unwatch_all (s : server) (w : list (bytes * Z)) : server :=
  fold_left (fun s kb => set_trk s (wkey_db (fst kb))
                           (unregister_watch (get_trk s (wkey_db (fst kb))) (wkey_key (fst kb)))) w s.

Definition with_tx (cn : conn) (intx : bool) (q : list (list frame)) (w : list (bytes * Z)) : conn :=
  {| c_db := c_db cn; c_auth := c_auth cn; c_intx := intx; c_queue := q; c_watched := w;
     c_closing := c_closing cn |}.

(** process_frame *)
Definition process_frame (now : Z) (s : server) (c : Z) (req : frame) (oracle : option frame)
  : frame * server :=
  match req with
  | FArray (first :: rest) =>
      match first with
      | FBulk nm =>
          let parts := first :: rest in
          let command := upper (trim nm) in
          match zlookup c (s_conns s) with
          | None => (r_err, s)
          | Some cn =>
              (* authentication gate *)
              if (match s_password s with Some _ => true | None => false end) && negb (c_auth cn) then
                if beq command (bs "AUTH") then h_auth s c parts
                else if beq command (bs "PING") then
                  (match parts with _ :: a :: _ => a | _ => FSimple (bs "PONG") end, s)
                else if beq command (bs "QUIT") then (r_ok, s)
                else (FError (bs "NOAUTH"), s)
              (* 51742a5: the queueing test comes first; only the transaction control commands
                 (table regenerated from should_queue_command) are exempt *)
              else if c_intx cn && negb (mem_name command tx_not_queued) then
                (FSimple (bs "QUEUED"), set_conn s c (with_tx cn true (c_queue cn ++ [parts]) (c_watched cn)))
              else if beq command (bs "MULTI") then
                if c_intx cn then (r_err, s)
                else (r_ok, set_conn s c (with_tx cn true [] (c_watched cn)))
              else if beq command (bs "EXEC") then h_exec now s c cn
              else if beq command (bs "DISCARD") then
                if negb (c_intx cn) then (r_err, s) else (r_ok, set_conn s c (clear_tx cn))
              else if beq command (bs "WATCH") then
                if len parts <? 2 then (r_err, s)
                else if c_intx cn then (r_err, s)
                else match watch_loop_partial now (c_db cn) (get_db s (c_db cn)) (get_trk s (c_db cn)) rest (c_watched cn) with
                     | (d', t', w', okb) =>
                         (if okb then r_ok else r_err,
                          set_conn (set_trk (set_db s (c_db cn) d') (c_db cn) t') c (with_tx cn (c_intx cn) (c_queue cn) w'))
                     end
              else if beq command (bs "UNWATCH") then
                (r_ok, set_conn (unwatch_all s (c_watched cn)) c (with_tx cn (c_intx cn) (c_queue cn) []))
              else if beq command (bs "AUTH") then h_auth s c parts
              else normal_command now s c (c_db cn) parts oracle
          end
      | _ => (r_err, s)           (* "ERR invalid command format" *)
      end
  | _ => (r_err, s)               (* "ERR invalid request format" *)
  end.

(** ---- pub/sub at the server level (server.rs handle_publish / handle_subscribe /
    handle_unsubscribe / handle_psubscribe / handle_punsubscribe; frames of pubsub.rs) ----
    These five commands are dispatched in process_frame after the transaction-control commands
    and before AUTH and the queueing test (so they run immediately inside MULTI: class
    tx-immediate).  Their handlers write frames straight into connection write buffers
    ([direct]: pushed messages to subscribers - possibly the issuing connection itself - and
    the confirmations to the issuer) and return a frame ([resp]: the PUBLISH count, or
    NoResponse) that the connection loop appends after them. *)
Definition msg_frame (ch msg : bytes) : frame :=
  FArray [FBulk (bs "message"); FBulk ch; FBulk msg].
Definition pmsg_frame (p ch msg : bytes) : frame :=
  FArray [FBulk (bs "pmessage"); FBulk p; FBulk ch; FBulk msg].
Definition ack_frame (kind name : bytes) (n : Z) : frame := FArray [FBulk kind; FBulk name; FInt n].
Definition ack_nil_frame (kind : bytes) (n : Z) : frame := FArray [FBulk kind; FNullBulk; FInt n].
Definition push_frame (ch msg : bytes) (r : receiver) : Z * frame :=
  (fst r, match snd r with Some p => pmsg_frame p ch msg | None => msg_frame ch msg end).

Fixpoint all_bulk (l : list frame) : option (list bytes) :=
  match l with
  | [] => Some []
  | FBulk b :: r => match all_bulk r with Some bs' => Some (b :: bs') | None => None end
  | _ :: _ => None
  end.
Definition has_conn (s : server) (c : Z) : bool :=
  match zlookup c (s_conns s) with Some _ => true | None => false end.
Definition sub_total (p : pubsub) (c : Z) : Z :=
  len (si_ch (conn_info p c)) + len (si_pat (conn_info p c)).

(** PUBLISH: one frame per entry of PubSubManager::publish (best effort: a receiver id without
    a connection is skipped), reply = number of entries *)
Definition h_publish (s : server) (parts : list frame) : list (Z * frame) * frame * server :=
  match parts with
  | [_; FBulk ch; FBulk msg] =>
      let rc := publish (s_pubsub s) ch in
      (map (push_frame ch msg) (filter (fun r => has_conn s (fst r)) rc), FInt (len rc), s)
  | _ => ([], r_err, s)           (* arity, "invalid channel format", "invalid message format" *)
  end.

Definition h_sub (chan : bool) (s : server) (c : Z) (parts : list frame)
  : list (Z * frame) * frame * server :=
  if len parts <? 2 then ([], r_err, s) else
  match all_bulk (tl parts) with
  | None => ([], r_err, s)
  | Some names =>
      let kind := if chan then bs "subscribe" else bs "psubscribe" in
      match (if chan then subscribe (s_pubsub s) c names else psubscribe (s_pubsub s) c names) with
      | (rs, p') => (map (fun r => (c, ack_frame kind (r_name r) (r_count r))) rs, FNoResponse, set_pubsub s p')
      end
  end.

(** after 68e2e20: when PubSubManager returns no result (nothing to unsubscribe from) the
    handler still confirms - per requested name with the remaining count, or a single
    [kind, nil, remaining] when none was named *)
Definition h_unsub (chan : bool) (s : server) (c : Z) (parts : list frame)
  : list (Z * frame) * frame * server :=
  let kind := if chan then bs "unsubscribe" else bs "punsubscribe" in
  match (match tl parts with [] => Some None | l => option_map Some (all_bulk l) end) with
  | None => ([], r_err, s)
  | Some req =>
      match (if chan then unsubscribe (s_pubsub s) c req else punsubscribe (s_pubsub s) c req) with
      | (rs, p') =>
          let s' := set_pubsub s p' in
          match rs with
          | [] =>
              let remaining := sub_total p' c in
              (match req with
               | Some l => map (fun n => (c, ack_frame kind n remaining)) l
               | None => [(c, ack_nil_frame kind remaining)]
               end, FNoResponse, s')
          | _ => (map (fun r => (c, ack_frame kind (r_name r) (r_count r))) rs, FNoResponse, s')
          end
      end
  end.

(** Closing connections (QUIT, protocol error, EOF read from the client): cleanup_connections
    removes them at the end of the same loop iteration, together with their subscriptions
    (after the repair 4bdfa3e it no longer skips connections that are still subscribed) *)
Definition close_conn (s : server) (c : Z) : server := del_conn s c.

(** process_frame with the pub/sub commands: (frames written directly into connection buffers,
    in order; the frame returned to the connection loop; state) *)
(** one queued command at EXEC (51742a5): SELECT, PUBLISH, (P)SUBSCRIBE, (P)UNSUBSCRIBE and AUTH run
    for the connection that sent EXEC; the confirmations of a queued (un)subscribe become elements of
    the EXEC reply; a PUBLISH still writes straight into the subscribers' buffers.
    Result: (direct frames, reply elements, state, database for the commands that follow) *)
Definition exec_one_x (now : Z) (s : server) (c : Z) (dbi : Z) (parts : list frame)
  : list (Z * frame) * list frame * server * Z :=
  let name := queued_name parts in
  let sub := fun (res : list (Z * frame) * frame * server) =>
    match res with
    | (direct, FNoResponse, s') => ([], map snd direct, s', dbi)
    | (direct, r, s') => (direct, [r], s', dbi)
    end in
  if beq name (bs "SELECT") then
    match normal_command now s c dbi parts None with
    | (rep, s') => ([], [rep], s', match zlookup c (s_conns s') with Some cn => c_db cn | None => dbi end)
    end
  else if beq name (bs "PUBLISH") then
    match h_publish s parts with (direct, r, s') => (direct, [r], s', dbi) end
  else if beq name (bs "SUBSCRIBE") then sub (h_sub true s c parts)
  else if beq name (bs "PSUBSCRIBE") then sub (h_sub false s c parts)
  else if beq name (bs "UNSUBSCRIBE") then sub (h_unsub true s c parts)
  else if beq name (bs "PUNSUBSCRIBE") then sub (h_unsub false s c parts)
  else if beq name (bs "AUTH") then
    match h_auth s c parts with (r, s') => ([], [r], s', dbi) end
  else
    match normal_command now s 0 dbi parts None with (rep, s') => ([], [rep], s', dbi) end.
Fixpoint exec_queue_x (now : Z) (s : server) (c : Z) (dbi : Z) (q : list (list frame))
         (dacc : list (Z * frame)) (acc : list frame) : list (Z * frame) * list frame * server :=
  match q with
  | [] => (dacc, acc, s)
  | parts :: r =>
      match exec_one_x now s c dbi parts with
      | (direct, reps, s', dbi') => exec_queue_x now s' c dbi' r (dacc ++ direct) (acc ++ reps)
      end
  end.
Definition h_exec_x (now : Z) (s : server) (c : Z) (cn : conn) : list (Z * frame) * frame * server :=
  if negb (c_intx cn) then ([], r_err, s) else
  if watch_violated now s cn then ([], FNullArray, set_conn s c (clear_tx cn))
  else
    match exec_queue_x now (set_conn s c (clear_tx cn)) c (c_db cn) (c_queue cn) [] [] with
    | (direct, reps, s2) => (direct, FArray reps, s2)
    end.

Definition process_frame_x (now : Z) (s : server) (c : Z) (req : frame) (oracle : option frame)
  : list (Z * frame) * frame * server :=
  let other := match process_frame now s c req oracle with (r, s') => ([], r, s') end in
  match req with
  | FArray (FBulk nm :: rest) =>
      let parts := FBulk nm :: rest in
      let command := upper (trim nm) in
      match zlookup c (s_conns s) with
      | None => other
      | Some cn =>
          if (match s_password s with Some _ => true | None => false end) && negb (c_auth cn) then other
          else if c_intx cn && negb (mem_name command tx_not_queued) then other      (* queued *)
          else if beq command (bs "EXEC") then h_exec_x now s c cn
          else if beq command (bs "PUBLISH") then h_publish s parts
          else if beq command (bs "SUBSCRIBE") then h_sub true s c parts
          else if beq command (bs "PSUBSCRIBE") then h_sub false s c parts
          else if beq command (bs "UNSUBSCRIBE") then
            h_unsub true s c parts
          else if beq command (bs "PUNSUBSCRIBE") then
            h_unsub false s c parts
          else other
      end
  | _ => other
  end.

(** what one request read alone produces: the frames for the issuing connection, in order
    (pushed messages it receives itself, confirmations, then the reply unless NoResponse), and
    the frames pushed to other connections, in order *)
Definition own_frames (c : Z) (direct : list (Z * frame)) (resp : frame) : list frame :=
  map snd (filter (fun e => fst e =? c) direct) ++ (match resp with FNoResponse => [] | r => [r] end).
Definition other_frames (c : Z) (direct : list (Z * frame)) : list (Z * frame) :=
  filter (fun e => negb (fst e =? c)) direct.
Definition process_frame_multi (now : Z) (s : server) (c : Z) (req : frame) (oracle : option frame)
  : list frame * list (Z * frame) * server :=
  match process_frame_x now s c req oracle with
  | (direct, resp, s') => (own_frames c direct resp, other_frames c direct, s')
  end.

(** the connection loop's special case: QUIT answers, then the connection is closed *)
Definition is_quit (req : frame) : bool :=
  match req with
  | FArray (FBulk nm :: _) => beq (upper nm) (bs "QUIT")
  | _ => false
  end.

(** canonical form of replies, mirrored by the harness: errors compared by
    their first word; positive TTL/PTTL values by sign only *)
Fixpoint first_word (b : bytes) : bytes :=
  match b with [] => [] | c :: r => if c =? 32 then [] else c :: first_word r end.
Fixpoint canon (f : frame) : frame :=
  match f with
  | FError b => FError (first_word b)
  | FArray l => FArray (map canon l)
  | FMap l => FMap (map canon l)
  | FSet l => FSet (map canon l)
  | _ => f
  end.
(** SSCAN: members of one page come in HashSet / hash order - sorted (mirrors srv.rs canon_reply) *)
Definition canon_sscan (f : frame) : frame :=
  match f with
  | FArray [c; FArray l] =>
      if forallb (fun x => match x with FBulk _ => true | _ => false end) l
      then FArray [c; FArray (map FBulk (bsort (bulk_args l)))] else f
  | _ => f
  end.
Definition canon_reply (name : bytes) (f : frame) : frame :=
  let f := canon_streams name (canon f) in
  let f := if beq name (bs "SSCAN") then canon_sscan f else f in
  if beq name (bs "TTL") || beq name (bs "PTTL") then
    match f with FInt n => if 0 <? n then FInt 1 else f | _ => f end
  else f.
Definition req_name (req : frame) : bytes :=
  match req with FArray (FBulk nm :: _) => upper nm | _ => [] end.
