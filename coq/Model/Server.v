(** The server transition system: connections, per-connection database
    selection, command dispatch (server.rs process_frame /
    process_normal_command).  One [Frame] event of one connection is one step
    (single command thread, server.rs:367-422). *)
From Ferrous Require Import Base.Bytes Model.Resp Model.Types Model.Glob Model.Strings
  Model.Lists Model.ZSets Model.Streams.
Open Scope Z_scope.

Record conn := { c_db : Z }.
Definition new_conn : conn := {| c_db := 0 |}.

Record server := {
  s_dbs : list db;                 (* 16 databases *)
  s_conns : list (Z * conn)
}.
Definition init_server : server := {| s_dbs := repeat empty_db 16; s_conns := [] |}.

Fixpoint zlookup {A} (k : Z) (l : list (Z * A)) : option A :=
  match l with [] => None | (k', v) :: r => if k =? k' then Some v else zlookup k r end.
Fixpoint zremove {A} (k : Z) (l : list (Z * A)) : list (Z * A) :=
  match l with [] => [] | (k', v) :: r => if k =? k' then zremove k r else (k', v) :: zremove k r end.
Definition zset_ {A} (k : Z) (v : A) (l : list (Z * A)) := (k, v) :: zremove k l.

Definition get_db (s : server) (i : Z) : db := nth (Z.to_nat i) (s_dbs s) empty_db.
Fixpoint list_set {A} (l : list A) (i : nat) (x : A) : list A :=
  match l, i with
  | [], _ => []
  | _ :: r, O => x :: r
  | y :: r, S i' => y :: list_set r i' x
  end.
Definition set_db (s : server) (i : Z) (d : db) : server :=
  {| s_dbs := list_set (s_dbs s) (Z.to_nat i) d; s_conns := s_conns s |}.
Definition set_conn (s : server) (c : Z) (cn : conn) : server :=
  {| s_dbs := s_dbs s; s_conns := zset_ c cn (s_conns s) |}.

(** str::trim on the ASCII subset *)
Definition is_space (c : Z) : bool := (c =? 32) || ((9 <=? c) && (c <=? 13)).
Definition trim (b : bytes) : bytes := rev (drop_while is_space (rev (drop_while is_space b))).

(** commands of process_normal_command that only need the selected database *)
Definition exec_db (now : Z) (d : db) (name : bytes) (parts : list frame) (oracle : option frame)
  : option (frame * db) :=
  match exec_strings now d name parts with
  | Some r => Some r
  | None =>
  match exec_lists now d name parts oracle with
  | Some r => Some r
  | None =>
  match exec_zsets now d name parts oracle with
  | Some r => Some r
  | None => exec_streams now d name parts oracle
  end end end.

Definition h_randomkey (d : db) (parts : list frame) (oracle : option frame) : frame :=
  if negb (len parts =? 1) then r_err else
  match d_data d with
  | [] => r_nil
  | _ => match oracle with
         | Some (FBulk k) => if amem k (d_data d) then FBulk k else FError (bs "NOTAKEY")
         | _ => FError (bs "NOORACLE")
         end
  end.

(** process_normal_command for connection [c] with database [dbi] *)
Definition normal_command (now : Z) (s : server) (c : Z) (dbi : Z) (parts : list frame)
           (oracle : option frame) : frame * server :=
  match parts with
  | FBulk nm :: _ =>
      let name := upper nm in
      if beq name (bs "PING") then
        (match parts with _ :: a :: _ => a | _ => FSimple (bs "PONG") end, s)
      else if beq name (bs "ECHO") then
        (match parts with [_; a] => a | _ => r_err end, s)
      else if beq name (bs "SELECT") then
        match parts with
        | [_; FBulk a] =>
            match parse_usize a with
            | Some n => if 16 <=? n then (r_err, s)
                        else match zlookup c (s_conns s) with
                             | Some _ => (r_ok, set_conn s c {| c_db := n |})
                             | None => (r_ok, s)       (* connection id 0 inside EXEC: no-op *)
                             end
            | None => (r_err, s)
            end
        | [_; _] => (r_err, s)
        | _ => (r_err, s)
        end
      else if beq name (bs "FLUSHALL") then
        if negb (len parts =? 1) then (r_err, s)
        else (r_ok, {| s_dbs := map (fun _ => empty_db) (s_dbs s); s_conns := s_conns s |})
      else if beq name (bs "RANDOMKEY") then (h_randomkey (get_db s dbi) parts oracle, s)
      else
        match exec_db now (get_db s dbi) name parts oracle with
        | Some (r, d') => (r, set_db s dbi d')
        | None => (r_err, s)                        (* unknown command (or not modelled) *)
        end
  | _ => (r_err, s)
  end.

(** process_frame: the request must be a non-empty array whose first element is a bulk string *)
Definition process_frame (now : Z) (s : server) (c : Z) (req : frame) (oracle : option frame)
  : frame * server :=
  match req with
  | FArray (FBulk nm :: rest) =>
      match zlookup c (s_conns s) with
      | None => (r_err, s)
      | Some cn => normal_command now s c (c_db cn) (FBulk nm :: rest) oracle
      end
  | FArray (_ :: _) => (r_err, s)
  | _ => (r_err, s)
  end.

(** canonical form of replies, mirrored by the harness: errors compared by
    their first word; positive TTL/PTTL values by sign only *)
Fixpoint first_word (b : bytes) : bytes :=
  match b with [] => [] | c :: r => if c =? 32 then [] else c :: first_word r end.
Fixpoint canon (f : frame) : frame :=
  match f with
  | FError b => FError (first_word b)
  | FArray l => FArray (map canon l)
  | FMap l => FMap (map canon l)
  | FSet l => FSet (map canon l)
  | _ => f
  end.
Definition canon_reply (name : bytes) (f : frame) : frame :=
  let f := canon_streams name (canon f) in
  if beq name (bs "TTL") || beq name (bs "PTTL") then
    match f with FInt n => if 0 <? n then FInt 1 else f | _ => f end
  else f.
Definition req_name (req : frame) : bytes :=
  match req with FArray (FBulk nm :: _) => upper nm | _ => [] end.
