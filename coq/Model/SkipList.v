(** Model of src/storage/skiplist.rs (SkipList<Vec<u8>, f64>).

    State: the nodes in level-0 order, each with its member, the bit pattern of
    its f64 score and its height ([n_lvl n] = index of its top level, i.e.
    forward.len() - 1); the chain of level i is DERIVED as the nodes with
    [i <= n_lvl]; beside it the key_index HashMap (association list), the
    [length] counter and the [level] field, all kept as the code keeps them
    (so that "index agrees with chain", "length agrees", "level agrees" are
    statements, not definitions).

    The searches are written as the code's top-down tower walk over the derived
    chains ([tower]); Proofs/SkipListFacts.v shows that on every list ordered by
    the comparator - whatever the heights - it finds the level-0 position of the
    linear scan, with update pointers that agree with the derived chains.

    f64: comparison is done directly on the 64-bit patterns (sign/magnitude;
    +0 = -0; NaN = magnitude above the infinity pattern).  No proofs here. *)
From Ferrous Require Import Base.Bytes Model.Resp Model.Types.
Open Scope Z_scope.

(** ---- f64 on bit patterns (0 <= b < 2^64) ---- *)
Definition two63 := 9223372036854775808.
Definition f_inf_mag := 9218868437227405312.            (* 0x7ff0000000000000 *)
Definition nan_bits := 9221120237041090560.             (* 0x7ff8000000000000: "NaN".parse::<f64>() *)
Definition pinf_bits := 9218868437227405312.
Definition ninf_bits := 18442240474082181120.           (* 0xfff0000000000000 *)
Definition f_sign (b : Z) : bool := two63 <=? b.
Definition f_mag (b : Z) : Z := b mod two63.
Definition f_is_nan (b : Z) : bool := f_inf_mag <? f_mag b.
(** order-preserving image of the non-NaN values: -mag for negatives, so -0 and +0 coincide *)
Definition f_ord (b : Z) : Z := if f_sign b then - f_mag b else f_mag b.
(** f64::partial_cmp *)
Definition f_pcmp (a b : Z) : option comparison :=
  if f_is_nan a || f_is_nan b then None else Some (f_ord a ?= f_ord b).
Definition f_lt (a b : Z) : bool := match f_pcmp a b with Some Lt => true | _ => false end.
Definition f_le (a b : Z) : bool := match f_pcmp a b with Some Lt | Some Eq => true | _ => false end.
Definition f_eq (a b : Z) : bool := match f_pcmp a b with Some Eq => true | _ => false end.
(** what survives printing and re-parsing a score: every NaN prints as "NaN" *)
Definition f_canon (b : Z) : Z := if f_is_nan b then nan_bits else b.

(** ---- nodes and the list ---- *)
Record node := { n_key : bytes; n_val : Z; n_lvl : nat }.
Record sl := {
  sl_nodes : list node;                 (* level-0 chain *)
  sl_index : list (bytes * Z);          (* key_index: member -> score *)
  sl_length : Z;                        (* length *)
  sl_level : nat                        (* level *)
}.
Definition sl_new : sl := {| sl_nodes := []; sl_index := []; sl_length := 0; sl_level := 0%nat |}.
Definition max_level : nat := 32.

(** the chain of level i as the forward pointers link it *)
Definition chain (i : nat) (nodes : list node) : list node :=
  filter (fun n => (i <=? n_lvl n)%nat) nodes.

(** is_nan: v.partial_cmp(v).is_none() *)
Definition is_nan_v (v : Z) : bool := match f_pcmp v v with None => true | Some _ => false end.

(** compare_nodes / compare_with_query (identical bodies) *)
Definition compare_nodes (v1 : Z) (k1 : bytes) (v2 : Z) (k2 : bytes) : comparison :=
  match f_pcmp v1 v2 with
  | Some Eq => bcmp k1 k2
  | Some c => c
  | None => if is_nan_v v1 && is_nan_v v2 then bcmp k1 k2
            else if is_nan_v v1 then Gt else Lt
  end.
Definition node_lt (v : Z) (k : bytes) (n : node) : bool :=
  match compare_nodes (n_val n) (n_key n) v k with Lt => true | _ => false end.

(** one level of the walk: `while let Some(next) = current.forward[i] { if lt next
    { current = next } else { break } }`.  [suf] = the level-0 nodes after
    [current]; the result is the number of level-0 nodes [current] moves over.
    [pending] counts nodes lower than level i skipped since the last move. *)
Fixpoint adv (lt : node -> bool) (i : nat) (suf : list node) (pending : nat) : nat :=
  match suf with
  | [] => 0%nat
  | n :: r =>
      if (i <=? n_lvl n)%nat
      then (if lt n then (S pending + adv lt i r 0)%nat else 0%nat)
      else adv lt i r (S pending)
  end.
(** `for i in (0..=level).rev()`: the positions update[lv], ..., update[0]
    (position p = the p-th node of level 0, 0 = head) *)
Fixpoint tower (lt : node -> bool) (nodes : list node) (lv pos : nat) : list nat :=
  let p := (pos + adv lt lv (skipn pos nodes) 0)%nat in
  match lv with
  | O => [p]
  | S l => p :: tower lt nodes l p
  end.
Definition search (lt : node -> bool) (nodes : list node) (lv : nat) : nat :=
  last (tower lt nodes lv 0) 0%nat.

(** insert_new_node with the height the implementation drew (oracle, 0..31) *)
Definition insert_new_node (s : sl) (k : bytes) (v : Z) (h : nat) : sl :=
  let pos := search (node_lt v k) (sl_nodes s) (sl_level s) in
  {| sl_nodes := firstn pos (sl_nodes s) ++ {| n_key := k; n_val := v; n_lvl := h |} :: skipn pos (sl_nodes s);
     sl_index := sl_index s;
     sl_length := sl_length s + 1;
     sl_level := Nat.max (sl_level s) h |}.

(** `while level > 0 && head.forward[level].is_none() { level -= 1 }` *)
Fixpoint shrink_level (nodes : list node) (lv : nat) : nat :=
  match lv with
  | O => O
  | S l => if existsb (fun n => (lv <=? n_lvl n)%nat) nodes then lv else shrink_level nodes l
  end.

(** remove_node_by_score: the node after the search position is unlinked only
    if its key equals the query and its score `==` the query score (false for NaN) *)
Definition remove_node_by_score (s : sl) (k : bytes) (v : Z) : sl :=
  let pos := search (node_lt v k) (sl_nodes s) (sl_level s) in
  match nth_error (sl_nodes s) pos with
  | Some t =>
      if beq (n_key t) k && f_eq (n_val t) v then
        let nodes' := firstn pos (sl_nodes s) ++ skipn (S pos) (sl_nodes s) in
        {| sl_nodes := nodes'; sl_index := sl_index s;
           sl_length := sl_length s - 1;
           sl_level := shrink_level nodes' (sl_level s) |}
      else s
  | None => s
  end.

Definition set_index (s : sl) (ix : list (bytes * Z)) : sl :=
  {| sl_nodes := sl_nodes s; sl_index := ix; sl_length := sl_length s; sl_level := sl_level s |}.

(** insert: Some old score when the key was indexed *)
Definition sl_insert (s : sl) (k : bytes) (v : Z) (h : nat) : option Z * sl :=
  match alookup k (sl_index s) with
  | Some old =>
      let s1 := remove_node_by_score s k old in
      let s2 := set_index s1 (aset k v (sl_index s1)) in
      (Some old, insert_new_node s2 k v h)
  | None =>
      (None, insert_new_node (set_index s (aset k v (sl_index s))) k v h)
  end.

Definition sl_remove (s : sl) (k : bytes) : option Z * sl :=
  match alookup k (sl_index s) with
  | Some sc => (Some sc, remove_node_by_score (set_index s (aremove k (sl_index s))) k sc)
  | None => (None, s)
  end.

Definition sl_get_score (s : sl) (k : bytes) : option Z := alookup k (sl_index s).

Fixpoint rank_walk (v : Z) (k : bytes) (nodes : list node) (rank : Z) : option Z :=
  match nodes with
  | [] => None
  | n :: r =>
      match compare_nodes (n_val n) (n_key n) v k with
      | Lt => rank_walk v k r (rank + 1)
      | Eq => Some rank
      | Gt => None
      end
  end.
Definition sl_get_rank (s : sl) (k : bytes) : option Z :=
  match alookup k (sl_index s) with
  | Some sc => rank_walk sc k (sl_nodes s) 0
  | None => None
  end.

Definition sl_get_by_rank (s : sl) (rank : Z) : option node :=
  if sl_length s <=? rank then None else nth_error (sl_nodes s) (Z.to_nat rank).

(** range_by_rank(start, end), both usize: ranks r with start <= r <= end, r < length *)
Definition sl_range_by_rank (s : sl) (start stop : Z) : list node :=
  if sl_length s <=? start then []
  else firstn (Z.to_nat (Z.min (stop + 1) (sl_length s) - start)) (skipn (Z.to_nat start) (sl_nodes s)).

Fixpoint take_while {A} (p : A -> bool) (l : list A) : list A :=
  match l with [] => [] | x :: r => if p x then x :: take_while p r else [] end.

(** range_by_score(min, max): tower walk over `value < min`, then collect while `value <= max` *)
Definition sl_range_by_score (s : sl) (mn mx : Z) : list node :=
  let pos := search (fun n => f_lt (n_val n) mn) (sl_nodes s) (sl_level s) in
  take_while (fun n => f_le (n_val n) mx) (skipn pos (sl_nodes s)).

Definition sl_len (s : sl) : Z := sl_length s.
Definition sl_is_empty (s : sl) : bool := sl_length s =? 0.
Definition sl_items (s : sl) : list (bytes * Z) := map (fun n => (n_key n, n_val n)) (sl_nodes s).
