(** Model of the stream and consumer-group commands (C15, C16):
    src/storage/stream.rs, consumer_groups.rs, commands/streams.rs,
    commands/consumer_groups.rs and the engine.rs x* functions.

    Three layers, bottom-up, each code-shaped:
      1. StreamId text, StreamData (sorted Vec + binary searches), the atomics;
      2. ConsumerGroup / PendingEntryList (four representations of the pending set);
      3. the command handlers [h_x...] : now -> db -> parts -> reply * db.
    Stream-level functions ([st_...], [g_...]) are what the theorems of
    Proofs/StreamFacts.v and Proofs/GroupFacts.v talk about; the handlers only parse
    arguments, resolve key and group, and call them. *)
From Ferrous Require Import Base.Bytes Model.Resp Model.Types Model.Strings.
Open Scope Z_scope.

(** ------------------------------------------------------------------ *)
(** * 1. Stream IDs                                                     *)

Definition sid_zero : sid := (0, 0).
Definition sid_max : sid := (u64_max, u64_max).          (* StreamId::max() *)

(** StreamId::parse_u64_fast (after the repair 3be45c2): an empty slice is not a number,
    digits only, checked_mul(10)? then checked_add(digit)? - a value that does not fit in
    64 bits is None *)
Fixpoint parse_u64_digits (l : bytes) (acc : Z) : option Z :=
  match l with
  | [] => Some acc
  | c :: r =>
      if is_digit c then
        if acc * 10 <=? u64_max then
          if acc * 10 + (c - 48) <=? u64_max then parse_u64_digits r (acc * 10 + (c - 48)) else None
        else None
      else None
  end.
Definition parse_u64_fast (l : bytes) : option Z :=
  match l with [] => None | _ => parse_u64_digits l 0 end.
(** split at the first '-' *)
Fixpoint split_dash (l : bytes) : option (bytes * bytes) :=
  match l with
  | [] => None
  | c :: r => if c =? 45 then Some ([], r)
              else match split_dash r with Some (a, b) => Some (c :: a, b) | None => None end
  end.
(** StreamId::from_string *)
Definition sid_of_bytes (l : bytes) : option sid :=
  match split_dash l with
  | Some (a, b) =>
      match parse_u64_fast a, parse_u64_fast b with
      | Some ms, Some sq => Some (ms, sq)
      | _, _ => None
      end
  | None => None
  end.
Definition sid_to_bytes (i : sid) : bytes := print_nat (fst i) ++ [45] ++ print_nat (snd i).
Definition r_sid (i : sid) : frame := FBulk (sid_to_bytes i).

(** ------------------------------------------------------------------ *)
(** * 2. StreamData                                                     *)

Definition fields := list (bytes * bytes).
Definition sentry := (sid * fields)%type.

(** HashMap::insert on the field map; kept sorted by field name (iteration order of a
    HashMap is unobservable: the harness sorts the pairs of every entry) *)
Fixpoint finsert (k v : bytes) (l : fields) : fields :=
  match l with
  | [] => [(k, v)]
  | (k', v') :: r =>
      match bcmp k k' with
      | Lt => (k, v) :: l
      | Eq => (k, v) :: r
      | Gt => (k', v') :: finsert k v r
      end
  end.

Definition empty_stream : stream :=
  {| s_entries := []; s_last := sid_zero; s_ams := 0; s_aseq := 0; s_len := 0; s_groups := [] |}.

(** entries.binary_search_by(|e| e.id.cmp(x)) on the sorted, duplicate-free Vec:
    (true, index of x) or (false, insertion point) *)
Fixpoint bsearch (x : sid) (l : list sentry) : bool * Z :=
  match l with
  | [] => (false, 0)
  | e :: r =>
      match sid_cmp (fst e) x with
      | Lt => match bsearch x r with (f, i) => (f, 1 + i) end
      | Eq => (true, 0)
      | Gt => (false, 0)
      end
  end.

(** the first [c] elements ([c] may be as large as usize::MAX: never converted to nat) *)
Definition ztake {A} (c : Z) (l : list A) : list A := if len l <=? c then l else zfirstn c l.
Definition take_count {A} (count : option Z) (l : list A) : list A :=
  match count with Some c => ztake c l | None => l end.

(** StreamData::range (after the repair dc07967): start index = first entry >= start,
    exclusive end index = number of entries <= end; nothing when that is 0 or not above
    the start index *)
Definition range_start_idx (es : list sentry) (st : sid) : Z := snd (bsearch st es).
Definition range_end_excl (es : list sentry) (en : sid) : Z :=
  match bsearch en es with
  | (true, i) => i + 1
  | (false, i) => i
  end.
Definition st_range (es : list sentry) (st en : sid) (count : option Z) (reverse : bool) : list sentry :=
  let si := range_start_idx es st in
  let ee := range_end_excl es en in
  if (ee =? 0) || (ee <=? si) then [] else
  let hi := Z.min (ee - 1) (Z.max (len es - 1) 0) in
  let sel := if hi <? si then [] else zfirstn (hi - si + 1) (zskipn si es) in
  take_count count (if reverse then rev sel else sel).

(** StreamData::range_after *)
Definition st_range_after (es : list sentry) (after : sid) (count : option Z) : list sentry :=
  let si := match bsearch after es with (true, i) => i + 1 | (false, i) => i end in
  take_count count (zskipn si es).

(** StreamId::generate_next_atomic (after the repair fb507d0) with the clock reading
    [now_ms]: a later millisecond gives (now,0); otherwise (prev_ms, seq+1); when the
    sequence is exhausted (prev_ms+1, 0); when that is exhausted too, None *)
Definition gen_next (now_ms : Z) (s : stream) : option (sid * Z * Z) :=
  if s_ams s <? now_ms then Some ((now_ms, 0), now_ms, 0)
  else if s_aseq s + 1 <=? u64_max then Some ((s_ams s, s_aseq s + 1), s_ams s, s_aseq s + 1)
  else if s_ams s + 1 <=? u64_max then Some ((s_ams s + 1, 0), s_ams s + 1, 0)
  else None.

(** StreamData::add_auto: no comparison with last_id, push *)
Definition st_add_auto (now_ms : Z) (s : stream) (f : fields) : option (sid * stream) :=
  match gen_next now_ms s with
  | Some (id, ms, sq) =>
      Some (id, {| s_entries := s_entries s ++ [(id, f)]; s_last := id; s_ams := ms; s_aseq := sq;
                   s_len := s_len s + 1; s_groups := s_groups s |})
  | None => None
  end.

Definition has_id (id : sid) (es : list sentry) : bool := fst (bsearch id es).

(** StreamData::add_with_id: None = refused *)
Definition st_add_with_id (s : stream) (id : sid) (f : fields) : option stream :=
  if sid_leb id (s_last s) then None
  else if has_id id (s_entries s) then None
  else Some {| s_entries := s_entries s ++ [(id, f)]; s_last := id; s_ams := fst id; s_aseq := snd id;
               s_len := s_len s + 1; s_groups := s_groups s |}.

(** AtomicUsize::fetch_sub: wraps on underflow *)
Definition usub (a b : Z) : Z := if a <? b then a - b + two64 else a - b.

(** Stream::trim_by_count *)
Definition st_trim (s : stream) (maxlen : Z) : Z * stream :=
  if len (s_entries s) <=? maxlen then (0, s)
  else let n := len (s_entries s) - maxlen in
       (n, {| s_entries := zskipn n (s_entries s); s_last := s_last s; s_ams := s_ams s; s_aseq := s_aseq s;
              s_len := usub (s_len s) n; s_groups := s_groups s |}).

Fixpoint sid_mem (x : sid) (l : list sid) : bool :=
  match l with [] => false | y :: r => sid_eqb x y || sid_mem x r end.

(** Stream::delete: every distinct listed id that is present is removed *)
Definition st_delete (s : stream) (ids : list sid) : Z * stream :=
  let kept := filter (fun e => negb (sid_mem (fst e) ids)) (s_entries s) in
  let n := len (s_entries s) - len kept in
  if 0 <? n then
    (n, {| s_entries := kept; s_last := s_last s; s_ams := s_ams s; s_aseq := s_aseq s;
           s_len := usub (s_len s) n; s_groups := s_groups s |})
  else (0, s).

Definition last_entry_id (s : stream) : option sid :=
  match rev (s_entries s) with e :: _ => Some (fst e) | [] => None end.

(** ------------------------------------------------------------------ *)
(** * 3. Consumer groups                                                *)

(** ConsumerGroup::new (after the repair 542e5a3): the cursor starts at the requested position *)
Definition mk_group (start : sid) : group :=
  {| g_last := start; g_by_id := []; g_by_consumer := []; g_consumers := [];
     g_ncons := 0; g_total := 0; g_min := None; g_max := None |}.
Definition new_group : group := mk_group sid_zero.

(** in-place insert-or-replace on association lists *)
Fixpoint aput {A} (k : bytes) (v : A) (l : list (bytes * A)) : list (bytes * A) :=
  match l with
  | [] => [(k, v)]
  | (k', v') :: r => if beq k k' then (k, v) :: r else (k', v') :: aput k v r
  end.

(** BTreeMap<StreamId, PendingEntry> as a list sorted by id *)
Fixpoint pel_insert (p : pending) (l : list pending) : list pending :=
  match l with
  | [] => [p]
  | q :: r =>
      match sid_cmp (p_id p) (p_id q) with
      | Lt => p :: l
      | Eq => p :: r
      | Gt => q :: pel_insert p r
      end
  end.
Fixpoint pel_find (id : sid) (l : list pending) : option pending :=
  match l with
  | [] => None
  | q :: r => if sid_eqb id (p_id q) then Some q else pel_find id r
  end.
Fixpoint pel_remove (id : sid) (l : list pending) : list pending :=
  match l with
  | [] => []
  | q :: r => if sid_eqb id (p_id q) then r else q :: pel_remove id r
  end.
Definition pel_min (l : list pending) : option sid :=
  match l with q :: _ => Some (p_id q) | [] => None end.
Definition pel_max (l : list pending) : option sid :=
  match rev l with q :: _ => Some (p_id q) | [] => None end.

Definition sat_sub (a b : Z) : Z := if a <? b then 0 else a - b.

(** the PendingEntryList part of a group *)
Definition set_pel (g : group) (byid : list pending) (bycons : list (bytes * list sid)) : group :=
  {| g_last := g_last g; g_by_id := byid; g_by_consumer := bycons; g_consumers := g_consumers g;
     g_ncons := g_ncons g; g_total := g_total g;
     g_min := pel_min byid; g_max := pel_max byid |}.       (* update_bounds *)
Definition set_consumers (g : group) (cs : list (bytes * Z)) : group :=
  {| g_last := g_last g; g_by_id := g_by_id g; g_by_consumer := g_by_consumer g; g_consumers := cs;
     g_ncons := g_ncons g; g_total := g_total g; g_min := g_min g; g_max := g_max g |}.
Definition set_total (g : group) (t : Z) : group :=
  {| g_last := g_last g; g_by_id := g_by_id g; g_by_consumer := g_by_consumer g; g_consumers := g_consumers g;
     g_ncons := g_ncons g; g_total := t; g_min := g_min g; g_max := g_max g |}.
Definition set_last (g : group) (l : sid) : group :=
  {| g_last := l; g_by_id := g_by_id g; g_by_consumer := g_by_consumer g; g_consumers := g_consumers g;
     g_ncons := g_ncons g; g_total := g_total g; g_min := g_min g; g_max := g_max g |}.

(** entries_by_consumer.entry(c).or_insert_with(Vec::new).push(id) *)
Definition bc_push (c : bytes) (id : sid) (m : list (bytes * list sid)) : list (bytes * list sid) :=
  match alookup c m with
  | Some l => aput c (l ++ [id]) m
  | None => m ++ [(c, [id])]
  end.
(** retain(|x| x != id); remove the key when the Vec became empty *)
Definition bc_drop (c : bytes) (id : sid) (m : list (bytes * list sid)) : list (bytes * list sid) :=
  match alookup c m with
  | Some l =>
      let l' := filter (fun x => negb (sid_eqb x id)) l in
      match l' with [] => aremove c m | _ => aput c l' m end
  | None => m
  end.

(** PendingEntryList::add_entry *)
Definition pel_add_entry (g : group) (p : pending) : group :=
  set_pel g (pel_insert p (g_by_id g)) (bc_push (p_consumer p) (p_id p) (g_by_consumer g)).
(** PendingEntryList::remove_entry *)
Definition pel_remove_entry (g : group) (id : sid) : option pending * group :=
  match pel_find id (g_by_id g) with
  | Some e => (Some e, set_pel g (pel_remove id (g_by_id g)) (bc_drop (p_consumer e) id (g_by_consumer g)))
  | None => (None, g)
  end.

(** ConsumerGroup::create_consumer *)
Definition g_create_consumer (g : group) (c : bytes) : bool * group :=
  if amem c (g_consumers g) then (false, g)
  else (true,
        {| g_last := g_last g; g_by_id := g_by_id g; g_by_consumer := g_by_consumer g;
           g_consumers := g_consumers g ++ [(c, 0)];
           g_ncons := g_ncons g + 1; g_total := g_total g; g_min := g_min g; g_max := g_max g |}).

(** consumers.get_mut(c).map(|x| x.pending_count = f(x.pending_count)) *)
Definition upd_count (c : bytes) (f : Z -> Z) (cs : list (bytes * Z)) : list (bytes * Z) :=
  match alookup c cs with Some n => aput c (f n) cs | None => cs end.

(** ConsumerGroup::add_pending (after the repair 92eb72a; entries non-empty in every call).
    Per entry: an ID that is still pending (XGROUP SETID moved the cursor back) leaves its
    previous owner first (PendingEntryList::remove_entry also clears that owner's index), then
    it is added for the reader with delivery count 1.  Afterwards every previous owner's
    counter is decremented (saturating), the reader's counter grows by the number of entries
    and the total by the number of really new ones. *)
Definition add_pending_one (now : Z) (c : bytes) (acc : group * list bytes) (id : sid) : group * list bytes :=
  match acc with
  | (g, prev) =>
      match pel_remove_entry g id with
      | (old, g') =>
          (pel_add_entry g' {| p_id := id; p_consumer := c; p_time := now; p_count := 1 |},
           match old with Some e => prev ++ [p_consumer e] | None => prev end)
      end
  end.
Definition dec_owners (prev : list bytes) (cs : list (bytes * Z)) : list (bytes * Z) :=
  fold_left (fun cs o => upd_count o (fun n => sat_sub n 1) cs) prev cs.
Definition g_add_pending (now : Z) (g : group) (c : bytes) (ids : list sid) : group :=
  let g1 := snd (g_create_consumer g c) in
  match fold_left (add_pending_one now c) ids (g1, []) with
  | (g2, prev) =>
      let g3 := set_consumers g2 (upd_count c (fun n => n + len ids) (dec_owners prev (g_consumers g2))) in
      let g4 := set_total g3 (g_total g3 + (len ids - len prev)) in
      match rev ids with
      | l :: _ => if sid_ltb (g_last g4) l then set_last g4 l else g4
      | [] => g4
      end
  end.

(** ConsumerGroup::redeliver_pending (da451f0): the IDs pending for [c] that are greater than
    [after], in ID order, at most COUNT; their delivery count and time are bumped
    (get_entry_mut); nothing else changes (the consumer is created if it does not exist) *)
Definition pel_after (after : sid) (l : list pending) : list pending :=
  filter (fun p => sid_ltb after (p_id p)) l.
Definition bump (now : Z) (q : pending) : pending :=
  {| p_id := p_id q; p_consumer := p_consumer q; p_time := now; p_count := p_count q + 1 |}.
Definition pel_bump (now : Z) (l : list pending) (id : sid) : list pending :=
  map (fun q => if sid_eqb id (p_id q) then bump now q else q) l.
Definition set_byid (g : group) (byid : list pending) : group :=
  {| g_last := g_last g; g_by_id := byid; g_by_consumer := g_by_consumer g; g_consumers := g_consumers g;
     g_ncons := g_ncons g; g_total := g_total g; g_min := g_min g; g_max := g_max g |}.
Definition g_redeliver_pending (now : Z) (g : group) (c : bytes) (after : sid) (count : option Z)
  : list sid * group :=
  let g1 := snd (g_create_consumer g c) in
  let ids := map p_id (take_count count (filter (fun p => beq (p_consumer p) c) (pel_after after (g_by_id g1)))) in
  (ids, set_byid g1 (fold_left (pel_bump now) ids (g_by_id g1))).

(** ConsumerGroup::acknowledge *)
Definition g_ack_one (acc : Z * group) (id : sid) : Z * group :=
  match acc with
  | (n, g) =>
      match pel_remove_entry g id with
      | (Some e, g') => (n + 1, set_consumers g' (upd_count (p_consumer e) (fun k => sat_sub k 1) (g_consumers g')))
      | (None, g') => (n, g')
      end
  end.
Definition g_acknowledge (g : group) (ids : list sid) : Z * group :=
  match fold_left g_ack_one ids (0, g) with
  | (n, g') => (n, if 0 <? n then set_total g' (sat_sub (g_total g') n) else g')
  end.

(** PendingEntryList::transfer_ownership (the entry exists) *)
Definition pel_transfer (now : Z) (g : group) (e : pending) (c : bytes) : group :=
  let bc := bc_drop (p_consumer e) (p_id e) (g_by_consumer g) in
  let e' := {| p_id := p_id e; p_consumer := c; p_time := now; p_count := p_count e + 1 |} in
  {| g_last := g_last g; g_by_id := pel_insert e' (g_by_id g); g_by_consumer := bc_push c (p_id e) bc;
     g_consumers := g_consumers g; g_ncons := g_ncons g; g_total := g_total g;
     g_min := g_min g; g_max := g_max g |}.

(** ConsumerGroup::claim_messages; idle time on the model clock *)
Definition g_claim_one (now : Z) (c : bytes) (min_idle : Z) (force : bool)
           (acc : list sid * group) (id : sid) : list sid * group :=
  match acc with
  | (cl, g) =>
      match pel_find id (g_by_id g) with
      | Some e =>
          if negb force && (Z.max 0 (now - p_time e) <? min_idle) then (cl, g)
          else
            let cs1 := upd_count (p_consumer e) (fun k => sat_sub k 1) (g_consumers g) in
            let cs2 := upd_count c (fun k => k + 1) cs1 in
            (cl ++ [id], pel_transfer now (set_consumers g cs2) e c)
      | None => (cl, g)
      end
  end.
Definition g_claim (now : Z) (g : group) (c : bytes) (min_idle : Z) (ids : list sid) (force : bool)
  : list sid * group :=
  fold_left (g_claim_one now c min_idle force) ids ([], snd (g_create_consumer g c)).

(** ConsumerGroup::delete_consumer / PendingEntryList::remove_consumer_entries *)
Definition g_delete_consumer (g : group) (c : bytes) : Z * group :=
  if amem c (g_consumers g) then
    let cs := aremove c (g_consumers g) in
    match alookup c (g_by_consumer g) with
    | Some ids =>
        let byid := fold_left (fun l id => pel_remove id l) ids (g_by_id g) in
        let g1 := set_pel g byid (aremove c (g_by_consumer g)) in
        (len ids,
         {| g_last := g_last g1; g_by_id := g_by_id g1; g_by_consumer := g_by_consumer g1; g_consumers := cs;
            g_ncons := sat_sub (g_ncons g) 1; g_total := sat_sub (g_total g) (len ids);
            g_min := g_min g1; g_max := g_max g1 |})
    | None =>
        (0,
         {| g_last := g_last g; g_by_id := g_by_id g; g_by_consumer := g_by_consumer g; g_consumers := cs;
            g_ncons := sat_sub (g_ncons g) 1; g_total := sat_sub (g_total g) 0;
            g_min := g_min g; g_max := g_max g |})
    end
  else (0, g).

(** entries.binary_search_by(|e| e.id.cmp(id)).ok().map(|idx| entries[idx].clone()) *)
Definition find_entry (id : sid) (es : list sentry) : option sentry :=
  match bsearch id es with
  | (true, i) => znth i es
  | (false, _) => None
  end.
Fixpoint filter_map {A B} (f : A -> option B) (l : list A) : list B :=
  match l with
  | [] => []
  | x :: r => match f x with Some y => y :: filter_map f r | None => filter_map f r end
  end.

(** Stream::read_group.  [after = None] is ">" (7d40622: no ID value doubles as the marker).
    An explicit ID (da451f0) reads the consumer's own history: its pending entries after that
    ID that are still in the stream; nothing becomes pending, the cursor does not move, NOACK
    is irrelevant. *)
Definition st_read_group (now : Z) (s : stream) (g : group) (c : bytes) (after : option sid) (count : option Z)
           (noack : bool) : list sentry * group :=
  match after with
  | Some a =>
    match g_redeliver_pending now g c a count with
    | (ids, g') => (filter_map (fun id => find_entry id (s_entries s)) ids, g')
    end
  | None =>
  let es := st_range_after (s_entries s) (g_last g) count in
  match es with
  | [] => ([], g)
  | _ =>
      if noack then
        (* after the repair 18325a2: a ">" read still consumes the entries *)
        (es, match rev es with
             | l :: _ => if sid_ltb (g_last g) (fst l) then set_last g (fst l) else g
             | [] => g
             end)
      else (es, g_add_pending now g c (map fst es))
  end
  end.
(** the second component of read_group's result (cc8be72): did the read change the group -
    consumer created or IDs delivered again (history), new entries delivered / consumed (">") *)
Definition st_read_changed (now : Z) (s : stream) (g : group) (c : bytes) (after : option sid) (count : option Z)
           (noack : bool) : bool :=
  match after with
  | Some a => negb (amem c (g_consumers g)) || negb (match fst (g_redeliver_pending now g c a count) with [] => true | _ => false end)
  | None => negb (match fst (st_read_group now s g c None count noack) with [] => true | _ => false end)
  end.

(** byte-wise sorted association lists for replies in canonical order *)
Fixpoint kinsert {A} (k : bytes) (v : A) (l : list (bytes * A)) : list (bytes * A) :=
  match l with
  | [] => [(k, v)]
  | (k', v') :: r => if bleb k k' then (k, v) :: l else (k', v') :: kinsert k v r
  end.
Definition ksort {A} (l : list (bytes * A)) : list (bytes * A) :=
  fold_right (fun kv acc => kinsert (fst kv) (snd kv) acc) [] l.

(** PendingEntryList::get_range on the BTreeMap: entries with start <= id <= end *)
Definition pel_range (l : list pending) (st en : sid) : list pending :=
  filter (fun p => sid_leb st (p_id p) && sid_leb (p_id p) en) l.

(** ------------------------------------------------------------------ *)
(** * 4. Engine functions on the database                               *)

Inductive sres := SStream (e : entry) (s : stream) | SMissing | SWrong.
(** shard.data.get(key) without expiry test (xadd, xrange, xlen, xread, xtrim, xdel) *)
Definition raw_stream (d : db) (k : bytes) : sres :=
  match get_entry d k with
  | Some e => match e_val e with VStream s => SStream e s | _ => SWrong end
  | None => SMissing
  end.
Definition put_stream (d : db) (k : bytes) (e : entry) (s : stream) : db :=
  put_entry d k {| e_val := VStream s; e_exp := e_exp e |}.
Definition new_entry (s : stream) : entry := {| e_val := VStream s; e_exp := None |}.

(** storage.get(db, key) of the group handlers: lazy expiry; the clone shares the groups *)
Definition get_stream (now : Z) (d : db) (k : bytes) : sres * db :=
  match eng_get now d k with
  | (Found (VStream s), d') =>
      (match get_entry d k with Some e => SStream e s | None => SMissing end, d')
  | (Found _, d') => (SWrong, d')
  | (_, d') => (SMissing, d')
  end.

Definition set_groups (s : stream) (gs : list (bytes * group)) : stream :=
  {| s_entries := s_entries s; s_last := s_last s; s_ams := s_ams s; s_aseq := s_aseq s;
     s_len := s_len s; s_groups := gs |}.
Definition put_group (d : db) (k : bytes) (e : entry) (s : stream) (gn : bytes) (g : group) : db :=
  put_stream d k e (set_groups s (aput gn g (s_groups s))).

(** ------------------------------------------------------------------ *)
(** * 5. Replies                                                        *)

Definition r_fields (f : fields) : frame :=
  FArray (flat_map (fun kv => [FBulk (fst kv); FBulk (snd kv)]) f).
Definition r_entry (e : sentry) : frame := FArray [r_sid (fst e); r_fields (snd e)].
Definition r_entries (l : list sentry) : frame := FArray (map r_entry l).
Definition r_str (s : String.string) : frame := FBulk (bs s).
Definition r_nogroup : frame := FError (bs "NOGROUP").
Definition r_busygroup : frame := FError (bs "BUSYGROUP").
(** marker for inputs on which the implementation panics (the server process exits) *)
Definition r_panic : frame := FError (bs "PANIC").

(** ------------------------------------------------------------------ *)
(** * 6. Handlers: commands/streams.rs                                  *)

(** field/value pairs of XADD from parts[3..]: Some map, or None when an argument is not a bulk string *)
Fixpoint parse_fields (l : list frame) (acc : fields) : option fields :=
  match l with
  | FBulk f :: FBulk v :: r => parse_fields r (finsert f v acc)
  | [] => Some acc
  | _ => None
  end.

(** the ID of `XADD key *` reported by the implementation is admissible iff some clock
    reading produces it; the reading is returned *)
Definition auto_clock (s : stream) (oid : sid) : option Z :=
  if (s_ams s <? fst oid) && (snd oid =? 0) then Some (fst oid)
  else if (fst oid =? s_ams s) && (snd oid =? s_aseq s + 1) && (s_aseq s + 1 <=? u64_max) then Some (s_ams s)
  else None.

Definition oracle_sid (oracle : option frame) : option sid :=
  match oracle with Some (FBulk b) => sid_of_bytes b | _ => None end.

Definition h_xadd (d : db) (parts : list frame) (oracle : option frame) : frame * db :=
  if (nparts parts <? 4) || negb ((nparts parts - 3) mod 2 =? 0) then (r_err, d) else
  match nth_error parts 1, nth_error parts 2 with
  | Some (FBulk k), Some idf =>
      match arg_bytes idf with
      | None => (r_err, d)
      | Some idb =>
          match parse_fields (skipn 3 parts) [] with
          | None => (r_err, d)
          | Some f =>
              if beq idb (bs "*") then
                (* storage.xadd *)
                let go (e : entry) (s : stream) :=
                  match oracle_sid oracle with
                  | None =>
                      (* no ID reported: the ID space is exhausted (every u64 clock reading is
                         <= last_id_millis = u64::MAX), or the oracle is missing *)
                      if (u64_max <? s_aseq s + 1) && (u64_max <? s_ams s + 1) then (r_err, d)
                      else (FError (bs "NOORACLE"), d)
                  | Some oid =>
                      match auto_clock s oid with
                      | None => (FError (bs "BADAUTOID"), d)
                      | Some now_ms =>
                          match st_add_auto now_ms s f with
                          | Some (id, s') => (r_sid id, put_stream d k e s')
                          | None => (r_err, d)
                          end
                      end
                  end in
                match raw_stream d k with
                | SStream e s => go e s
                | SWrong => (r_wrongtype, d)
                | SMissing => go (new_entry empty_stream) empty_stream
                end
              else
                match sid_of_bytes idb with
                | None => (r_err, d)
                | Some id =>
                    if (fst id =? 0) && (snd id =? 0) then (r_err, d) else
                    (* storage.xadd_with_id *)
                    match raw_stream d k with
                    | SStream e s =>
                        match st_add_with_id s id f with
                        | Some s' => (r_sid id, put_stream d k e s')
                        | None => (r_err, d)
                        end
                    | SWrong => (r_err, d)      (* the handler rewraps every engine error as "ERR ..." *)
                    | SMissing =>
                        match st_add_with_id empty_stream id f with
                        | Some s' => (r_sid id, put_entry d k (new_entry s'))
                        | None => (r_err, d)
                        end
                    end
                end
          end
      end
  | Some _, Some _ => (r_err, d)
  | _, _ => (r_err, d)
  end.

(** "-" / "+" / from_string *)
Definition parse_bound (special : bytes) (v : sid) (b : bytes) : option sid :=
  if beq b special then Some v else sid_of_bytes b.

Definition engine_range (d : db) (k : bytes) (st en : sid) (count : option Z) (reverse : bool) : frame :=
  match raw_stream d k with
  | SStream _ s => r_entries (st_range (s_entries s) st en count reverse)
  | SWrong => r_wrongtype
  | SMissing => FArray []
  end.

Definition is_kw (f : option frame) (kw : String.string) : bool :=
  match f with Some (FBulk b) => beq (upper b) (bs kw) | _ => false end.

Definition h_xrange (d : db) (parts : list frame) : frame * db :=
  if nparts parts <? 4 then (r_err, d) else
  match nth_arg parts 1, nth_arg parts 2 with
  | Some k, Some sb =>
      match parse_bound (bs "-") sid_zero sb with
      | None => (r_err, d)
      | Some st =>
          match nth_arg parts 3 with
          | None => (r_err, d)
          | Some eb =>
              match parse_bound (bs "+") sid_max eb with
              | None => (r_err, d)
              | Some en =>
                  if (6 <=? nparts parts) && is_kw (nth_error parts 4) "COUNT" then
                    match nth_arg parts 5 with
                    | Some cb => match parse_usize cb with
                                 | Some n => (engine_range d k st en (Some n) false, d)
                                 | None => (r_err, d)
                                 end
                    | None => (r_err, d)
                    end
                  else (engine_range d k st en None false, d)
              end
          end
      end
  | _, _ => (r_err, d)
  end.

(** XREVRANGE key end start [COUNT n | n] *)
Definition h_xrevrange (d : db) (parts : list frame) : frame * db :=
  if nparts parts <? 4 then (r_err, d) else
  match nth_arg parts 1, nth_arg parts 2 with
  | Some k, Some eb =>
      match parse_bound (bs "+") sid_max eb with
      | None => (r_err, d)
      | Some en =>
          match nth_arg parts 3 with
          | None => (r_err, d)
          | Some sb =>
              match parse_bound (bs "-") sid_zero sb with
              | None => (r_err, d)
              | Some st =>
                  if (6 <=? nparts parts) && is_kw (nth_error parts 4) "COUNT" then
                    match nth_arg parts 5 with
                    | Some cb => match parse_usize cb with
                                 | Some n => (engine_range d k st en (Some n) true, d)
                                 | None => (r_err, d)
                                 end
                    | None => (r_err, d)
                    end
                  else if nparts parts =? 5 then
                    match nth_arg parts 4 with
                    | Some cb => (engine_range d k st en (parse_usize cb) true, d)
                    | None => (engine_range d k st en None true, d)
                    end
                  else (engine_range d k st en None true, d)
              end
          end
      end
  | _, _ => (r_err, d)
  end.

Definition h_xlen (d : db) (parts : list frame) : frame * db :=
  if negb (nparts parts =? 2) then (r_err, d) else
  match nth_arg parts 1 with
  | None => (r_err, d)
  | Some k =>
      match raw_stream d k with
      | SStream _ s => (r_int (s_len s), d)
      | SWrong => (r_wrongtype, d)
      | SMissing => (r_int 0, d)
      end
  end.

(** option scanner shared in shape by XREAD and XREADGROUP *)
Record ropts := { ro_count : option Z; ro_block : option Z; ro_noack : bool }.
Inductive scanres := ScanOk (o : ropts) (rest : list frame) | ScanErr.
(** [grp] = true: XREADGROUP (COUNT/BLOCK parse failures are silently None, NOACK accepted) *)
Fixpoint scan_ropts (fuel : nat) (grp : bool) (l : list frame) (o : ropts) : scanres :=
  match fuel with
  | O => ScanErr
  | S fu =>
    match l with
    | [] => ScanErr                                          (* i >= parts.len(): syntax error *)
    | FBulk a :: r =>
        let u := upper a in
        if beq u (bs "COUNT") && negb (len r =? 0) then
          match r with
          | FBulk c :: r' =>
              match parse_usize c with
              | Some n =>   (* XREADGROUP (cc6cf30): .filter(|&n| n > 0) - COUNT 0 means no limit; XREAD keeps Some(0) *)
                  scan_ropts fu grp r' {| ro_count := if grp && (n =? 0) then None else Some n; ro_block := ro_block o; ro_noack := ro_noack o |}
              | None => if grp then scan_ropts fu grp r' {| ro_count := None; ro_block := ro_block o; ro_noack := ro_noack o |}
                        else ScanErr
              end
          | _ :: r' => if grp then scan_ropts fu grp r' {| ro_count := None; ro_block := ro_block o; ro_noack := ro_noack o |}
                       else ScanErr
          | [] => ScanErr
          end
        else if beq u (bs "BLOCK") && negb (len r =? 0) then
          match r with
          | FBulk c :: r' =>
              match parse_u64 c with
              | Some n => scan_ropts fu grp r' {| ro_count := ro_count o; ro_block := Some n; ro_noack := ro_noack o |}
              | None => if grp then scan_ropts fu grp r' {| ro_count := ro_count o; ro_block := None; ro_noack := ro_noack o |}
                        else ScanErr
              end
          | _ :: r' => if grp then scan_ropts fu grp r' {| ro_count := ro_count o; ro_block := None; ro_noack := ro_noack o |}
                       else ScanErr
          | [] => ScanErr
          end
        else if grp && beq u (bs "NOACK") then
          scan_ropts fu grp r {| ro_count := ro_count o; ro_block := ro_block o; ro_noack := true |}
        else if beq u (bs "STREAMS") then
          match r with [] => ScanErr | _ => ScanOk o r end
        else ScanErr
    | _ => ScanErr
    end
  end.

(** first loop of handle_xread: keys and IDs ("$" reads the stream: WRONGTYPE escapes here) *)
Inductive xr_ids := XrOk (l : list (bytes * sid)) | XrErr (f : frame).
Fixpoint xread_ids (d : db) (keys ids : list frame) : xr_ids :=
  match keys, ids with
  | kf :: keys', idf :: ids' =>
      match kf with
      | FBulk k =>
          match idf with
          | FBulk ib =>
              let cont (a : sid) :=
                match xread_ids d keys' ids' with
                | XrOk l => XrOk ((k, a) :: l)
                | XrErr f => XrErr f
                end in
              if beq ib (bs "$") then
                match raw_stream d k with
                | SStream _ s =>
                    cont (match rev (st_range (s_entries s) sid_zero sid_max None false) with
                          | e :: _ => fst e | [] => sid_zero end)
                | SWrong => XrErr r_wrongtype
                | SMissing => cont sid_zero
                end
              else if beq ib (bs "0") || beq ib (bs "0-0") then cont sid_zero
              else match sid_of_bytes ib with
                   | Some a => cont a
                   | None => XrErr r_err
                   end
          | _ => XrErr r_err
          end
      | _ => XrErr r_err
      end
  | _, _ => XrOk []
  end.
(** storage.xread *)
Fixpoint engine_xread (d : db) (l : list (bytes * sid)) (count : option Z) : option (list frame) :=
  match l with
  | [] => Some []
  | (k, a) :: r =>
      match raw_stream d k with
      | SStream _ s =>
          match engine_xread d r count with
          | Some fr =>
              match st_range_after (s_entries s) a count with
              | [] => Some fr
              | es => Some (FArray [FBulk k; r_entries es] :: fr)
              end
          | None => None
          end
      | SWrong => None
      | SMissing => engine_xread d r count
      end
  end.
Definition h_xread (d : db) (parts : list frame) : frame * db :=
  if nparts parts <? 4 then (r_err, d) else
  match scan_ropts (length parts) false (skipn 1 parts) {| ro_count := None; ro_block := None; ro_noack := false |} with
  | ScanErr => (r_err, d)
  | ScanOk o rest =>
      if negb (len rest mod 2 =? 0) then (r_err, d) else
      let n := Z.to_nat (len rest / 2) in
      match xread_ids d (firstn n rest) (skipn n rest) with
      | XrErr f => (f, d)
      | XrOk l =>
          (* COUNT 0 means no limit (as for XREADGROUP, cc6cf30) *)
          match engine_xread d l (match ro_count o with Some c => if c =? 0 then None else Some c | None => None end) with
          | Some fr => (FArray fr, d)
          | None => (r_wrongtype, d)
          end
      end
  end.

(** the MAXLEN argument of XTRIM in its accepted spellings (None = an error reply) *)
Definition xtrim_maxlen (parts : list frame) : option Z :=
  if nparts parts =? 5 then
    match nth_arg parts 3 with
    | None => None
    | Some m =>
        if beq m (bs "~") || beq m (bs "=") then
          match nth_arg parts 4 with
          | Some c => parse_usize c
          | None => None
          end
        else parse_usize m
    end
  else if nparts parts =? 4 then
    match nth_arg parts 3 with
    | Some a => if beq a (bs "~") || beq a (bs "=") then None else parse_usize a
    | None => None
    end
  else None.

Definition h_xtrim (d : db) (parts : list frame) : frame * db :=
  if nparts parts <? 4 then (r_err, d) else
  match nth_arg parts 1 with
  | None => (r_err, d)
  | Some k =>
      match nth_arg parts 2 with
      | None => (r_err, d)
      | Some strat =>
          if negb (beq (upper strat) (bs "MAXLEN")) then (r_err, d) else
          match xtrim_maxlen parts with
          | None => (r_err, d)
          | Some n =>
              match raw_stream d k with
              | SStream e s => match st_trim s n with
                               | (t, s') => (r_int t, if 0 <? t then put_stream d k e s' else d)
                               end
              | SWrong => (r_wrongtype, d)
              | SMissing => (r_int 0, d)
              end
          end
      end
  end.

(** IDs from a list of argument frames; None = an argument is not a bulk string or not an ID *)
Fixpoint parse_ids (l : list frame) : option (list sid) :=
  match l with
  | [] => Some []
  | FBulk b :: r =>
      match sid_of_bytes b with
      | Some i => match parse_ids r with Some t => Some (i :: t) | None => None end
      | None => None
      end
  | _ => None
  end.

Definition h_xdel (d : db) (parts : list frame) : frame * db :=
  if nparts parts <? 3 then (r_err, d) else
  match nth_arg parts 1 with
  | None => (r_err, d)
  | Some k =>
      match parse_ids (skipn 2 parts) with
      | None => (r_err, d)
      | Some ids =>
          match raw_stream d k with
          | SStream e s => match st_delete s ids with
                           | (n, s') => (r_int n, if 0 <? n then put_stream d k e s' else d)
                           end
          | SWrong => (r_wrongtype, d)
          | SMissing => (r_int 0, d)
          end
      end
  end.

(** ------------------------------------------------------------------ *)
(** * 7. Handlers: commands/consumer_groups.rs                          *)

Definition help_xgroup : frame :=
  FArray (map r_str [
    "XGROUP <subcommand> [<arg> [value] [opt] ...]. Subcommands are:";
    "CREATE <key> <groupname> <id or $> [MKSTREAM]";
    "    Create a new consumer group.";
    "SETID <key> <groupname> <id or $>";
    "    Set the current group ID.";
    "DESTROY <key> <groupname>";
    "    Remove the consumer group.";
    "CREATECONSUMER <key> <groupname> <consumername>";
    "    Create a new consumer in the group.";
    "DELCONSUMER <key> <groupname> <consumername>";
    "    Remove the consumer from the group.";
    "HELP";
    "    Print this help."]%string).
Definition help_xinfo : frame :=
  FArray (map r_str [
    "XINFO <subcommand> [<arg> [value] [opt] ...]. Subcommands are:";
    "STREAM <key>";
    "    Show information about a stream.";
    "GROUPS <key>";
    "    Show the consumer groups of a stream.";
    "CONSUMERS <key> <groupname>";
    "    Show consumers of a consumer group.";
    "HELP";
    "    Print this help."]%string).

Definition h_xgroup_create (now : Z) (d : db) (parts : list frame) : frame * db :=
  if nparts parts <? 5 then (r_err, d) else
  match nth_arg parts 2, nth_arg parts 3, nth_arg parts 4 with
  | Some k, Some gn, Some idb =>
      let mk := (5 <? nparts parts) && is_kw (nth_error parts 5) "MKSTREAM" in
      (* after the repair 7f9490b: a malformed ID is refused before MKSTREAM creates the key *)
      if negb (beq idb (bs "$")) && negb (beq idb (bs "0")) &&
         (match sid_of_bytes idb with None => true | Some _ => false end) then (r_err, d) else
      let create (d1 : db) (e : entry) (s : stream) : frame * db :=
        let start :=
          if beq idb (bs "$") then Some (match last_entry_id s with Some i => i | None => sid_zero end)
          else if beq idb (bs "0") || beq idb (bs "0-0") then Some sid_zero
          else sid_of_bytes idb in
        match start with
        | None => (r_err, d1)
        | Some st =>
            if amem gn (s_groups s) then (r_busygroup, d1)
            else (r_ok, put_stream d1 k e (set_groups s (s_groups s ++ [(gn, mk_group st)])))
        end in
      match get_stream now d k with
      | (SStream e s, d1) => create d1 e s
      | (SWrong, d1) => (r_wrongtype, d1)
      | (SMissing, d1) =>
          if mk then
            let d2 := set_value now d1 k (VStream empty_stream) None in
            create d2 (new_entry empty_stream) empty_stream
          else (r_err, d1)
      end
  | _, _, _ => (r_err, d)
  end.

Definition h_xgroup_destroy (now : Z) (d : db) (parts : list frame) : frame * db :=
  if negb (nparts parts =? 4) then (r_err, d) else
  match nth_arg parts 2, nth_arg parts 3 with
  | Some k, Some gn =>
      match get_stream now d k with
      | (SStream e s, d1) =>
          if amem gn (s_groups s)
          then (r_int 1, put_stream d1 k e (set_groups s (aremove gn (s_groups s))))
          else (r_int 0, d1)
      | (SWrong, d1) => (r_wrongtype, d1)
      | (SMissing, d1) => (r_int 0, d1)
      end
  | _, _ => (r_err, d)
  end.

Definition h_xgroup_createconsumer (now : Z) (d : db) (parts : list frame) : frame * db :=
  if negb (nparts parts =? 5) then (r_err, d) else
  match nth_arg parts 2, nth_arg parts 3, nth_arg parts 4 with
  | Some k, Some gn, Some c =>
      match get_stream now d k with
      | (SStream e s, d1) =>
          match alookup gn (s_groups s) with
          | Some g => match g_create_consumer g c with
                      | (true, g') => (r_int 1, put_group d1 k e s gn g')
                      | (false, _) => (r_int 0, d1)
                      end
          | None => (r_nogroup, d1)
          end
      | (SWrong, d1) => (r_wrongtype, d1)
      | (SMissing, d1) => (r_err, d1)
      end
  | _, _, _ => (r_err, d)
  end.

Definition h_xgroup_delconsumer (now : Z) (d : db) (parts : list frame) : frame * db :=
  if negb (nparts parts =? 5) then (r_err, d) else
  match nth_arg parts 2, nth_arg parts 3, nth_arg parts 4 with
  | Some k, Some gn, Some c =>
      match get_stream now d k with
      | (SStream e s, d1) =>
          match alookup gn (s_groups s) with
          | Some g => match g_delete_consumer g c with
                      | (n, g') => (r_int n, put_group d1 k e s gn g')
                      end
          | None => (r_int 0, d1)
          end
      | (SWrong, d1) => (r_wrongtype, d1)
      | (SMissing, d1) => (r_int 0, d1)
      end
  | _, _, _ => (r_err, d)
  end.

Definition h_xgroup_setid (now : Z) (d : db) (parts : list frame) : frame * db :=
  if nparts parts <? 5 then (r_err, d) else
  match nth_arg parts 2, nth_arg parts 3, nth_arg parts 4 with
  | Some k, Some gn, Some idb =>
      match get_stream now d k with
      | (SStream e s, d1) =>
          let nid := if beq idb (bs "$")
                     then Some (match last_entry_id s with Some i => i | None => sid_zero end)
                     else sid_of_bytes idb in
          match nid with
          | None => (r_err, d1)
          | Some i =>
              match alookup gn (s_groups s) with
              | Some g => (r_ok, put_group d1 k e s gn (set_last g i))
              | None => (r_nogroup, d1)
              end
          end
      | (SWrong, d1) => (r_wrongtype, d1)
      | (SMissing, d1) => (r_err, d1)
      end
  | _, _, _ => (r_err, d)
  end.

Definition h_xgroup (now : Z) (d : db) (parts : list frame) : frame * db :=
  if nparts parts <? 2 then (r_err, d) else
  match nth_arg parts 1 with
  | None => (r_err, d)
  | Some sub =>
      let u := upper sub in
      if beq u (bs "CREATE") then h_xgroup_create now d parts
      else if beq u (bs "DESTROY") then h_xgroup_destroy now d parts
      else if beq u (bs "CREATECONSUMER") then h_xgroup_createconsumer now d parts
      else if beq u (bs "DELCONSUMER") then h_xgroup_delconsumer now d parts
      else if beq u (bs "SETID") then h_xgroup_setid now d parts
      else if beq u (bs "HELP") then (help_xgroup, d)
      else (r_err, d)
  end.

(** handle_xreadgroup after the repair 3384736, first pass: resolve every key (storage.get:
    lazy expiry), parse every ID, check that the group exists; nothing is delivered.  Same
    order of checks per key as before: key frame, ID frame, storage.get (a missing key answers
    NOGROUP before its ID is looked at, d9160ac), ID text, group. *)
Fixpoint xreadgroup_resolve (now : Z) (d : db) (gn : bytes) (keys ids : list frame)
         (acc : list (bytes * option sid)) : (frame + list (bytes * option sid)) * db :=
  match keys, ids with
  | kf :: keys', idf :: ids' =>
      match kf with
      | FBulk k =>
          match idf with
          | FBulk ib =>
              match get_stream now d k with
              | (SStream e s, d1) =>
                  let after := if beq ib (bs ">") then Some None
                               else if beq ib (bs "0") || beq ib (bs "0-0") then Some (Some sid_zero)
                               else option_map Some (sid_of_bytes ib) in
                  match after with
                  | None => (inl r_err, d1)
                  | Some a =>
                      match alookup gn (s_groups s) with
                      | None => (inl r_nogroup, d1)
                      | Some _ => xreadgroup_resolve now d1 gn keys' ids' (acc ++ [(k, a)])
                      end
                  end
              | (SWrong, d1) => (inl r_wrongtype, d1)
              | (SMissing, d1) => (inl r_nogroup, d1)        (* d9160ac: a key that does not exist has no group *)
              end
          | _ => (inl r_err, d)
          end
      | _ => (inl r_err, d)
      end
  | _, _ => (inr acc, d)
  end.

(** second pass: deliver.  The streams resolved by the first pass share their groups with
    the stored values (Arc), so a key listed twice sees the effect of its first read; the
    NOGROUP arm of read_group cannot be taken any more (kept as written). *)
Fixpoint xreadgroup_deliver (now : Z) (d : db) (gn c : bytes) (o : ropts) (reads : list (bytes * option sid))
         (acc : list frame) (ms : list bytes) : frame * db * list bytes :=
  match reads with
  | (k, a) :: rest =>
      match raw_stream d k with
      | SStream e s =>
          match alookup gn (s_groups s) with
          | None => (r_nogroup, d, ms)
          | Some g =>
              match st_read_group now s g c a (ro_count o) (ro_noack o) with
              | (es, g') =>
                  (* cc8be72: the key is marked for WATCH iff the read changed the group; a read that
                     changed nothing leaves the stored value as it is *)
                  let changed := st_read_changed now s g c a (ro_count o) (ro_noack o) in
                  xreadgroup_deliver now (if changed then put_group d k e s gn g' else d) gn c o rest
                                     (match es with [] => acc | _ => acc ++ [FArray [FBulk k; r_entries es]] end)
                                     (if changed then ms ++ [k] else ms)
              end
          end
      | _ => xreadgroup_deliver now d gn c o rest acc ms
      end
  | [] =>
      match acc, ro_block o with
      | [], Some _ => (FNullArray, d, ms)
      | _, _ => (FArray acc, d, ms)
      end
  end.

(** the handler with the keys it marks through mark_key_modified *)
Definition h_xreadgroup_full (now : Z) (d : db) (parts : list frame) : frame * db * list bytes :=
  if nparts parts <? 6 then (r_err, d, []) else
  if negb (is_kw (nth_error parts 1) "GROUP") then (r_err, d, []) else
  match nth_arg parts 2, nth_arg parts 3 with
  | Some gn, Some c =>
      match scan_ropts (length parts) true (skipn 4 parts) {| ro_count := None; ro_block := None; ro_noack := false |} with
      | ScanErr => (r_err, d, [])
      | ScanOk o rest =>
          if negb (len rest mod 2 =? 0) then (r_err, d, []) else
          let n := Z.to_nat (len rest / 2) in
          match xreadgroup_resolve now d gn (firstn n rest) (skipn n rest) [] with
          | (inl err, d1) => (err, d1, [])
          | (inr reads, d1) => xreadgroup_deliver now d1 gn c o reads [] []
          end
      end
  | _, _ => (r_err, d, [])
  end.
Definition h_xreadgroup (now : Z) (d : db) (parts : list frame) : frame * db := fst (h_xreadgroup_full now d parts).

Definition h_xack (now : Z) (d : db) (parts : list frame) : frame * db :=
  if nparts parts <? 4 then (r_err, d) else
  match nth_arg parts 1, nth_arg parts 2 with
  | Some k, Some gn =>
      match parse_ids (skipn 3 parts) with
      | None => (r_err, d)
      | Some ids =>
          match get_stream now d k with
          | (SStream e s, d1) =>
              match alookup gn (s_groups s) with
              | Some g => match g_acknowledge g ids with
                          | (n, g') => (r_int n, put_group d1 k e s gn g')
                          end
              | None => (r_int 0, d1)
              end
          | (SWrong, d1) => (r_wrongtype, d1)
          | (SMissing, d1) => (r_int 0, d1)
          end
      end
  | _, _ => (r_err, d)
  end.

Definition r_optsid (o : option sid) : frame := match o with Some i => r_sid i | None => FNullBulk end.
Definition r_pending_row (now : Z) (p : pending) : frame :=
  FArray [r_sid (p_id p); FBulk (p_consumer p); FInt (Z.max 0 (now - p_time p)); FInt (p_count p)].

Definition h_xpending (now : Z) (d : db) (parts : list frame) : frame * db :=
  if nparts parts <? 3 then (r_err, d) else
  match nth_arg parts 1, nth_arg parts 2 with
  | Some k, Some gn =>
      match get_stream now d k with
      | (SStream e s, d1) =>
          match alookup gn (s_groups s) with
          | None => (FNullArray, d1)
          | Some g =>
              if nparts parts =? 3 then
                (FArray [FInt (len (g_by_id g)); r_optsid (g_min g); r_optsid (g_max g);
                         FArray (map (fun cn => FArray [FBulk (fst cn); FInt (snd cn)])
                                     (ksort (filter (fun cn => 0 <? snd cn) (g_consumers g))))], d1)
              else if nparts parts <? 6 then (r_err, d1)
              else
                match nth_arg parts 3, nth_arg parts 4 with
                | Some sb, Some eb =>
                    match nth_arg parts 5 with
                    | Some cb =>
                        match parse_usize cb with
                        | Some cnt =>
                            let cons := if 6 <? nparts parts then nth_arg parts 6 else None in
                            let st := if beq sb (bs "-") then None else sid_of_bytes sb in
                            let en := if beq eb (bs "+") then None else sid_of_bytes eb in
                            let st' := match st with Some i => i | None => sid_zero end in
                            let en' := match en with Some i => i | None => sid_max end in
                            (* after the repair 8b811fd: an inverted range selects nothing; after c8418b5 the
                               range applies with and without a consumer name, ID order, COUNT after the filter *)
                            if sid_ltb en' st' then (FArray [], d1)
                            else
                              let rows := filter (fun p => match cons with Some c => beq (p_consumer p) c | None => true end)
                                                 (pel_range (g_by_id g) st' en') in
                              (FArray (map (r_pending_row now) (ztake cnt rows)), d1)
                        | None => (r_err, d1)
                        end
                    | None => (r_err, d1)
                    end
                | _, _ => (r_err, d1)
                end
          end
      | (SWrong, d1) => (r_wrongtype, d1)
      | (SMissing, d1) => (FNullArray, d1)
      end
  | _, _ => (r_err, d)
  end.

(** options and IDs of XCLAIM from parts[5..] *)
Record copts := { co_ids : list sid; co_force : bool; co_justid : bool }.
Fixpoint scan_claim (fuel : nat) (l : list frame) (o : copts) : option copts :=
  match fuel with
  | O => None
  | S fu =>
    match l with
    | [] => Some o
    | FBulk a :: r =>
        let u := upper a in
        if beq u (bs "FORCE") then scan_claim fu r {| co_ids := co_ids o; co_force := true; co_justid := co_justid o |}
        else if beq u (bs "JUSTID") then scan_claim fu r {| co_ids := co_ids o; co_force := co_force o; co_justid := true |}
        else if beq u (bs "IDLE") || beq u (bs "TIME") || beq u (bs "RETRYCOUNT") then scan_claim fu (skipn 1 r) o
        else match sid_of_bytes a with
             | Some i => scan_claim fu r {| co_ids := co_ids o ++ [i]; co_force := co_force o; co_justid := co_justid o |}
             | None => None
             end
    | _ => None
    end
  end.


Definition h_xclaim (now : Z) (d : db) (parts : list frame) : frame * db :=
  if nparts parts <? 6 then (r_err, d) else
  match nth_arg parts 1, nth_arg parts 2, nth_arg parts 3 with
  | Some k, Some gn, Some c =>
      match nth_arg parts 4 with
      | None => (r_err, d)
      | Some mb =>
          match parse_u64 mb with
          | None => (r_err, d)
          | Some min_idle =>
              match scan_claim (length parts) (skipn 5 parts) {| co_ids := []; co_force := false; co_justid := false |} with
              | None => (r_err, d)
              | Some o =>
                  match co_ids o with
                  | [] => (r_err, d)
                  | ids =>
                      match get_stream now d k with
                      | (SStream e s, d1) =>
                          match alookup gn (s_groups s) with
                          | None => (r_nogroup, d1)
                          | Some g =>
                              match g_claim now g c min_idle ids (co_force o) with
                              | (cl, g') =>
                                  let es := filter_map (fun i => find_entry i (s_entries s)) cl in
                                  (if co_justid o then FArray (map (fun x => r_sid (fst x)) es) else r_entries es,
                                   put_group d1 k e s gn g')
                              end
                          end
                      | (SWrong, d1) => (r_wrongtype, d1)
                      | (SMissing, d1) => (FArray [], d1)
                      end
                  end
              end
          end
      end
  | _, _, _ => (r_err, d)
  end.

Definition r_entry_or_nil (o : option sentry) : frame :=
  match o with Some e => r_entry e | None => FNullArray end.

Definition h_xinfo (now : Z) (d : db) (parts : list frame) : frame * db :=
  if nparts parts <? 2 then (r_err, d) else
  match nth_arg parts 1 with
  | None => (r_err, d)
  | Some sub =>
      let u := upper sub in
      if beq u (bs "STREAM") then
        if nparts parts <? 3 then (r_err, d) else
        match nth_arg parts 2 with
        | None => (r_err, d)
        | Some k =>
            match get_stream now d k with
            | (SStream _ s, d1) =>
                let first := match s_entries s with e :: _ => Some e | [] => None end in
                let last := match rev (s_entries s) with e :: _ => Some e | [] => None end in
                (FArray [r_str "length"; FInt (s_len s);
                         r_str "radix-tree-keys"; FInt 1;
                         r_str "radix-tree-nodes"; FInt 2;
                         r_str "last-generated-id";
                         r_sid (match last with Some e => fst e | None => sid_zero end);
                         r_str "groups"; FInt (len (s_groups s));
                         r_str "first-entry"; r_entry_or_nil first;
                         r_str "last-entry"; r_entry_or_nil last], d1)
            | (SWrong, d1) => (r_wrongtype, d1)
            | (SMissing, d1) => (r_err, d1)
            end
        end
      else if beq u (bs "GROUPS") then
        if negb (nparts parts =? 3) then (r_err, d) else
        match nth_arg parts 2 with
        | None => (r_err, d)
        | Some k =>
            match get_stream now d k with
            | (SStream _ s, d1) =>
                (FArray (map (fun ng : bytes * group =>
                                FArray [r_str "name"; FBulk (fst ng);
                                        r_str "consumers"; FInt (g_ncons (snd ng));
                                        r_str "pending"; FInt (g_total (snd ng));
                                        r_str "last-delivered-id"; r_sid (g_last (snd ng))])
                             (ksort (s_groups s))), d1)
            | (SWrong, d1) => (r_wrongtype, d1)
            | (SMissing, d1) => (FArray [], d1)
            end
        end
      else if beq u (bs "CONSUMERS") then
        if negb (nparts parts =? 4) then (r_err, d) else
        match nth_arg parts 2, nth_arg parts 3 with
        | Some k, Some gn =>
            match get_stream now d k with
            | (SStream _ s, d1) =>
                match alookup gn (s_groups s) with
                | None => (r_nogroup, d1)
                | Some g =>
                    (FArray (map (fun cn : bytes * Z =>
                                    FArray [r_str "name"; FBulk (fst cn);
                                            r_str "pending"; FInt (snd cn);
                                            r_str "idle"; FInt 0])
                                 (ksort (g_consumers g))), d1)
                end
            | (SWrong, d1) => (r_wrongtype, d1)
            | (SMissing, d1) => (FArray [], d1)
            end
        | _, _ => (r_err, d)
        end
      else if beq u (bs "HELP") then (help_xinfo, d)
      else (r_err, d)
  end.

(** time-dependent parts of replies are canonicalised identically by the harness
    (harness/src/c15.rs canon_streams): the idle column of extended XPENDING and the
    idle value of XINFO CONSUMERS become 0 *)
Definition canon_idle_row (f : frame) : frame :=
  match f with
  | FArray [FBulk a; FBulk b; FInt _; FInt n] => FArray [FBulk a; FBulk b; FInt 0; FInt n]
  | FArray [FBulk a; FBulk b; FBulk c; FInt n; FBulk e; FInt _] =>
      if beq e (bs "idle") then FArray [FBulk a; FBulk b; FBulk c; FInt n; FBulk e; FInt 0] else f
  | _ => f
  end.
Definition canon_streams (name : bytes) (f : frame) : frame :=
  if beq name (bs "XPENDING") || beq name (bs "XINFO") then
    match f with FArray l => FArray (map canon_idle_row l) | _ => f end
  else f.

(** dispatch of this family; None = not a command of this family.
    [oracle] = the implementation's reply (used by XADD with an auto-generated ID). *)
Definition exec_streams (now : Z) (d : db) (name : bytes) (parts : list frame) (oracle : option frame)
  : option (frame * db) :=
  if beq name (bs "XADD") then Some (h_xadd d parts oracle)
  else if beq name (bs "XRANGE") then Some (h_xrange d parts)
  else if beq name (bs "XREVRANGE") then Some (h_xrevrange d parts)
  else if beq name (bs "XLEN") then Some (h_xlen d parts)
  else if beq name (bs "XREAD") then Some (h_xread d parts)
  else if beq name (bs "XTRIM") then Some (h_xtrim d parts)
  else if beq name (bs "XDEL") then Some (h_xdel d parts)
  else if beq name (bs "XGROUP") then Some (h_xgroup now d parts)
  else if beq name (bs "XREADGROUP") then Some (h_xreadgroup now d parts)
  else if beq name (bs "XACK") then Some (h_xack now d parts)
  else if beq name (bs "XCLAIM") then Some (h_xclaim now d parts)
  else if beq name (bs "XPENDING") then Some (h_xpending now d parts)
  else if beq name (bs "XINFO") then Some (h_xinfo now d parts)
  else None.

(** ---- WATCH (C08): the keys on which the engine calls mark_modified ----
    xadd / xadd_with_id mark on success, xtrim / xdel when something was removed.  The
    consumer-group commands mark through storage.get removing an expired key, through
    set_value of XGROUP CREATE ... MKSTREAM, and - after ed8ba04 - through
    StorageEngine::mark_key_modified when the handler changed the group state (pending
    entries, cursor, consumers live behind a shared Arc outside the engine): XGROUP CREATE
    and SETID that answer OK, DESTROY / CREATECONSUMER that answer 1, DELCONSUMER and XCLAIM
    whenever the group exists, XACK that acknowledged something, XREADGROUP once per read
    that changed the group (cc8be72: consumer created, IDs delivered again, new entries
    delivered or consumed; [h_xreadgroup_full] collects them). *)
Definition gone_keys (d d' : db) : list bytes :=
  filter (fun k => negb (amem k (d_data d'))) (map fst (d_data d)).
Definition fresh_keys (d d' : db) : list bytes :=
  filter (fun k => negb (amem k (d_data d))) (map fst (d_data d')).
(** removed as expired by storage.get and created again by MKSTREAM in the same command:
    the entry lost its deadline (put_stream keeps deadlines); marked twice *)
Definition reborn_keys (d d' : db) : list bytes :=
  flat_map (fun ke : bytes * entry =>
              match e_exp (snd ke), alookup (fst ke) (d_data d') with
              | Some _, Some e' => match e_exp e' with None => [fst ke; fst ke] | Some _ => [] end
              | _, _ => []
              end) (d_data d).
Definition has_group (d : db) (k gn : bytes) : bool :=
  match get_entry d k with
  | Some e => match e_val e with VStream s => amem gn (s_groups s) | _ => false end
  | None => false
  end.
(** the streams a successful XREADGROUP reports entries from *)
Definition reply_keys (reply : frame) : list bytes :=
  match reply with
  | FArray l => flat_map (fun f => match f with FArray (FBulk k :: _) => [k] | _ => [] end) l
  | _ => []
  end.
(** storage.mark_key_modified call sites of commands/consumer_groups.rs (ed8ba04) *)
Definition marks_group_cmd (now : Z) (d d' : db) (name : bytes) (parts : list frame) (reply : frame) : list bytes :=
  if beq name (bs "XGROUP") then
    match nth_arg parts 1, nth_arg parts 2, nth_arg parts 3 with
    | Some sub, Some k, Some gn =>
        let u := upper sub in
        if beq u (bs "CREATE") || beq u (bs "SETID") then (match reply with FSimple _ => [k] | _ => [] end)
        else if beq u (bs "DESTROY") || beq u (bs "CREATECONSUMER") then
          (match reply with FInt n => if n =? 1 then [k] else [] | _ => [] end)
        else if beq u (bs "DELCONSUMER") then
          (match reply with FInt _ => if has_group d' k gn then [k] else [] | _ => [] end)
        else []
    | _, _, _ => []
    end
  else if beq name (bs "XREADGROUP") then snd (h_xreadgroup_full now d parts)
  else if beq name (bs "XACK") then
    match nth_arg parts 1, reply with
    | Some k, FInt n => if 0 <? n then [k] else []
    | _, _ => []
    end
  else if beq name (bs "XCLAIM") then
    match nth_arg parts 1, nth_arg parts 2 with
    | Some k, Some gn => if negb (is_error reply) && has_group d' k gn then [k] else []
    | _, _ => []
    end
  else [].
Definition marks_streams (now : Z) (d d' : db) (name : bytes) (parts : list frame) (reply : frame) : list bytes :=
  let k1 := match nth_arg parts 1 with Some k => [k] | None => [] end in
  if beq name (bs "XADD") then (match reply with FBulk _ => k1 | _ => [] end)
  else if beq name (bs "XTRIM") || beq name (bs "XDEL") then
    (match reply with FInt n => if 0 <? n then k1 else [] | _ => [] end)
  else if beq name (bs "XGROUP") || beq name (bs "XREADGROUP") || beq name (bs "XACK") || beq name (bs "XCLAIM")
          || beq name (bs "XPENDING") || beq name (bs "XINFO") then
    gone_keys d d' ++ reborn_keys d d' ++ fresh_keys d d' ++ marks_group_cmd now d d' name parts reply
  else [].
