(** Model of the streams command family (stub: filled in by its own section of the build). *)
From Ferrous Require Import Base.Bytes Model.Resp Model.Types.
Open Scope Z_scope.

(** dispatch of this family; None = not a command of this family.
    [oracle] = the implementation's reply for commands with random outcomes. *)
Definition exec_streams (now : Z) (d : db) (name : bytes) (parts : list frame) (oracle : option frame)
  : option (frame * db) := None.
