(** Model of the string and key-space commands: server.rs handle_set ..
    handle_renamenx, commands/strings.rs, and the engine.rs functions they call
    (after the repairs 3f1bb0a, 9f58b0e, 6d37cd4, b7ebfaa, 7e7b351, and 6988c1c, d6b03fb,
    02eb367, e4bcfd7: SETRANGE with an empty value, SET EX with PX, SETEX 0, canonical integers).
    Each handler: [now -> db -> parts -> reply * db], parts = whole command. *)
From Ferrous Require Import Base.Bytes Generated Model.Resp Model.Types Model.Glob.
Open Scope Z_scope.

(** ---- engine.rs ---- *)
Definition get_entry (d : db) (k : bytes) : option entry := alookup k (d_data d).
Definition put_entry (d : db) (k : bytes) (e : entry) : db :=
  {| d_data := aset k e (d_data d); d_index := d_index d |}.
Definition index_set (d : db) (k : bytes) (t : Z) : db :=
  {| d_data := d_data d; d_index := aset k t (d_index d) |}.
Definition index_del (d : db) (k : bytes) : db :=
  {| d_data := d_data d; d_index := aremove k (d_index d) |}.
Definition del_entry (d : db) (k : bytes) : db :=
  {| d_data := aremove k (d_data d); d_index := d_index d |}.

(** ---- lazy expiry before dispatch (engine.rs remove_if_expired / expire_if_due /
    expire_due_keys / expire_before_command, bdd75e8) ---- *)
(** drop [k] if the deadline stored with its value has passed; removed keys are collected
    (they are what WATCHers are told) *)
Definition purge_key (now : Z) (dr : db * list bytes) (k : bytes) : db * list bytes :=
  match get_entry (fst dr) k with
  | Some e => if expired now e then (index_del (del_entry (fst dr) k) k, k :: snd dr) else dr
  | None => dr
  end.
(** the keys the deadline index reports as due *)
Definition due_keys (now : Z) (d : db) : list bytes := map fst (filter (fun kt => snd kt <=? now) (d_index d)).
Definition purge_due (now : Z) (dr : db * list bytes) : db * list bytes :=
  fold_left (purge_key now) (due_keys now (fst dr)) dr.
(** every bulk-string argument after the command name *)
Definition lazy_args (parts : list frame) : list bytes :=
  flat_map (fun f => match f with FBulk b => [b] | _ => [] end) (tl parts).
Definition expire_before (now : Z) (d : db) (name : bytes) (parts : list frame) : db * list bytes :=
  let dr := if lazy_expires_every_arg then fold_left (purge_key now) (lazy_args parts) (d, []) else (d, []) in
  if bmem name lazy_keyspace_commands then purge_due now dr else dr.

(** largest TTL (ms) whose deadline is representable: Instant::now() + d must
    not overflow i64 seconds; uptime assumed below 2^40 s (DESIGN.md C06) *)
Definition ttl_limit_ms := (9223372036854775807 - 1099511627776) * 1000.
Definition ttl_ok (ms : Z) : bool := ms <=? ttl_limit_ms.

(** set_value: stores, indexes the deadline when one is given (never removes a
    stale index entry) *)
Definition set_value (now : Z) (d : db) (k : bytes) (v : value) (ttl : option Z) : db :=
  match ttl with
  | Some ms => index_set (put_entry d k {| e_val := v; e_exp := Some (now + ms) |}) k (now + ms)
  | None => put_entry d k {| e_val := v; e_exp := None |}
  end.

Inductive getres := Found (v : value) | NotFound | Expired.
(** get: lazy expiry (removes data and index entry) *)
Definition eng_get (now : Z) (d : db) (k : bytes) : getres * db :=
  match get_entry d k with
  | Some e => if expired now e then (Expired, index_del (del_entry d k) k) else (Found (e_val e), d)
  | None => (NotFound, d)
  end.
(** get_string: Err(WrongType) for other types *)
Definition get_string (now : Z) (d : db) (k : bytes) : option (option bytes) * db :=
  match eng_get now d k with
  | (Found (VStr b), d') => (Some (Some b), d')
  | (Found _, d') => (None, d')
  | (_, d') => (Some None, d')
  end.
Definition eng_exists (now : Z) (d : db) (k : bytes) : bool :=
  match get_entry d k with Some e => negb (expired now e) | None => false end.
Definition eng_delete (d : db) (k : bytes) : bool * db :=
  match get_entry d k with
  | Some _ => (true, index_del (del_entry d k) k)
  | None => (false, d)
  end.
Definition eng_expire (now : Z) (d : db) (k : bytes) (ms : Z) : bool * db :=
  match get_entry d k with
  | Some e => (true, index_set (put_entry d k {| e_val := e_val e; e_exp := Some (now + ms) |}) k (now + ms))
  | None => (false, d)
  end.
Definition eng_persist (d : db) (k : bytes) : bool * db :=
  match get_entry d k with
  | Some e => match e_exp e with
              | Some _ => (true, index_del (put_entry d k {| e_val := e_val e; e_exp := None |}) k)
              | None => (false, d)
              end
  | None => (false, d)
  end.
(** ttl: None = no deadline or no key; Some remaining (0 when already past) *)
Definition eng_ttl (now : Z) (d : db) (k : bytes) : option Z :=
  match get_entry d k with
  | Some e => match e_exp e with
              | Some t => Some (if now <? t then t - now else 0)
              | None => None
              end
  | None => None
  end.

(** ---- argument helpers ---- *)
Definition nth_arg (parts : list frame) (i : nat) : option bytes :=
  match nth_error parts i with Some f => arg_bytes f | None => None end.
Definition nparts (parts : list frame) : Z := len parts.

(** ---- handlers ---- *)
Inductive setopt := SetOpts (ttl : option Z) (nx xx : bool) | SetSyntax | SetBadExpire.
(** the option loop of handle_set; [ex] / [px]: EX / PX has been seen (d6b03fb: each excludes the other) *)
Fixpoint parse_set_opts (fuel : nat) (opts : list frame) (ttl : option Z) (ex px nx xx : bool) : setopt :=
  match fuel with
  | O => SetOpts ttl nx xx
  | S f =>
    match opts with
    | [] => SetOpts ttl nx xx
    | FBulk o :: rest =>
        let u := upper o in
        if beq u (bs "EX") then
          if px then SetSyntax else                        (* d6b03fb: EX after PX is a syntax error *)
          match rest with
          | [] => SetSyntax
          | FBulk s :: rest' =>
              match parse_u64 s with
              | Some n => if n =? 0 then SetBadExpire      (* 48bcb4d: the expire time must be positive *)
                          else parse_set_opts f rest' (Some (n * 1000)) true px nx xx
              | None => SetBadExpire
              end
          | _ => SetBadExpire
          end
        else if beq u (bs "PX") then
          if ex then SetSyntax else                        (* d6b03fb: PX after EX is a syntax error *)
          match rest with
          | [] => SetSyntax
          | FBulk s :: rest' =>
              match parse_u64 s with
              | Some n => if n =? 0 then SetBadExpire
                          else parse_set_opts f rest' (Some n) ex true nx xx
              | None => SetBadExpire
              end
          | _ => SetBadExpire
          end
        else if beq u (bs "NX") then parse_set_opts f rest ttl ex px true xx
        else if beq u (bs "XX") then parse_set_opts f rest ttl ex px nx true
        else SetSyntax
    | _ => SetSyntax
    end
  end.

Definition h_set (now : Z) (d : db) (parts : list frame) : frame * db :=
  if nparts parts <? 3 then (r_err, d) else
  match nth_error parts 1, nth_error parts 2 with
  | Some (FBulk k), Some v =>
      if beq k [] then (r_err, d) else
      match arg_bytes v with
      | None => (r_err, d)
      | Some vb =>
          match parse_set_opts (length parts) (skipn 3 parts) None false false false false with
          | SetSyntax | SetBadExpire => (r_err, d)
          | SetOpts ttl nx xx =>
              if nx && xx then (r_err, d) else          (* f4c6282: NX and XX exclude each other *)
              match ttl with
              | Some ms => if ttl_ok ms then
                  (if nx then
                     if eng_exists now d k then (r_nil, d) else (r_ok, set_value now d k (VStr vb) ttl)
                   else if xx then
                     if eng_exists now d k then (r_ok, set_value now d k (VStr vb) ttl) else (r_nil, d)
                   else (r_ok, set_value now d k (VStr vb) ttl))
                  else
                   (* check_ttl refuses before touching the key; with XX on a missing key
                      the handler answers nil before reaching the engine *)
                   (if nx then (r_err, d)
                    else if xx then (if eng_exists now d k then (r_err, d) else (r_nil, d))
                    else (r_err, d))
              | None =>
                  if nx then
                    if eng_exists now d k then (r_nil, d) else (r_ok, set_value now d k (VStr vb) None)
                  else if xx then
                    if eng_exists now d k then (r_ok, set_value now d k (VStr vb) None) else (r_nil, d)
                  else (r_ok, set_value now d k (VStr vb) None)
              end
          end
      end
  | _, _ => (r_err, d)
  end.

Definition h_get (now : Z) (d : db) (parts : list frame) : frame * db :=
  if negb (nparts parts =? 2) then (r_err, d) else
  match nth_arg parts 1 with
  | None => (r_err, d)
  | Some k =>
      if beq k [] then (r_err, d) else
      match get_string now d k with
      | (Some (Some b), d') => (r_bulk b, d')
      | (Some None, d') => (r_nil, d')
      | (None, d') => (r_wrongtype, d')
      end
  end.

(** value.rs parse_canonical_i64 (e4bcfd7): the canonical decimal form of an i64 only, as Redis'
    string2ll - an optional '-', then digits with no leading zero (the single "0" excepted); no
    '+', no "-0", no surrounding space, nothing out of range.  After a first digit 1-9 what
    [str::parse] accepts is what it always accepts: digits, in range. *)
Definition parse_canonical (b : bytes) : option Z :=
  let negative := match b with c :: _ => c =? 45 | [] => false end in
  let digits := if negative then tl b else b in
  match digits with
  | [] => None
  | c :: r =>
      if c =? 48 then (match r with [] => if negative then None else Some 0 | _ => None end)
      else if (49 <=? c) && (c <=? 57) then parse_i64 b
      else None
  end.

(** incr_by: no expiry check; non-string and non-integer both NotInteger *)
Definition eng_incr_by (d : db) (k : bytes) (inc : Z) : option Z * db :=
  match get_entry d k with
  | Some e =>
      match e_val e with
      | VStr b =>
          match parse_canonical b with
          | Some cur =>
              if in_i64 (cur + inc)
              then (Some (cur + inc), put_entry d k {| e_val := VStr (print_int (cur + inc)); e_exp := e_exp e |})
              else (None, d)
          | None => (None, d)
          end
      | _ => (None, d)
      end
  | None => (Some inc, put_entry d k {| e_val := VStr (print_int inc); e_exp := None |})
  end.

Definition reply_incr (r : option Z * db) : frame * db :=
  match r with (Some n, d') => (r_int n, d') | (None, d') => (r_err, d') end.

Definition h_incr (empty_refused : bool) (delta : Z) (d : db) (parts : list frame) : frame * db :=
  if negb (nparts parts =? 2) then (r_err, d) else
  match nth_arg parts 1 with
  | None => (r_err, d)
  | Some k => if empty_refused && beq k [] then (r_err, d) else reply_incr (eng_incr_by d k delta)
  end.

Definition h_incrby (d : db) (parts : list frame) : frame * db :=
  if negb (nparts parts =? 3) then (r_err, d) else
  match nth_arg parts 1 with
  | None => (r_err, d)
  | Some k =>
      if beq k [] then (r_err, d) else
      match nth_arg parts 2 with
      | None => (r_err, d)
      | Some a => match parse_canonical a with
                  | None => (r_err, d)
                  | Some n => reply_incr (eng_incr_by d k n)
                  end
      end
  end.

Definition h_decrby (d : db) (parts : list frame) : frame * db :=
  if negb (nparts parts =? 3) then (r_err, d) else
  match nth_arg parts 1 with
  | None => (r_err, d)
  | Some k =>
      match nth_arg parts 2 with
      | None => (r_err, d)
      | Some a => match parse_canonical a with
                  | None => (r_err, d)
                  | Some n => if n =? i64_min then (r_err, d) else reply_incr (eng_incr_by d k (- n))
                  end
      end
  end.

(** DEL / EXISTS: non-bulk arguments are skipped *)
Fixpoint del_loop (d : db) (args : list frame) (n : Z) : Z * db :=
  match args with
  | [] => (n, d)
  | FBulk k :: r => match eng_delete d k with
                    | (true, d') => del_loop d' r (n + 1)
                    | (false, d') => del_loop d' r n
                    end
  | _ :: r => del_loop d r n
  end.
Definition h_del (d : db) (parts : list frame) : frame * db :=
  if nparts parts <? 2 then (r_err, d) else
  match del_loop d (tl parts) 0 with (n, d') => (r_int n, d') end.

Fixpoint exists_count (now : Z) (d : db) (args : list frame) (n : Z) : Z :=
  match args with
  | [] => n
  | FBulk k :: r => exists_count now d r (if eng_exists now d k then n + 1 else n)
  | _ :: r => exists_count now d r n
  end.
Definition h_exists (now : Z) (d : db) (parts : list frame) : frame * db :=
  if nparts parts <? 2 then (r_err, d) else (r_int (exists_count now d (tl parts) 0), d).

Definition h_expire (now : Z) (d : db) (parts : list frame) : frame * db :=
  if negb (nparts parts =? 3) then (r_err, d) else
  match nth_arg parts 1 with
  | None => (r_err, d)
  | Some k =>
      match nth_arg parts 2 with
      | None => (r_err, d)
      | Some a =>
          match parse_i64 a with
          | None => (r_err, d)
          | Some s =>
              if s <=? 0 then
                match eng_delete d k with (b, d') => (r_int (if b then 1 else 0), d') end
              else if ttl_ok (s * 1000) then
                match eng_expire now d k (s * 1000) with (b, d') => (r_int (if b then 1 else 0), d') end
              else (r_err, d)
          end
      end
  end.

Definition h_pexpire (now : Z) (d : db) (parts : list frame) : frame * db :=
  if negb (nparts parts =? 3) then (r_err, d) else
  match nth_arg parts 1 with
  | None => (r_err, d)
  | Some k =>
      match nth_arg parts 2 with
      | None => (r_err, d)
      | Some a =>
          match parse_u64 a with
          | None => (r_err, d)
          | Some ms =>
              if ttl_ok ms then
                match eng_expire now d k ms with (b, d') => (r_int (if b then 1 else 0), d') end
              else (r_err, d)
          end
      end
  end.

(** PEXPIREAT key unix-ms (98d0d1a; StorageEngine::pexpire_at): the deadline as an absolute time on
    the clock the deadlines are kept in; one that has passed deletes the key.  Not subject to the
    TTL limit check of the handlers above (the engine function is called directly). *)
Definition h_pexpireat (now : Z) (d : db) (parts : list frame) : frame * db :=
  if negb (nparts parts =? 3) then (r_err, d) else
  match nth_arg parts 1 with
  | None => (r_err, d)
  | Some k =>
      match nth_arg parts 2 with
      | None => (r_err, d)
      | Some a =>
          match parse_i64 a with
          | None => (r_err, d)
          | Some t =>
              if t <=? now then match eng_delete d k with (b, d') => (r_int (if b then 1 else 0), d') end
              else match eng_expire now d k (t - now) with (b, d') => (r_int (if b then 1 else 0), d') end
          end
      end
  end.

(** TTL in seconds, rounded up; an expired unswept entry answers -2 *)
Definition h_ttl (now : Z) (d : db) (parts : list frame) : frame * db :=
  if negb (nparts parts =? 2) then (r_err, d) else
  match nth_arg parts 1 with
  | None => (r_err, d)
  | Some k =>
      match eng_ttl now d k with
      | Some rem => (r_int (if rem =? 0 then -2 else (rem + 999) / 1000), d)
      | None => (r_int (if eng_exists now d k then -1 else -2), d)
      end
  end.
(** PTTL: an expired unswept entry answers 0; the millisecond count saturates at i64::MAX *)
Definition h_pttl (now : Z) (d : db) (parts : list frame) : frame * db :=
  if negb (nparts parts =? 2) then (r_err, d) else
  match nth_arg parts 1 with
  | None => (r_err, d)
  | Some k =>
      match eng_ttl now d k with
      | Some rem => (r_int (Z.min rem i64_max), d)
      | None => (r_int (if eng_exists now d k then -1 else -2), d)
      end
  end.
Definition h_persist (d : db) (parts : list frame) : frame * db :=
  if negb (nparts parts =? 2) then (r_err, d) else
  match nth_arg parts 1 with
  | None => (r_err, d)
  | Some k => match eng_persist d k with (b, d') => (r_int (if b then 1 else 0), d') end
  end.

Definition h_setnx (now : Z) (d : db) (parts : list frame) : frame * db :=
  if negb (nparts parts =? 3) then (r_err, d) else
  match nth_arg parts 1, nth_arg parts 2 with
  | Some k, Some v =>
      if eng_exists now d k then (r_int 0, d) else (r_int 1, set_value now d k (VStr v) None)
  | _, _ => (r_err, d)
  end.

Definition h_setex (mult : Z) (now : Z) (d : db) (parts : list frame) : frame * db :=
  if negb (nparts parts =? 4) then (r_err, d) else
  match nth_arg parts 1 with
  | None => (r_err, d)
  | Some k =>
      match nth_arg parts 2 with
      | None => (r_err, d)
      | Some a =>
          match parse_u64 a with
          | None => (r_err, d)
          | Some n =>
              if n =? 0 then (r_err, d) else               (* 02eb367: the expire time must be positive *)
              match nth_arg parts 3 with
              | None => (r_err, d)
              | Some v => if ttl_ok (n * mult) then (r_ok, set_value now d k (VStr v) (Some (n * mult)))
                          else (r_err, d)
              end
          end
      end
  end.

(** MGET: a non-string key aborts the whole command with WRONGTYPE; expired
    entries met on the way are removed *)
Fixpoint mget_loop (now : Z) (d : db) (args : list frame) (acc : list frame) : frame * db :=
  match args with
  | [] => (FArray (rev acc), d)
  | FBulk k :: r =>
      match get_string now d k with
      | (Some (Some b), d') => mget_loop now d' r (FBulk b :: acc)
      | (Some None, d') => mget_loop now d' r (FNullBulk :: acc)
      | (None, d') => (r_wrongtype, d')
      end
  | _ :: _ => (r_err, d)
  end.
Definition h_mget (now : Z) (d : db) (parts : list frame) : frame * db :=
  if nparts parts <? 2 then (r_err, d) else mget_loop now d (tl parts) [].

(** MSET: every pair is validated before the first is stored (974d7d6) *)
Fixpoint mset_valid (args : list frame) : bool :=
  match args with
  | [] => true
  | FBulk _ :: FBulk _ :: rest => mset_valid rest
  | _ => false
  end.
Fixpoint mset_loop (now : Z) (d : db) (args : list frame) : frame * db :=
  match args with
  | [] => (r_ok, d)
  | FBulk k :: rest =>
      match rest with
      | FBulk v :: rest' => mset_loop now (set_value now d k (VStr v) None) rest'
      | _ => (r_err, d)
      end
  | _ => (r_err, d)
  end.
Definition h_mset (now : Z) (d : db) (parts : list frame) : frame * db :=
  if (nparts parts <? 3) || (nparts parts mod 2 =? 0) then (r_err, d)
  else if mset_valid (tl parts) then mset_loop now d (tl parts) else (r_err, d).

Definition h_getset (now : Z) (d : db) (parts : list frame) : frame * db :=
  if negb (nparts parts =? 3) then (r_err, d) else
  match nth_arg parts 1, nth_arg parts 2 with
  | Some k, Some v =>
      match get_string now d k with
      | (Some old, d') => (match old with Some b => r_bulk b | None => r_nil end,
                           set_value now d' k (VStr v) None)
      | (None, d') => (r_wrongtype, d')
      end
  | _, _ => (r_err, d)
  end.

Definition h_append (d : db) (parts : list frame) : frame * db :=
  if negb (nparts parts =? 3) then (r_err, d) else
  match nth_arg parts 1, nth_arg parts 2 with
  | Some k, Some v =>
      match get_entry d k with
      | Some e => match e_val e with
                  | VStr b => (r_int (len (b ++ v)), put_entry d k {| e_val := VStr (b ++ v); e_exp := e_exp e |})
                  | _ => (r_wrongtype, d)
                  end
      | None => (r_int (len v), put_entry d k {| e_val := VStr v; e_exp := None |})
      end
  | _, _ => (r_err, d)
  end.

Definition h_strlen (d : db) (parts : list frame) : frame * db :=
  if negb (nparts parts =? 2) then (r_err, d) else
  match nth_arg parts 1 with
  | None => (r_err, d)
  | Some k =>
      match get_entry d k with
      | Some e => match e_val e with VStr b => (r_int (len b), d) | _ => (r_wrongtype, d) end
      | None => (r_int 0, d)
      end
  end.

(** engine.rs getrange after 9f58b0e + the Redis-normalisation follow-up *)
Definition getrange_bytes (b : bytes) (start stop : Z) : bytes :=
  let n := len b in
  if (start <? 0) && (stop <? 0) && (stop <? start) then [] else
  let s := if start <? 0 then Z.max 0 (n + start) else start in
  let e0 := if stop <? 0 then Z.max 0 (n + stop) else stop in
  let e := Z.min e0 (n - 1) in
  if (n =? 0) || (e <? s) then [] else zfirstn (e - s + 1) (zskipn s b).

Definition h_getrange (d : db) (parts : list frame) : frame * db :=
  if negb (nparts parts =? 4) then (r_err, d) else
  match nth_arg parts 1 with
  | None => (r_err, d)
  | Some k =>
      match nth_arg parts 2 with
      | None => (r_err, d)
      | Some a1 =>
        match parse_isize a1 with
        | None => (r_err, d)
        | Some s =>
          match nth_arg parts 3 with
          | None => (r_err, d)
          | Some a2 =>
            match parse_isize a2 with
            | None => (r_err, d)
            | Some e =>
                match get_entry d k with
                | Some en => match e_val en with
                             | VStr b => (r_bulk (getrange_bytes b s e), d)
                             | _ => (r_wrongtype, d)
                             end
                | None => (r_bulk [], d)
                end
            end
          end
        end
      end
  end.

Definition max_string_len := 536870912.
Definition zeros (n : Z) : bytes := repeat 0 (Z.to_nat n).
(** overwrite [v] at [off] in [b], zero-padding *)
Definition setrange_bytes (b : bytes) (off : Z) (v : bytes) : bytes :=
  let need := off + len v in
  let b' := if len b <? need then b ++ zeros (need - len b) else b in
  zfirstn off b' ++ v ++ zskipn need b'.

(** engine.rs setrange; 6988c1c: an empty value changes nothing, whatever the offset - the reply is
    the current length (0 for a missing key, WRONGTYPE for another type), before the size check *)
Definition eng_setrange (d : db) (k : bytes) (off : Z) (v : bytes) : frame * db :=
  if len v =? 0 then
    match get_entry d k with
    | Some en => match e_val en with
                 | VStr b => (r_int (len b), d)
                 | _ => (r_wrongtype, d)
                 end
    | None => (r_int 0, d)
    end
  else
  if (max_string_len <? off) || (max_string_len - off <? len v) then (r_err, d) else
  match get_entry d k with
  | Some en => match e_val en with
               | VStr b => let nb := setrange_bytes b off v in
                           (r_int (len nb), put_entry d k {| e_val := VStr nb; e_exp := e_exp en |})
               | _ => (r_wrongtype, d)
               end
  | None => let nb := zeros off ++ v in
            (r_int (len nb), put_entry d k {| e_val := VStr nb; e_exp := None |})
  end.

Definition h_setrange (d : db) (parts : list frame) : frame * db :=
  if negb (nparts parts =? 4) then (r_err, d) else
  match nth_arg parts 1 with
  | None => (r_err, d)
  | Some k =>
      match nth_arg parts 2 with
      | None => (r_err, d)
      | Some a =>
        match parse_usize a with
        | None => (r_err, d)
        | Some off =>
          match nth_arg parts 3 with
          | None => (r_err, d)
          | Some v => eng_setrange d k off v
          end
        end
      end
  end.

Definition type_name (v : value) : bytes :=
  match v with
  | VStr _ => bs "string" | VList _ => bs "list" | VSet _ => bs "set"
  | VHash _ => bs "hash" | VZSet _ => bs "zset" | VStream _ => bs "stream"
  end.
Definition h_type (d : db) (parts : list frame) : frame * db :=
  if negb (nparts parts =? 2) then (r_err, d) else
  match nth_arg parts 1 with
  | None => (r_err, d)
  | Some k => match get_entry d k with
              | Some e => (FSimple (type_name (e_val e)), d)
              | None => (FSimple (bs "none"), d)
              end
  end.

(** rename: moves the entry (value and stored deadline) and, since 10c8230, its entry in the
    deadline index: removed for the old name, set or cleared for the new one *)
Definition eng_rename (d : db) (old new : bytes) : bool * db :=
  match get_entry d old with
  | Some e =>
      let d1 := index_del (del_entry d old) old in
      let d2 := match e_exp e with Some t => index_set d1 new t | None => index_del d1 new end in
      (true, put_entry d2 new e)
  | None => (false, d)
  end.
Definition h_rename (d : db) (parts : list frame) : frame * db :=
  if negb (nparts parts =? 3) then (r_err, d) else
  match nth_arg parts 1, nth_arg parts 2 with
  | Some o, Some n => match eng_rename d o n with
                      | (true, d') => (r_ok, d')
                      | (false, d') => (r_err, d')
                      end
  | _, _ => (r_err, d)
  end.
Definition h_renamenx (now : Z) (d : db) (parts : list frame) : frame * db :=
  if negb (nparts parts =? 3) then (r_err, d) else
  match nth_arg parts 1, nth_arg parts 2 with
  | Some o, Some n =>
      if negb (eng_exists now d o) then (r_err, d)
      else if eng_exists now d n then (r_int 0, d)
      else match eng_rename d o n with
           | (true, d') => (r_int 1, d')
           | (false, d') => (r_err, d')
           end
  | _, _ => (r_err, d)
  end.

(** KEYS: every stored key (expired or not) matching the pattern; reply sorted
    by the harness, so the model sorts too *)
Definition all_keys (d : db) : list bytes := map fst (d_data d).
Definition h_keys (d : db) (parts : list frame) : frame * db :=
  if negb (nparts parts =? 2) then (r_err, d) else
  match nth_arg parts 1 with
  | None => (r_err, d)
  | Some p => (r_bulks (bsort (filter (glob_match p) (all_keys d))), d)
  end.
Definition h_dbsize (d : db) (parts : list frame) : frame * db :=
  if negb (nparts parts =? 1) then (r_err, d) else (r_int (len (d_data d)), d).
Definition h_flushdb (d : db) (parts : list frame) : frame * db :=
  if negb (nparts parts =? 1) then (r_err, d) else (r_ok, empty_db).

(** dispatch of this family; None = not a command of this family *)
Definition exec_strings (now : Z) (d : db) (name : bytes) (parts : list frame) : option (frame * db) :=
  if beq name (bs "SET") then Some (h_set now d parts)
  else if beq name (bs "GET") then Some (h_get now d parts)
  else if beq name (bs "INCR") then Some (h_incr true 1 d parts)
  else if beq name (bs "DECR") then Some (h_incr false (-1) d parts)
  else if beq name (bs "INCRBY") then Some (h_incrby d parts)
  else if beq name (bs "DECRBY") then Some (h_decrby d parts)
  else if beq name (bs "DEL") then Some (h_del d parts)
  else if beq name (bs "EXISTS") then Some (h_exists now d parts)
  else if beq name (bs "EXPIRE") then Some (h_expire now d parts)
  else if beq name (bs "PEXPIRE") then Some (h_pexpire now d parts)
  else if beq name (bs "TTL") then Some (h_ttl now d parts)
  else if beq name (bs "PTTL") then Some (h_pttl now d parts)
  else if beq name (bs "PERSIST") then Some (h_persist d parts)
  else if beq name (bs "SETNX") then Some (h_setnx now d parts)
  else if beq name (bs "SETEX") then Some (h_setex 1000 now d parts)
  else if beq name (bs "PSETEX") then Some (h_setex 1 now d parts)
  else if beq name (bs "MGET") then Some (h_mget now d parts)
  else if beq name (bs "MSET") then Some (h_mset now d parts)
  else if beq name (bs "GETSET") then Some (h_getset now d parts)
  else if beq name (bs "APPEND") then Some (h_append d parts)
  else if beq name (bs "STRLEN") then Some (h_strlen d parts)
  else if beq name (bs "GETRANGE") then Some (h_getrange d parts)
  else if beq name (bs "SETRANGE") then Some (h_setrange d parts)
  else if beq name (bs "TYPE") then Some (h_type d parts)
  else if beq name (bs "RENAME") then Some (h_rename d parts)
  else if beq name (bs "RENAMENX") then Some (h_renamenx now d parts)
  else if beq name (bs "KEYS") then Some (h_keys d parts)
  else if beq name (bs "DBSIZE") then Some (h_dbsize d parts)
  else if beq name (bs "FLUSHDB") then Some (h_flushdb d parts)
  else None.
