(** Shared types of the storage / command models: values, entries, databases,
    argument and reply helpers.  (src/storage/value.rs, engine.rs data layout.) *)
From Ferrous Require Import Base.Bytes Model.Resp.
Open Scope Z_scope.

(** stream IDs: (milliseconds, sequence), both u64 *)
Definition sid := (Z * Z)%type.
Definition sid_cmp (a b : sid) : comparison :=
  match fst a ?= fst b with Eq => snd a ?= snd b | c => c end.
Definition sid_ltb a b := match sid_cmp a b with Lt => true | _ => false end.
Definition sid_leb a b := match sid_cmp a b with Gt => false | _ => true end.
Definition sid_eqb a b := match sid_cmp a b with Eq => true | _ => false end.

(** one pending entry of a consumer group (consumer_groups.rs PendingEntry):
    owner, last_delivery (ms on the model clock), delivery_count *)
Record pending := { p_id : sid; p_consumer : bytes; p_time : Z; p_count : Z }.
(** ConsumerGroup + its PendingEntryList.  The pending set is kept four times by the
    code: [g_by_id] (BTreeMap, sorted by id), [g_by_consumer] (HashMap name -> Vec of ids,
    in push order), the per-consumer [pending_count] of [g_consumers] and the counter
    [g_total]; [g_ncons] is the consumer_count counter, [g_min]/[g_max] the cached bounds.
    The start id given to XGROUP CREATE initialises the cursor (repair 542e5a3). *)
Record group := {
  g_last : sid;                             (* last_delivered_id *)
  g_by_id : list pending;                   (* PendingEntryList.entries_by_id *)
  g_by_consumer : list (bytes * list sid);  (* entries_by_consumer *)
  g_consumers : list (bytes * Z);           (* consumers: name -> pending_count *)
  g_ncons : Z;                              (* consumer_count *)
  g_total : Z;                              (* total_pending *)
  g_min : option sid;                       (* min_pending_id *)
  g_max : option sid                        (* max_pending_id *)
}.
(** Stream: StreamData.entries (sorted Vec; fields = HashMap, kept sorted by field name),
    StreamData.last_id, the atomics last_id_millis / last_id_seq / length, the groups *)
Record stream := {
  s_entries : list (sid * list (bytes * bytes));
  s_last : sid;
  s_ams : Z;
  s_aseq : Z;
  s_len : Z;
  s_groups : list (bytes * group)
}.

Inductive value :=
| VStr (b : bytes)
| VList (l : list bytes)                 (* VecDeque, head first *)
| VSet (s : list bytes)                  (* HashSet: duplicate-free, order unobservable *)
| VHash (h : list (bytes * bytes))       (* HashMap: unique fields, order unobservable *)
| VZSet (z : list (bytes * Z))           (* (member, f64 score bits), in skip-list order *)
| VStream (s : stream).

Record entry := { e_val : value; e_exp : option Z }.   (* deadline in ms on the model clock *)

(** one logical database: key -> entry (HashMap over 16 shards; iteration order
    unobservable after canonicalisation), plus the sweeper's deadline index *)
Record db := { d_data : list (bytes * entry); d_index : list (bytes * Z) }.
Definition empty_db : db := {| d_data := []; d_index := [] |}.

(** ---- association lists keyed by bytes ---- *)
Fixpoint alookup {A} (k : bytes) (l : list (bytes * A)) : option A :=
  match l with
  | [] => None
  | (k', v) :: r => if beq k k' then Some v else alookup k r
  end.
Fixpoint aremove {A} (k : bytes) (l : list (bytes * A)) : list (bytes * A) :=
  match l with
  | [] => []
  | (k', v) :: r => if beq k k' then aremove k r else (k', v) :: aremove k r
  end.
(** insert or replace, keeping at most one binding per key *)
Definition aset {A} (k : bytes) (v : A) (l : list (bytes * A)) : list (bytes * A) :=
  (k, v) :: aremove k l.
Definition amem {A} (k : bytes) (l : list (bytes * A)) : bool :=
  match alookup k l with Some _ => true | None => false end.

Fixpoint bmem (x : bytes) (l : list bytes) : bool :=
  match l with [] => false | y :: r => beq x y || bmem x r end.
Fixpoint bremove (x : bytes) (l : list bytes) : list bytes :=
  match l with [] => [] | y :: r => if beq x y then bremove x r else y :: bremove x r end.

(** insertion sort by byte order: canonical order of unordered replies *)
Fixpoint binsert (x : bytes) (l : list bytes) : list bytes :=
  match l with
  | [] => [x]
  | y :: r => if bleb x y then x :: l else y :: binsert x r
  end.
Definition bsort (l : list bytes) : list bytes := fold_right binsert [] l.

(** ---- expiry (value.rs is_expired: Instant::now() > expires_at).  The model clock is
    coarser than the real one: two commands at the same model instant are strictly ordered
    in real time, so a deadline equal to the model instant has already passed. ---- *)
Definition expired (now : Z) (e : entry) : bool :=
  match e_exp e with Some d => d <=? now | None => false end.

(** ---- reply helpers (first word of an error is all that is compared) ---- *)
Definition r_ok : frame := FSimple (bs "OK").
Definition r_err : frame := FError (bs "ERR").
Definition r_wrongtype : frame := FError (bs "WRONGTYPE").
Definition r_int (z : Z) : frame := FInt z.
Definition r_bulk (b : bytes) : frame := FBulk b.
Definition r_nil : frame := FNullBulk.
Definition r_bulks (l : list bytes) : frame := FArray (map FBulk l).
Definition is_error (f : frame) : bool := match f with FError _ => true | _ => false end.

(** argument access: handlers match RespFrame::BulkString(Some(bytes)) *)
Definition arg_bytes (f : frame) : option bytes :=
  match f with FBulk b => Some b | _ => None end.

(** Rust's `x as usize` / `as u64` of a signed value, and back *)
Definition two64 := 18446744073709551616.
Definition as_u64 (z : Z) : Z := z mod two64.
Definition as_i64 (z : Z) : Z := let m := z mod two64 in if m <? 9223372036854775808 then m else m - two64.

(** FNV-1a shard index (engine.rs get_shard_index), 16 shards *)
Definition fnv_offset := 14695981039346656037.
Definition fnv_prime := 1099511628211.
Definition fnv1a (k : bytes) : Z :=
  fold_left (fun h b => (Z.lxor h b * fnv_prime) mod two64) k fnv_offset.
Definition shard_of (k : bytes) : Z := fnv1a k mod 16.
