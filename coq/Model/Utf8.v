(** UTF-8 validity and lossy decoding of byte strings, as done by Rust's
    [str::from_utf8] / [String::from_utf8_lossy] (core::str::lossy Utf8Chunks):
    an ill-formed sequence is the maximal prefix of a well-formed one (at least
    one byte) and is replaced by U+FFFD = EF BF BD. *)
From Ferrous Require Import Base.Bytes.
Open Scope Z_scope.

Definition in_r (lo hi c : Z) : bool := (lo <=? c) && (c <=? hi).
Definition is_cont (c : Z) : bool := in_r 128 191 c.

(** one decoding step on a non-empty input: (bytes consumed, well-formed?) *)
Definition utf8_step (l : bytes) : nat * bool :=
  match l with
  | [] => (O, true)
  | b0 :: r =>
    if b0 <? 128 then (1%nat, true)
    else if in_r 194 223 b0 then
      match r with
      | b1 :: _ => if is_cont b1 then (2%nat, true) else (1%nat, false)
      | [] => (1%nat, false)
      end
    else if in_r 224 239 b0 then
      let lo := if b0 =? 224 then 160 else 128 in
      let hi := if b0 =? 237 then 159 else 191 in
      match r with
      | b1 :: r2 =>
          if in_r lo hi b1 then
            match r2 with
            | b2 :: _ => if is_cont b2 then (3%nat, true) else (2%nat, false)
            | [] => (2%nat, false)
            end
          else (1%nat, false)
      | [] => (1%nat, false)
      end
    else if in_r 240 244 b0 then
      let lo := if b0 =? 240 then 144 else 128 in
      let hi := if b0 =? 244 then 143 else 191 in
      match r with
      | b1 :: r2 =>
          if in_r lo hi b1 then
            match r2 with
            | b2 :: r3 =>
                if is_cont b2 then
                  match r3 with
                  | b3 :: _ => if is_cont b3 then (4%nat, true) else (3%nat, false)
                  | [] => (3%nat, false)
                  end
                else (2%nat, false)
            | [] => (2%nat, false)
            end
          else (1%nat, false)
      | [] => (1%nat, false)
      end
    else (1%nat, false)
  end.

Definition replacement : bytes := [239; 191; 189].

Fixpoint utf8_valid_f (fuel : nat) (l : bytes) : bool :=
  match fuel with
  | O => true
  | S f =>
      match l with
      | [] => true
      | _ => match utf8_step l with
             | (n, true) => utf8_valid_f f (skipn n l)
             | (_, false) => false
             end
      end
  end.
Definition utf8_valid (l : bytes) : bool := utf8_valid_f (S (length l)) l.

Fixpoint utf8_lossy_f (fuel : nat) (l : bytes) : bytes :=
  match fuel with
  | O => []
  | S f =>
      match l with
      | [] => []
      | _ => match utf8_step l with
             | (n, true) => firstn n l ++ utf8_lossy_f f (skipn n l)
             | (n, false) => replacement ++ utf8_lossy_f f (skipn n l)
             end
      end
  end.
Definition utf8_lossy (l : bytes) : bytes := utf8_lossy_f (S (length l)) l.
