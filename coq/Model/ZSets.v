(** Model of the sorted-set commands: server.rs handle_zadd .. handle_zpopmax
    (1846-2448) and engine.rs zadd .. zcard (756-1008), over Model/SkipList.v.

    A stored sorted set is [VZSet z], z = the (member, score bits) pairs in
    skip-list order.  Every engine function rebuilds the skip-list state from z
    ([z2sl]: all towers of height 0, key_index = the pairs themselves), calls the
    skip-list operation of Model/SkipList.v and stores the resulting level-0
    chain.  This is exact as long as key_index and chain agree, i.e. as long as
    no NaN score is stored - which, after the repairs beb3269 (NaN refused by
    ZADD/ZINCRBY in handler and engine, all ZADD pairs validated first), 76804df
    (rank-range normalisation) and 774140b (NaN bounds refused), is a theorem
    about every history (Props/C04.v c04_history_inv).

    Score text <-> f64 is an oracle: [oracle] = [FArray l], l aligned with
    [parts]: l[i] = [FDouble bits] when parts[i] is a bulk string that
    `String::from_utf8_lossy(..).parse::<f64>()` accepts, [FNullBulk] otherwise;
    for ZINCRBY one more element: the bits of the new score the implementation
    answered ([FNullBulk] when it answered an error).  Score replies are [FDouble (f_canon bits)] (the harness re-parses
    the reply text to bits).  No proofs here. *)
From Ferrous Require Import Base.Bytes Model.Resp Model.Types Model.Strings Model.SkipList.
Open Scope Z_scope.

Definition zset := list (bytes * Z).
Definition z2sl (z : zset) : sl :=
  {| sl_nodes := map (fun p => {| n_key := fst p; n_val := snd p; n_lvl := 0%nat |}) z;
     sl_index := z; sl_length := len z; sl_level := 0%nat |}.
Definition sl2z (s : sl) : zset := sl_items s.
Definition is_none {A} (o : option A) : bool := match o with None => true | Some _ => false end.

(** ---- engine.rs; no function here consults expiry ---- *)
(** Result of the updating engine functions: Err(WrongType), another Err (answered "ERR ..."), Ok *)
Inductive eres (A : Type) := EOk (a : A) | EWrongType | EErr.
Arguments EOk {A} a.
Arguments EWrongType {A}.
Arguments EErr {A}.

(** zadd: NaN is refused before the key is looked at *)
Definition eng_zadd (d : db) (key m : bytes) (score : Z) : eres (bool * db) :=
  if f_is_nan score then EErr else
  match get_entry d key with
  | Some e =>
      match e_val e with
      | VZSet z =>
          match sl_insert (z2sl z) m score 0%nat with
          | (old, s') => EOk (is_none old, put_entry d key {| e_val := VZSet (sl2z s'); e_exp := e_exp e |})
          end
      | _ => EWrongType
      end
  | None =>
      match sl_insert sl_new m score 0%nat with
      | (_, s') => EOk (true, put_entry d key {| e_val := VZSet (sl2z s'); e_exp := None |})
      end
  end.

Definition eng_zrem (d : db) (key m : bytes) : option (bool * db) :=
  match get_entry d key with
  | Some e =>
      match e_val e with
      | VZSet z =>
          match sl_remove (z2sl z) m with
          | (r, s') =>
              if is_none r then Some (false, d)
              else if sl_is_empty s' then Some (true, del_entry d key)
              else Some (true, put_entry d key {| e_val := VZSet (sl2z s'); e_exp := e_exp e |})
          end
      | _ => None
      end
  | None => Some (false, d)
  end.

Definition with_zset {A} (d : db) (key : bytes) (dflt : A) (f : sl -> A) : option A :=
  match get_entry d key with
  | Some e => match e_val e with VZSet z => Some (f (z2sl z)) | _ => None end
  | None => Some dflt
  end.

Definition eng_zscore (d : db) (key m : bytes) : option (option Z) :=
  with_zset d key None (fun s => sl_get_score s m).

Definition eng_zrank (d : db) (key m : bytes) (reverse : bool) : option (option Z) :=
  with_zset d key None (fun s =>
    match sl_get_rank s m with
    | Some r => Some (if reverse then sl_len s - 1 - r else r)
    | None => None
    end).

Definition sat_sub (a b : Z) : Z := Z.max 0 (a - b).
Definition nodes_kv (l : list node) : zset := map (fun n => (n_key n, n_val n)) l.

(** zrange: start/stop are isize (engine.rs after 76804df): negative indices count from the
    end, start is clamped to 0 and stop to len-1, empty when start > stop or start >= len *)
Definition zrange_of (s : sl) (start stop : Z) (reverse : bool) : zset :=
  let ln := sl_len s in
  if ln =? 0 then [] else
  let start_i := Z.max (if start <? 0 then ln + start else start) 0 in
  let stop_i := if stop <? 0 then ln + stop else stop in
  if (stop_i <? start_i) || (ln <=? start_i) then [] else
  let stop_idx := Z.min stop_i (ln - 1) in
  if reverse then rev (nodes_kv (sl_range_by_rank s (ln - 1 - stop_idx) (ln - 1 - start_i)))
  else nodes_kv (sl_range_by_rank s start_i stop_idx).
Definition eng_zrange (d : db) (key : bytes) (start stop : Z) (reverse : bool) : option zset :=
  with_zset d key [] (fun s => zrange_of s start stop reverse).

Definition eng_zrangebyscore (d : db) (key : bytes) (mn mx : Z) (reverse : bool) : option zset :=
  with_zset d key [] (fun s =>
    let items := nodes_kv (sl_range_by_score s mn mx) in
    if reverse then rev items else items).
Definition eng_zcount (d : db) (key : bytes) (mn mx : Z) : option Z :=
  match eng_zrangebyscore d key mn mx false with Some l => Some (len l) | None => None end.
Definition eng_zcard (d : db) (key : bytes) : option Z := with_zset d key 0 sl_len.

(** zincrby: [sum] = the f64 sum `curr_score + increment` as the implementation computed it
    (oracle; None when it reported none, i.e. answered an error), used only when the member
    exists.  A NaN increment is refused before the key is looked at, a NaN sum after the type
    check and before anything is changed. *)
Definition eng_zincrby (d : db) (key m : bytes) (inc : Z) (sum : option Z) : eres (Z * db) :=
  if f_is_nan inc then EErr else
  match get_entry d key with
  | Some e =>
      match e_val e with
      | VZSet z =>
          let s := z2sl z in
          let ns := match sl_get_score s m with Some _ => sum | None => Some inc end in
          match ns with
          | Some v =>
              if f_is_nan v then EErr else
              match sl_insert s m v 0%nat with
              | (_, s') => EOk (v, put_entry d key {| e_val := VZSet (sl2z s'); e_exp := e_exp e |})
              end
          | None => EErr
          end
      | _ => EWrongType
      end
  | None =>
      match sl_insert sl_new m inc 0%nat with
      | (_, s') => EOk (inc, put_entry d key {| e_val := VZSet (sl2z s'); e_exp := None |})
      end
  end.

(** ---- handlers ---- *)
Definition oscore (oracle : option frame) (i : nat) : option Z :=
  match oracle with
  | Some (FArray l) => match nth_error l i with Some (FDouble b) => Some b | _ => None end
  | _ => None
  end.
(** a score bound: parses and is not NaN (774140b) *)
Definition bound_arg (parts : list frame) (oracle : option frame) (i : nat) : option Z :=
  match nth_error parts i with
  | Some (FBulk _) =>
      match oscore oracle i with
      | Some b => if f_is_nan b then None else Some b
      | None => None
      end
  | _ => None
  end.
(** a float argument: None = "not a bulk string" or "not a valid float" (both ERR) *)
Definition float_arg (parts : list frame) (oracle : option frame) (i : nat) : option Z :=
  match nth_error parts i with
  | Some (FBulk _) => oscore oracle i
  | _ => None
  end.
Definition r_score (b : Z) : frame := FDouble (f_canon b).
Definition r_members (with_scores : bool) (l : zset) : frame :=
  if with_scores then FArray (flat_map (fun p => [FBulk (fst p); r_score (snd p)]) l)
  else FArray (map (fun p => FBulk (fst p)) l).
Definition with_scores_opt (parts : list frame) : bool :=
  (nparts parts =? 5) &&
  match nth_error parts 4 with
  | Some (FBulk o) => beq (upper o) (bs "WITHSCORES")
  | _ => false
  end.

(** the validation pass of handle_zadd (beb3269): every score parses and is not NaN,
    every member is a bulk string - before the first pair is applied *)
Fixpoint zadd_valid (parts : list frame) (oracle : option frame) (i : nat) (rest : list frame) : bool :=
  match rest with
  | sc :: mb :: rest' =>
      match float_arg parts oracle i with
      | None => false
      | Some score =>
          negb (f_is_nan score) &&
          match mb with FBulk _ => zadd_valid parts oracle (S (S i)) rest' | _ => false end
      end
  | _ => true
  end.
(** the application loop: `if self.storage.zadd(..)? { new_members += 1 }` per pair *)
Fixpoint zadd_pairs (d : db) (key : bytes) (parts : list frame) (oracle : option frame)
         (i : nat) (rest : list frame) (added : Z) : frame * db :=
  match rest with
  | sc :: mb :: rest' =>
      match float_arg parts oracle i, mb with
      | Some score, FBulk m =>
          match eng_zadd d key m score with
          | EWrongType => (r_wrongtype, d)
          | EErr => (r_err, d)
          | EOk (is_new, d') => zadd_pairs d' key parts oracle (S (S i)) rest' (if is_new then added + 1 else added)
          end
      | _, _ => (r_err, d)          (* unreachable after validation *)
      end
  | _ => (r_int added, d)
  end.
Definition h_zadd (d : db) (parts : list frame) (oracle : option frame) : frame * db :=
  if (nparts parts <? 4) || negb (nparts parts mod 2 =? 0) then (r_err, d) else
  match nth_error parts 1 with
  | Some (FBulk key) =>
      if negb (zadd_valid parts oracle 2%nat (skipn 2 parts)) then (r_err, d)
      else zadd_pairs d key parts oracle 2%nat (skipn 2 parts) 0
  | _ => (r_err, d)
  end.

(** handle_zrem: non-bulk members are skipped *)
Fixpoint zrem_members (d : db) (key : bytes) (ms : list frame) (removed : Z) : frame * db :=
  match ms with
  | [] => (r_int removed, d)
  | FBulk m :: rest =>
      match eng_zrem d key m with
      | None => (r_wrongtype, d)
      | Some (r, d') => zrem_members d' key rest (if r then removed + 1 else removed)
      end
  | _ :: rest => zrem_members d key rest removed
  end.
Definition h_zrem (d : db) (parts : list frame) : frame * db :=
  if nparts parts <? 3 then (r_err, d) else
  match nth_error parts 1 with
  | Some (FBulk key) => zrem_members d key (skipn 2 parts) 0
  | _ => (r_err, d)
  end.

Definition h_zscore (d : db) (parts : list frame) : frame * db :=
  if negb (nparts parts =? 3) then (r_err, d) else
  match nth_arg parts 1, nth_arg parts 2 with
  | Some key, Some m =>
      match eng_zscore d key m with
      | None => (r_wrongtype, d)
      | Some (Some sc) => (r_score sc, d)
      | Some None => (r_nil, d)
      end
  | _, _ => (r_err, d)
  end.

Definition h_zcard (d : db) (parts : list frame) : frame * db :=
  if negb (nparts parts =? 2) then (r_err, d) else
  match nth_arg parts 1 with
  | Some key => match eng_zcard d key with None => (r_wrongtype, d) | Some n => (r_int n, d) end
  | None => (r_err, d)
  end.

Definition h_zrank (reverse : bool) (d : db) (parts : list frame) : frame * db :=
  if negb (nparts parts =? 3) then (r_err, d) else
  match nth_arg parts 1, nth_arg parts 2 with
  | Some key, Some m =>
      match eng_zrank d key m reverse with
      | None => (r_wrongtype, d)
      | Some (Some r) => (r_int r, d)
      | Some None => (r_nil, d)
      end
  | _, _ => (r_err, d)
  end.

Definition h_zrange (reverse : bool) (d : db) (parts : list frame) : frame * db :=
  if (nparts parts <? 4) || (5 <? nparts parts) then (r_err, d) else
  match nth_arg parts 1 with
  | None => (r_err, d)
  | Some key =>
      match nth_arg parts 2 with
      | None => (r_err, d)
      | Some a =>
          match parse_isize a with
          | None => (r_err, d)
          | Some start =>
              match nth_arg parts 3 with
              | None => (r_err, d)
              | Some b =>
                  match parse_isize b with
                  | None => (r_err, d)
                  | Some stop =>
                      match eng_zrange d key start stop reverse with
                      | None => (r_wrongtype, d)
                      | Some l => (r_members (with_scores_opt parts) l, d)
                      end
                  end
              end
          end
      end
  end.

(** ZRANGEBYSCORE key min max / ZREVRANGEBYSCORE key max min *)
Definition h_zrangebyscore (reverse : bool) (d : db) (parts : list frame) (oracle : option frame) : frame * db :=
  if (nparts parts <? 4) || (5 <? nparts parts) then (r_err, d) else
  match nth_arg parts 1 with
  | None => (r_err, d)
  | Some key =>
      match bound_arg parts oracle 2 with
      | None => (r_err, d)
      | Some a =>
          match bound_arg parts oracle 3 with
          | None => (r_err, d)
          | Some b =>
              let mn := if reverse then b else a in
              let mx := if reverse then a else b in
              match eng_zrangebyscore d key mn mx reverse with
              | None => (r_wrongtype, d)
              | Some l => (r_members (with_scores_opt parts) l, d)
              end
          end
      end
  end.

Definition h_zcount (d : db) (parts : list frame) (oracle : option frame) : frame * db :=
  if negb (nparts parts =? 4) then (r_err, d) else
  match nth_arg parts 1 with
  | None => (r_err, d)
  | Some key =>
      match bound_arg parts oracle 2 with
      | None => (r_err, d)
      | Some mn =>
          match bound_arg parts oracle 3 with
          | None => (r_err, d)
          | Some mx =>
              match eng_zcount d key mn mx with
              | None => (r_wrongtype, d)
              | Some n => (r_int n, d)
              end
          end
      end
  end.

Definition h_zincrby (d : db) (parts : list frame) (oracle : option frame) : frame * db :=
  if negb (nparts parts =? 4) then (r_err, d) else
  match nth_arg parts 1 with
  | None => (r_err, d)
  | Some key =>
      match float_arg parts oracle 2 with
      | None => (r_err, d)
      | Some inc =>
          match nth_arg parts 3 with
          | None => (r_err, d)
          | Some m =>
              match eng_zincrby d key m inc (oscore oracle 4) with
              | EWrongType => (r_wrongtype, d)
              | EErr => (r_err, d)
              | EOk (v, d') => (r_score v, d')
              end
          end
      end
  end.

(** the pop loop: `for _ in 0..count { zrange(idx, idx); zrem(first) }` *)
Fixpoint zpop_loop (fuel : nat) (d : db) (key : bytes) (idx : Z) (acc : list frame)
  : option (list frame * db) :=
  match fuel with
  | O => Some (acc, d)
  | S f =>
      match eng_zrange d key idx idx false with
      | None => None
      | Some [] => Some (acc, d)
      | Some ((m, sc) :: _) =>
          match eng_zrem d key m with
          | None => None
          | Some (true, d') => zpop_loop f d' key idx (acc ++ [FBulk m; r_score sc])
          | Some (false, d') => zpop_loop f d' key idx acc
          end
      end
  end.
Definition zcard_or0 (d : db) (key : bytes) : Z :=
  match eng_zcard d key with Some n => n | None => 0 end.
Definition h_zpop (idx : Z) (d : db) (parts : list frame) : frame * db :=
  if (nparts parts <? 2) || (3 <? nparts parts) then (r_err, d) else
  match nth_arg parts 1 with
  | None => (r_err, d)
  | Some key =>
      let count :=
        if nparts parts =? 3 then
          match nth_arg parts 2 with
          | Some c => parse_usize c
          | None => None
          end
        else Some 1 in
      match count with
      | None => (r_err, d)
      | Some n =>
          (* 67ce0e4: the key's type is met up front (zcard), also when the count is 0 *)
          match eng_zcard d key with
          | None => (r_wrongtype, d)
          | Some _ =>
          (* each iteration removes one member or stops: card + 1 iterations suffice *)
          match zpop_loop (Z.to_nat (Z.min n (zcard_or0 d key + 1))) d key idx [] with
          | None => (r_wrongtype, d)
          | Some ([], d') => (FNullArray, d')
          | Some (l, d') => (FArray l, d')
          end
          end
      end
  end.

(** dispatch of this family; None = not a command of this family.
    [oracle] = score-parse table (see above). *)
Definition exec_zsets (now : Z) (d : db) (name : bytes) (parts : list frame) (oracle : option frame)
  : option (frame * db) :=
  if beq name (bs "ZADD") then Some (h_zadd d parts oracle)
  else if beq name (bs "ZREM") then Some (h_zrem d parts)
  else if beq name (bs "ZSCORE") then Some (h_zscore d parts)
  else if beq name (bs "ZCARD") then Some (h_zcard d parts)
  else if beq name (bs "ZRANK") then Some (h_zrank false d parts)
  else if beq name (bs "ZREVRANK") then Some (h_zrank true d parts)
  else if beq name (bs "ZRANGE") then Some (h_zrange false d parts)
  else if beq name (bs "ZREVRANGE") then Some (h_zrange true d parts)
  else if beq name (bs "ZRANGEBYSCORE") then Some (h_zrangebyscore false d parts oracle)
  else if beq name (bs "ZREVRANGEBYSCORE") then Some (h_zrangebyscore true d parts oracle)
  else if beq name (bs "ZCOUNT") then Some (h_zcount d parts oracle)
  else if beq name (bs "ZINCRBY") then Some (h_zincrby d parts oracle)
  else if beq name (bs "ZPOPMIN") then Some (h_zpop 0 d parts)
  else if beq name (bs "ZPOPMAX") then Some (h_zpop (-1) d parts)
  else None.
