(** Proofs for C11 (the append-only file): framing of the file, the logging
    discipline of process_normal_command / EXEC, inertness of the commands that are not
    logged (the completeness obligation over Generated.write_commands), and the replay
    theorem.  Statements are collected in Props/C11.v. *)
From Ferrous Require Import Base.Bytes Generated Model.Resp Model.Types Model.Glob Model.Strings
  Model.Lists Model.ZSets Model.Streams Model.Scan Model.Lua Model.Server Model.Conn Model.Aof
  Proofs.BytesFacts Proofs.RespFacts Proofs.StringsFacts Proofs.ListsFacts Proofs.ServerFacts
  Proofs.ConnFacts Proofs.GroupFacts.
From Coq Require Import ZifyBool.
Open Scope Z_scope.

(** ================= 1. the file is a sequence of whole frames ================= *)

Lemma aof_file_replies log : aof_file log = write_replies (map FArray log).
Proof.
  unfold aof_file. induction log as [|p log IH]; [reflexivity|].
  cbn [map concat]. rewrite IH. reflexivity.
Qed.
Lemma aof_file_app a b : aof_file (a ++ b) = aof_file a ++ aof_file b.
Proof. unfold aof_file. rewrite map_app, concat_app. reflexivity. Qed.
Lemma aof_file_snoc log p : aof_file (log ++ [p]) = aof_file log ++ aof_frame p.
Proof. rewrite aof_file_app. unfold aof_file at 2. cbn [map concat]. rewrite app_nil_r. reflexivity. Qed.

(** a command as it can arrive from the wire: a frame the codec round-trips *)
Definition wire_cmd (parts : list frame) : Prop := wfb' max_levels (FArray parts) = true.

Lemma forallb_map_id {A} (g : A -> A) (p : A -> bool) l :
  (forall x, In x l -> p x = true -> g x = x) -> forallb p l = true -> map g l = l.
Proof.
  induction l as [|x l IH]; intros Hg Hp; [reflexivity|].
  cbn [forallb] in Hp. apply andb_prop in Hp as [H1 H2]. cbn [map].
  rewrite (Hg x (or_introl eq_refl) H1), IH; auto. intros y Hy. apply Hg. right; exact Hy.
Qed.
(** such a frame carries no CR / LF in a line payload: it reads back as itself *)
Lemma wfb_sanitize : forall f d, wfb' d f = true -> sanitize f = f.
Proof.
  induction f using frame_ind'; intros [|d'] Hb; cbn [wfb] in Hb; try discriminate; try reflexivity.
  - cbn [sanitize]. rewrite clean_id by exact Hb. reflexivity.
  - cbn [sanitize]. rewrite clean_id by exact Hb. reflexivity.
  - apply andb_prop in Hb as [_ H2]. cbn [sanitize]. f_equal.
    apply (forallb_map_id sanitize (wfb' d')); [|exact H2].
    intros x Hx Hw. rewrite Forall_forall in H. exact (H x Hx d' Hw).
  - apply andb_prop in Hb as [_ H2]. cbn [sanitize]. f_equal.
    apply (forallb_map_id sanitize (wfb' d')); [|exact H2].
    intros x Hx Hw. rewrite Forall_forall in H. exact (H x Hx d' Hw).
  - apply andb_prop in Hb as [_ H2]. cbn [sanitize]. f_equal.
    apply (forallb_map_id sanitize (wfb' d')); [|exact H2].
    intros x Hx Hw. rewrite Forall_forall in H. exact (H x Hx d' Hw).
Qed.
Lemma wire_sendable parts : wire_cmd parts -> sendable (FArray parts) /\ sanitize (FArray parts) = FArray parts.
Proof.
  intros H. pose proof (wfb_sanitize _ _ H) as Hs. split; [|exact Hs]. unfold sendable. rewrite Hs. exact H.
Qed.

(** decoding the file gives back exactly the logged commands, and nothing is left over *)
Lemma aof_decode_log log : Forall wire_cmd log ->
  aof_decode (aof_file log) = (map FArray log, NeedMore, []).
Proof.
  intros H. unfold aof_decode, drain_buf. rewrite aof_file_replies.
  rewrite drain_replies; [| |lia].
  - cbn [rev app]. f_equal. f_equal. rewrite map_map. apply map_ext_in. intros p Hp.
    rewrite Forall_forall in H. apply (wire_sendable p (H p Hp)).
  - rewrite Forall_forall in *. intros f Hf. apply in_map_iff in Hf as (p & <- & Hp).
    apply (wire_sendable p (H p Hp)).
Qed.
(** every append adds one whole frame: the longer file decodes to the old commands plus the new one *)
Lemma aof_append_whole log p : Forall wire_cmd log -> wire_cmd p ->
  aof_decode (aof_file log ++ aof_frame p) = (map FArray log ++ [FArray p], NeedMore, []).
Proof.
  intros Hl Hp. rewrite <- aof_file_snoc, aof_decode_log, map_app; [reflexivity|].
  apply Forall_app. split; [exact Hl|constructor; [exact Hp|constructor]].
Qed.
(** commands made of bulk strings only (what every client library sends) are wire commands
    as long as the lengths fit *)
Lemma wfb_array_unfold d l : wfb' (S d) (FArray l) = (len l <=? i64_max) && forallb (wfb' d) l.
Proof. reflexivity. Qed.
Lemma wfb_bulk_unfold d a : wfb' (S d) (FBulk a) = (len a <=? i64_max).
Proof. reflexivity. Qed.
Lemma bulk_cmd_wire (args : list bytes) :
  len args <= i64_max -> Forall (fun a => len a <= i64_max) args -> wire_cmd (map FBulk args).
Proof.
  intros Hn Ha. unfold wire_cmd. change max_levels with (S (S 31)). rewrite wfb_array_unfold, len_map.
  apply andb_true_intro. split; [lia|]. apply forallb_forall. intros f Hf.
  apply in_map_iff in Hf as (a & <- & Hin). rewrite Forall_forall in Ha. specialize (Ha a Hin).
  rewrite wfb_bulk_unfold. lia.
Qed.

(** ================= 2. the logging discipline ================= *)
(** is the command appended: its upper-cased name is in the generated table *)
Definition is_logged (parts : list frame) : bool :=
  match parts with FBulk nm :: _ => mem_name (upper nm) write_commands | _ => false end.

(** what append_command(parts, db) adds to the log (newest first): the command, preceded by a
    SELECT record when the database differs from that of the last command written *)
Definition aof_push (log : list (list frame)) (dbi : Z) (parts : list frame) : list (list frame) :=
  parts :: (if same_db (aof_last_db log) dbi then log else aof_select dbi :: log).
Lemma s_aof_log_aof_in s dbi parts : s_aof (log_aof_in s dbi parts) = aof_push (s_aof s) dbi parts.
Proof. unfold log_aof_in, aof_push. destruct (same_db _ _); reflexivity. Qed.

(** process_normal_command appends the command once, before dispatch, iff it is a write
    command by name - whatever it answers *)
Lemma dc_aof now s c dbi parts o :
  s_aof (snd (dispatch_command now s c dbi parts o)) =
  if is_logged parts then aof_push (s_aof s) dbi parts else s_aof s.
Proof.
  unfold dispatch_command, is_logged.
  destruct parts as [|first rest]; [reflexivity|]. destruct first; try reflexivity.
  set (s0 := if mem_name (upper b) write_commands then log_aof_in s dbi (FBulk b :: rest) else s).
  assert (H0 : s_aof s0 = if mem_name (upper b) write_commands then aof_push (s_aof s) dbi (FBulk b :: rest) else s_aof s).
  { unfold s0. destruct (mem_name (upper b) write_commands); [apply s_aof_log_aof_in|reflexivity]. }
  rewrite <- H0. clear H0. generalize s0. clear s0. intros s0.
  destruct (beq (upper b) (bs "PING")); [reflexivity|].
  destruct (beq (upper b) (bs "ECHO")); [reflexivity|].
  destruct (beq (upper b) (bs "SELECT")).
  { destruct rest as [|a [|? ?]]; try reflexivity; try (destruct a; reflexivity).
    destruct a; try reflexivity.
    destruct (parse_usize b0); [|reflexivity]. destruct (16 <=? z); [reflexivity|].
    destruct (zlookup c (s_conns s0)); reflexivity. }
  destruct (beq (upper b) (bs "FLUSHALL")).
  { destruct (negb (len (FBulk b :: rest) =? 1)); reflexivity. }
  destruct (beq (upper b) (bs "RANDOMKEY")); [reflexivity|].
  destruct (beq (upper b) (bs "AUTH")).
  { destruct (h_auth s0 0 (FBulk b :: rest)) as [r1 s1] eqn:E.
    destruct (auth_per_connection _ _ _ _ _ E) as (_ & _ & _ & Ha & _). exact Ha. }
  destruct (beq (upper b) (bs "QUIT")); [reflexivity|].
  destruct (beq (upper b) (bs "VERIF")); [reflexivity|].
  destruct (exec_db now (get_db s0 dbi) (upper b) (FBulk b :: rest) o) as [[r0 d']|]; reflexivity.
Qed.

Lemma nc_aof now s c dbi parts o :
  s_aof (snd (normal_command now s c dbi parts o)) =
  if is_logged parts then aof_push (s_aof s) dbi parts else s_aof s.
Proof.
  unfold normal_command. destruct parts as [|[] rest]; try reflexivity.
  rewrite dc_aof. destruct (lazy_expire_rest now s dbi (upper b) (FBulk b :: rest)) as (_ & _ & Ha & _).
  rewrite Ha. reflexivity.
Qed.

(** ================= 3. commands that are not logged leave the database alone ================= *)
(** [lazy_removed now d d']: d' is d without some entries that had already expired at [now]
    (the lazy expiry of get: data entry and deadline-index entry removed) *)
Inductive lazy_removed (now : Z) : db -> db -> Prop :=
| lr_refl d : lazy_removed now d d
| lr_step d k d' : was_expired now d k = true ->
    lazy_removed now (index_del (del_entry d k) k) d' -> lazy_removed now d d'.

Lemma lr_trans now a b c : lazy_removed now a b -> lazy_removed now b c -> lazy_removed now a c.
Proof. induction 1; intros Hc; [exact Hc|]. eapply lr_step; eauto. Qed.
Lemma lr_one now d k : was_expired now d k = true -> lazy_removed now d (index_del (del_entry d k) k).
Proof. intros H. eapply lr_step; [exact H|apply lr_refl]. Qed.

(** every entry of d' is an entry of d *)
Lemma lr_sub now d d' : lazy_removed now d d' ->
  forall k e, get_entry d' k = Some e -> get_entry d k = Some e.
Proof.
  induction 1 as [|d k0 d' Hx _ IH]; intros k e He; [exact He|].
  specialize (IH k e He). rewrite get_entry_index_del in IH.
  destruct (beq k k0) eqn:E.
  - apply beq_eq in E. subst. rewrite get_entry_del_same in IH. discriminate.
  - rewrite get_entry_del_other in IH by exact E. exact IH.
Qed.

(** no entry of the database has expired *)
Definition fresh (now : Z) (d : db) : bool := forallb (fun ke => negb (expired now (snd ke))) (d_data d).
Lemma alookup_In' {A} k (l : list (bytes * A)) v : alookup k l = Some v -> exists k', In (k', v) l.
Proof.
  induction l as [|[k' v'] l IH]; cbn [alookup]; [discriminate|].
  destruct (beq k k'); intros H.
  - inversion H; subst. exists k'. left; reflexivity.
  - destruct (IH H) as (k2 & Hin). exists k2. right; exact Hin.
Qed.
Lemma fresh_not_expired now d k : fresh now d = true -> was_expired now d k = false.
Proof.
  unfold fresh, was_expired, get_entry. intros H. destruct (alookup k (d_data d)) as [e|] eqn:E; [|reflexivity].
  destruct (alookup_In' _ _ _ E) as (k' & Hin). rewrite forallb_forall in H.
  specialize (H _ Hin). cbn [snd] in H. apply negb_true_iff in H. exact H.
Qed.
(** on a database without expired entries lazy expiry removes nothing *)
Lemma lr_fresh now d d' : fresh now d = true -> lazy_removed now d d' -> d' = d.
Proof.
  intros Hf H. destruct H as [|d k d' Hx _]; [reflexivity|].
  rewrite (fresh_not_expired now d k Hf) in Hx. discriminate.
Qed.

Lemma lr_eng_get now d k g d' : eng_get now d k = (g, d') -> lazy_removed now d d'.
Proof.
  unfold eng_get. intros H. destruct (get_entry d k) as [e|] eqn:E.
  - destruct (expired now e) eqn:Ex; inversion H; subst; [|apply lr_refl].
    apply lr_one. unfold was_expired. rewrite E. exact Ex.
  - inversion H; subst. apply lr_refl.
Qed.
Lemma lr_get_string now d k g d' : get_string now d k = (g, d') -> lazy_removed now d d'.
Proof.
  unfold get_string. intros H. destruct (eng_get now d k) as [g1 d1] eqn:E.
  apply lr_eng_get in E. destruct g1 as [v| |]; [destruct v|..]; inversion H; subst; exact E.
Qed.
Lemma lr_get_stream now d k g d' : get_stream now d k = (g, d') -> lazy_removed now d d'.
Proof.
  unfold get_stream. intros H. destruct (eng_get now d k) as [g1 d1] eqn:E.
  apply lr_eng_get in E. destruct g1 as [v| |]; [destruct v|..]; inversion H; subst; exact E.
Qed.

(** a handler is inert: whatever it answers, the database is the old one up to lazy expiry *)
Ltac inert_step :=
  match goal with
  | H : (_, _) = (_, _) |- _ => inversion H; clear H; subst
  | H : Some _ = Some _ |- _ => inversion H; clear H; subst
  | H : context [get_string ?now ?d ?k] |- _ =>
      let E := fresh "Eg" in destruct (get_string now d k) as [? ?] eqn:E; apply lr_get_string in E
  | H : context [get_stream ?now ?d ?k] |- _ =>
      let E := fresh "Eg" in destruct (get_stream now d k) as [? ?] eqn:E; apply lr_get_stream in E
  | H : context [eng_get ?now ?d ?k] |- _ =>
      let E := fresh "Eg" in destruct (eng_get now d k) as [? ?] eqn:E; apply lr_eng_get in E
  | H : context [if ?c then _ else _] |- _ => destruct c eqn:?
  | H : context [match ?x with _ => _ end] |- _ => destruct x eqn:?
  end.
Ltac inert := intros; repeat inert_step; try discriminate; try assumption; try apply lr_refl.

(** ---- string / key family ---- *)
Lemma h_get_inert now d parts r d' : h_get now d parts = (r, d') -> lazy_removed now d d'.
Proof. unfold h_get. inert. Qed.
Lemma h_exists_inert now d parts r d' : h_exists now d parts = (r, d') -> lazy_removed now d d'.
Proof. unfold h_exists. inert. Qed.
Lemma h_ttl_inert now d parts r d' : h_ttl now d parts = (r, d') -> lazy_removed now d d'.
Proof. unfold h_ttl. inert. Qed.
Lemma h_pttl_inert now d parts r d' : h_pttl now d parts = (r, d') -> lazy_removed now d d'.
Proof. unfold h_pttl. inert. Qed.
Lemma mget_loop_inert now : forall args d acc r d', mget_loop now d args acc = (r, d') -> lazy_removed now d d'.
Proof.
  induction args as [|a args IH]; intros d acc r d' H; cbn [mget_loop] in H.
  - inversion H; subst. apply lr_refl.
  - destruct a; try (inversion H; subst; apply lr_refl).
    destruct (get_string now d b) as [g d1] eqn:E. apply lr_get_string in E.
    destruct g as [[x|]|]; [eapply lr_trans; [exact E|eapply IH; exact H]..|inversion H; subst; exact E].
Qed.
Lemma h_mget_inert now d parts r d' : h_mget now d parts = (r, d') -> lazy_removed now d d'.
Proof.
  unfold h_mget. intros H. destruct (nparts parts <? 2); [inversion H; subst; apply lr_refl|].
  eapply mget_loop_inert; exact H.
Qed.
Lemma h_strlen_inert now d parts r d' : h_strlen d parts = (r, d') -> lazy_removed now d d'.
Proof. unfold h_strlen. inert. Qed.
Lemma h_getrange_inert now d parts r d' : h_getrange d parts = (r, d') -> lazy_removed now d d'.
Proof. unfold h_getrange. inert. Qed.
Lemma h_type_inert now d parts r d' : h_type d parts = (r, d') -> lazy_removed now d d'.
Proof. unfold h_type. inert. Qed.
Lemma h_keys_inert now d parts r d' : h_keys d parts = (r, d') -> lazy_removed now d d'.
Proof. unfold h_keys. inert. Qed.
Lemma h_dbsize_inert now d parts r d' : h_dbsize d parts = (r, d') -> lazy_removed now d d'.
Proof. unfold h_dbsize. inert. Qed.


(** walk down an [if beq name (bs "X") then .. else ..] dispatcher: a branch whose name is a
    write command contradicts the hypothesis, the other branches are left as goals *)
Ltac chain H Hw :=
  repeat match type of H with
  | (if beq ?n ?c then _ else _) = _ =>
      let E := fresh "E" in
      destruct (beq n c) eqn:E;
      [ apply beq_eq in E; subst n; try (exfalso; vm_compute in Hw; discriminate Hw) | clear E ]
  end.

Lemma exec_strings_inert now d name parts r d' :
  mem_name name write_commands = false ->
  exec_strings now d name parts = Some (r, d') -> lazy_removed now d d'.
Proof.
  unfold exec_strings. intros Hw H. chain H Hw; try discriminate; inversion H as [H1]; clear H;
  eauto using h_get_inert, h_exists_inert, h_ttl_inert, h_pttl_inert, h_mget_inert, h_strlen_inert,
    h_getrange_inert, h_type_inert, h_keys_inert, h_dbsize_inert.
Qed.

(** ---- lists / sets / hashes: the engine verdict of every read is Keep ---- *)
Lemma on_key_keep d k f : (forall cur, snd (f cur) = Keep) -> snd (on_key d k f) = d.
Proof.
  intros Hk. unfold on_key. specialize (Hk (option_map e_val (get_entry d k))).
  destruct (f (option_map e_val (get_entry d k))) as [r u]. cbn [snd] in *. subst u. reflexivity.
Qed.
Ltac keep_step :=
  match goal with
  | H : (_, _) = (_, _) |- _ => inversion H; clear H; subst
  | H : on_key ?d ?k ?f = (_, ?d') |- _ =>
      let K := fresh "K" in
      assert (K : snd (on_key d k f) = d) by (apply on_key_keep; auto);
      rewrite H in K; cbn [snd] in K; subst; clear H
  | H : context [if ?c then _ else _] |- _ => destruct c eqn:?
  | H : context [match ?x with _ => _ end] |- _ => destruct x eqn:?
  end.
Ltac keep := intros; repeat keep_step; try discriminate; try reflexivity.
Ltac keep_e := intros [[ | | | | | ]|]; red_reply; repeat break_match; reflexivity.

Lemma keep_llen : forall cur, snd (e_llen cur) = Keep. Proof. unfold e_llen. keep_e. Qed.
Lemma keep_lrange s e : forall cur, snd (e_lrange s e cur) = Keep. Proof. unfold e_lrange. keep_e. Qed.
Lemma keep_lindex i : forall cur, snd (e_lindex i cur) = Keep. Proof. unfold e_lindex. keep_e. Qed.
Lemma keep_smembers : forall cur, snd (e_smembers cur) = Keep. Proof. unfold e_smembers. keep_e. Qed.
Lemma keep_sismember m : forall cur, snd (e_sismember m cur) = Keep. Proof. unfold e_sismember. keep_e. Qed.
Lemma keep_scard : forall cur, snd (e_scard cur) = Keep. Proof. unfold e_scard. keep_e. Qed.
Lemma keep_srandmember c o : forall cur, snd (e_srandmember c o cur) = Keep. Proof. intros cur. apply srandmember_readonly. Qed.
Lemma keep_hget f : forall cur, snd (e_hget f cur) = Keep. Proof. unfold e_hget. keep_e. Qed.
Lemma keep_hmget fs : forall cur, snd (e_hmget fs cur) = Keep. Proof. unfold e_hmget. keep_e. Qed.
Lemma keep_hgetall : forall cur, snd (e_hgetall cur) = Keep. Proof. unfold e_hgetall. keep_e. Qed.
Lemma keep_hlen : forall cur, snd (e_hlen cur) = Keep. Proof. unfold e_hlen. keep_e. Qed.
Lemma keep_hexists f : forall cur, snd (e_hexists f cur) = Keep. Proof. unfold e_hexists. keep_e. Qed.
Lemma keep_hkeys : forall cur, snd (e_hkeys cur) = Keep. Proof. unfold e_hkeys. keep_e. Qed.
Lemma keep_hvals : forall cur, snd (e_hvals cur) = Keep. Proof. unfold e_hvals. keep_e. Qed.
#[local] Hint Resolve keep_llen keep_lrange keep_lindex keep_smembers keep_sismember keep_scard keep_srandmember
  keep_hget keep_hmget keep_hgetall keep_hlen keep_hexists keep_hkeys keep_hvals : core.

Lemma h_key1_keep f d parts r d' : (forall cur, snd (f cur) = Keep) -> h_key1 f d parts = (r, d') -> d' = d.
Proof. unfold h_key1. keep. Qed.
Lemma h_key_bulk_keep f d parts r d' : (forall a cur, snd (f a cur) = Keep) -> h_key_bulk f d parts = (r, d') -> d' = d.
Proof. unfold h_key_bulk. keep. Qed.
Lemma h_range_keep f d parts r d' : (forall s e cur, snd (f s e cur) = Keep) -> h_range f d parts = (r, d') -> d' = d.
Proof. unfold h_range. keep. Qed.
Lemma h_lindex_keep d parts r d' : h_lindex d parts = (r, d') -> d' = d.
Proof. unfold h_lindex. keep. Qed.
Lemma h_setalg_keep f d parts r d' : h_setalg f d parts = (r, d') -> d' = d.
Proof. unfold h_setalg. keep. Qed.
Lemma h_srandmember_keep d parts o r d' : h_srandmember d parts o = (r, d') -> d' = d.
Proof. unfold h_srandmember. keep. Qed.
Lemma h_hmget_keep d parts r d' : h_hmget d parts = (r, d') -> d' = d.
Proof. unfold h_hmget. keep. Qed.

Lemma exec_lists_inert now d name parts o r d' :
  mem_name name write_commands = false ->
  exec_lists now d name parts o = Some (r, d') -> d' = d.
Proof.
  unfold exec_lists. intros Hw H. chain H Hw; try discriminate; inversion H as [H1]; clear H;
  eauto using h_key1_keep, h_key_bulk_keep, h_range_keep, h_lindex_keep, h_setalg_keep, h_srandmember_keep,
    h_hmget_keep.
Qed.

(** ---- streams ---- *)
Lemma h_xrange_inert now d parts r d' : h_xrange d parts = (r, d') -> lazy_removed now d d'.
Proof. unfold h_xrange. inert. Qed.
Lemma h_xrevrange_inert now d parts r d' : h_xrevrange d parts = (r, d') -> lazy_removed now d d'.
Proof. unfold h_xrevrange. inert. Qed.
Lemma h_xlen_inert now d parts r d' : h_xlen d parts = (r, d') -> lazy_removed now d d'.
Proof. unfold h_xlen. inert. Qed.
Lemma h_xread_inert now d parts r d' : h_xread d parts = (r, d') -> lazy_removed now d d'.
Proof. unfold h_xread. inert. Qed.
Lemma h_xpending_inert now d parts r d' : h_xpending now d parts = (r, d') -> lazy_removed now d d'.
Proof. unfold h_xpending. inert. Qed.
Lemma h_xinfo_inert now d parts r d' : h_xinfo now d parts = (r, d') -> lazy_removed now d d'.
Proof. unfold h_xinfo. inert. Qed.

Lemma exec_streams_inert now d name parts o r d' :
  mem_name name write_commands = false ->
  exec_streams now d name parts o = Some (r, d') -> lazy_removed now d d'.
Proof.
  unfold exec_streams. intros Hw H. chain H Hw; try discriminate; inversion H as [H1]; clear H;
  eauto using h_xrange_inert, h_xrevrange_inert, h_xlen_inert, h_xread_inert, h_xpending_inert, h_xinfo_inert.
Qed.

(** ---- SCAN family ---- *)
Lemma eng_hscan_inert now d k c p n nv g d' : eng_hscan now d k c p n nv = (g, d') -> lazy_removed now d d'.
Proof. unfold eng_hscan. inert. Qed.
Lemma eng_sscan_inert now d k c p n g d' : eng_sscan now d k c p n = (g, d') -> lazy_removed now d d'.
Proof. unfold eng_sscan. inert. Qed.
Lemma eng_zscan_inert now d k c p n g d' : eng_zscan now d k c p n = (g, d') -> lazy_removed now d d'.
Proof. unfold eng_zscan. inert. Qed.
Lemma h_scan_inert now d parts r d' : h_scan now d parts = (r, d') -> lazy_removed now d d'.
Proof. unfold h_scan. inert. Qed.
Lemma h_hscan_inert now d parts r d' : h_hscan now d parts = (r, d') -> lazy_removed now d d'.
Proof.
  unfold h_hscan. intros H. destruct (kscan_parse true parts); [|inversion H; subst; apply lr_refl].
  destruct (eng_hscan now d key cursor pat count nov) as [g d1] eqn:E. apply eng_hscan_inert in E.
  destruct g as [[? ?]|]; inversion H; subst; exact E.
Qed.
Lemma h_sscan_inert now d parts r d' : h_sscan now d parts = (r, d') -> lazy_removed now d d'.
Proof.
  unfold h_sscan. intros H. destruct (kscan_parse false parts); [|inversion H; subst; apply lr_refl].
  destruct (eng_sscan now d key cursor pat count) as [g d1] eqn:E. apply eng_sscan_inert in E.
  destruct g as [[? ?]|]; inversion H; subst; exact E.
Qed.
Lemma h_zscan_inert now d parts o r d' : h_zscan now d parts o = (r, d') -> lazy_removed now d d'.
Proof.
  unfold h_zscan. intros H. destruct (kscan_parse false parts); [|inversion H; subst; apply lr_refl].
  destruct (eng_zscan now d key cursor pat count) as [g d1] eqn:E. apply eng_zscan_inert in E.
  destruct g as [[? ?]|]; inversion H; subst; exact E.
Qed.
Lemma exec_scan_inert now d name parts o r d' :
  exec_scan now d name parts o = Some (r, d') -> lazy_removed now d d'.
Proof.
  unfold exec_scan. intros H.
  repeat match type of H with (if ?c then _ else _) = _ => destruct c end;
  try discriminate; inversion H as [H1]; clear H;
  eauto using h_scan_inert, h_hscan_inert, h_sscan_inert, h_zscan_inert.
Qed.

(** ---- sorted sets: no engine function of this family consults the clock or removes a key
    on a read ---- *)
Lemma h_zscore_inert now d parts r d' : h_zscore d parts = (r, d') -> lazy_removed now d d'.
Proof. unfold h_zscore. inert. Qed.
Lemma h_zcard_inert now d parts r d' : h_zcard d parts = (r, d') -> lazy_removed now d d'.
Proof. unfold h_zcard. inert. Qed.
Lemma h_zrank_inert now b d parts r d' : h_zrank b d parts = (r, d') -> lazy_removed now d d'.
Proof. unfold h_zrank. inert. Qed.
Lemma h_zrange_inert now b d parts r d' : h_zrange b d parts = (r, d') -> lazy_removed now d d'.
Proof. unfold h_zrange. inert. Qed.
Lemma h_zrangebyscore_inert now b d parts o r d' : h_zrangebyscore b d parts o = (r, d') -> lazy_removed now d d'.
Proof. unfold h_zrangebyscore. inert. Qed.
Lemma h_zcount_inert now d parts o r d' : h_zcount d parts o = (r, d') -> lazy_removed now d d'.
Proof. unfold h_zcount. inert. Qed.
Lemma exec_zsets_inert now d name parts o r d' :
  mem_name name write_commands = false ->
  exec_zsets now d name parts o = Some (r, d') -> lazy_removed now d d'.
Proof.
  unfold exec_zsets. intros Hw H. chain H Hw; try discriminate; inversion H as [H1]; clear H;
  eauto using h_zscore_inert, h_zcard_inert, h_zrank_inert, h_zrange_inert, h_zrangebyscore_inert, h_zcount_inert.
Qed.
(** ---- scripts: EVAL and EVALSHA are in the table; SCRIPT (cache management, outside the
    dataset) answers without touching the database ---- *)
Lemma exec_scripts_inert now d name parts o r d' :
  mem_name name write_commands = false ->
  exec_scripts now d name parts o = Some (r, d') -> lazy_removed now d d'.
Proof.
  unfold exec_scripts. intros Hw H.
  destruct (beq name (bs "EVAL")) eqn:E.
  { apply beq_eq in E. subst name. exfalso. vm_compute in Hw. discriminate Hw. }
  destruct (beq name (bs "EVALSHA") || beq name (bs "SCRIPT")); [|discriminate].
  inversion H; subst. apply lr_refl.
Qed.

(** THE COMPLETENESS OBLIGATION over the generated table: a command of the modelled dispatch
    (strings/keys, lists/sets/hashes, sorted sets, streams/groups, SCAN family, scripts) whose
    name is NOT in [Generated.write_commands] leaves the database unchanged up to lazy removal
    of expired entries - no exception since 8d99f01.  Removing a name from the Rust matches!
    makes [mem_name name write_commands] false for it and this proof fails at that name's
    branch. *)
Lemma exec_db_inert now d name parts o r d' :
  mem_name name write_commands = false ->
  exec_db now d name parts o = Some (r, d') -> lazy_removed now d d'.
Proof.
  unfold exec_db. intros Hw H.
  destruct (exec_strings now d name parts) as [[r1 d1]|] eqn:E1.
  { inversion H; subst. eapply exec_strings_inert; eauto. }
  destruct (exec_lists now d name parts o) as [[r2 d2]|] eqn:E2.
  { inversion H; subst. rewrite (exec_lists_inert _ _ _ _ _ _ _ Hw E2). apply lr_refl. }
  destruct (exec_zsets now d name parts o) as [[r3 d3]|] eqn:E3.
  { inversion H; subst. eapply exec_zsets_inert; eauto. }
  destruct (exec_streams now d name parts o) as [[r4 d4]|] eqn:E4.
  { inversion H; subst. eapply exec_streams_inert; eauto. }
  destruct (exec_scan now d name parts o) as [[r5 d5]|] eqn:E5.
  { inversion H; subst. eapply exec_scan_inert; eauto. }
  eapply exec_scripts_inert; eauto.
Qed.
Lemma exec_db_inert_fresh now d name parts o r d' :
  mem_name name write_commands = false ->
  fresh now d = true -> exec_db now d name parts o = Some (r, d') -> d' = d.
Proof. intros Hw Hf H. eapply lr_fresh; [exact Hf|]. eapply exec_db_inert; eauto. Qed.

(** ================= 4. what a command does, as a function of the databases ================= *)
Fixpoint fresh_all (now : Z) (dbs : list db) : bool :=
  match dbs with [] => true | d :: r => fresh now d && fresh_all now r end.
Lemma fresh_all_nth now : forall dbs i, fresh_all now dbs = true -> fresh now (nth i dbs empty_db) = true.
Proof.
  induction dbs as [|d dbs IH]; intros i H; [destruct i; reflexivity|].
  cbn [fresh_all] in H. apply andb_prop in H as [H1 H2]. destruct i; [exact H1|apply IH; exact H2].
Qed.
Lemma list_set_nth_same {A} (l : list A) : forall i dflt, list_set l i (nth i l dflt) = l.
Proof.
  induction l as [|x l IH]; intros i dflt; [destruct i; reflexivity|].
  destruct i; cbn [list_set nth]; [reflexivity|]. rewrite IH. reflexivity.
Qed.

(** the databases after the body of process_normal_command (after the lazy expiry) *)
Definition dstep_dbs (now : Z) (dbs : list db) (dbi : Z) (parts : list frame) (o : option frame) : list db :=
  match parts with
  | FBulk nm :: _ =>
      let name := upper nm in
      if beq name (bs "PING") then dbs
      else if beq name (bs "ECHO") then dbs
      else if beq name (bs "SELECT") then dbs
      else if beq name (bs "FLUSHALL") then (if negb (len parts =? 1) then dbs else map (fun _ => empty_db) dbs)
      else if beq name (bs "RANDOMKEY") then dbs
      else if beq name (bs "AUTH") then dbs
      else if beq name (bs "QUIT") then dbs
      else if beq name (bs "VERIF") then dbs
      else match exec_db now (nth (Z.to_nat dbi) dbs empty_db) name parts o with
           | Some (_, d') => list_set dbs (Z.to_nat dbi) d'
           | None => dbs
           end
  | _ => dbs
  end.

(** lazy expiry before the command (bdd75e8): the keys its arguments name - for the key-space
    commands every key the index reports due - are dropped from the selected database first *)
Definition pre_dbs (now : Z) (dbs : list db) (dbi : Z) (name : bytes) (parts : list frame) : list db :=
  if lazy_expiry_before_dispatch
  then list_set dbs (Z.to_nat dbi) (fst (expire_before now (nth (Z.to_nat dbi) dbs empty_db) name parts))
  else dbs.
(** the databases after a command run in database [dbi]: mirrors process_normal_command *)
Definition step_dbs (now : Z) (dbs : list db) (dbi : Z) (parts : list frame) (o : option frame) : list db :=
  match parts with
  | FBulk nm :: _ => dstep_dbs now (pre_dbs now dbs dbi (upper nm) parts) dbi parts o
  | _ => dbs
  end.
Lemma purge_key_fresh now d l k : fresh now d = true -> purge_key now (d, l) k = (d, l).
Proof.
  intros F. unfold purge_key. cbn [fst snd]. destruct (get_entry d k) as [e|] eqn:E; [|reflexivity].
  pose proof (fresh_not_expired now d k F) as H. unfold was_expired in H. rewrite E in H. rewrite H. reflexivity.
Qed.
Lemma purge_fold_fresh_id now d : fresh now d = true -> forall ks l, fold_left (purge_key now) ks (d, l) = (d, l).
Proof. intros F. induction ks as [|k ks IH]; intros l; [reflexivity|]. cbn [fold_left]. rewrite purge_key_fresh by exact F. apply IH. Qed.
Lemma expire_before_id now d name parts : fresh now d = true -> expire_before now d name parts = (d, []).
Proof.
  intros F. unfold expire_before, purge_due.
  assert (E : (if lazy_expires_every_arg then fold_left (purge_key now) (lazy_args parts) (d, []) else (d, [])) = (d, []))
    by (destruct lazy_expires_every_arg; [apply purge_fold_fresh_id; exact F|reflexivity]).
  rewrite E. destruct (bmem name lazy_keyspace_commands); [|reflexivity]. cbn [fst]. apply purge_fold_fresh_id; exact F.
Qed.
Lemma pre_dbs_fresh now dbs dbi name parts : fresh_all now dbs = true -> pre_dbs now dbs dbi name parts = dbs.
Proof.
  intros F. unfold pre_dbs. destruct lazy_expiry_before_dispatch; [|reflexivity].
  rewrite (expire_before_id now _ name parts (fresh_all_nth now dbs _ F)). apply list_set_nth_same.
Qed.
Lemma lazy_expire_dbs now s dbi name parts :
  s_dbs (lazy_expire now s dbi name parts) = pre_dbs now (s_dbs s) dbi name parts.
Proof.
  unfold lazy_expire, pre_dbs. destruct lazy_expiry_before_dispatch; [|reflexivity].
  unfold get_db. destruct (expire_before now (nth (Z.to_nat dbi) (s_dbs s) empty_db) name parts). reflexivity.
Qed.

Lemma dc_dbs now s c dbi parts o :
  s_dbs (snd (dispatch_command now s c dbi parts o)) = dstep_dbs now (s_dbs s) dbi parts o.
Proof.
  unfold dispatch_command, dstep_dbs.
  destruct parts as [|first rest]; [reflexivity|]. destruct first; try reflexivity.
  set (s0 := if mem_name (upper b) write_commands then log_aof_in s dbi (FBulk b :: rest) else s).
  assert (H0 : s_dbs s0 = s_dbs s)
    by (unfold s0; destruct (mem_name (upper b) write_commands); [unfold log_aof_in; destruct (same_db _ _)|]; reflexivity).
  rewrite <- H0. clear H0. generalize s0. clear s0. intros s0.
  destruct (beq (upper b) (bs "PING")); [reflexivity|].
  destruct (beq (upper b) (bs "ECHO")); [reflexivity|].
  destruct (beq (upper b) (bs "SELECT")).
  { destruct rest as [|a [|? ?]]; try reflexivity; try (destruct a; reflexivity).
    destruct a; try reflexivity.
    destruct (parse_usize b0); [|reflexivity]. destruct (16 <=? z); [reflexivity|].
    destruct (zlookup c (s_conns s0)); reflexivity. }
  destruct (beq (upper b) (bs "FLUSHALL")).
  { destruct (negb (len (FBulk b :: rest) =? 1)); reflexivity. }
  destruct (beq (upper b) (bs "RANDOMKEY")); [reflexivity|].
  destruct (beq (upper b) (bs "AUTH")).
  { destruct (h_auth s0 0 (FBulk b :: rest)) as [r1 s1] eqn:E.
    destruct (auth_per_connection _ _ _ _ _ E) as (Hd & _). exact Hd. }
  destruct (beq (upper b) (bs "QUIT")); [reflexivity|].
  destruct (beq (upper b) (bs "VERIF")); [reflexivity|].
  unfold get_db. destruct (exec_db now (nth (Z.to_nat dbi) (s_dbs s0) empty_db) (upper b) (FBulk b :: rest) o) as [[r0 d']|];
    reflexivity.
Qed.

Lemma nc_dbs now s c dbi parts o :
  s_dbs (snd (normal_command now s c dbi parts o)) = step_dbs now (s_dbs s) dbi parts o.
Proof.
  unfold normal_command, step_dbs. destruct parts as [|[] rest]; try reflexivity.
  rewrite dc_dbs, lazy_expire_dbs. reflexivity.
Qed.

(** ---- the domain of the replay theorems ---- *)
(** names outside it: SPOP (random outcome) and EVALSHA (logged by hash; the script cache is not
    part of the dataset) *)
Definition replay_excluded : list bytes := [bs "SPOP"; bs "EVALSHA"].
(** XADD with an auto-generated ID (time dependent) *)
Definition auto_id (parts : list frame) : bool :=
  match parts with _ :: _ :: FBulk i :: _ => beq i (bs "*") | _ => false end.
Definition cmd_ok (parts : list frame) : bool :=
  match parts with
  | FBulk nm :: _ => negb (mem_name (upper nm) replay_excluded)
                     && negb (beq (upper nm) (bs "XADD") && auto_id parts)
  | _ => true
  end.

(** a command that is not logged, run on databases without expired entries, changes nothing *)
Lemma step_dbs_unlogged now dbs dbi parts o :
  is_logged parts = false -> fresh_all now dbs = true -> step_dbs now dbs dbi parts o = dbs.
Proof.
  unfold step_dbs, is_logged. intros Hl Hf.
  destruct parts as [|first rest]; [reflexivity|]. destruct first; try reflexivity.
  rewrite (pre_dbs_fresh now dbs dbi _ _ Hf). unfold dstep_dbs.
  destruct (beq (upper b) (bs "PING")); [reflexivity|].
  destruct (beq (upper b) (bs "ECHO")); [reflexivity|].
  destruct (beq (upper b) (bs "SELECT")); [reflexivity|].
  destruct (beq (upper b) (bs "FLUSHALL")) eqn:E.
  { apply beq_eq in E. rewrite E in Hl. vm_compute in Hl. discriminate. }
  destruct (beq (upper b) (bs "RANDOMKEY")); [reflexivity|].
  destruct (beq (upper b) (bs "AUTH")); [reflexivity|].
  destruct (beq (upper b) (bs "QUIT")); [reflexivity|].
  destruct (beq (upper b) (bs "VERIF")); [reflexivity|].
  destruct (exec_db now (nth (Z.to_nat dbi) dbs empty_db) (upper b) (FBulk b :: rest) o) as [[r d']|] eqn:Ex; [|reflexivity].
  rewrite (exec_db_inert_fresh _ _ _ _ _ _ _ Hl (fresh_all_nth now dbs _ Hf) Ex). apply list_set_nth_same.
Qed.

(** ---- the connection: password-less servers, SELECT ---- *)
Lemma h_auth_nopw s c parts : s_password s = None -> snd (h_auth s c parts) = s.
Proof.
  intros Hp. unfold h_auth. rewrite Hp.
  destruct parts as [|x [|y [|? ?]]]; try reflexivity; destruct y; reflexivity.
Qed.
(** the database a connection has selected after the command (process_normal_command's SELECT) *)
Definition sel_db (cur : Z) (parts : list frame) : Z :=
  match parts with
  | [FBulk nm; FBulk a] =>
      if beq (upper nm) (bs "SELECT") then
        match parse_usize a with Some n => if 16 <=? n then cur else n | None => cur end
      else cur
  | _ => cur
  end.
Definition db_ok (n : Z) : Prop := 0 <= n < 16.
Lemma sel_db_ok cur parts : db_ok cur -> db_ok (sel_db cur parts).
Proof.
  unfold sel_db, db_ok. intros H. destruct parts as [|[] [|[] [|? ?]]]; try exact H.
  destruct (beq (upper b) (bs "SELECT")); [|exact H].
  destruct (parse_usize b0) as [n|] eqn:E; [|exact H]. destruct (16 <=? n) eqn:E2; [exact H|].
  pose proof (parse_usize_nonneg _ _ E).
  lia.
Qed.

(** connection [c] after a command it sent itself (no password configured): still there, in
    the database [sel_db] says, with the same transaction state *)
Lemma sel_db_other cur b rest : beq (upper b) (bs "SELECT") = false -> sel_db cur (FBulk b :: rest) = cur.
Proof. unfold sel_db. intros E. destruct rest as [|[] [|? ?]]; try reflexivity. rewrite E. reflexivity. Qed.
Lemma dc_conn now s c dbi parts o cn :
  s_password s = None -> zlookup c (s_conns s) = Some cn ->
  let s' := snd (dispatch_command now s c dbi parts o) in
  s_password s' = None /\
  (exists cn', zlookup c (s_conns s') = Some cn' /\ c_db cn' = sel_db (c_db cn) parts /\
               c_intx cn' = c_intx cn /\ c_queue cn' = c_queue cn) /\
  (forall c', c' <> c -> zlookup c' (s_conns s') = zlookup c' (s_conns s)).
Proof.
  intros Hpw Hc. cbv zeta. unfold dispatch_command.
  assert (Same : forall s1, sel_db (c_db cn) parts = c_db cn -> s_password s1 = None -> s_conns s1 = s_conns s ->
            s_password s1 = None /\
            (exists cn', zlookup c (s_conns s1) = Some cn' /\ c_db cn' = sel_db (c_db cn) parts /\
                         c_intx cn' = c_intx cn /\ c_queue cn' = c_queue cn) /\
            (forall c', c' <> c -> zlookup c' (s_conns s1) = zlookup c' (s_conns s))).
  { intros s1 Hs Hp1 Hc1. split; [exact Hp1|]. rewrite Hc1. split; [exists cn; auto|auto]. }
  destruct parts as [|first rest]; [apply Same; auto|]. destruct first; try (apply Same; auto; fail).
  set (s0 := if mem_name (upper b) write_commands then log_aof_in s dbi (FBulk b :: rest) else s).
  assert (H0 : s_conns s0 = s_conns s /\ s_password s0 = None)
    by (unfold s0; destruct (mem_name (upper b) write_commands); [unfold log_aof_in; destruct (same_db _ _)|]; auto).
  destruct H0 as [Hc0' Hp0]. generalize dependent s0. intros s0 Hcs0 Hp0.
  destruct (beq (upper b) (bs "PING")) eqn:E1.
  { apply Same; auto. apply sel_db_other. apply beq_eq in E1. rewrite E1. reflexivity. }
  destruct (beq (upper b) (bs "ECHO")) eqn:E2.
  { apply Same; auto. apply sel_db_other. apply beq_eq in E2. rewrite E2. reflexivity. }
  destruct (beq (upper b) (bs "SELECT")) eqn:E3.
  { destruct rest as [|a [|? ?]];
      try (apply Same; auto; unfold sel_db; try destruct a; reflexivity);
      try (destruct a; apply Same; auto; reflexivity).
    destruct a; try (apply Same; auto; reflexivity).
    destruct (parse_usize b0) as [n|] eqn:Ep; [|apply Same; auto; unfold sel_db; rewrite E3, Ep; reflexivity].
    destruct (16 <=? n) eqn:En; [apply Same; auto; unfold sel_db; rewrite E3, Ep, En; reflexivity|].
    rewrite Hcs0, Hc. cbn [snd set_conn s_password s_conns]. split; [exact Hp0|]. split.
    - eexists. split; [apply zlookup_zset_same|]. cbn [c_db c_intx c_queue]. unfold sel_db. rewrite E3, Ep, En. auto.
    - intros c' Hn. rewrite zlookup_zset_other by exact Hn. rewrite Hcs0. reflexivity. }
  pose proof (sel_db_other (c_db cn) b rest E3) as Hsel.
  destruct (beq (upper b) (bs "FLUSHALL")).
  { destruct (negb (len (FBulk b :: rest) =? 1)); apply Same; auto. }
  destruct (beq (upper b) (bs "RANDOMKEY")); [apply Same; auto|].
  destruct (beq (upper b) (bs "AUTH")).
  { rewrite (h_auth_nopw s0 0 _ Hp0). apply Same; auto. }
  destruct (beq (upper b) (bs "QUIT")); [apply Same; auto|].
  destruct (beq (upper b) (bs "VERIF")); [apply Same; auto|].
  destruct (exec_db now (get_db s0 dbi) (upper b) (FBulk b :: rest) o) as [[r0 d']|]; apply Same; auto.
Qed.
Lemma nc_conn now s c dbi parts o cn :
  s_password s = None -> zlookup c (s_conns s) = Some cn ->
  let s' := snd (normal_command now s c dbi parts o) in
  s_password s' = None /\
  (exists cn', zlookup c (s_conns s') = Some cn' /\ c_db cn' = sel_db (c_db cn) parts /\
               c_intx cn' = c_intx cn /\ c_queue cn' = c_queue cn) /\
  (forall c', c' <> c -> zlookup c' (s_conns s') = zlookup c' (s_conns s)).
Proof.
  intros Hpw Hc. cbv zeta. unfold normal_command.
  destruct parts as [|first rest]; [split; [exact Hpw|]; split; [exists cn; auto|auto]|].
  destruct first; try (split; [exact Hpw|]; split; [exists cn; unfold sel_db; auto|auto]).
  destruct (lazy_expire_rest now s dbi (upper b) (FBulk b :: rest)) as (Lc & Lp & _ & _).
  destruct (dc_conn now (lazy_expire now s dbi (upper b) (FBulk b :: rest)) c dbi (FBulk b :: rest) o cn) as (A & B & C);
    [rewrite Lp; exact Hpw|rewrite Lc; exact Hc|].
  split; [exact A|]. split; [exact B|]. intros c' Hn. rewrite (C c' Hn), Lc. reflexivity.
Qed.
(** a command run with a connection id that has no connection (EXEC runs its queue as 0) *)
Lemma dc_noconn now s c dbi parts o :
  s_password s = None -> zlookup c (s_conns s) = None ->
  s_conns (snd (dispatch_command now s c dbi parts o)) = s_conns s /\
  s_password (snd (dispatch_command now s c dbi parts o)) = None.
Proof.
  intros Hpw Hc. unfold dispatch_command.
  destruct parts as [|first rest]; [auto|]. destruct first; auto.
  set (s0 := if mem_name (upper b) write_commands then log_aof_in s dbi (FBulk b :: rest) else s).
  assert (H0 : s_conns s0 = s_conns s /\ s_password s0 = None)
    by (unfold s0; destruct (mem_name (upper b) write_commands); [unfold log_aof_in; destruct (same_db _ _)|]; auto).
  destruct H0 as [Hcs0 Hp0]. generalize dependent s0. intros s0 Hcs0 Hp0.
  destruct (beq (upper b) (bs "PING")); [auto|].
  destruct (beq (upper b) (bs "ECHO")); [auto|].
  destruct (beq (upper b) (bs "SELECT")).
  { destruct rest as [|a [|? ?]]; auto; try (destruct a; auto; fail).
    destruct a; auto. destruct (parse_usize b0); auto. destruct (16 <=? z); auto. rewrite Hcs0, Hc. cbn [snd]. auto. }
  destruct (beq (upper b) (bs "FLUSHALL")).
  { destruct (negb (len (FBulk b :: rest) =? 1)); auto. }
  destruct (beq (upper b) (bs "RANDOMKEY")); [auto|].
  destruct (beq (upper b) (bs "AUTH")).
  { rewrite (h_auth_nopw s0 0 _ Hp0). auto. }
  destruct (beq (upper b) (bs "QUIT")); [auto|].
  destruct (beq (upper b) (bs "VERIF")); [auto|].
  destruct (exec_db now (get_db s0 dbi) (upper b) (FBulk b :: rest) o) as [[r0 d']|]; auto.
Qed.

Lemma nc_noconn now s c dbi parts o :
  s_password s = None -> zlookup c (s_conns s) = None ->
  s_conns (snd (normal_command now s c dbi parts o)) = s_conns s /\
  s_password (snd (normal_command now s c dbi parts o)) = None.
Proof.
  intros Hpw Hc. unfold normal_command. destruct parts as [|[] rest]; auto.
  destruct (lazy_expire_rest now s dbi (upper b) (FBulk b :: rest)) as (Lc & Lp & _ & _).
  destruct (dc_noconn now (lazy_expire now s dbi (upper b) (FBulk b :: rest)) c dbi (FBulk b :: rest) o) as [A B];
    [rewrite Lp; exact Hpw|rewrite Lc; exact Hc|]. rewrite A, Lc. auto.
Qed.

(** ================= 5. histories as traces of commands ================= *)
Definition dcmd := (Z * list frame)%type.      (* database, command *)
Definition redo_cmds (now : Z) (cmds : list dcmd) (dbs : list db) : list db :=
  fold_left (fun dbs x => step_dbs now dbs (fst x) (snd x) None) cmds dbs.
Definition push_all (log : list (list frame)) (cmds : list dcmd) : list (list frame) :=
  fold_left (fun l x => if is_logged (snd x) then aof_push l (fst x) (snd x) else l) cmds log.
(** the queue of an EXEC with the database each command runs in: a queued SELECT (1ecc022) moves
    the commands after it *)
Fixpoint queue_dbs (dbi : Z) (q : list (list frame)) : list dcmd :=
  match q with
  | [] => []
  | p :: r => (dbi, p) :: queue_dbs (if beq (queued_name p) (bs "SELECT") then sel_db dbi p else dbi) r
  end.

Inductive ev := EConn (c : Z) | EClose (c : Z) | EFrame (c : Z) (req : frame).
(** one event of the single command thread at clock reading [now]; no oracle: commands whose
    model semantics needs one (SPOP, XADD *, and the f64 texts of sorted-set scores) answer an
    error and change nothing *)
Definition ev_step (now : Z) (s : server) (e : ev) : server :=
  match e with
  | EConn c => connect s c
  | EClose c => del_conn s c
  | EFrame c req => let s' := snd (process_frame now s c req None) in
                    if is_quit req then del_conn s' c else s'
  end.
(** the commands one event runs through process_normal_command, in execution order, each with
    the database it runs in (no password configured): a direct command, or the queue of an EXEC
    that is not aborted *)
Definition ev_cmds (now : Z) (s : server) (e : ev) : list dcmd :=
  match e with
  | EFrame c (FArray (FBulk nm :: rest)) =>
      match zlookup c (s_conns s) with
      | None => []
      | Some cn =>
          let command := upper (trim nm) in
          if c_intx cn && negb (mem_name command tx_not_queued) then []
          else if beq command (bs "MULTI") then []
          else if beq command (bs "EXEC") then
            (if c_intx cn then
               if watch_violated now s cn then [] else queue_dbs (c_db cn) (c_queue cn)
             else [])
          else if beq command (bs "DISCARD") then []
          else if beq command (bs "WATCH") then []
          else if beq command (bs "UNWATCH") then []
          else if beq command (bs "AUTH") then []
          else [(c_db cn, FBulk nm :: rest)]
      end
  | _ => []
  end.

Definition conns_ok (s : server) : Prop :=
  forall c cn, zlookup c (s_conns s) = Some cn -> db_ok (c_db cn) /\ forallb cmd_ok (c_queue cn) = true.
Record linv (s : server) : Prop := {
  linv_pw : s_password s = None;
  linv_conns : conns_ok s;
  linv_zero : zlookup 0 (s_conns s) = None
}.
Definition ev_ok (e : ev) : bool :=
  match e with
  | EFrame _ (FArray parts) => cmd_ok parts
  | EConn c => negb (c =? 0)
  | _ => true
  end.
Definition dcmd_ok (x : dcmd) : bool := (0 <=? fst x) && (fst x <? 16) && cmd_ok (snd x).

Lemma linv_set s c cn s' : linv s -> c <> 0 -> db_ok (c_db cn) -> forallb cmd_ok (c_queue cn) = true ->
  s_password s' = s_password s -> s_conns s' = zset_ c cn (s_conns s) -> linv s'.
Proof.
  intros [H1 H2 H3] Hc Hd Hq Hp E. constructor; [rewrite Hp; exact H1| |].
  - intros c' cn' Hl. rewrite E in Hl. destruct (Z.eq_dec c' c) as [->|Hn].
    + rewrite zlookup_zset_same in Hl. inversion Hl; subst. auto.
    + rewrite zlookup_zset_other in Hl by exact Hn. exact (H2 c' cn' Hl).
  - rewrite E, zlookup_zset_other by (intro X; apply Hc; symmetry; exact X). exact H3.
Qed.
Lemma linv_del s c s' : linv s -> s_password s' = s_password s -> s_conns s' = zremove c (s_conns s) -> linv s'.
Proof.
  intros [H1 H2 H3] Hp E. constructor; [rewrite Hp; exact H1| |].
  - intros c' cn' Hl. rewrite E in Hl. destruct (Z.eq_dec c' c) as [->|Hn].
    + rewrite zlookup_zremove_same in Hl. discriminate.
    + rewrite zlookup_zremove_other in Hl by exact Hn. exact (H2 c' cn' Hl).
  - rewrite E. destruct (Z.eq_dec 0 c) as [<-|Hn]; [apply zlookup_zremove_same|].
    rewrite zlookup_zremove_other by exact Hn. exact H3.
Qed.
Lemma linv_same s s' : linv s -> s_password s' = s_password s -> s_conns s' = s_conns s -> linv s'.
Proof. intros [H1 H2 H3] Hp E. constructor; [rewrite Hp; exact H1|unfold conns_ok; rewrite E; exact H2|rewrite E; exact H3]. Qed.

(** what one event does: a redo of its commands, and their records appended *)
Record ev_spec (now : Z) (s s' : server) (cmds : list dcmd) : Prop := {
  es_inv : linv s';
  es_dbs : s_dbs s' = redo_cmds now cmds (s_dbs s);
  es_log : s_aof s' = push_all (s_aof s) cmds
}.
Lemma ev_spec_nil now s s' : linv s' -> s_dbs s' = s_dbs s -> s_aof s' = s_aof s -> ev_spec now s s' [].
Proof. intros Hi Hd Ha. constructor; auto. Qed.

Lemma queue_dbs_ok : forall q dbi, db_ok dbi -> forallb cmd_ok q = true -> forallb dcmd_ok (queue_dbs dbi q) = true.
Proof.
  induction q as [|p q IH]; intros dbi Hd Hq; [reflexivity|]. cbn [forallb] in Hq. apply andb_prop in Hq as [H1 H2].
  cbn [queue_dbs forallb]. rewrite IH; [|destruct (beq _ _); [apply sel_db_ok|]; exact Hd|exact H2].
  unfold dcmd_ok, db_ok in *. cbn [fst snd]. rewrite H1. lia.
Qed.
Lemma exec_queue_spec now c : forall q s dbi acc cn,
  linv s -> zlookup c (s_conns s) = Some cn -> c_db cn = dbi ->
  ev_spec now s (snd (exec_queue now s c dbi q acc)) (queue_dbs dbi q).
Proof.
  induction q as [|parts q IH]; intros s dbi acc cn Hi Hc Hdb; cbn [exec_queue queue_dbs].
  - apply ev_spec_nil; auto.
  - assert (Hc0 : c <> 0) by (intros ->; rewrite (linv_zero _ Hi) in Hc; discriminate).
    destruct (beq (queued_name parts) (bs "SELECT")).
    + (* a queued SELECT runs for the connection that sent EXEC *)
      pose proof (nc_dbs now s c dbi parts None) as Hd. pose proof (nc_aof now s c dbi parts None) as Ha.
      destruct (nc_conn now s c dbi parts None cn (linv_pw _ Hi) Hc) as (Hp & (cn' & Hc' & Hdb' & Hix & Hqx) & Hoth).
      destruct (normal_command now s c dbi parts None) as [rep s1]. cbn [snd] in *.
      rewrite Hc'.
      assert (Hi1 : linv s1).
      { constructor; [exact Hp| |].
        - intros c' cx Hl. destruct (Z.eq_dec c' c) as [->|Hn].
          + rewrite Hc' in Hl. inversion Hl; subst cx. rewrite Hdb', Hqx.
            destruct (linv_conns _ Hi c cn Hc) as [A B]. split; [apply sel_db_ok; exact A|exact B].
          + rewrite (Hoth c' Hn) in Hl. exact (linv_conns _ Hi c' cx Hl).
        - rewrite (Hoth 0 (fun X => Hc0 (eq_sym X))). exact (linv_zero _ Hi). }
      rewrite Hdb', Hdb.
      destruct (IH s1 (sel_db dbi parts) (rep :: acc) cn' Hi1 Hc' (eq_trans Hdb' (f_equal (fun x => sel_db x parts) Hdb))) as [X1 X2 X3].
      constructor; [exact X1| |].
      * rewrite X2, Hd. reflexivity.
      * rewrite X3, Ha. reflexivity.
    + pose proof (nc_dbs now s 0 dbi parts None) as Hd. pose proof (nc_aof now s 0 dbi parts None) as Ha.
      destruct (nc_noconn now s 0 dbi parts None (linv_pw _ Hi) (linv_zero _ Hi)) as [Hcs Hp].
      destruct (normal_command now s 0 dbi parts None) as [rep s1]. cbn [snd] in *.
      assert (Hi1 : linv s1) by (eapply linv_same; [exact Hi|rewrite Hp, (linv_pw _ Hi); reflexivity|exact Hcs]).
      assert (Hc1 : zlookup c (s_conns s1) = Some cn) by (rewrite Hcs; exact Hc).
      destruct (IH s1 dbi (rep :: acc) cn Hi1 Hc1 Hdb) as [X1 X2 X3]. constructor; [exact X1| |].
      * rewrite X2, Hd. reflexivity.
      * rewrite X3, Ha. reflexivity.
Qed.
(** EXEC appends the queued write commands in queue (= execution) order, each under the database
    it ran in *)
Lemma exec_queue_aof now c q s dbi acc cn :
  linv s -> zlookup c (s_conns s) = Some cn -> c_db cn = dbi ->
  s_aof (snd (exec_queue now s c dbi q acc)) = push_all (s_aof s) (queue_dbs dbi q).
Proof. intros Hi Hc Hd. exact (es_log _ _ _ _ (exec_queue_spec now c q s dbi acc cn Hi Hc Hd)). Qed.
Lemma unwatch_all_rest : forall w s,
  s_dbs (unwatch_all s w) = s_dbs s /\ s_conns (unwatch_all s w) = s_conns s /\
  s_password (unwatch_all s w) = s_password s /\ s_aof (unwatch_all s w) = s_aof s.
Proof.
  unfold unwatch_all. induction w as [|kb w IH]; intros s; cbn [fold_left]; [auto|].
  destruct (IH (set_trk s (wkey_db (fst kb)) (unregister_watch (get_trk s (wkey_db (fst kb))) (wkey_key (fst kb))))) as (A & B & C & D).
  rewrite A, B, C, D. auto.
Qed.

Lemma ev_step_spec now s e :
  linv s -> ev_ok e = true ->
  ev_spec now s (ev_step now s e) (ev_cmds now s e) /\ forallb dcmd_ok (ev_cmds now s e) = true.
Proof.
  intros Hi Hok. destruct e as [c|c|c req]; cbn [ev_step ev_cmds].
  - split; [|reflexivity]. apply ev_spec_nil; try reflexivity.
    cbn [ev_ok] in Hok. apply negb_true_iff in Hok.
    eapply (linv_set s c); [exact Hi|lia| | |reflexivity|reflexivity]; [cbn; unfold db_ok; lia|reflexivity].
  - split; [|reflexivity]. apply ev_spec_nil; try reflexivity.
    eapply linv_del; [exact Hi|reflexivity|reflexivity].
  - assert (Hq : forall s1 cmds, ev_spec now s s1 cmds ->
                   ev_spec now s (if is_quit req then del_conn s1 c else s1) cmds).
    { intros s1 cmds X. destruct (is_quit req); [|exact X]. destruct X as [X1 X2 X3].
      constructor; [|exact X2|exact X3]. eapply linv_del; [exact X1|reflexivity|reflexivity]. }
    assert (Hsame : ev_spec now s s []) by (apply ev_spec_nil; auto).
    unfold process_frame.
    destruct req as [| | | | |l| | | | | | |]; try (split; [apply Hq; exact Hsame|reflexivity]).
    destruct l as [|first rest]; [split; [apply Hq; exact Hsame|reflexivity]|].
    destruct first as [| | |nm| | | | | | | | |]; try (split; [apply Hq; exact Hsame|reflexivity]).
    destruct (zlookup c (s_conns s)) as [cn|] eqn:Hc; [|split; [apply Hq; exact Hsame|reflexivity]].
    destruct (linv_conns _ Hi c cn Hc) as [Hdb Hqu].
    assert (Hc0 : c <> 0) by (intros ->; rewrite (linv_zero _ Hi) in Hc; discriminate).
    rewrite (linv_pw _ Hi). cbn [andb].
    set (parts := FBulk nm :: rest) in *. cbn [ev_ok] in Hok.
    assert (Hconn : forall cn' s', db_ok (c_db cn') -> forallb cmd_ok (c_queue cn') = true ->
              s_dbs s' = s_dbs s -> s_password s' = s_password s -> s_aof s' = s_aof s ->
              s_conns s' = zset_ c cn' (s_conns s) ->
              ev_spec now s (if is_quit (FArray parts) then del_conn s' c else s') []).
    { intros cn' s' Hd' Hq' Hd Hp Ha Hcs. apply Hq. apply ev_spec_nil; auto. eapply (linv_set s c cn'); eauto. }
    destruct (c_intx cn && negb (mem_name (upper (trim nm)) tx_not_queued)).
    { split; [|reflexivity]. cbn [snd]. eapply Hconn; try reflexivity; [exact Hdb|].
      cbn [with_tx c_queue]. rewrite forallb_app, Hqu. cbn [forallb]. rewrite Hok. reflexivity. }
    destruct (beq (upper (trim nm)) (bs "MULTI")).
    { split; [|reflexivity]. destruct (c_intx cn); [apply Hq; exact Hsame|]. cbn [snd].
      eapply Hconn; try reflexivity; [exact Hdb|reflexivity]. }
    destruct (beq (upper (trim nm)) (bs "EXEC")).
    { unfold h_exec. destruct (c_intx cn); [|split; [apply Hq; exact Hsame|reflexivity]]. cbn [negb].
      assert (Hi1 : linv (set_conn s c (clear_tx cn))).
      { eapply (linv_set s c (clear_tx cn)); [exact Hi|exact Hc0|exact Hdb|reflexivity|reflexivity|reflexivity]. }
      destruct (watch_violated now s cn).
      { split; [|reflexivity]. cbn [snd]. eapply Hconn; try reflexivity; [exact Hdb|reflexivity]. }
      split; [|apply queue_dbs_ok; assumption].
      pose proof (exec_queue_spec now c (c_queue cn) (set_conn s c (clear_tx cn)) (c_db cn) [] (clear_tx cn) Hi1
                    (zlookup_zset_same _ _ _) eq_refl) as X.
      destruct (exec_queue now (set_conn s c (clear_tx cn)) c (c_db cn) (c_queue cn) []) as [reps s2]. cbn [snd] in *.
      apply Hq. destruct X as [X1 X2 X3]. constructor; [exact X1|exact X2|exact X3]. }
    destruct (beq (upper (trim nm)) (bs "DISCARD")).
    { split; [|reflexivity]. destruct (c_intx cn); [|apply Hq; exact Hsame]. cbn [negb snd].
      eapply Hconn; try reflexivity; [exact Hdb|reflexivity]. }
    destruct (beq (upper (trim nm)) (bs "WATCH")).
    { split; [|reflexivity]. destruct (len parts <? 2); [apply Hq; exact Hsame|].
      destruct (c_intx cn); [apply Hq; exact Hsame|].
      destruct (watch_loop_partial (c_db cn) (get_trk s (c_db cn)) rest (c_watched cn)) as [[t' w'] okb].
      cbn [snd]. eapply Hconn; try reflexivity; [exact Hdb|exact Hqu]. }
    destruct (beq (upper (trim nm)) (bs "UNWATCH")).
    { split; [|reflexivity]. cbn [snd]. destruct (unwatch_all_rest (c_watched cn) s) as (U1 & U2 & U3 & U4).
      eapply (Hconn (with_tx cn (c_intx cn) (c_queue cn) [])); [exact Hdb|exact Hqu| | | |];
        cbn [set_conn s_dbs s_password s_aof s_conns]; try assumption.
      rewrite U2. reflexivity. }
    destruct (beq (upper (trim nm)) (bs "AUTH")).
    { split; [|reflexivity]. rewrite (h_auth_nopw s c parts (linv_pw _ Hi)). apply Hq. exact Hsame. }
    (* a command executed directly *)
    split; [|cbn [forallb]; unfold dcmd_ok, db_ok in *; cbn [fst snd]; rewrite Hok; lia].
    apply Hq.
    pose proof (nc_dbs now s c (c_db cn) parts None) as Hd. pose proof (nc_aof now s c (c_db cn) parts None) as Ha.
    destruct (nc_conn now s c (c_db cn) parts None cn (linv_pw _ Hi) Hc) as (Hp & (cn' & Hc' & Hdb' & Hix & Hqx) & Hoth).
    destruct (normal_command now s c (c_db cn) parts None) as [rep s1]. cbn [snd] in *.
    constructor; [|rewrite Hd; reflexivity|rewrite Ha; reflexivity].
    constructor; [exact Hp| |].
    + intros c' cx Hl. destruct (Z.eq_dec c' c) as [->|Hn].
      * rewrite Hc' in Hl. inversion Hl; subst cx. rewrite Hdb', Hqx. split; [apply sel_db_ok; exact Hdb|exact Hqu].
      * rewrite (Hoth c' Hn) in Hl. exact (linv_conns _ Hi c' cx Hl).
    + rewrite (Hoth 0 (fun X => Hc0 (eq_sym X))). exact (linv_zero _ Hi).
Qed.

(** ---- histories with a clock reading per event ---- *)
Definition tev := (Z * ev)%type.
Definition tcmd := (Z * dcmd)%type.
Definition tev_step (s : server) (te : tev) : server := ev_step (fst te) s (snd te).
Definition run_tevs (h : list tev) : server := fold_left tev_step h (init_server None).
Fixpoint trace_from (s : server) (h : list tev) : list tcmd :=
  match h with
  | [] => []
  | te :: r => map (fun x => (fst te, x)) (ev_cmds (fst te) s (snd te)) ++ trace_from (tev_step s te) r
  end.
(** the executed commands of a history, each with its event's clock reading and its database *)
Definition trace_of (h : list tev) : list tcmd := trace_from (init_server None) h.
Definition run_trace (tr : list tcmd) (dbs : list db) : list db :=
  fold_left (fun dbs x => step_dbs (fst x) dbs (fst (snd x)) (snd (snd x)) None) tr dbs.

Lemma run_trace_app a b d : run_trace (a ++ b) d = run_trace b (run_trace a d).
Proof. unfold run_trace. apply fold_left_app. Qed.
Lemma run_trace_same_time t cmds d : run_trace (map (fun x => (t, x)) cmds) d = redo_cmds t cmds d.
Proof. revert d. induction cmds as [|p cmds IH]; intros d; [reflexivity|]. cbn [map]. unfold run_trace, redo_cmds in *. cbn [fold_left fst snd]. apply IH. Qed.
Lemma push_all_app log a b : push_all log (a ++ b) = push_all (push_all log a) b.
Proof. unfold push_all. apply fold_left_app. Qed.

Lemma history_is_trace : forall h s,
  linv s -> forallb (fun te => ev_ok (snd te)) h = true ->
  s_dbs (fold_left tev_step h s) = run_trace (trace_from s h) (s_dbs s) /\
  s_aof (fold_left tev_step h s) = push_all (s_aof s) (map snd (trace_from s h)) /\
  forallb (fun x => dcmd_ok (snd x)) (trace_from s h) = true.
Proof.
  induction h as [|[t e] h IH]; intros s Hi Hok; cbn [fold_left trace_from].
  - auto.
  - cbn [forallb snd] in Hok. apply andb_prop in Hok as [Hok1 Hok2].
    destruct (ev_step_spec t s e Hi Hok1) as [[E1 E2 E3] E4].
    change (tev_step s (t, e)) with (ev_step t s e). cbn [fst snd].
    destruct (IH (ev_step t s e) E1 Hok2) as (I1 & I2 & I3). repeat split.
    + rewrite I1, run_trace_app, run_trace_same_time, E2. reflexivity.
    + rewrite I2, E3, map_app, push_all_app, map_map. cbn [snd]. rewrite map_id. reflexivity.
    + rewrite forallb_app, I3, andb_true_r. rewrite forallb_forall in *. intros [t' p] Hin.
      apply in_map_iff in Hin as (p' & Hp & Hin). inversion Hp; subst. cbn [snd]. exact (E4 _ Hin).
Qed.
Lemma linv_init : linv (init_server None).
Proof. constructor; try reflexivity. intros c cn Hl. cbn in Hl. discriminate. Qed.

(** ---- the records of the file, oldest first ---- *)
(** [last] = the database the engine remembers *)
Fixpoint recs (last : option Z) (cmds : list dcmd) : list (list frame) :=
  match cmds with
  | [] => []
  | (dbi, p) :: r =>
      if is_logged p
      then (if same_db last dbi then [p] else [aof_select dbi; p]) ++ recs (Some dbi) r
      else recs last r
  end.
Lemma small_db_text n : db_ok n -> parse_usize (print_int n) = Some n.
Proof.
  unfold db_ok. intros H.
  assert (C : n = 0 \/ n = 1 \/ n = 2 \/ n = 3 \/ n = 4 \/ n = 5 \/ n = 6 \/ n = 7 \/ n = 8 \/ n = 9 \/
              n = 10 \/ n = 11 \/ n = 12 \/ n = 13 \/ n = 14 \/ n = 15) by lia.
  repeat (destruct C as [-> | C]; [vm_compute; reflexivity|]). subst. vm_compute. reflexivity.
Qed.
Lemma logged_not_select nm rest : is_logged (FBulk nm :: rest) = true -> beq (upper nm) (bs "SELECT") = false.
Proof.
  unfold is_logged. intros H. destruct (beq (upper nm) (bs "SELECT")) eqn:E; [|reflexivity].
  apply beq_eq in E. rewrite E in H. vm_compute in H. discriminate.
Qed.
Lemma upper_select_id nm : beq nm (bs "SELECT") = true -> beq (upper nm) (bs "SELECT") = true.
Proof. intros H. apply beq_eq in H. subst. reflexivity. Qed.
(** a logged command is never mistaken for the engine's SELECT record *)
Lemma last_db_skip p l : is_logged p = true -> aof_last_db (p :: l) = aof_last_db l.
Proof.
  intros H. destruct p as [|f1 [|f2 [|f3 r]]]; try discriminate; cbn [aof_last_db]; try reflexivity.
  - destruct f1; reflexivity.
  - destruct f1; try reflexivity. destruct f2; try reflexivity.
    destruct (beq b (bs "SELECT")) eqn:E; [|reflexivity].
    apply upper_select_id in E. rewrite (logged_not_select _ _ H) in E. discriminate.
  - destruct f1; try reflexivity. destruct f2; reflexivity.
Qed.
Lemma last_db_push log dbi p : is_logged p = true -> db_ok dbi -> aof_last_db (aof_push log dbi p) = Some dbi.
Proof.
  intros H Hd. unfold aof_push. rewrite (last_db_skip _ _ H).
  destruct (aof_last_db log) as [n|] eqn:E; cbn [same_db].
  - destruct (n =? dbi) eqn:En; [apply Z.eqb_eq in En; subst; exact E|].
    cbn [aof_last_db aof_select]. change (beq (bs "SELECT") (bs "SELECT")) with true. cbv iota. apply small_db_text; exact Hd.
  - cbn [aof_last_db aof_select]. change (beq (bs "SELECT") (bs "SELECT")) with true. cbv iota. apply small_db_text; exact Hd.
Qed.
Lemma push_all_recs : forall cmds log,
  forallb dcmd_ok cmds = true ->
  rev (push_all log cmds) = rev log ++ recs (aof_last_db log) cmds.
Proof.
  induction cmds as [|[dbi p] cmds IH]; intros log Hok; cbn [push_all fold_left recs fst snd]; [rewrite app_nil_r; reflexivity|].
  cbn [forallb] in Hok. apply andb_prop in Hok as [H1 H2]. unfold dcmd_ok in H1. cbn [fst snd] in H1.
  assert (Hd : db_ok dbi) by (unfold db_ok; lia).
  fold (push_all (if is_logged p then aof_push log dbi p else log) cmds).
  destruct (is_logged p) eqn:Lp; [|apply IH; exact H2].
  rewrite IH by exact H2. rewrite (last_db_push log dbi p Lp Hd). unfold aof_push.
  destruct (same_db (aof_last_db log) dbi); cbn [rev]; rewrite <- ?app_assoc; reflexivity.
Qed.
Lemma push_all_records : forall cmds log, forallb is_record log = true -> forallb is_record (push_all log cmds) = true.
Proof.
  induction cmds as [|[dbi p] cmds IH]; intros log H; [exact H|]. cbn [push_all fold_left fst snd].
  fold (push_all (if is_logged p then aof_push log dbi p else log) cmds). apply IH.
  destruct (is_logged p) eqn:Lp; [|exact H]. unfold aof_push, is_logged in *.
  destruct p; [discriminate|]. destruct (same_db _ _); cbn [forallb is_record aof_select]; rewrite H; reflexivity.
Qed.
Lemma filter_all {A} (p : A -> bool) l : forallb p l = true -> filter p l = l.
Proof. induction l as [|x l IH]; [reflexivity|]. cbn [forallb filter]. intros H. apply andb_prop in H as [H1 H2]. rewrite H1, IH; auto. Qed.

(** the file of a history is the records of its trace *)
Lemma history_file h :
  forallb (fun te => ev_ok (snd te)) h = true ->
  aof_log (run_tevs h) = recs None (map snd (trace_of h)).
Proof.
  intros Hok. unfold run_tevs, trace_of, aof_log.
  destruct (history_is_trace h (init_server None) linv_init Hok) as (_ & H2 & H3).
  rewrite H2. change (s_aof (init_server None)) with (@nil (list frame)).
  rewrite filter_all by (apply push_all_records; reflexivity).
  rewrite push_all_recs; [reflexivity|].
  rewrite forallb_forall in *. intros x Hx. apply in_map_iff in Hx as (y & <- & Hy). exact (H3 y Hy).
Qed.

(** ---- the redo of a list of records, as a function of (selected database, databases) ---- *)
Definition redo_step (now : Z) (st : Z * list db) (p : list frame) : Z * list db :=
  (sel_db (fst st) p, step_dbs now (snd st) (fst st) p None).
Definition redo (now : Z) (log : list (list frame)) (st : Z * list db) : Z * list db :=
  fold_left (redo_step now) log st.
Definition replay_from (now : Z) (R : server) (log : list (list frame)) : server :=
  fold_left (replay_step now) (no_oracle log) R.
Lemma replay_from_redo now : forall log R cn,
  s_password R = None -> zlookup replay_conn (s_conns R) = Some cn ->
  let R' := replay_from now R log in
  (conn_db R' replay_conn, s_dbs R') = redo now log (c_db cn, s_dbs R).
Proof.
  induction log as [|p log IH]; intros R cn Hp Hc; cbv zeta.
  - unfold replay_from, conn_db. cbn [no_oracle map fold_left redo]. rewrite Hc. reflexivity.
  - pose proof (nc_dbs now R replay_conn (c_db cn) p None) as Hd.
    destruct (nc_conn now R replay_conn (c_db cn) p None cn Hp Hc) as (Hp' & (cn' & Hc' & Hdb' & _) & _).
    set (R1 := snd (normal_command now R replay_conn (c_db cn) p None)) in *.
    assert (E : replay_from now R (p :: log) = replay_from now R1 log).
    { unfold replay_from, no_oracle. cbn [map fold_left]. unfold replay_step at 2. cbn [fst snd].
      unfold conn_db. rewrite Hc. reflexivity. }
    rewrite E. etransitivity; [apply (IH R1 cn' Hp' Hc')|].
    unfold redo. cbn [fold_left]. unfold redo_step at 2. cbn [fst snd]. rewrite Hdb', Hd. reflexivity.
Qed.
Lemma replay_redo now log :
  s_dbs (replay now log) = snd (redo now log (0, s_dbs (init_server None))).
Proof.
  pose proof (replay_from_redo now log replay_init (new_conn true) eq_refl eq_refl) as H. cbv zeta in H.
  unfold replay, replay_o. change (fold_left (replay_step now) (no_oracle log) replay_init) with (replay_from now replay_init log).
  change (c_db (new_conn true)) with 0 in H. change (s_dbs replay_init) with (s_dbs (init_server None)) in H.
  rewrite <- H. reflexivity.
Qed.

(** ---- the generic redo theorem over traces ---- *)
Fixpoint live_fresh (tr : list tcmd) (dbs : list db) : bool :=
  match tr with
  | [] => true
  | x :: r => fresh_all (fst x) dbs && live_fresh r (step_dbs (fst x) dbs (fst (snd x)) (snd (snd x)) None)
  end.
Fixpoint redo_fresh (now : Z) (log : list (list frame)) (st : Z * list db) : bool :=
  match log with
  | [] => true
  | p :: r => fresh_all now (snd st) && redo_fresh now r (redo_step now st p)
  end.
Lemma sel_db_logged cur p : is_logged p = true -> sel_db cur p = cur.
Proof.
  intros H. destruct p as [|[] rest]; try discriminate. apply sel_db_other. eapply logged_not_select; exact H.
Qed.
Lemma redo_select now cur dbs dbi : db_ok dbi -> fresh_all now dbs = true ->
  redo_step now (cur, dbs) (aof_select dbi) = (dbi, dbs).
Proof.
  intros Hd Hf. unfold redo_step. cbn [fst snd]. rewrite step_dbs_unlogged by (auto; vm_compute; reflexivity).
  unfold aof_select, sel_db. change (upper (bs "SELECT")) with (bs "SELECT").
  change (beq (bs "SELECT") (bs "SELECT")) with true. cbv iota.
  rewrite (small_db_text dbi Hd). unfold db_ok in Hd. replace (16 <=? dbi) with false by lia. reflexivity.
Qed.

Section TraceRel.
Variable Rl : list db -> list db -> Prop.
Variable now' : Z.
Variable P : tcmd -> bool.
Hypothesis step_rel : forall t dbi p d1 d2,
  P (t, (dbi, p)) = true -> is_logged p = true -> Rl d1 d2 ->
  fresh_all t d1 = true -> fresh_all now' d2 = true ->
  Rl (step_dbs t d1 dbi p None) (step_dbs now' d2 dbi p None).

Lemma trace_redo_rel : forall tr d1 d2 last cur,
  Rl d1 d2 -> (forall n, last = Some n -> cur = n) ->
  forallb P tr = true -> forallb (fun x => dcmd_ok (snd x)) tr = true ->
  live_fresh tr d1 = true -> redo_fresh now' (recs last (map snd tr)) (cur, d2) = true ->
  Rl (run_trace tr d1) (snd (redo now' (recs last (map snd tr)) (cur, d2))).
Proof.
  induction tr as [|[t [dbi p]] tr IH]; intros d1 d2 last cur HR Hlink HP Hok Hl Hr; [exact HR|].
  cbn [forallb] in HP, Hok. apply andb_prop in HP as [HP1 HP2]. apply andb_prop in Hok as [Hok1 Hok2].
  unfold dcmd_ok in Hok1. cbn [fst snd] in Hok1.
  assert (Hd : db_ok dbi) by (unfold db_ok; lia).
  cbn [live_fresh fst snd] in Hl. apply andb_prop in Hl as [Hl1 Hl2].
  cbn [map snd recs] in *. cbn [run_trace fold_left fst snd]. fold (run_trace tr).
  destruct (is_logged p) eqn:Lp.
  - destruct (same_db last dbi) eqn:Es.
    + assert (cur = dbi) by (destruct last as [n|]; cbn [same_db] in Es; [apply Z.eqb_eq in Es; subst; apply Hlink; reflexivity|discriminate]).
      subst cur. cbn [app redo_fresh snd] in Hr. apply andb_prop in Hr as [Hr1 Hr2].
      cbn [app]. unfold redo. cbn [fold_left]. fold (redo now').
      assert (E : redo_step now' (dbi, d2) p = (dbi, step_dbs now' d2 dbi p None))
        by (unfold redo_step; cbn [fst snd]; rewrite (sel_db_logged dbi p Lp); reflexivity).
      rewrite E in *.
      apply IH; auto. intros n Hn. inversion Hn; reflexivity.
    + cbn [app redo_fresh snd] in Hr. apply andb_prop in Hr as [Hr0 Hr]. rewrite (redo_select now' cur d2 dbi Hd Hr0) in Hr.
      cbn [redo_fresh snd] in Hr. apply andb_prop in Hr as [Hr1 Hr2].
      cbn [app]. unfold redo. cbn [fold_left]. fold (redo now'). rewrite (redo_select now' cur d2 dbi Hd Hr0).
      assert (E : redo_step now' (dbi, d2) p = (dbi, step_dbs now' d2 dbi p None))
        by (unfold redo_step; cbn [fst snd]; rewrite (sel_db_logged dbi p Lp); reflexivity).
      rewrite E in *.
      apply IH; auto. intros n Hn. inversion Hn; reflexivity.
  - rewrite (step_dbs_unlogged t d1 dbi p None Lp Hl1) in *. apply IH; auto.
Qed.
End TraceRel.

(** instance 1: everything at one clock reading - the databases are EQUAL *)
Lemma trace_redo_eq now : forall tr dbs,
  forallb (fun x => fst x =? now) tr = true -> forallb (fun x => dcmd_ok (snd x)) tr = true ->
  live_fresh tr dbs = true -> redo_fresh now (recs None (map snd tr)) (0, dbs) = true ->
  run_trace tr dbs = snd (redo now (recs None (map snd tr)) (0, dbs)).
Proof.
  intros tr dbs Ht Hok Hl Hr.
  apply (trace_redo_rel eq now (fun x => fst x =? now)); auto; [|discriminate].
  intros t dbi p d1 d2 HP _ -> _ _. cbn [fst] in HP. apply Z.eqb_eq in HP. subst. reflexivity.
Qed.

(** ================= 6. the replay theorem, one clock reading ================= *)
Definition dbs0 : list db := s_dbs (init_server None).
(** THE REPLAY THEOREM: all sixteen databases of the redo equal those of the live server *)
Theorem replay_all_dbs now h :
  forallb (fun te => ev_ok (snd te)) h = true ->
  forallb (fun te => fst te =? now) h = true ->
  live_fresh (trace_of h) dbs0 = true ->
  redo_fresh now (aof_log (run_tevs h)) (0, dbs0) = true ->
  s_dbs (replay now (aof_log (run_tevs h))) = s_dbs (run_tevs h).
Proof.
  intros Hok Ht Hl Hr. rewrite (history_file h Hok) in *. rewrite replay_redo.
  unfold run_tevs, trace_of in *.
  destruct (history_is_trace h (init_server None) linv_init Hok) as (H1 & _ & H3).
  rewrite H1. symmetry. apply trace_redo_eq; auto.
  (* every command of the trace carries its event's clock reading *)
  clear - Ht. revert Ht. generalize (init_server None). induction h as [|[t e] h IH]; intros s Ht; [reflexivity|].
  cbn [forallb fst] in Ht. apply andb_prop in Ht as [Ht1 Ht2]. cbn [trace_from fst snd].
  rewrite forallb_app, (IH _ Ht2), andb_true_r. apply forallb_forall. intros x Hx.
  apply in_map_iff in Hx as (y & <- & _). exact Ht1.
Qed.
Corollary replay_datasets now h :
  forallb (fun te => ev_ok (snd te)) h = true ->
  forallb (fun te => fst te =? now) h = true ->
  live_fresh (trace_of h) dbs0 = true ->
  redo_fresh now (aof_log (run_tevs h)) (0, dbs0) = true ->
  map dataset (s_dbs (replay now (aof_log (run_tevs h)))) = map dataset (s_dbs (run_tevs h)).
Proof. intros. rewrite (replay_all_dbs now h); auto. Qed.

(** ================= 7. witnesses ================= *)
Definition cmd (args : list bytes) : frame := FArray (map FBulk args).
Definition hist (cs : list (list bytes)) : list tev := (0, EConn 1) :: map (fun a => (0, EFrame 1 (cmd a))) cs.
Definition diverges (now : Z) (h : list tev) : Prop :=
  s_dbs (replay now (aof_log (run_tevs h))) <> s_dbs (run_tevs h).
Ltac diverge := unfold diverges; let H := fresh "H" in intro H; vm_compute in H; discriminate H.

(** regression for the repaired classes: the four formerly unlogged writers and commands in
    databases other than 0 are in the domain now, and this history replays exactly *)
Definition repaired_history : list tev :=
  hist [[bs "SET"; bs "k"; bs "a"]; [bs "GETSET"; bs "k"; bs "b"]; [bs "HMSET"; bs "h"; bs "f"; bs "1"];
        [bs "PEXPIRE"; bs "k"; bs "100000"];
        [bs "SELECT"; bs "1"]; [bs "SET"; bs "k"; bs "in-1"];
        [bs "XADD"; bs "x"; bs "1-1"; bs "f"; bs "v"]; [bs "XGROUP"; bs "CREATE"; bs "x"; bs "g"; bs "0"];
        [bs "XREADGROUP"; bs "GROUP"; bs "g"; bs "c"; bs "STREAMS"; bs "x"; bs ">"];
        [bs "SELECT"; bs "0"]; [bs "APPEND"; bs "k"; bs "c"]; [bs "SELECT"; bs "15"]; [bs "RPUSH"; bs "l"; bs "x"]].
Lemma repaired_history_ok :
  forallb (fun te => ev_ok (snd te)) repaired_history = true /\
  live_fresh (trace_of repaired_history) dbs0 = true /\
  redo_fresh 0 (aof_log (run_tevs repaired_history)) (0, dbs0) = true /\
  len (aof_log (run_tevs repaired_history)) = 14 /\
  s_dbs (replay 0 (aof_log (run_tevs repaired_history))) = s_dbs (run_tevs repaired_history) /\
  len (d_data (get_db (run_tevs repaired_history) 1)) = 2.
Proof. repeat (apply conj; [vm_compute; reflexivity|]). vm_compute; reflexivity. Qed.

(** expiry is not logged and TTLs are logged relative: k is set with 300 ms to live at time 0
    and is gone at time 600 (any command naming it removes it first, bdd75e8; nothing is
    appended); a redo at time 600 sets it again, alive for another 300 ms *)
Definition expired_history : list tev :=
  [(0, EConn 1); (0, EFrame 1 (cmd [bs "SET"; bs "k"; bs "v"; bs "PX"; bs "300"])); (600, EFrame 1 (cmd [bs "GET"; bs "k"]))].
Lemma expired_diverges :
  map dataset (s_dbs (replay 600 (aof_log (run_tevs expired_history)))) <> map dataset (s_dbs (run_tevs expired_history)) /\
  forallb (fun te => ev_ok (snd te)) expired_history = true /\
  live_fresh (trace_of expired_history) dbs0 = false /\
  redo_fresh 600 (aof_log (run_tevs expired_history)) (0, dbs0) = true.
Proof. apply conj; [intro H; vm_compute in H; discriminate H|]. repeat (apply conj; [vm_compute; reflexivity|]). vm_compute; reflexivity. Qed.

(** random outcomes are logged verbatim: two admissible outcomes of the same SPOP / XADD *
    leave the same file and different datasets, so no function of the file restores both *)
Lemma spop_verbatim :
  let s := run_tevs (hist [[bs "SADD"; bs "s"; bs "a"; bs "b"]]) in
  let s1 := snd (process_frame 0 s 1 (cmd [bs "SPOP"; bs "s"]) (Some (FBulk (bs "a")))) in
  let s2 := snd (process_frame 0 s 1 (cmd [bs "SPOP"; bs "s"]) (Some (FBulk (bs "b")))) in
  aof_log s1 = aof_log s2 /\ get_db s1 0 <> get_db s2 0 /\
  is_error (fst (process_frame 0 s 1 (cmd [bs "SPOP"; bs "s"]) (Some (FBulk (bs "a"))))) = false /\
  is_error (fst (process_frame 0 s 1 (cmd [bs "SPOP"; bs "s"]) (Some (FBulk (bs "b"))))) = false.
Proof.
  cbv zeta. split; [vm_compute; reflexivity|]. split; [intro H; vm_compute in H; discriminate H|].
  split; vm_compute; reflexivity.
Qed.
Lemma xadd_auto_verbatim :
  let s := run_tevs (hist []) in
  let q := cmd [bs "XADD"; bs "x"; bs "*"; bs "f"; bs "v"] in
  let s1 := snd (process_frame 0 s 1 q (Some (FBulk (bs "1700000000000-0")))) in
  let s2 := snd (process_frame 0 s 1 q (Some (FBulk (bs "1700000000001-0")))) in
  aof_log s1 = aof_log s2 /\ get_db s1 0 <> get_db s2 0 /\
  fst (process_frame 0 s 1 q (Some (FBulk (bs "1700000000000-0")))) = FBulk (bs "1700000000000-0") /\
  fst (process_frame 0 s 1 q (Some (FBulk (bs "1700000000001-0")))) = FBulk (bs "1700000000001-0").
Proof.
  cbv zeta. split; [vm_compute; reflexivity|]. split; [intro H; vm_compute in H; discriminate H|].
  split; vm_compute; reflexivity.
Qed.

(** start-up: the implementation's own replay executes nothing; the file is kept and the
    engine forgets the database it had last written to *)
Lemma restart_loses_dataset :
  let s := run_tevs (hist [[bs "SET"; bs "k"; bs "a"]; [bs "RPUSH"; bs "l"; bs "x"]]) in
  get_db (restart s) 0 = empty_db /\ get_db s 0 <> empty_db /\ aof_log (restart s) = aof_log s /\
  aof_last_db (s_aof s) = Some 0 /\ aof_last_db (s_aof (restart s)) = None.
Proof. cbv zeta. apply conj; [vm_compute; reflexivity|]. apply conj; [intro H; vm_compute in H; discriminate H|]. repeat (apply conj; [vm_compute; reflexivity|]). vm_compute; reflexivity. Qed.

(** non-vacuity of the replay theorem: two connections in different databases, a transaction
    with a refused command and a read, TTLs, a stream, a pop, a script *)
Definition sample_history : list tev :=
  map (fun e => (7, e))
  [EConn 1; EConn 2;
   EFrame 1 (cmd [bs "SET"; bs "k"; bs "a"; bs "EX"; bs "100"]);
   EFrame 2 (cmd [bs "SELECT"; bs "3"]);
   EFrame 2 (cmd [bs "MULTI"]);
   EFrame 2 (cmd [bs "RPUSH"; bs "l"; bs "x"; bs "y"]);
   EFrame 2 (cmd [bs "INCR"; bs "l"]);
   EFrame 2 (cmd [bs "HSET"; bs "h"; bs "f"; bs "1"]);
   EFrame 1 (cmd [bs "GET"; bs "k"]);
   EFrame 2 (cmd [bs "EXEC"]);
   EFrame 1 (cmd [bs "XADD"; bs "x"; bs "1-1"; bs "f"; bs "v"]);
   EFrame 2 (cmd [bs "LPOP"; bs "l"]);
   EFrame 1 (cmd [bs "EXPIRE"; bs "x"; bs "50"]);
   EClose 2].
Lemma sample_history_ok :
  forallb (fun te => ev_ok (snd te)) sample_history = true /\
  forallb (fun te => fst te =? 7) sample_history = true /\
  live_fresh (trace_of sample_history) dbs0 = true /\
  redo_fresh 7 (aof_log (run_tevs sample_history)) (0, dbs0) = true /\
  len (aof_log (run_tevs sample_history)) = 12 /\ len (d_data (get_db (run_tevs sample_history) 3)) = 2.
Proof. repeat (apply conj; [vm_compute; reflexivity|]). vm_compute; reflexivity. Qed.

(** a queued SELECT (1ecc022): the writes after it are logged - and redone - under the new database *)
Definition queued_select_history : list tev :=
  hist [[bs "MULTI"]; [bs "SET"; bs "a"; bs "1"]; [bs "SELECT"; bs "1"]; [bs "SET"; bs "b"; bs "2"];
        [bs "GET"; bs "b"]; [bs "EXEC"]; [bs "APPEND"; bs "b"; bs "3"]].
Lemma queued_select_history_ok :
  forallb (fun te => ev_ok (snd te)) queued_select_history = true /\
  live_fresh (trace_of queued_select_history) dbs0 = true /\
  redo_fresh 0 (aof_log (run_tevs queued_select_history)) (0, dbs0) = true /\
  aof_log (run_tevs queued_select_history) =
    [aof_select 0; [FBulk (bs "SET"); FBulk (bs "a"); FBulk (bs "1")];
     aof_select 1; [FBulk (bs "SET"); FBulk (bs "b"); FBulk (bs "2")]; [FBulk (bs "APPEND"); FBulk (bs "b"); FBulk (bs "3")]] /\
  s_dbs (replay 0 (aof_log (run_tevs queued_select_history))) = s_dbs (run_tevs queued_select_history) /\
  len (d_data (get_db (run_tevs queued_select_history) 1)) = 1.
Proof. repeat (apply conj; [vm_compute; reflexivity|]). vm_compute; reflexivity. Qed.
