(** Proofs for C11 (the append-only file): framing of the file, the logging
    discipline of process_normal_command / EXEC, inertness of the commands that are not
    logged (the completeness obligation over Generated.write_commands), and the replay
    theorem.  Statements are collected in Props/C11.v. *)
From Ferrous Require Import Base.Bytes Generated Model.Resp Model.Types Model.Glob Model.Strings
  Model.Lists Model.ZSets Model.Streams Model.Scan Model.Lua Model.Server Model.Conn Model.Blocking Model.Aof
  Proofs.BytesFacts Proofs.RespFacts Proofs.StringsFacts Proofs.ListsFacts Proofs.ServerFacts
  Proofs.ConnFacts Proofs.StreamFacts Proofs.GroupFacts.
From Coq Require Import ZifyBool Permutation.
Open Scope Z_scope.

(** ================= 1. the file is a sequence of whole frames ================= *)

Lemma aof_file_replies log : aof_file log = write_replies (map FArray log).
Proof.
  unfold aof_file. induction log as [|p log IH]; [reflexivity|].
  cbn [map concat]. rewrite IH. reflexivity.
Qed.
Lemma aof_file_app a b : aof_file (a ++ b) = aof_file a ++ aof_file b.
Proof. unfold aof_file. rewrite map_app, concat_app. reflexivity. Qed.
Lemma aof_file_snoc log p : aof_file (log ++ [p]) = aof_file log ++ aof_frame p.
Proof. rewrite aof_file_app. unfold aof_file at 2. cbn [map concat]. rewrite app_nil_r. reflexivity. Qed.

(** a command as it can arrive from the wire: a frame the codec round-trips *)
Definition wire_cmd (parts : list frame) : Prop := wfb' max_levels (FArray parts) = true.

Lemma forallb_map_id {A} (g : A -> A) (p : A -> bool) l :
  (forall x, In x l -> p x = true -> g x = x) -> forallb p l = true -> map g l = l.
Proof.
  induction l as [|x l IH]; intros Hg Hp; [reflexivity|].
  cbn [forallb] in Hp. apply andb_prop in Hp as [H1 H2]. cbn [map].
  rewrite (Hg x (or_introl eq_refl) H1), IH; auto. intros y Hy. apply Hg. right; exact Hy.
Qed.
(** such a frame carries no CR / LF in a line payload: it reads back as itself *)
Lemma wfb_sanitize : forall f d, wfb' d f = true -> sanitize f = f.
Proof.
  induction f using frame_ind'; intros [|d'] Hb; cbn [wfb] in Hb; try discriminate; try reflexivity.
  - cbn [sanitize]. rewrite clean_id by exact Hb. reflexivity.
  - cbn [sanitize]. rewrite clean_id by exact Hb. reflexivity.
  - apply andb_prop in Hb as [_ H2]. cbn [sanitize]. f_equal.
    apply (forallb_map_id sanitize (wfb' d')); [|exact H2].
    intros x Hx Hw. rewrite Forall_forall in H. exact (H x Hx d' Hw).
  - apply andb_prop in Hb as [_ H2]. cbn [sanitize]. f_equal.
    apply (forallb_map_id sanitize (wfb' d')); [|exact H2].
    intros x Hx Hw. rewrite Forall_forall in H. exact (H x Hx d' Hw).
  - apply andb_prop in Hb as [_ H2]. cbn [sanitize]. f_equal.
    apply (forallb_map_id sanitize (wfb' d')); [|exact H2].
    intros x Hx Hw. rewrite Forall_forall in H. exact (H x Hx d' Hw).
Qed.
Lemma wire_sendable parts : wire_cmd parts -> sendable (FArray parts) /\ sanitize (FArray parts) = FArray parts.
Proof.
  intros H. pose proof (wfb_sanitize _ _ H) as Hs. split; [|exact Hs]. unfold sendable. rewrite Hs. exact H.
Qed.

(** decoding the file gives back exactly the logged commands, and nothing is left over *)
Lemma aof_decode_log log : Forall wire_cmd log ->
  aof_decode (aof_file log) = (map FArray log, NeedMore, []).
Proof.
  intros H. unfold aof_decode, drain_buf. rewrite aof_file_replies.
  rewrite drain_replies; [| |lia].
  - cbn [rev app]. f_equal. f_equal. rewrite map_map. apply map_ext_in. intros p Hp.
    rewrite Forall_forall in H. apply (wire_sendable p (H p Hp)).
  - rewrite Forall_forall in *. intros f Hf. apply in_map_iff in Hf as (p & <- & Hp).
    apply (wire_sendable p (H p Hp)).
Qed.
(** every append adds one whole frame: the longer file decodes to the old commands plus the new one *)
Lemma aof_append_whole log p : Forall wire_cmd log -> wire_cmd p ->
  aof_decode (aof_file log ++ aof_frame p) = (map FArray log ++ [FArray p], NeedMore, []).
Proof.
  intros Hl Hp. rewrite <- aof_file_snoc, aof_decode_log, map_app; [reflexivity|].
  apply Forall_app. split; [exact Hl|constructor; [exact Hp|constructor]].
Qed.
(** commands made of bulk strings only (what every client library sends) are wire commands
    as long as the lengths fit *)
Lemma wfb_array_unfold d l : wfb' (S d) (FArray l) = (len l <=? i64_max) && forallb (wfb' d) l.
Proof. reflexivity. Qed.
Lemma wfb_bulk_unfold d a : wfb' (S d) (FBulk a) = (len a <=? i64_max).
Proof. reflexivity. Qed.
Lemma bulk_cmd_wire (args : list bytes) :
  len args <= i64_max -> Forall (fun a => len a <= i64_max) args -> wire_cmd (map FBulk args).
Proof.
  intros Hn Ha. unfold wire_cmd. change max_levels with (S (S 31)). rewrite wfb_array_unfold, len_map.
  apply andb_true_intro. split; [lia|]. apply forallb_forall. intros f Hf.
  apply in_map_iff in Hf as (a & <- & Hin). rewrite Forall_forall in Ha. specialize (Ha a Hin).
  rewrite wfb_bulk_unfold. lia.
Qed.

(** ================= 2. the logging discipline ================= *)
(** the name is in the generated table (server.rs is_write_command) *)
Definition is_write (parts : list frame) : bool :=
  match parts with FBulk nm :: _ => mem_name (upper nm) write_commands | _ => false end.
(** appended as it was sent, before it runs: a write command that is not logged by outcome
    (SPOP, XADD with the ID * ) and is not EVALSHA *)
Definition is_logged (parts : list frame) : bool :=
  match parts with FBulk nm :: _ => logs_before (upper nm) parts | _ => false end.
Lemma is_logged_write parts : is_logged parts = true -> is_write parts = true.
Proof.
  unfold is_logged, is_write, logs_before, mem_name. destruct parts as [|[] rest]; try discriminate.
  intros H. apply andb_prop in H as [H _]. apply andb_prop in H as [H _]. exact H.
Qed.

(** what append_command(parts, db) adds to the log (newest first): the command, preceded by a
    SELECT record when the database differs from that of the last command written *)
Definition aof_push (log : list (list frame)) (dbi : Z) (parts : list frame) : list (list frame) :=
  parts :: (if same_db (aof_last_db log) dbi then log else aof_select dbi :: log).
Lemma s_aof_log_aof_in s dbi parts : s_aof (log_aof_in s dbi parts) = aof_push (s_aof s) dbi parts.
Proof. unfold log_aof_in, aof_push. destruct (same_db _ _); reflexivity. Qed.
(** several records in a row, all under database [dbi] (oldest first) *)
Definition push_recs (log : list (list frame)) (dbi : Z) (rs : list (list frame)) : list (list frame) :=
  fold_left (fun l r => aof_push l dbi r) rs log.
Lemma push_recs_app log dbi a b : push_recs log dbi (a ++ b) = push_recs (push_recs log dbi a) dbi b.
Proof. unfold push_recs. apply fold_left_app. Qed.

Definition is_err (f : frame) : bool := match f with FError _ => true | _ => false end.
(** the records a command leaves once it has run (oldest first), given its reply and the
    database it left: the deterministic form of a random / clock-dependent command (f085462),
    then the absolute deadline of the key a TTL command named (98d0d1a) *)
Definition out_recs (now : Z) (d' : db) (name : bytes) (parts : list frame) (reply : frame) : list (list frame) :=
  (if by_outcome name parts
   then match deterministic_form name parts reply with Some p => [p] | None => [] end
   else [])
  ++ (if ttl_recorded name && negb (is_err reply)
      then match nth_error parts 1 with
           | Some (FBulk k) => match eng_ttl now d' k with
                               | Some rem => [pexpireat_record k (now + rem)]
                               | None => []
                               end
           | _ => []
           end
      else []).
Lemma aof_after_recs now log dbi d' name parts reply :
  aof_after now log dbi d' name parts reply = push_recs log dbi (out_recs now d' name parts reply).
Proof.
  unfold aof_after, out_recs, push_recs, aof_push, is_err.
  destruct (by_outcome name parts); [destruct (deterministic_form name parts reply)|];
  (destruct (ttl_recorded name && negb match reply with FError _ => true | _ => false end);
   [destruct (nth_error parts 1) as [[]|]; try reflexivity; destruct (eng_ttl now d' b); reflexivity|reflexivity]).
Qed.

(** all the records of one command run on the databases [dbs] (after the lazy expiry), oldest
    first: the command as it was sent, then the records of its outcome *)
Definition verb_recs (parts : list frame) : list (list frame) :=
  match parts with
  | FBulk nm :: _ => if logs_before (upper nm) parts then [parts] else []
  | _ => []
  end.
Definition dout_recs (now : Z) (dbs : list db) (dbi : Z) (parts : list frame) (o : option frame) : list (list frame) :=
  match parts with
  | FBulk nm :: _ =>
      let name := upper nm in
      if beq name (bs "PING") then []
      else if beq name (bs "ECHO") then []
      else if beq name (bs "SELECT") then []
      else if beq name (bs "FLUSHALL") then []
      else if beq name (bs "RANDOMKEY") then []
      else if beq name (bs "AUTH") then []
      else if beq name (bs "QUIT") then []
      else if beq name (bs "VERIF") then []
      else match exec_db now (nth (Z.to_nat dbi) dbs empty_db) name parts o with
           | Some (r, d') => out_recs now d' name parts r
           | None => []
           end
  | _ => []
  end.
Definition dcmd_recs (now : Z) (dbs : list db) (dbi : Z) (parts : list frame) (o : option frame) : list (list frame) :=
  verb_recs parts ++ dout_recs now dbs dbi parts o.

(** process_normal_command (after the lazy expiry): the command as it was sent, before it runs,
    iff [logs_before]; then the records of its outcome - whatever it answers *)
Lemma dc_aof now s c dbi parts o :
  s_aof (snd (dispatch_command now s c dbi parts o)) =
  push_recs (s_aof s) dbi (dcmd_recs now (s_dbs s) dbi parts o).
Proof.
  unfold dispatch_command, dcmd_recs, verb_recs, dout_recs.
  destruct parts as [|first rest]; [reflexivity|]. destruct first; try reflexivity.
  rewrite push_recs_app.
  set (s0 := if logs_before (upper b) (FBulk b :: rest) then log_aof_in s dbi (FBulk b :: rest) else s).
  assert (H0 : s_aof s0 = push_recs (s_aof s) dbi (if logs_before (upper b) (FBulk b :: rest) then [FBulk b :: rest] else [])).
  { unfold s0. destruct (logs_before (upper b) (FBulk b :: rest)); [apply s_aof_log_aof_in|reflexivity]. }
  assert (H1 : s_dbs s0 = s_dbs s)
    by (unfold s0; destruct (logs_before (upper b) (FBulk b :: rest)); [unfold log_aof_in; destruct (same_db _ _)|]; reflexivity).
  rewrite <- H0, <- H1. clear H0 H1. generalize s0. clear s0. intros s0.
  destruct (beq (upper b) (bs "PING")); [reflexivity|].
  destruct (beq (upper b) (bs "ECHO")); [reflexivity|].
  destruct (beq (upper b) (bs "SELECT")).
  { destruct rest as [|a [|? ?]]; try reflexivity; try (destruct a; reflexivity).
    destruct a; try reflexivity.
    destruct (parse_usize b0); [|reflexivity]. destruct (16 <=? z); [reflexivity|].
    destruct (zlookup c (s_conns s0)); reflexivity. }
  destruct (beq (upper b) (bs "FLUSHALL")).
  { destruct (negb (len (FBulk b :: rest) =? 1)); reflexivity. }
  destruct (beq (upper b) (bs "RANDOMKEY")); [reflexivity|].
  destruct (beq (upper b) (bs "AUTH")).
  { destruct (h_auth s0 0 (FBulk b :: rest)) as [r1 s1] eqn:E.
    destruct (auth_per_connection _ _ _ _ _ E) as (_ & _ & _ & Ha & _). exact Ha. }
  destruct (beq (upper b) (bs "QUIT")); [reflexivity|].
  destruct (beq (upper b) (bs "VERIF")); [reflexivity|].
  unfold get_db.
  destruct (exec_db now (nth (Z.to_nat dbi) (s_dbs s0) empty_db) (upper b) (FBulk b :: rest) o) as [[r0 d']|]; [|reflexivity].
  cbn [snd log_after s_aof]. rewrite aof_after_recs. reflexivity.
Qed.

(** ================= 3. commands that are not logged leave the database alone ================= *)
(** [lazy_removed now d d']: d' is d without some entries that had already expired at [now]
    (the lazy expiry of get: data entry and deadline-index entry removed) *)
Inductive lazy_removed (now : Z) : db -> db -> Prop :=
| lr_refl d : lazy_removed now d d
| lr_step d k d' : was_expired now d k = true ->
    lazy_removed now (index_del (del_entry d k) k) d' -> lazy_removed now d d'.

Lemma lr_trans now a b c : lazy_removed now a b -> lazy_removed now b c -> lazy_removed now a c.
Proof. induction 1; intros Hc; [exact Hc|]. eapply lr_step; eauto. Qed.
Lemma lr_one now d k : was_expired now d k = true -> lazy_removed now d (index_del (del_entry d k) k).
Proof. intros H. eapply lr_step; [exact H|apply lr_refl]. Qed.

(** every entry of d' is an entry of d *)
Lemma lr_sub now d d' : lazy_removed now d d' ->
  forall k e, get_entry d' k = Some e -> get_entry d k = Some e.
Proof.
  induction 1 as [|d k0 d' Hx _ IH]; intros k e He; [exact He|].
  specialize (IH k e He). rewrite get_entry_index_del in IH.
  destruct (beq k k0) eqn:E.
  - apply beq_eq in E. subst. rewrite get_entry_del_same in IH. discriminate.
  - rewrite get_entry_del_other in IH by exact E. exact IH.
Qed.

(** no entry of the database has expired *)
Definition fresh (now : Z) (d : db) : bool := forallb (fun ke => negb (expired now (snd ke))) (d_data d).
Lemma alookup_In' {A} k (l : list (bytes * A)) v : alookup k l = Some v -> exists k', In (k', v) l.
Proof.
  induction l as [|[k' v'] l IH]; cbn [alookup]; [discriminate|].
  destruct (beq k k'); intros H.
  - inversion H; subst. exists k'. left; reflexivity.
  - destruct (IH H) as (k2 & Hin). exists k2. right; exact Hin.
Qed.
Lemma fresh_not_expired now d k : fresh now d = true -> was_expired now d k = false.
Proof.
  unfold fresh, was_expired, get_entry. intros H. destruct (alookup k (d_data d)) as [e|] eqn:E; [|reflexivity].
  destruct (alookup_In' _ _ _ E) as (k' & Hin). rewrite forallb_forall in H.
  specialize (H _ Hin). cbn [snd] in H. apply negb_true_iff in H. exact H.
Qed.
(** the same as a statement about lookups: no key names an entry past its deadline *)
Definition lfresh (now : Z) (d : db) : Prop := forall k, was_expired now d k = false.
Lemma fresh_lfresh now d : fresh now d = true -> lfresh now d.
Proof. intros H k. apply fresh_not_expired; exact H. Qed.
Lemma lfresh_entry now d k e : lfresh now d -> get_entry d k = Some e -> expired now e = false.
Proof. intros F E. specialize (F k). unfold was_expired in F. rewrite E in F. exact F. Qed.
Lemma expired_mono t t' e : t <= t' -> expired t' e = false -> expired t e = false.
Proof. unfold expired. destruct (e_exp e); [|reflexivity]. intros. lia. Qed.
Lemma lfresh_mono t t' d : t <= t' -> lfresh t' d -> lfresh t d.
Proof.
  intros Ht F k. specialize (F k). unfold was_expired in *. destruct (get_entry d k); [|reflexivity].
  eapply expired_mono; eauto.
Qed.
(** on a database without expired entries lazy expiry removes nothing *)
Lemma lr_fresh now d d' : lfresh now d -> lazy_removed now d d' -> d' = d.
Proof.
  intros Hf H. destruct H as [|d k d' Hx _]; [reflexivity|].
  rewrite (Hf k) in Hx. discriminate.
Qed.

Lemma lr_eng_get now d k g d' : eng_get now d k = (g, d') -> lazy_removed now d d'.
Proof.
  unfold eng_get. intros H. destruct (get_entry d k) as [e|] eqn:E.
  - destruct (expired now e) eqn:Ex; inversion H; subst; [|apply lr_refl].
    apply lr_one. unfold was_expired. rewrite E. exact Ex.
  - inversion H; subst. apply lr_refl.
Qed.
Lemma lr_get_string now d k g d' : get_string now d k = (g, d') -> lazy_removed now d d'.
Proof.
  unfold get_string. intros H. destruct (eng_get now d k) as [g1 d1] eqn:E.
  apply lr_eng_get in E. destruct g1 as [v| |]; [destruct v|..]; inversion H; subst; exact E.
Qed.
Lemma lr_get_stream now d k g d' : get_stream now d k = (g, d') -> lazy_removed now d d'.
Proof.
  unfold get_stream. intros H. destruct (eng_get now d k) as [g1 d1] eqn:E.
  apply lr_eng_get in E. destruct g1 as [v| |]; [destruct v|..]; inversion H; subst; exact E.
Qed.

(** a handler is inert: whatever it answers, the database is the old one up to lazy expiry *)
Ltac inert_step :=
  match goal with
  | H : (_, _) = (_, _) |- _ => inversion H; clear H; subst
  | H : Some _ = Some _ |- _ => inversion H; clear H; subst
  | H : context [get_string ?now ?d ?k] |- _ =>
      let E := fresh "Eg" in destruct (get_string now d k) as [? ?] eqn:E; apply lr_get_string in E
  | H : context [get_stream ?now ?d ?k] |- _ =>
      let E := fresh "Eg" in destruct (get_stream now d k) as [? ?] eqn:E; apply lr_get_stream in E
  | H : context [eng_get ?now ?d ?k] |- _ =>
      let E := fresh "Eg" in destruct (eng_get now d k) as [? ?] eqn:E; apply lr_eng_get in E
  | H : context [if ?c then _ else _] |- _ => destruct c eqn:?
  | H : context [match ?x with _ => _ end] |- _ => destruct x eqn:?
  end.
Ltac inert := intros; repeat inert_step; try discriminate; try assumption; try apply lr_refl.

(** ---- string / key family ---- *)
Lemma h_get_inert now d parts r d' : h_get now d parts = (r, d') -> lazy_removed now d d'.
Proof. unfold h_get. inert. Qed.
Lemma h_exists_inert now d parts r d' : h_exists now d parts = (r, d') -> lazy_removed now d d'.
Proof. unfold h_exists. inert. Qed.
Lemma h_ttl_inert now d parts r d' : h_ttl now d parts = (r, d') -> lazy_removed now d d'.
Proof. unfold h_ttl. inert. Qed.
Lemma h_pttl_inert now d parts r d' : h_pttl now d parts = (r, d') -> lazy_removed now d d'.
Proof. unfold h_pttl. inert. Qed.
Lemma mget_loop_inert now : forall args d acc r d', mget_loop now d args acc = (r, d') -> lazy_removed now d d'.
Proof.
  induction args as [|a args IH]; intros d acc r d' H; cbn [mget_loop] in H.
  - inversion H; subst. apply lr_refl.
  - destruct a; try (inversion H; subst; apply lr_refl).
    destruct (get_string now d b) as [g d1] eqn:E. apply lr_get_string in E.
    destruct g as [[x|]|]; [eapply lr_trans; [exact E|eapply IH; exact H]..|inversion H; subst; exact E].
Qed.
Lemma h_mget_inert now d parts r d' : h_mget now d parts = (r, d') -> lazy_removed now d d'.
Proof.
  unfold h_mget. intros H. destruct (nparts parts <? 2); [inversion H; subst; apply lr_refl|].
  eapply mget_loop_inert; exact H.
Qed.
Lemma h_strlen_inert now d parts r d' : h_strlen d parts = (r, d') -> lazy_removed now d d'.
Proof. unfold h_strlen. inert. Qed.
Lemma h_getrange_inert now d parts r d' : h_getrange d parts = (r, d') -> lazy_removed now d d'.
Proof. unfold h_getrange. inert. Qed.
Lemma h_type_inert now d parts r d' : h_type d parts = (r, d') -> lazy_removed now d d'.
Proof. unfold h_type. inert. Qed.
Lemma h_keys_inert now d parts r d' : h_keys d parts = (r, d') -> lazy_removed now d d'.
Proof. unfold h_keys. inert. Qed.
Lemma h_dbsize_inert now d parts r d' : h_dbsize d parts = (r, d') -> lazy_removed now d d'.
Proof. unfold h_dbsize. inert. Qed.


(** walk down an [if beq name (bs "X") then .. else ..] dispatcher: a branch whose name is a
    write command contradicts the hypothesis, the other branches are left as goals *)
Ltac chain H Hw :=
  repeat match type of H with
  | (if beq ?n ?c then _ else _) = _ =>
      let E := fresh "E" in
      destruct (beq n c) eqn:E;
      [ apply beq_eq in E; subst n; try (exfalso; vm_compute in Hw; discriminate Hw) | clear E ]
  end.

Lemma exec_strings_inert now d name parts r d' :
  mem_name name write_commands = false ->
  exec_strings now d name parts = Some (r, d') -> lazy_removed now d d'.
Proof.
  unfold exec_strings. intros Hw H. chain H Hw; try discriminate; inversion H as [H1]; clear H;
  eauto using h_get_inert, h_exists_inert, h_ttl_inert, h_pttl_inert, h_mget_inert, h_strlen_inert,
    h_getrange_inert, h_type_inert, h_keys_inert, h_dbsize_inert.
Qed.

(** ---- lists / sets / hashes: the engine verdict of every read is Keep ---- *)
Lemma on_key_keep d k f : (forall cur, snd (f cur) = Keep) -> snd (on_key d k f) = d.
Proof.
  intros Hk. unfold on_key. specialize (Hk (option_map e_val (get_entry d k))).
  destruct (f (option_map e_val (get_entry d k))) as [r u]. cbn [snd] in *. subst u. reflexivity.
Qed.
Ltac keep_step :=
  match goal with
  | H : (_, _) = (_, _) |- _ => inversion H; clear H; subst
  | H : on_key ?d ?k ?f = (_, ?d') |- _ =>
      let K := fresh "K" in
      assert (K : snd (on_key d k f) = d) by (apply on_key_keep; auto);
      rewrite H in K; cbn [snd] in K; subst; clear H
  | H : context [if ?c then _ else _] |- _ => destruct c eqn:?
  | H : context [match ?x with _ => _ end] |- _ => destruct x eqn:?
  end.
Ltac keep := intros; repeat keep_step; try discriminate; try reflexivity.
Ltac keep_e := intros [[ | | | | | ]|]; red_reply; repeat break_match; reflexivity.

Lemma keep_llen : forall cur, snd (e_llen cur) = Keep. Proof. unfold e_llen. keep_e. Qed.
Lemma keep_lrange s e : forall cur, snd (e_lrange s e cur) = Keep. Proof. unfold e_lrange. keep_e. Qed.
Lemma keep_lindex i : forall cur, snd (e_lindex i cur) = Keep. Proof. unfold e_lindex. keep_e. Qed.
Lemma keep_smembers : forall cur, snd (e_smembers cur) = Keep. Proof. unfold e_smembers. keep_e. Qed.
Lemma keep_sismember m : forall cur, snd (e_sismember m cur) = Keep. Proof. unfold e_sismember. keep_e. Qed.
Lemma keep_scard : forall cur, snd (e_scard cur) = Keep. Proof. unfold e_scard. keep_e. Qed.
Lemma keep_srandmember c o : forall cur, snd (e_srandmember c o cur) = Keep. Proof. intros cur. apply srandmember_readonly. Qed.
Lemma keep_hget f : forall cur, snd (e_hget f cur) = Keep. Proof. unfold e_hget. keep_e. Qed.
Lemma keep_hmget fs : forall cur, snd (e_hmget fs cur) = Keep. Proof. unfold e_hmget. keep_e. Qed.
Lemma keep_hgetall : forall cur, snd (e_hgetall cur) = Keep. Proof. unfold e_hgetall. keep_e. Qed.
Lemma keep_hlen : forall cur, snd (e_hlen cur) = Keep. Proof. unfold e_hlen. keep_e. Qed.
Lemma keep_hexists f : forall cur, snd (e_hexists f cur) = Keep. Proof. unfold e_hexists. keep_e. Qed.
Lemma keep_hkeys : forall cur, snd (e_hkeys cur) = Keep. Proof. unfold e_hkeys. keep_e. Qed.
Lemma keep_hvals : forall cur, snd (e_hvals cur) = Keep. Proof. unfold e_hvals. keep_e. Qed.
#[local] Hint Resolve keep_llen keep_lrange keep_lindex keep_smembers keep_sismember keep_scard keep_srandmember
  keep_hget keep_hmget keep_hgetall keep_hlen keep_hexists keep_hkeys keep_hvals : core.

Lemma h_key1_keep f d parts r d' : (forall cur, snd (f cur) = Keep) -> h_key1 f d parts = (r, d') -> d' = d.
Proof. unfold h_key1. keep. Qed.
Lemma h_key_bulk_keep f d parts r d' : (forall a cur, snd (f a cur) = Keep) -> h_key_bulk f d parts = (r, d') -> d' = d.
Proof. unfold h_key_bulk. keep. Qed.
Lemma h_range_keep f d parts r d' : (forall s e cur, snd (f s e cur) = Keep) -> h_range f d parts = (r, d') -> d' = d.
Proof. unfold h_range. keep. Qed.
Lemma h_lindex_keep d parts r d' : h_lindex d parts = (r, d') -> d' = d.
Proof. unfold h_lindex. keep. Qed.
Lemma h_setalg_keep f d parts r d' : h_setalg f d parts = (r, d') -> d' = d.
Proof. unfold h_setalg. keep. Qed.
Lemma h_srandmember_keep d parts o r d' : h_srandmember d parts o = (r, d') -> d' = d.
Proof. unfold h_srandmember. keep. Qed.
Lemma h_hmget_keep d parts r d' : h_hmget d parts = (r, d') -> d' = d.
Proof. unfold h_hmget. keep. Qed.

Lemma exec_lists_inert now d name parts o r d' :
  mem_name name write_commands = false ->
  exec_lists now d name parts o = Some (r, d') -> d' = d.
Proof.
  unfold exec_lists. intros Hw H. chain H Hw; try discriminate; inversion H as [H1]; clear H;
  eauto using h_key1_keep, h_key_bulk_keep, h_range_keep, h_lindex_keep, h_setalg_keep, h_srandmember_keep,
    h_hmget_keep.
Qed.

(** ---- streams ---- *)
Lemma h_xrange_inert now d parts r d' : h_xrange d parts = (r, d') -> lazy_removed now d d'.
Proof. unfold h_xrange. inert. Qed.
Lemma h_xrevrange_inert now d parts r d' : h_xrevrange d parts = (r, d') -> lazy_removed now d d'.
Proof. unfold h_xrevrange. inert. Qed.
Lemma h_xlen_inert now d parts r d' : h_xlen d parts = (r, d') -> lazy_removed now d d'.
Proof. unfold h_xlen. inert. Qed.
Lemma h_xread_inert now d parts r d' : h_xread d parts = (r, d') -> lazy_removed now d d'.
Proof. unfold h_xread. inert. Qed.
Lemma h_xpending_inert now d parts r d' : h_xpending now d parts = (r, d') -> lazy_removed now d d'.
Proof. unfold h_xpending. inert. Qed.
Lemma h_xinfo_inert now d parts r d' : h_xinfo now d parts = (r, d') -> lazy_removed now d d'.
Proof. unfold h_xinfo. inert. Qed.

Lemma exec_streams_inert now d name parts o r d' :
  mem_name name write_commands = false ->
  exec_streams now d name parts o = Some (r, d') -> lazy_removed now d d'.
Proof.
  unfold exec_streams. intros Hw H. chain H Hw; try discriminate; inversion H as [H1]; clear H;
  eauto using h_xrange_inert, h_xrevrange_inert, h_xlen_inert, h_xread_inert, h_xpending_inert, h_xinfo_inert.
Qed.

(** ---- SCAN family ---- *)
Lemma eng_hscan_inert now d k c p n nv g d' : eng_hscan now d k c p n nv = (g, d') -> lazy_removed now d d'.
Proof. unfold eng_hscan. inert. Qed.
Lemma eng_sscan_inert now d k c p n g d' : eng_sscan now d k c p n = (g, d') -> lazy_removed now d d'.
Proof. unfold eng_sscan. inert. Qed.
Lemma eng_zscan_inert now d k c p n g d' : eng_zscan now d k c p n = (g, d') -> lazy_removed now d d'.
Proof. unfold eng_zscan. inert. Qed.
Lemma h_scan_inert now d parts r d' : h_scan now d parts = (r, d') -> lazy_removed now d d'.
Proof. unfold h_scan. inert. Qed.
Lemma h_hscan_inert now d parts r d' : h_hscan now d parts = (r, d') -> lazy_removed now d d'.
Proof.
  unfold h_hscan. intros H. destruct (kscan_parse true parts); [|inversion H; subst; apply lr_refl].
  destruct (eng_hscan now d key cursor pat count nov) as [g d1] eqn:E. apply eng_hscan_inert in E.
  destruct g as [[? ?]|]; inversion H; subst; exact E.
Qed.
Lemma h_sscan_inert now d parts r d' : h_sscan now d parts = (r, d') -> lazy_removed now d d'.
Proof.
  unfold h_sscan. intros H. destruct (kscan_parse false parts); [|inversion H; subst; apply lr_refl].
  destruct (eng_sscan now d key cursor pat count) as [g d1] eqn:E. apply eng_sscan_inert in E.
  destruct g as [[? ?]|]; inversion H; subst; exact E.
Qed.
Lemma h_zscan_inert now d parts o r d' : h_zscan now d parts o = (r, d') -> lazy_removed now d d'.
Proof.
  unfold h_zscan. intros H. destruct (kscan_parse false parts); [|inversion H; subst; apply lr_refl].
  destruct (eng_zscan now d key cursor pat count) as [g d1] eqn:E. apply eng_zscan_inert in E.
  destruct g as [[? ?]|]; inversion H; subst; exact E.
Qed.
Lemma exec_scan_inert now d name parts o r d' :
  exec_scan now d name parts o = Some (r, d') -> lazy_removed now d d'.
Proof.
  unfold exec_scan. intros H.
  repeat match type of H with (if ?c then _ else _) = _ => destruct c end;
  try discriminate; inversion H as [H1]; clear H;
  eauto using h_scan_inert, h_hscan_inert, h_sscan_inert, h_zscan_inert.
Qed.

(** ---- sorted sets: no engine function of this family consults the clock or removes a key
    on a read ---- *)
Lemma h_zscore_inert now d parts r d' : h_zscore d parts = (r, d') -> lazy_removed now d d'.
Proof. unfold h_zscore. inert. Qed.
Lemma h_zcard_inert now d parts r d' : h_zcard d parts = (r, d') -> lazy_removed now d d'.
Proof. unfold h_zcard. inert. Qed.
Lemma h_zrank_inert now b d parts r d' : h_zrank b d parts = (r, d') -> lazy_removed now d d'.
Proof. unfold h_zrank. inert. Qed.
Lemma h_zrange_inert now b d parts r d' : h_zrange b d parts = (r, d') -> lazy_removed now d d'.
Proof. unfold h_zrange. inert. Qed.
Lemma h_zrangebyscore_inert now b d parts o r d' : h_zrangebyscore b d parts o = (r, d') -> lazy_removed now d d'.
Proof. unfold h_zrangebyscore. inert. Qed.
Lemma h_zcount_inert now d parts o r d' : h_zcount d parts o = (r, d') -> lazy_removed now d d'.
Proof. unfold h_zcount. inert. Qed.
Lemma exec_zsets_inert now d name parts o r d' :
  mem_name name write_commands = false ->
  exec_zsets now d name parts o = Some (r, d') -> lazy_removed now d d'.
Proof.
  unfold exec_zsets. intros Hw H. chain H Hw; try discriminate; inversion H as [H1]; clear H;
  eauto using h_zscore_inert, h_zcard_inert, h_zrank_inert, h_zrange_inert, h_zrangebyscore_inert, h_zcount_inert.
Qed.
(** ---- scripts: EVAL and EVALSHA are in the table; SCRIPT (cache management, outside the
    dataset) answers without touching the database ---- *)
Lemma exec_scripts_inert now d name parts o r d' :
  mem_name name write_commands = false ->
  exec_scripts now d name parts o = Some (r, d') -> lazy_removed now d d'.
Proof.
  unfold exec_scripts. intros Hw H.
  destruct (beq name (bs "EVAL")) eqn:E.
  { apply beq_eq in E. subst name. exfalso. vm_compute in Hw. discriminate Hw. }
  destruct (beq name (bs "EVALSHA") || beq name (bs "SCRIPT")); [|discriminate].
  inversion H; subst. apply lr_refl.
Qed.

(** THE COMPLETENESS OBLIGATION over the generated table: a command of the modelled dispatch
    (strings/keys, lists/sets/hashes, sorted sets, streams/groups, SCAN family, scripts) whose
    name is NOT in [Generated.write_commands] leaves the database unchanged up to lazy removal
    of expired entries - no exception since 8d99f01.  Removing a name from the Rust matches!
    makes [mem_name name write_commands] false for it and this proof fails at that name's
    branch. *)
Lemma exec_db_inert now d name parts o r d' :
  mem_name name write_commands = false ->
  exec_db now d name parts o = Some (r, d') -> lazy_removed now d d'.
Proof.
  unfold exec_db. intros Hw H.
  destruct (exec_strings now d name parts) as [[r1 d1]|] eqn:E1.
  { inversion H; subst. eapply exec_strings_inert; eauto. }
  destruct (exec_lists now d name parts o) as [[r2 d2]|] eqn:E2.
  { inversion H; subst. rewrite (exec_lists_inert _ _ _ _ _ _ _ Hw E2). apply lr_refl. }
  destruct (exec_zsets now d name parts o) as [[r3 d3]|] eqn:E3.
  { inversion H; subst. eapply exec_zsets_inert; eauto. }
  destruct (exec_streams now d name parts o) as [[r4 d4]|] eqn:E4.
  { inversion H; subst. eapply exec_streams_inert; eauto. }
  destruct (exec_scan now d name parts o) as [[r5 d5]|] eqn:E5.
  { inversion H; subst. eapply exec_scan_inert; eauto. }
  destruct (exec_scripts now d name parts o) as [[r6 d6]|] eqn:E6.
  { inversion H; subst. eapply exec_scripts_inert; eauto. }
  (* PEXPIREAT is in the table *)
  unfold exec_aofcmds in H. destruct (beq name (bs "PEXPIREAT")) eqn:E; [|discriminate].
  apply beq_eq in E. subst name. exfalso. vm_compute in Hw. discriminate Hw.
Qed.
Lemma exec_db_inert_fresh now d name parts o r d' :
  mem_name name write_commands = false ->
  lfresh now d -> exec_db now d name parts o = Some (r, d') -> d' = d.
Proof. intros Hw Hf H. eapply lr_fresh; [exact Hf|]. eapply exec_db_inert; eauto. Qed.

(** ================= 4. what a command does, as a function of the databases ================= *)
Fixpoint fresh_all (now : Z) (dbs : list db) : bool :=
  match dbs with [] => true | d :: r => fresh now d && fresh_all now r end.
Lemma fresh_all_nth now : forall dbs i, fresh_all now dbs = true -> fresh now (nth i dbs empty_db) = true.
Proof.
  induction dbs as [|d dbs IH]; intros i H; [destruct i; reflexivity|].
  cbn [fresh_all] in H. apply andb_prop in H as [H1 H2]. destruct i; [exact H1|apply IH; exact H2].
Qed.
Definition lfresh_all (now : Z) (dbs : list db) : Prop := forall i, lfresh now (nth i dbs empty_db).
Lemma fresh_lfresh_all now dbs : fresh_all now dbs = true -> lfresh_all now dbs.
Proof. intros H i. apply fresh_lfresh. apply fresh_all_nth. exact H. Qed.
Lemma lfresh_all_mono t t' dbs : t <= t' -> lfresh_all t' dbs -> lfresh_all t dbs.
Proof. intros Ht F i. eapply lfresh_mono; eauto. Qed.
Lemma list_set_nth_same {A} (l : list A) : forall i dflt, list_set l i (nth i l dflt) = l.
Proof.
  induction l as [|x l IH]; intros i dflt; [destruct i; reflexivity|].
  destruct i; cbn [list_set nth]; [reflexivity|]. rewrite IH. reflexivity.
Qed.

(** the databases after the body of process_normal_command (after the lazy expiry) *)
Definition dstep_dbs (now : Z) (dbs : list db) (dbi : Z) (parts : list frame) (o : option frame) : list db :=
  match parts with
  | FBulk nm :: _ =>
      let name := upper nm in
      if beq name (bs "PING") then dbs
      else if beq name (bs "ECHO") then dbs
      else if beq name (bs "SELECT") then dbs
      else if beq name (bs "FLUSHALL") then (if negb (len parts =? 1) then dbs else map (fun _ => empty_db) dbs)
      else if beq name (bs "RANDOMKEY") then dbs
      else if beq name (bs "AUTH") then dbs
      else if beq name (bs "QUIT") then dbs
      else if beq name (bs "VERIF") then dbs
      else match exec_db now (nth (Z.to_nat dbi) dbs empty_db) name parts o with
           | Some (_, d') => list_set dbs (Z.to_nat dbi) d'
           | None => dbs
           end
  | _ => dbs
  end.

(** lazy expiry before the command (bdd75e8): the keys its arguments name - for the key-space
    commands every key the index reports due - are dropped from the selected database first *)
Definition pre_dbs (now : Z) (dbs : list db) (dbi : Z) (name : bytes) (parts : list frame) : list db :=
  if lazy_expiry_before_dispatch
  then list_set dbs (Z.to_nat dbi) (fst (expire_before now (nth (Z.to_nat dbi) dbs empty_db) name parts))
  else dbs.
(** the databases after a command run in database [dbi]: mirrors process_normal_command *)
Definition step_dbs (now : Z) (dbs : list db) (dbi : Z) (parts : list frame) (o : option frame) : list db :=
  match parts with
  | FBulk nm :: _ => dstep_dbs now (pre_dbs now dbs dbi (upper nm) parts) dbi parts o
  | _ => dbs
  end.
Lemma purge_key_fresh now d l k : lfresh now d -> purge_key now (d, l) k = (d, l).
Proof.
  intros F. unfold purge_key. cbn [fst snd]. destruct (get_entry d k) as [e|] eqn:E; [|reflexivity].
  rewrite (lfresh_entry now d k e F E). reflexivity.
Qed.
Lemma purge_fold_fresh_id now d : lfresh now d -> forall ks l, fold_left (purge_key now) ks (d, l) = (d, l).
Proof. intros F. induction ks as [|k ks IH]; intros l; [reflexivity|]. cbn [fold_left]. rewrite purge_key_fresh by exact F. apply IH. Qed.
Lemma expire_before_id now d name parts : lfresh now d -> expire_before now d name parts = (d, []).
Proof.
  intros F. unfold expire_before, purge_due.
  assert (E : (if lazy_expires_every_arg then fold_left (purge_key now) (lazy_args parts) (d, []) else (d, [])) = (d, []))
    by (destruct lazy_expires_every_arg; [apply purge_fold_fresh_id; exact F|reflexivity]).
  rewrite E. destruct (bmem name lazy_keyspace_commands); [|reflexivity]. cbn [fst]. apply purge_fold_fresh_id; exact F.
Qed.
Lemma pre_dbs_fresh now dbs dbi name parts : lfresh_all now dbs -> pre_dbs now dbs dbi name parts = dbs.
Proof.
  intros F. unfold pre_dbs. destruct lazy_expiry_before_dispatch; [|reflexivity].
  rewrite (expire_before_id now _ name parts (F _)). apply list_set_nth_same.
Qed.
Lemma lazy_expire_dbs now s dbi name parts :
  s_dbs (lazy_expire now s dbi name parts) = pre_dbs now (s_dbs s) dbi name parts.
Proof.
  unfold lazy_expire, pre_dbs. destruct lazy_expiry_before_dispatch; [|reflexivity].
  unfold get_db. destruct (expire_before now (nth (Z.to_nat dbi) (s_dbs s) empty_db) name parts). reflexivity.
Qed.

Lemma dc_dbs now s c dbi parts o :
  s_dbs (snd (dispatch_command now s c dbi parts o)) = dstep_dbs now (s_dbs s) dbi parts o.
Proof.
  unfold dispatch_command, dstep_dbs.
  destruct parts as [|first rest]; [reflexivity|]. destruct first; try reflexivity.
  set (s0 := if logs_before (upper b) (FBulk b :: rest) then log_aof_in s dbi (FBulk b :: rest) else s).
  assert (H0 : s_dbs s0 = s_dbs s)
    by (unfold s0; destruct (logs_before (upper b) (FBulk b :: rest)); [unfold log_aof_in; destruct (same_db _ _)|]; reflexivity).
  rewrite <- H0. clear H0. generalize s0. clear s0. intros s0.
  destruct (beq (upper b) (bs "PING")); [reflexivity|].
  destruct (beq (upper b) (bs "ECHO")); [reflexivity|].
  destruct (beq (upper b) (bs "SELECT")).
  { destruct rest as [|a [|? ?]]; try reflexivity; try (destruct a; reflexivity).
    destruct a; try reflexivity.
    destruct (parse_usize b0); [|reflexivity]. destruct (16 <=? z); [reflexivity|].
    destruct (zlookup c (s_conns s0)); reflexivity. }
  destruct (beq (upper b) (bs "FLUSHALL")).
  { destruct (negb (len (FBulk b :: rest) =? 1)); reflexivity. }
  destruct (beq (upper b) (bs "RANDOMKEY")); [reflexivity|].
  destruct (beq (upper b) (bs "AUTH")).
  { destruct (h_auth s0 0 (FBulk b :: rest)) as [r1 s1] eqn:E.
    destruct (auth_per_connection _ _ _ _ _ E) as (Hd & _). exact Hd. }
  destruct (beq (upper b) (bs "QUIT")); [reflexivity|].
  destruct (beq (upper b) (bs "VERIF")); [reflexivity|].
  unfold get_db. destruct (exec_db now (nth (Z.to_nat dbi) (s_dbs s0) empty_db) (upper b) (FBulk b :: rest) o) as [[r0 d']|];
    reflexivity.
Qed.

Lemma nc_dbs now s c dbi parts o :
  s_dbs (snd (normal_command now s c dbi parts o)) = step_dbs now (s_dbs s) dbi parts o.
Proof.
  unfold normal_command, step_dbs. destruct parts as [|[] rest]; try reflexivity.
  rewrite dc_dbs, lazy_expire_dbs. reflexivity.
Qed.

(** the records of a command run in database [dbi]: mirrors process_normal_command *)
Definition cmd_recs (now : Z) (dbs : list db) (dbi : Z) (parts : list frame) (o : option frame) : list (list frame) :=
  match parts with
  | FBulk nm :: _ => dcmd_recs now (pre_dbs now dbs dbi (upper nm) parts) dbi parts o
  | _ => []
  end.
Lemma nc_aof now s c dbi parts o :
  s_aof (snd (normal_command now s c dbi parts o)) = push_recs (s_aof s) dbi (cmd_recs now (s_dbs s) dbi parts o).
Proof.
  unfold normal_command, cmd_recs. destruct parts as [|[] rest]; try reflexivity.
  rewrite dc_aof, lazy_expire_dbs. destruct (lazy_expire_rest now s dbi (upper b) (FBulk b :: rest)) as (_ & _ & Ha & _).
  rewrite Ha. reflexivity.
Qed.

(** a command that is not in the table, run on databases without expired entries, changes nothing *)
Lemma step_dbs_unlogged now dbs dbi parts o :
  is_write parts = false -> lfresh_all now dbs -> step_dbs now dbs dbi parts o = dbs.
Proof.
  unfold step_dbs, is_write. intros Hl Hf.
  destruct parts as [|first rest]; [reflexivity|]. destruct first; try reflexivity.
  rewrite (pre_dbs_fresh now dbs dbi _ _ Hf). unfold dstep_dbs.
  destruct (beq (upper b) (bs "PING")); [reflexivity|].
  destruct (beq (upper b) (bs "ECHO")); [reflexivity|].
  destruct (beq (upper b) (bs "SELECT")); [reflexivity|].
  destruct (beq (upper b) (bs "FLUSHALL")) eqn:E.
  { apply beq_eq in E. rewrite E in Hl. vm_compute in Hl. discriminate. }
  destruct (beq (upper b) (bs "RANDOMKEY")); [reflexivity|].
  destruct (beq (upper b) (bs "AUTH")); [reflexivity|].
  destruct (beq (upper b) (bs "QUIT")); [reflexivity|].
  destruct (beq (upper b) (bs "VERIF")); [reflexivity|].
  destruct (exec_db now (nth (Z.to_nat dbi) dbs empty_db) (upper b) (FBulk b :: rest) o) as [[r d']|] eqn:Ex; [|reflexivity].
  rewrite (exec_db_inert_fresh _ _ _ _ _ _ _ Hl (Hf _) Ex). apply list_set_nth_same.
Qed.

(** ---- the connection: password-less servers, SELECT ---- *)
Lemma h_auth_nopw s c parts : s_password s = None -> snd (h_auth s c parts) = s.
Proof.
  intros Hp. unfold h_auth. rewrite Hp.
  destruct parts as [|x [|y [|? ?]]]; try reflexivity; destruct y; reflexivity.
Qed.
(** the database a connection has selected after the command (process_normal_command's SELECT) *)
Definition sel_db (cur : Z) (parts : list frame) : Z :=
  match parts with
  | [FBulk nm; FBulk a] =>
      if beq (upper nm) (bs "SELECT") then
        match parse_usize a with Some n => if 16 <=? n then cur else n | None => cur end
      else cur
  | _ => cur
  end.
Definition db_ok (n : Z) : Prop := 0 <= n < 16.
Lemma sel_db_ok cur parts : db_ok cur -> db_ok (sel_db cur parts).
Proof.
  unfold sel_db, db_ok. intros H. destruct parts as [|[] [|[] [|? ?]]]; try exact H.
  destruct (beq (upper b) (bs "SELECT")); [|exact H].
  destruct (parse_usize b0) as [n|] eqn:E; [|exact H]. destruct (16 <=? n) eqn:E2; [exact H|].
  pose proof (parse_usize_nonneg _ _ E).
  lia.
Qed.

(** connection [c] after a command it sent itself (no password configured): still there, in
    the database [sel_db] says, with the same transaction state *)
Lemma sel_db_other cur b rest : beq (upper b) (bs "SELECT") = false -> sel_db cur (FBulk b :: rest) = cur.
Proof. unfold sel_db. intros E. destruct rest as [|[] [|? ?]]; try reflexivity. rewrite E. reflexivity. Qed.
Lemma dc_conn now s c dbi parts o cn :
  s_password s = None -> zlookup c (s_conns s) = Some cn ->
  let s' := snd (dispatch_command now s c dbi parts o) in
  s_password s' = None /\
  (exists cn', zlookup c (s_conns s') = Some cn' /\ c_db cn' = sel_db (c_db cn) parts /\
               c_intx cn' = c_intx cn /\ c_queue cn' = c_queue cn) /\
  (forall c', c' <> c -> zlookup c' (s_conns s') = zlookup c' (s_conns s)).
Proof.
  intros Hpw Hc. cbv zeta. unfold dispatch_command.
  assert (Same : forall s1, sel_db (c_db cn) parts = c_db cn -> s_password s1 = None -> s_conns s1 = s_conns s ->
            s_password s1 = None /\
            (exists cn', zlookup c (s_conns s1) = Some cn' /\ c_db cn' = sel_db (c_db cn) parts /\
                         c_intx cn' = c_intx cn /\ c_queue cn' = c_queue cn) /\
            (forall c', c' <> c -> zlookup c' (s_conns s1) = zlookup c' (s_conns s))).
  { intros s1 Hs Hp1 Hc1. split; [exact Hp1|]. rewrite Hc1. split; [exists cn; auto|auto]. }
  destruct parts as [|first rest]; [apply Same; auto|]. destruct first; try (apply Same; auto; fail).
  set (s0 := if logs_before (upper b) (FBulk b :: rest) then log_aof_in s dbi (FBulk b :: rest) else s).
  assert (H0 : s_conns s0 = s_conns s /\ s_password s0 = None)
    by (unfold s0; destruct (logs_before (upper b) (FBulk b :: rest)); [unfold log_aof_in; destruct (same_db _ _)|]; auto).
  destruct H0 as [Hc0' Hp0]. generalize dependent s0. intros s0 Hcs0 Hp0.
  destruct (beq (upper b) (bs "PING")) eqn:E1.
  { apply Same; auto. apply sel_db_other. apply beq_eq in E1. rewrite E1. reflexivity. }
  destruct (beq (upper b) (bs "ECHO")) eqn:E2.
  { apply Same; auto. apply sel_db_other. apply beq_eq in E2. rewrite E2. reflexivity. }
  destruct (beq (upper b) (bs "SELECT")) eqn:E3.
  { destruct rest as [|a [|? ?]];
      try (apply Same; auto; unfold sel_db; try destruct a; reflexivity);
      try (destruct a; apply Same; auto; reflexivity).
    destruct a; try (apply Same; auto; reflexivity).
    destruct (parse_usize b0) as [n|] eqn:Ep; [|apply Same; auto; unfold sel_db; rewrite E3, Ep; reflexivity].
    destruct (16 <=? n) eqn:En; [apply Same; auto; unfold sel_db; rewrite E3, Ep, En; reflexivity|].
    rewrite Hcs0, Hc. cbn [snd set_conn s_password s_conns]. split; [exact Hp0|]. split.
    - eexists. split; [apply zlookup_zset_same|]. cbn [c_db c_intx c_queue]. unfold sel_db. rewrite E3, Ep, En. auto.
    - intros c' Hn. rewrite zlookup_zset_other by exact Hn. rewrite Hcs0. reflexivity. }
  pose proof (sel_db_other (c_db cn) b rest E3) as Hsel.
  destruct (beq (upper b) (bs "FLUSHALL")).
  { destruct (negb (len (FBulk b :: rest) =? 1)); apply Same; auto. }
  destruct (beq (upper b) (bs "RANDOMKEY")); [apply Same; auto|].
  destruct (beq (upper b) (bs "AUTH")).
  { rewrite (h_auth_nopw s0 0 _ Hp0). apply Same; auto. }
  destruct (beq (upper b) (bs "QUIT")); [apply Same; auto|].
  destruct (beq (upper b) (bs "VERIF")); [apply Same; auto|].
  destruct (exec_db now (get_db s0 dbi) (upper b) (FBulk b :: rest) o) as [[r0 d']|]; apply Same; auto.
Qed.
Lemma nc_conn now s c dbi parts o cn :
  s_password s = None -> zlookup c (s_conns s) = Some cn ->
  let s' := snd (normal_command now s c dbi parts o) in
  s_password s' = None /\
  (exists cn', zlookup c (s_conns s') = Some cn' /\ c_db cn' = sel_db (c_db cn) parts /\
               c_intx cn' = c_intx cn /\ c_queue cn' = c_queue cn) /\
  (forall c', c' <> c -> zlookup c' (s_conns s') = zlookup c' (s_conns s)).
Proof.
  intros Hpw Hc. cbv zeta. unfold normal_command.
  destruct parts as [|first rest]; [split; [exact Hpw|]; split; [exists cn; auto|auto]|].
  destruct first; try (split; [exact Hpw|]; split; [exists cn; unfold sel_db; auto|auto]).
  destruct (lazy_expire_rest now s dbi (upper b) (FBulk b :: rest)) as (Lc & Lp & _ & _).
  destruct (dc_conn now (lazy_expire now s dbi (upper b) (FBulk b :: rest)) c dbi (FBulk b :: rest) o cn) as (A & B & C);
    [rewrite Lp; exact Hpw|rewrite Lc; exact Hc|].
  split; [exact A|]. split; [exact B|]. intros c' Hn. rewrite (C c' Hn), Lc. reflexivity.
Qed.
(** a command run with a connection id that has no connection (EXEC runs its queue as 0) *)
Lemma dc_noconn now s c dbi parts o :
  s_password s = None -> zlookup c (s_conns s) = None ->
  s_conns (snd (dispatch_command now s c dbi parts o)) = s_conns s /\
  s_password (snd (dispatch_command now s c dbi parts o)) = None.
Proof.
  intros Hpw Hc. unfold dispatch_command.
  destruct parts as [|first rest]; [auto|]. destruct first; auto.
  set (s0 := if logs_before (upper b) (FBulk b :: rest) then log_aof_in s dbi (FBulk b :: rest) else s).
  assert (H0 : s_conns s0 = s_conns s /\ s_password s0 = None)
    by (unfold s0; destruct (logs_before (upper b) (FBulk b :: rest)); [unfold log_aof_in; destruct (same_db _ _)|]; auto).
  destruct H0 as [Hcs0 Hp0]. generalize dependent s0. intros s0 Hcs0 Hp0.
  destruct (beq (upper b) (bs "PING")); [auto|].
  destruct (beq (upper b) (bs "ECHO")); [auto|].
  destruct (beq (upper b) (bs "SELECT")).
  { destruct rest as [|a [|? ?]]; auto; try (destruct a; auto; fail).
    destruct a; auto. destruct (parse_usize b0); auto. destruct (16 <=? z); auto. rewrite Hcs0, Hc. cbn [snd]. auto. }
  destruct (beq (upper b) (bs "FLUSHALL")).
  { destruct (negb (len (FBulk b :: rest) =? 1)); auto. }
  destruct (beq (upper b) (bs "RANDOMKEY")); [auto|].
  destruct (beq (upper b) (bs "AUTH")).
  { rewrite (h_auth_nopw s0 0 _ Hp0). auto. }
  destruct (beq (upper b) (bs "QUIT")); [auto|].
  destruct (beq (upper b) (bs "VERIF")); [auto|].
  destruct (exec_db now (get_db s0 dbi) (upper b) (FBulk b :: rest) o) as [[r0 d']|]; auto.
Qed.

Lemma nc_noconn now s c dbi parts o :
  s_password s = None -> zlookup c (s_conns s) = None ->
  s_conns (snd (normal_command now s c dbi parts o)) = s_conns s /\
  s_password (snd (normal_command now s c dbi parts o)) = None.
Proof.
  intros Hpw Hc. unfold normal_command. destruct parts as [|[] rest]; auto.
  destruct (lazy_expire_rest now s dbi (upper b) (FBulk b :: rest)) as (Lc & Lp & _ & _).
  destruct (dc_noconn now (lazy_expire now s dbi (upper b) (FBulk b :: rest)) c dbi (FBulk b :: rest) o) as [A B];
    [rewrite Lp; exact Hpw|rewrite Lc; exact Hc|]. rewrite A, Lc. auto.
Qed.

(** ================= 5. histories as traces of executed commands ================= *)
(** one executed command: its database, the command, the oracle of its random choice (the reply
    of the implementation for SPOP and XADD *, the f64 values of sorted-set arguments), and
    whether the lazy expiry ran before it - true for everything a client sends, false for the
    pop a waiting client is served, which does not pass through process_normal_command *)
(** [x_purge]: keys of the item's database that are expired lazily (removed if their stored
    deadline has passed) before anything else - the only thing WATCH does to a database (d9330f8:
    storage.expire_if_due per key it registers; WATCH does not pass through the dispatch and
    leaves no record) *)
Record item := { x_db : Z; x_parts : list frame; x_or : option frame; x_lazy : bool; x_purge : list bytes }.
Definition purge_dbs (now : Z) (dbs : list db) (dbi : Z) (ks : list bytes) : list db :=
  list_set dbs (Z.to_nat dbi) (fst (fold_left (purge_key now) ks (nth (Z.to_nat dbi) dbs empty_db, []))).
Lemma purge_dbs_nil now dbs dbi : purge_dbs now dbs dbi [] = dbs.
Proof. unfold purge_dbs. cbn [fold_left fst]. apply list_set_nth_same. Qed.
Lemma purge_dbs_fresh now dbs dbi ks : lfresh_all now dbs -> purge_dbs now dbs dbi ks = dbs.
Proof. intros F. unfold purge_dbs. rewrite (purge_fold_fresh_id now _ (F _)). cbn [fst]. apply list_set_nth_same. Qed.
Definition xbase (now : Z) (dbs : list db) (x : item) : list db := purge_dbs now dbs (x_db x) (x_purge x).
Definition xstep_dbs (now : Z) (dbs : list db) (x : item) : list db :=
  if x_lazy x then step_dbs now (xbase now dbs x) (x_db x) (x_parts x) (x_or x)
  else dstep_dbs now (xbase now dbs x) (x_db x) (x_parts x) (x_or x).
Definition xout_recs (now : Z) (dbs : list db) (x : item) : list (list frame) :=
  match x_parts x with
  | FBulk nm :: _ =>
      dout_recs now (if x_lazy x then pre_dbs now (xbase now dbs x) (x_db x) (upper nm) (x_parts x) else xbase now dbs x) (x_db x) (x_parts x) (x_or x)
  | _ => []
  end.
Definition xrecs (now : Z) (dbs : list db) (x : item) : list (list frame) :=
  verb_recs (x_parts x) ++ xout_recs now dbs x.
(** databases and log (newest record first) *)
Definition state := (list db * list (list frame))%type.
Definition st_of (s : server) : state := (s_dbs s, s_aof s).
Definition xstep (now : Z) (st : state) (x : item) : state :=
  (xstep_dbs now (fst st) x, push_recs (snd st) (x_db x) (xrecs now (fst st) x)).
Definition run_items (now : Z) (xs : list item) (st : state) : state := fold_left (xstep now) xs st.

Lemma xrecs_lazy now dbs dbi p o :
  xrecs now dbs {| x_db := dbi; x_parts := p; x_or := o; x_lazy := true; x_purge := [] |} = cmd_recs now dbs dbi p o.
Proof.
  unfold xrecs, xout_recs, cmd_recs, dcmd_recs, xbase. cbn [x_parts x_db x_or x_lazy x_purge]. rewrite purge_dbs_nil.
  destruct p as [|[] rest]; try reflexivity; cbn [verb_recs]; rewrite ?app_nil_r; reflexivity.
Qed.
Lemma xrecs_direct now dbs dbi p o :
  xrecs now dbs {| x_db := dbi; x_parts := p; x_or := o; x_lazy := false; x_purge := [] |} = dcmd_recs now dbs dbi p o.
Proof.
  unfold xrecs, xout_recs, dcmd_recs, xbase. cbn [x_parts x_db x_or x_lazy x_purge]. rewrite purge_dbs_nil.
  destruct p as [|[] rest]; try reflexivity; cbn [verb_recs dout_recs]; rewrite ?app_nil_r; reflexivity.
Qed.
(** a command sent by a client, as one step *)
Lemma nc_state now s c dbi parts o :
  st_of (snd (normal_command now s c dbi parts o)) =
  xstep now (st_of s) {| x_db := dbi; x_parts := parts; x_or := o; x_lazy := true; x_purge := [] |}.
Proof.
  unfold st_of, xstep, xstep_dbs, xbase. cbn [fst snd x_db x_parts x_or x_lazy x_purge]. rewrite purge_dbs_nil.
  rewrite nc_dbs, nc_aof, xrecs_lazy. reflexivity.
Qed.

(** the queue of an EXEC with the database each command runs in: a queued SELECT (1ecc022) moves
    the commands after it; a queued command has lost its oracle *)
Fixpoint queue_items (dbi : Z) (q : list (list frame)) : list item :=
  match q with
  | [] => []
  | p :: r => {| x_db := dbi; x_parts := p; x_or := None; x_lazy := true; x_purge := [] |}
              :: queue_items (if beq (queued_name p) (bs "SELECT") then sel_db dbi p else dbi) r
  end.

(** the pop performed on behalf of a client waiting in BLPOP / BRPOP (Model/Blocking.v: the fast
    path of h_bpop and the delivery branch of wake_client, 293eff6): the element leaves the list
    and the LPOP / RPOP of the key is appended *)
Definition pop_cmd (lf : bool) (k : bytes) : list frame :=
  [FBulk (if lf then bs "LPOP" else bs "RPOP"); FBulk k].
Definition served_pop (s : server) (dbi : Z) (lf : bool) (k : bytes) : server :=
  match on_key (get_db s dbi) k (e_pop lf) with
  | (FBulk v, d') => log_pop (set_db s dbi d') dbi lf k
  | _ => s
  end.

(** the keys a WATCH expires lazily: those it registers (d9330f8), i.e. not the ones the connection
    already watches in the database (3f1b680), up to the first argument that is not a bulk string *)
Fixpoint watch_purged (now : Z) (dbi : Z) (d : db) (t : tracker) (args : list frame) (w : list (bytes * Z)) : list bytes :=
  match args with
  | FBulk k :: r =>
      match alookup (wkey dbi k) w with
      | Some _ => watch_purged now dbi d t r w
      | None =>
          match purge_key now (d, []) k with
          | (d1, removed) =>
              match register_watch (mark_all t removed) k with
              | (b, t') => k :: watch_purged now dbi d1 t' r (aset (wkey dbi k) b w)
              end
          end
      end
  | _ => []
  end.
Lemma purge_key_fst now d l k : fst (purge_key now (d, l) k) = fst (purge_key now (d, []) k).
Proof. unfold purge_key. cbn [fst snd]. destruct (get_entry d k) as [e|]; [destruct (expired now e)|]; reflexivity. Qed.
Lemma purge_fold_fst now : forall ks d l, fst (fold_left (purge_key now) ks (d, l)) = fst (fold_left (purge_key now) ks (d, [])).
Proof.
  induction ks as [|k ks IH]; intros d l; [reflexivity|]. cbn [fold_left].
  destruct (purge_key now (d, l) k) as [d1 l1] eqn:E1. destruct (purge_key now (d, []) k) as [d2 l2] eqn:E2.
  assert (d1 = d2) by (pose proof (purge_key_fst now d l k) as X; rewrite E1, E2 in X; exact X). subst d2.
  rewrite (IH d1 l1), (IH d1 l2). reflexivity.
Qed.
Lemma watch_loop_db now dbi : forall args d t w,
  fst (fst (fst (watch_loop_partial now dbi d t args w))) =
  fst (fold_left (purge_key now) (watch_purged now dbi d t args w) (d, [])).
Proof.
  induction args as [|a args IH]; intros d t w; cbn [watch_loop_partial watch_purged]; [reflexivity|].
  destruct a; try reflexivity. destruct (alookup (wkey dbi b) w); [apply IH|].
  destruct (purge_key now (d, []) b) as [d1 removed] eqn:E.
  destruct (register_watch (mark_all t removed) b) as [bb t']. cbn [fold_left]. rewrite E, IH.
  symmetry. apply purge_fold_fst.
Qed.

Inductive ev :=
| EConn (c : Z) | EClose (c : Z)
| EFrame (c : Z) (req : frame) (o : option frame)
| EServed (dbi : Z) (lf : bool) (k : bytes).
(** one event of the single command thread at clock reading [now] *)
Definition ev_step (now : Z) (s : server) (e : ev) : server :=
  match e with
  | EConn c => connect s c
  | EClose c => del_conn s c
  | EFrame c req o => let s' := snd (process_frame now s c req o) in
                      if is_quit req then del_conn s' c else s'
  | EServed dbi lf k => served_pop s dbi lf k
  end.
(** the commands one event executes, in execution order (no password configured): a direct
    command, the queue of an EXEC that is not aborted, the pop served to a waiting client *)
Definition ev_items (now : Z) (s : server) (e : ev) : list item :=
  match e with
  | EFrame c (FArray (FBulk nm :: rest)) o =>
      match zlookup c (s_conns s) with
      | None => []
      | Some cn =>
          let command := upper (trim nm) in
          if c_intx cn && negb (mem_name command tx_not_queued) then []
          else if beq command (bs "MULTI") then []
          else if beq command (bs "EXEC") then
            (if c_intx cn then
               if watch_violated now s cn then [] else queue_items (c_db cn) (c_queue cn)
             else [])
          else if beq command (bs "DISCARD") then []
          else if beq command (bs "WATCH") then
            (if len (FBulk nm :: rest) <? 2 then [] else if c_intx cn then []
             else [{| x_db := c_db cn; x_parts := []; x_or := None; x_lazy := false;
                      x_purge := watch_purged now (c_db cn) (get_db s (c_db cn)) (get_trk s (c_db cn)) rest (c_watched cn) |}])
          else if beq command (bs "UNWATCH") then []
          else if beq command (bs "AUTH") then []
          else [{| x_db := c_db cn; x_parts := FBulk nm :: rest; x_or := o; x_lazy := true; x_purge := [] |}]
      end
  | EServed dbi lf k =>
      match on_key (get_db s dbi) k (e_pop lf) with
      | (FBulk _, _) => [{| x_db := dbi; x_parts := pop_cmd lf k; x_or := None; x_lazy := false; x_purge := [] |}]
      | _ => []
      end
  | _ => []
  end.

Definition conns_ok (s : server) : Prop :=
  forall c cn, zlookup c (s_conns s) = Some cn -> db_ok (c_db cn).
Record linv (s : server) : Prop := {
  linv_pw : s_password s = None;
  linv_conns : conns_ok s;
  linv_zero : zlookup 0 (s_conns s) = None
}.
Definition ev_ok (e : ev) : bool :=
  match e with
  | EConn c => negb (c =? 0)
  | EServed dbi _ _ => (0 <=? dbi) && (dbi <? 16)
  | _ => true
  end.
Definition item_ok (x : item) : bool := (0 <=? x_db x) && (x_db x <? 16).

Lemma linv_set s c cn s' : linv s -> c <> 0 -> db_ok (c_db cn) ->
  s_password s' = s_password s -> s_conns s' = zset_ c cn (s_conns s) -> linv s'.
Proof.
  intros [H1 H2 H3] Hc Hd Hp E. constructor; [rewrite Hp; exact H1| |].
  - intros c' cn' Hl. rewrite E in Hl. destruct (Z.eq_dec c' c) as [->|Hn].
    + rewrite zlookup_zset_same in Hl. inversion Hl; subst. auto.
    + rewrite zlookup_zset_other in Hl by exact Hn. exact (H2 c' cn' Hl).
  - rewrite E, zlookup_zset_other by (intro X; apply Hc; symmetry; exact X). exact H3.
Qed.
Lemma linv_del s c s' : linv s -> s_password s' = s_password s -> s_conns s' = zremove c (s_conns s) -> linv s'.
Proof.
  intros [H1 H2 H3] Hp E. constructor; [rewrite Hp; exact H1| |].
  - intros c' cn' Hl. rewrite E in Hl. destruct (Z.eq_dec c' c) as [->|Hn].
    + rewrite zlookup_zremove_same in Hl. discriminate.
    + rewrite zlookup_zremove_other in Hl by exact Hn. exact (H2 c' cn' Hl).
  - rewrite E. destruct (Z.eq_dec 0 c) as [<-|Hn]; [apply zlookup_zremove_same|].
    rewrite zlookup_zremove_other by exact Hn. exact H3.
Qed.
Lemma linv_same s s' : linv s -> s_password s' = s_password s -> s_conns s' = s_conns s -> linv s'.
Proof. intros [H1 H2 H3] Hp E. constructor; [rewrite Hp; exact H1|unfold conns_ok; rewrite E; exact H2|rewrite E; exact H3]. Qed.

(** what one event does: its commands run one after the other on databases and log *)
Record ev_spec (now : Z) (s s' : server) (xs : list item) : Prop := {
  es_inv : linv s';
  es_st : st_of s' = run_items now xs (st_of s)
}.
Lemma ev_spec_nil now s s' : linv s' -> s_dbs s' = s_dbs s -> s_aof s' = s_aof s -> ev_spec now s s' [].
Proof. intros Hi Hd Ha. constructor; [exact Hi|]. unfold st_of. rewrite Hd, Ha. reflexivity. Qed.

Lemma queue_items_ok : forall q dbi, db_ok dbi -> forallb item_ok (queue_items dbi q) = true.
Proof.
  induction q as [|p q IH]; intros dbi Hd; [reflexivity|].
  cbn [queue_items forallb]. rewrite IH; [|destruct (beq _ _); [apply sel_db_ok|]; exact Hd].
  unfold item_ok, db_ok in *. cbn [x_db]. lia.
Qed.
Lemma exec_queue_spec now c : forall q s dbi acc cn,
  linv s -> zlookup c (s_conns s) = Some cn -> c_db cn = dbi ->
  ev_spec now s (snd (exec_queue now s c dbi q acc)) (queue_items dbi q).
Proof.
  induction q as [|parts q IH]; intros s dbi acc cn Hi Hc Hdb; cbn [exec_queue queue_items].
  - apply ev_spec_nil; auto.
  - assert (Hc0 : c <> 0) by (intros ->; rewrite (linv_zero _ Hi) in Hc; discriminate).
    destruct (beq (queued_name parts) (bs "SELECT")).
    + (* a queued SELECT runs for the connection that sent EXEC *)
      pose proof (nc_state now s c dbi parts None) as Hst.
      destruct (nc_conn now s c dbi parts None cn (linv_pw _ Hi) Hc) as (Hp & (cn' & Hc' & Hdb' & Hix & Hqx) & Hoth).
      destruct (normal_command now s c dbi parts None) as [rep s1]. cbn [snd] in *.
      rewrite Hc'.
      assert (Hi1 : linv s1).
      { constructor; [exact Hp| |].
        - intros c' cx Hl. destruct (Z.eq_dec c' c) as [->|Hn].
          + rewrite Hc' in Hl. inversion Hl; subst cx. rewrite Hdb'.
            apply sel_db_ok. exact (linv_conns _ Hi c cn Hc).
          + rewrite (Hoth c' Hn) in Hl. exact (linv_conns _ Hi c' cx Hl).
        - rewrite (Hoth 0 (fun X => Hc0 (eq_sym X))). exact (linv_zero _ Hi). }
      rewrite Hdb', Hdb.
      destruct (IH s1 (sel_db dbi parts) (rep :: acc) cn' Hi1 Hc' (eq_trans Hdb' (f_equal (fun x => sel_db x parts) Hdb))) as [X1 X2].
      constructor; [exact X1|]. rewrite X2. unfold run_items. cbn [fold_left]. rewrite Hst. reflexivity.
    + pose proof (nc_state now s 0 dbi parts None) as Hst.
      destruct (nc_noconn now s 0 dbi parts None (linv_pw _ Hi) (linv_zero _ Hi)) as [Hcs Hp].
      destruct (normal_command now s 0 dbi parts None) as [rep s1]. cbn [snd] in *.
      assert (Hi1 : linv s1) by (eapply linv_same; [exact Hi|rewrite Hp, (linv_pw _ Hi); reflexivity|exact Hcs]).
      assert (Hc1 : zlookup c (s_conns s1) = Some cn) by (rewrite Hcs; exact Hc).
      destruct (IH s1 dbi (rep :: acc) cn Hi1 Hc1 Hdb) as [X1 X2]. constructor; [exact X1|].
      rewrite X2. unfold run_items. cbn [fold_left]. rewrite Hst. reflexivity.
Qed.
Lemma unwatch_all_rest : forall w s,
  s_dbs (unwatch_all s w) = s_dbs s /\ s_conns (unwatch_all s w) = s_conns s /\
  s_password (unwatch_all s w) = s_password s /\ s_aof (unwatch_all s w) = s_aof s.
Proof.
  unfold unwatch_all. induction w as [|kb w IH]; intros s; cbn [fold_left]; [auto|].
  destruct (IH (set_trk s (wkey_db (fst kb)) (unregister_watch (get_trk s (wkey_db (fst kb))) (wkey_key (fst kb))))) as (A & B & C & D).
  rewrite A, B, C, D. auto.
Qed.

(** the served pop is the pop command run without the lazy expiry, and leaves its record *)
Lemma pop_exec now d (lf : bool) k o :
  exec_db now d (if lf then bs "LPOP" else bs "RPOP") (pop_cmd lf k) o = Some (on_key d k (e_pop lf)).
Proof. destruct lf; reflexivity. Qed.
Lemma pop_upper (lf : bool) : upper (if lf then bs "LPOP" else bs "RPOP") = (if lf then bs "LPOP" else bs "RPOP").
Proof. destruct lf; reflexivity. Qed.
Lemma pop_dstep now dbs dbi (lf : bool) k :
  dstep_dbs now dbs dbi (pop_cmd lf k) None =
  list_set dbs (Z.to_nat dbi) (snd (on_key (nth (Z.to_nat dbi) dbs empty_db) k (e_pop lf))).
Proof.
  unfold dstep_dbs, pop_cmd. rewrite pop_upper.
  replace (beq (if lf then bs "LPOP" else bs "RPOP") (bs "PING")) with false by (destruct lf; reflexivity).
  replace (beq (if lf then bs "LPOP" else bs "RPOP") (bs "ECHO")) with false by (destruct lf; reflexivity).
  replace (beq (if lf then bs "LPOP" else bs "RPOP") (bs "SELECT")) with false by (destruct lf; reflexivity).
  replace (beq (if lf then bs "LPOP" else bs "RPOP") (bs "FLUSHALL")) with false by (destruct lf; reflexivity).
  replace (beq (if lf then bs "LPOP" else bs "RPOP") (bs "RANDOMKEY")) with false by (destruct lf; reflexivity).
  replace (beq (if lf then bs "LPOP" else bs "RPOP") (bs "AUTH")) with false by (destruct lf; reflexivity).
  replace (beq (if lf then bs "LPOP" else bs "RPOP") (bs "QUIT")) with false by (destruct lf; reflexivity).
  replace (beq (if lf then bs "LPOP" else bs "RPOP") (bs "VERIF")) with false by (destruct lf; reflexivity).
  fold (pop_cmd lf k). rewrite pop_exec. destruct (on_key _ k (e_pop lf)). reflexivity.
Qed.
Lemma pop_recs now dbs dbi (lf : bool) k : dcmd_recs now dbs dbi (pop_cmd lf k) None = [pop_cmd lf k].
Proof.
  unfold dcmd_recs, verb_recs, dout_recs, pop_cmd. rewrite pop_upper.
  replace (logs_before (if lf then bs "LPOP" else bs "RPOP") [FBulk (if lf then bs "LPOP" else bs "RPOP"); FBulk k]) with true
    by (destruct lf; reflexivity).
  replace (beq (if lf then bs "LPOP" else bs "RPOP") (bs "PING")) with false by (destruct lf; reflexivity).
  replace (beq (if lf then bs "LPOP" else bs "RPOP") (bs "ECHO")) with false by (destruct lf; reflexivity).
  replace (beq (if lf then bs "LPOP" else bs "RPOP") (bs "SELECT")) with false by (destruct lf; reflexivity).
  replace (beq (if lf then bs "LPOP" else bs "RPOP") (bs "FLUSHALL")) with false by (destruct lf; reflexivity).
  replace (beq (if lf then bs "LPOP" else bs "RPOP") (bs "RANDOMKEY")) with false by (destruct lf; reflexivity).
  replace (beq (if lf then bs "LPOP" else bs "RPOP") (bs "AUTH")) with false by (destruct lf; reflexivity).
  replace (beq (if lf then bs "LPOP" else bs "RPOP") (bs "QUIT")) with false by (destruct lf; reflexivity).
  replace (beq (if lf then bs "LPOP" else bs "RPOP") (bs "VERIF")) with false by (destruct lf; reflexivity).
  fold (pop_cmd lf k). rewrite pop_exec. destruct (on_key _ k (e_pop lf)) as [r d'].
  unfold out_recs.
  replace (by_outcome (if lf then bs "LPOP" else bs "RPOP") (pop_cmd lf k)) with false by (destruct lf; reflexivity).
  replace (ttl_recorded (if lf then bs "LPOP" else bs "RPOP")) with false by (destruct lf; reflexivity).
  reflexivity.
Qed.
Lemma served_pop_spec now s dbi lf k :
  linv s -> ev_spec now s (served_pop s dbi lf k) (ev_items now s (EServed dbi lf k)).
Proof.
  intros Hi. unfold served_pop. cbn [ev_items].
  destruct (on_key (get_db s dbi) k (e_pop lf)) as [r d'] eqn:E.
  assert (Hsame : ev_spec now s s []) by (apply ev_spec_nil; auto).
  destruct r; try exact Hsame.
  constructor.
  - eapply linv_same; [exact Hi| |]; unfold log_pop, log_aof_in; destruct (same_db _ _); reflexivity.
  - unfold run_items. cbn [fold_left]. unfold xstep, xstep_dbs, st_of, xbase. cbn [fst snd x_db x_parts x_or x_lazy x_purge].
    rewrite purge_dbs_nil, xrecs_direct, pop_recs, pop_dstep. unfold get_db in E. rewrite E. cbn [snd].
    unfold log_pop. rewrite s_aof_log_aof_in. f_equal.
    unfold log_aof_in. destruct (same_db _ _); reflexivity.
Qed.

Lemma ev_step_spec now s e :
  linv s -> ev_ok e = true ->
  ev_spec now s (ev_step now s e) (ev_items now s e) /\ forallb item_ok (ev_items now s e) = true.
Proof.
  intros Hi Hok. destruct e as [c|c|c req o|dbi lf k]; cbn [ev_step].
  - split; [|reflexivity]. apply ev_spec_nil; try reflexivity.
    cbn [ev_ok] in Hok. apply negb_true_iff in Hok.
    eapply (linv_set s c); [exact Hi|lia| |reflexivity|reflexivity]. cbn; unfold db_ok; lia.
  - split; [|reflexivity]. apply ev_spec_nil; try reflexivity.
    eapply linv_del; [exact Hi|reflexivity|reflexivity].
  - cbn [ev_items].
    assert (Hq : forall s1 xs, ev_spec now s s1 xs ->
                   ev_spec now s (if is_quit req then del_conn s1 c else s1) xs).
    { intros s1 xs X. destruct (is_quit req); [|exact X]. destruct X as [X1 X2].
      constructor; [|exact X2]. eapply linv_del; [exact X1|reflexivity|reflexivity]. }
    assert (Hsame : ev_spec now s s []) by (apply ev_spec_nil; auto).
    unfold process_frame.
    destruct req as [| | | | |l| | | | | | |]; try (split; [apply Hq; exact Hsame|reflexivity]).
    destruct l as [|first rest]; [split; [apply Hq; exact Hsame|reflexivity]|].
    destruct first as [| | |nm| | | | | | | | |]; try (split; [apply Hq; exact Hsame|reflexivity]).
    destruct (zlookup c (s_conns s)) as [cn|] eqn:Hc; [|split; [apply Hq; exact Hsame|reflexivity]].
    pose proof (linv_conns _ Hi c cn Hc) as Hdb.
    assert (Hc0 : c <> 0) by (intros ->; rewrite (linv_zero _ Hi) in Hc; discriminate).
    rewrite (linv_pw _ Hi). cbn [andb].
    set (parts := FBulk nm :: rest) in *.
    assert (Hconn : forall cn' s', db_ok (c_db cn') ->
              s_dbs s' = s_dbs s -> s_password s' = s_password s -> s_aof s' = s_aof s ->
              s_conns s' = zset_ c cn' (s_conns s) ->
              ev_spec now s (if is_quit (FArray parts) then del_conn s' c else s') []).
    { intros cn' s' Hd' Hd Hp Ha Hcs. apply Hq. apply ev_spec_nil; auto. eapply (linv_set s c cn'); eauto. }
    destruct (c_intx cn && negb (mem_name (upper (trim nm)) tx_not_queued)).
    { split; [|reflexivity]. cbn [snd]. eapply Hconn; try reflexivity. exact Hdb. }
    destruct (beq (upper (trim nm)) (bs "MULTI")).
    { split; [|reflexivity]. destruct (c_intx cn); [apply Hq; exact Hsame|]. cbn [snd].
      eapply Hconn; try reflexivity. exact Hdb. }
    destruct (beq (upper (trim nm)) (bs "EXEC")).
    { unfold h_exec. destruct (c_intx cn); [|split; [apply Hq; exact Hsame|reflexivity]]. cbn [negb].
      assert (Hi1 : linv (set_conn s c (clear_tx cn))).
      { eapply (linv_set s c (clear_tx cn)); [exact Hi|exact Hc0|exact Hdb|reflexivity|reflexivity]. }
      destruct (watch_violated now s cn).
      { split; [|reflexivity]. cbn [snd]. eapply Hconn; try reflexivity. exact Hdb. }
      split; [|apply queue_items_ok; assumption].
      pose proof (exec_queue_spec now c (c_queue cn) (set_conn s c (clear_tx cn)) (c_db cn) [] (clear_tx cn) Hi1
                    (zlookup_zset_same _ _ _) eq_refl) as X.
      destruct (exec_queue now (set_conn s c (clear_tx cn)) c (c_db cn) (c_queue cn) []) as [reps s2]. cbn [snd] in *.
      apply Hq. destruct X as [X1 X2]. constructor; [exact X1|exact X2]. }
    destruct (beq (upper (trim nm)) (bs "DISCARD")).
    { split; [|reflexivity]. destruct (c_intx cn); [|apply Hq; exact Hsame]. cbn [negb snd].
      eapply Hconn; try reflexivity. exact Hdb. }
    destruct (beq (upper (trim nm)) (bs "WATCH")).
    { destruct (len parts <? 2); [split; [apply Hq; exact Hsame|reflexivity]|].
      destruct (c_intx cn); [split; [apply Hq; exact Hsame|reflexivity]|].
      split; [|cbn [forallb]; unfold item_ok, db_ok in *; cbn [x_db]; lia].
      pose proof (watch_loop_db now (c_db cn) rest (get_db s (c_db cn)) (get_trk s (c_db cn)) (c_watched cn)) as Hw.
      destruct (watch_loop_partial now (c_db cn) (get_db s (c_db cn)) (get_trk s (c_db cn)) rest (c_watched cn)) as [[[d' t'] w'] okb].
      cbn [fst snd] in Hw. cbn [snd]. apply Hq. constructor.
      - eapply (linv_set s c (with_tx cn false (c_queue cn) w')); [exact Hi|exact Hc0|exact Hdb|reflexivity|reflexivity].
      - unfold run_items. cbn [fold_left]. unfold xstep, xstep_dbs, xrecs, xout_recs, st_of, xbase, purge_dbs.
        cbn [fst snd x_db x_parts x_or x_lazy x_purge verb_recs app push_recs dstep_dbs].
        change (nth (Z.to_nat (c_db cn)) (s_dbs s) empty_db) with (get_db s (c_db cn)). rewrite <- Hw. reflexivity. }
    destruct (beq (upper (trim nm)) (bs "UNWATCH")).
    { split; [|reflexivity]. cbn [snd]. destruct (unwatch_all_rest (c_watched cn) s) as (U1 & U2 & U3 & U4).
      eapply (Hconn (with_tx cn (c_intx cn) (c_queue cn) [])); [exact Hdb| | | |];
        cbn [set_conn s_dbs s_password s_aof s_conns]; try assumption.
      rewrite U2. reflexivity. }
    destruct (beq (upper (trim nm)) (bs "AUTH")).
    { split; [|reflexivity]. rewrite (h_auth_nopw s c parts (linv_pw _ Hi)). apply Hq. exact Hsame. }
    (* a command executed directly *)
    split; [|cbn [forallb]; unfold item_ok, db_ok in *; cbn [x_db]; lia].
    apply Hq.
    pose proof (nc_state now s c (c_db cn) parts o) as Hst.
    destruct (nc_conn now s c (c_db cn) parts o cn (linv_pw _ Hi) Hc) as (Hp & (cn' & Hc' & Hdb' & Hix & Hqx) & Hoth).
    destruct (normal_command now s c (c_db cn) parts o) as [rep s1]. cbn [snd] in *.
    constructor; [|exact Hst].
    constructor; [exact Hp| |].
    + intros c' cx Hl. destruct (Z.eq_dec c' c) as [->|Hn].
      * rewrite Hc' in Hl. inversion Hl; subst cx. rewrite Hdb'. apply sel_db_ok; exact Hdb.
      * rewrite (Hoth c' Hn) in Hl. exact (linv_conns _ Hi c' cx Hl).
    + rewrite (Hoth 0 (fun X => Hc0 (eq_sym X))). exact (linv_zero _ Hi).
  - split; [apply served_pop_spec; exact Hi|]. cbn [ev_items].
    destruct (on_key (get_db s dbi) k (e_pop lf)) as [[] d']; try reflexivity.
    cbn [forallb]. unfold item_ok. cbn [x_db]. cbn [ev_ok] in Hok. rewrite Hok. reflexivity.
Qed.

(** ---- histories with a clock reading per event ---- *)
Definition tev := (Z * ev)%type.
Definition titem := (Z * item)%type.
Definition tev_step (s : server) (te : tev) : server := ev_step (fst te) s (snd te).
Definition run_tevs (h : list tev) : server := fold_left tev_step h (init_server None).
Fixpoint trace_from (s : server) (h : list tev) : list titem :=
  match h with
  | [] => []
  | te :: r => map (fun x => (fst te, x)) (ev_items (fst te) s (snd te)) ++ trace_from (tev_step s te) r
  end.
(** the executed commands of a history, each with its event's clock reading *)
Definition trace_of (h : list tev) : list titem := trace_from (init_server None) h.
Definition run_trace (tr : list titem) (st : state) : state :=
  fold_left (fun st tx => xstep (fst tx) st (snd tx)) tr st.

Lemma run_trace_app a b st : run_trace (a ++ b) st = run_trace b (run_trace a st).
Proof. unfold run_trace. apply fold_left_app. Qed.
Lemma run_trace_same_time t xs st : run_trace (map (fun x => (t, x)) xs) st = run_items t xs st.
Proof. revert st. induction xs as [|p xs IH]; intros st; [reflexivity|]. cbn [map]. unfold run_trace, run_items in *. cbn [fold_left fst snd]. apply IH. Qed.

Lemma history_is_trace : forall h s,
  linv s -> forallb (fun te => ev_ok (snd te)) h = true ->
  st_of (fold_left tev_step h s) = run_trace (trace_from s h) (st_of s) /\
  forallb (fun x => item_ok (snd x)) (trace_from s h) = true.
Proof.
  induction h as [|[t e] h IH]; intros s Hi Hok; cbn [fold_left trace_from].
  - auto.
  - cbn [forallb snd] in Hok. apply andb_prop in Hok as [Hok1 Hok2].
    destruct (ev_step_spec t s e Hi Hok1) as [[E1 E2] E4].
    change (tev_step s (t, e)) with (ev_step t s e). cbn [fst snd].
    destruct (IH (ev_step t s e) E1 Hok2) as (I1 & I3). split.
    + rewrite I1, run_trace_app, run_trace_same_time, E2. reflexivity.
    + rewrite forallb_app, I3, andb_true_r. rewrite forallb_forall in *. intros [t' p] Hin.
      apply in_map_iff in Hin as (p' & Hp & Hin). inversion Hp; subst. cbn [snd]. exact (E4 _ Hin).
Qed.
Lemma linv_init : linv (init_server None).
Proof. constructor; try reflexivity. intros c cn Hl. cbn in Hl. discriminate. Qed.

(** ---- the records of the file, oldest first ---- *)
(** a record with the oracle the model's redo needs for it (the oracle of the command that was
    logged as it was sent; none for the records the engine composed itself) *)
Definition orec := (list frame * option frame)%type.
Definition xorecs (now : Z) (dbs : list db) (x : item) : list orec :=
  map (fun r => (r, x_or x)) (verb_recs (x_parts x)) ++ map (fun r => (r, None)) (xout_recs now dbs x).
Lemma xorecs_fst now dbs x : map fst (xorecs now dbs x) = xrecs now dbs x.
Proof. unfold xorecs, xrecs. rewrite map_app, !map_map. cbn [fst]. rewrite !map_id. reflexivity. Qed.
(** the SELECT record in front of a group of records written under [dbi]; [last] = the database
    the engine remembers *)
Definition sel_recs {A} (last : option Z) (dbi : Z) (rs : list A) : list (list frame) :=
  match rs with [] => [] | _ => if same_db last dbi then [] else [aof_select dbi] end.
Definition next_last {A} (last : option Z) (dbi : Z) (rs : list A) : option Z :=
  match rs with [] => last | _ => Some dbi end.
Fixpoint trecs (tr : list titem) (dbs : list db) (last : option Z) : list orec :=
  match tr with
  | [] => []
  | (t, x) :: r =>
      let rs := xorecs t dbs x in
      map (fun p => (p, None)) (sel_recs last (x_db x) rs) ++ rs
        ++ trecs r (xstep_dbs t dbs x) (next_last last (x_db x) rs)
  end.

Lemma small_db_text n : db_ok n -> parse_usize (print_int n) = Some n.
Proof.
  unfold db_ok. intros H.
  assert (C : n = 0 \/ n = 1 \/ n = 2 \/ n = 3 \/ n = 4 \/ n = 5 \/ n = 6 \/ n = 7 \/ n = 8 \/ n = 9 \/
              n = 10 \/ n = 11 \/ n = 12 \/ n = 13 \/ n = 14 \/ n = 15) by lia.
  repeat (destruct C as [-> | C]; [vm_compute; reflexivity|]). subst. vm_compute. reflexivity.
Qed.
Lemma written_not_select nm : mem_name (upper nm) write_commands = true -> beq (upper nm) (bs "SELECT") = false.
Proof.
  intros H. destruct (beq (upper nm) (bs "SELECT")) eqn:E; [|reflexivity].
  apply beq_eq in E. rewrite E in H. vm_compute in H. discriminate.
Qed.
Lemma logged_not_select nm rest : is_logged (FBulk nm :: rest) = true -> beq (upper nm) (bs "SELECT") = false.
Proof. intros H. apply written_not_select. exact (is_logged_write _ H). Qed.
Lemma upper_select_id nm : beq nm (bs "SELECT") = true -> beq (upper nm) (bs "SELECT") = true.
Proof. intros H. apply beq_eq in H. subst. reflexivity. Qed.
(** a record that is never mistaken for the engine's SELECT record *)
Definition rec_plain (p : list frame) : Prop := p <> [] /\ forall l, aof_last_db (p :: l) = aof_last_db l.
Lemma plain3 f1 f2 f3 r : rec_plain (f1 :: f2 :: f3 :: r).
Proof. split; [discriminate|]. intros l. cbn [aof_last_db]. destruct f1; try reflexivity. destruct f2; reflexivity. Qed.
Lemma logged_plain p : is_logged p = true -> rec_plain p.
Proof.
  intros H. split; [destruct p; [discriminate H|discriminate]|]. intros l.
  destruct p as [|f1 [|f2 [|f3 r]]]; try discriminate; cbn [aof_last_db]; try reflexivity.
  - destruct f1; reflexivity.
  - destruct f1; try reflexivity. destruct f2; try reflexivity.
    destruct (beq b (bs "SELECT")) eqn:E; [|reflexivity].
    apply upper_select_id in E. rewrite (logged_not_select _ _ H) in E. discriminate.
  - destruct f1; try reflexivity. destruct f2; reflexivity.
Qed.
Lemma verb_plain p : Forall rec_plain (verb_recs p).
Proof.
  unfold verb_recs. destruct p as [|[] rest]; try constructor.
  destruct (logs_before (upper b) (FBulk b :: rest)) eqn:E; constructor; [|constructor].
  apply logged_plain. exact E.
Qed.
Lemma deterministic_plain name parts reply p : deterministic_form name parts reply = Some p -> rec_plain p.
Proof.
  unfold deterministic_form. destruct (beq name (bs "SPOP")).
  - destruct (nth_error parts 1); [|discriminate]. destruct reply; try discriminate.
    + intros H; inversion H; apply plain3.
    + destruct l; [discriminate|]. intros H; inversion H; apply plain3.
  - destruct parts as [|a [|b0 [|c0 rest]]]; try discriminate. destruct reply; try discriminate.
    intros H; inversion H; apply plain3.
Qed.
Lemma out_plain now d' name parts reply : Forall rec_plain (out_recs now d' name parts reply).
Proof.
  unfold out_recs. apply Forall_app. split.
  - destruct (by_outcome name parts); [|constructor].
    destruct (deterministic_form name parts reply) eqn:E; constructor; [|constructor].
    eapply deterministic_plain; exact E.
  - destruct (ttl_recorded name && negb (is_err reply)); [|constructor].
    destruct (nth_error parts 1) as [[]|]; try constructor.
    destruct (eng_ttl now d' b); constructor; [apply plain3|constructor].
Qed.
Lemma dout_plain now dbs dbi parts o : Forall rec_plain (dout_recs now dbs dbi parts o).
Proof.
  unfold dout_recs. destruct parts as [|[] rest]; try constructor.
  repeat match goal with |- Forall _ (if ?c then _ else _) => destruct c; [constructor|] end.
  destruct (exec_db _ _ _ _ _) as [[r d']|]; [apply out_plain|constructor].
Qed.
Lemma xrecs_plain now dbs x : Forall rec_plain (xrecs now dbs x).
Proof.
  unfold xrecs, xout_recs. apply Forall_app. split; [apply verb_plain|].
  destruct (x_parts x) as [|[] rest]; try constructor; apply dout_plain.
Qed.

Lemma last_db_push log dbi p : rec_plain p -> db_ok dbi -> aof_last_db (aof_push log dbi p) = Some dbi.
Proof.
  intros [_ H] Hd. unfold aof_push. rewrite H.
  destruct (aof_last_db log) as [n|] eqn:E; cbn [same_db].
  - destruct (n =? dbi) eqn:En; [apply Z.eqb_eq in En; subst; exact E|].
    cbn [aof_last_db aof_select]. change (beq (bs "SELECT") (bs "SELECT")) with true. cbv iota. apply small_db_text; exact Hd.
  - cbn [aof_last_db aof_select]. change (beq (bs "SELECT") (bs "SELECT")) with true. cbv iota. apply small_db_text; exact Hd.
Qed.
Lemma push_recs_rev : forall rs log dbi, Forall rec_plain rs -> db_ok dbi ->
  rev (push_recs log dbi rs) = rev log ++ sel_recs (aof_last_db log) dbi rs ++ rs /\
  aof_last_db (push_recs log dbi rs) = next_last (aof_last_db log) dbi rs.
Proof.
  intros rs log dbi Hp Hd. destruct rs as [|r rs]; [cbn; rewrite app_nil_r; auto|].
  inversion Hp as [|? ? Hr Hrs]; subst. cbn [sel_recs next_last].
  unfold push_recs. cbn [fold_left]. fold (push_recs (aof_push log dbi r) dbi rs).
  assert (G : forall rs log1, Forall rec_plain rs -> aof_last_db log1 = Some dbi ->
            rev (push_recs log1 dbi rs) = rev log1 ++ rs /\ aof_last_db (push_recs log1 dbi rs) = Some dbi).
  { clear. induction rs as [|r rs IH]; intros log1 Hp Hl; [cbn; rewrite app_nil_r; auto|].
    inversion Hp as [|? ? Hr Hrs]; subst. unfold push_recs. cbn [fold_left]. fold (push_recs (aof_push log1 dbi r) dbi rs).
    assert (E : aof_push log1 dbi r = r :: log1) by (unfold aof_push; rewrite Hl; cbn [same_db]; rewrite Z.eqb_refl; reflexivity).
    rewrite E. destruct (IH (r :: log1) Hrs) as [A B]; [rewrite (proj2 Hr); exact Hl|].
    rewrite A, B. cbn [rev]. rewrite <- app_assoc. auto. }
  destruct (G rs (aof_push log dbi r) Hrs (last_db_push log dbi r Hr Hd)) as [A B].
  rewrite A, B. split; [|reflexivity]. unfold aof_push.
  destruct (same_db (aof_last_db log) dbi); cbn [rev app]; rewrite <- ?app_assoc; reflexivity.
Qed.
Lemma push_recs_records : forall rs log dbi, Forall rec_plain rs -> forallb is_record log = true ->
  forallb is_record (push_recs log dbi rs) = true.
Proof.
  induction rs as [|r rs IH]; intros log dbi Hp H; [exact H|]. inversion Hp as [|? ? Hr Hrs]; subst.
  unfold push_recs. cbn [fold_left]. apply IH; [exact Hrs|].
  unfold aof_push. destruct Hr as [Hne _]. destruct r; [contradiction|].
  destruct (same_db _ _); cbn [forallb is_record aof_select]; rewrite H; reflexivity.
Qed.
Lemma filter_all {A} (p : A -> bool) l : forallb p l = true -> filter p l = l.
Proof. induction l as [|x l IH]; [reflexivity|]. cbn [forallb filter]. intros H. apply andb_prop in H as [H1 H2]. rewrite H1, IH; auto. Qed.

Lemma run_trace_cons t x tr st : run_trace ((t, x) :: tr) st = run_trace tr (xstep t st x).
Proof. reflexivity. Qed.
(** the log after a trace: the records of its commands, oldest first *)
Lemma run_trace_recs : forall tr dbs log,
  forallb (fun x => item_ok (snd x)) tr = true ->
  rev (snd (run_trace tr (dbs, log))) = rev log ++ map fst (trecs tr dbs (aof_last_db log)) /\
  (forallb is_record log = true -> forallb is_record (snd (run_trace tr (dbs, log))) = true).
Proof.
  induction tr as [|[t x] tr IH]; intros dbs log Hok; [cbn; rewrite app_nil_r; auto|].
  cbn [forallb snd] in Hok. apply andb_prop in Hok as [H1 H2].
  assert (Hd : db_ok (x_db x)) by (unfold item_ok in H1; unfold db_ok; lia).
  rewrite run_trace_cons.
  change (xstep t (dbs, log) x) with (xstep_dbs t dbs x, push_recs log (x_db x) (xrecs t dbs x)).
  destruct (push_recs_rev (xrecs t dbs x) log (x_db x) (xrecs_plain t dbs x) Hd) as [A B].
  destruct (IH (xstep_dbs t dbs x) (push_recs log (x_db x) (xrecs t dbs x)) H2) as [I1 I2]. split.
  - rewrite I1, A, B. cbn [trecs]. rewrite !map_app, map_map. cbn [fst]. rewrite map_id, xorecs_fst.
    rewrite <- !app_assoc. f_equal. f_equal.
    + rewrite <- (xorecs_fst t dbs x). destruct (xorecs t dbs x); reflexivity.
    + f_equal. rewrite <- (xorecs_fst t dbs x). destruct (xorecs t dbs x); reflexivity.
  - intros Hr. apply I2. apply push_recs_records; [apply xrecs_plain|exact Hr].
Qed.

(** the file of a history is the records of its trace *)
Definition dbs0 : list db := s_dbs (init_server None).
Lemma history_file h :
  forallb (fun te => ev_ok (snd te)) h = true ->
  aof_log (run_tevs h) = map fst (trecs (trace_of h) dbs0 None).
Proof.
  intros Hok. unfold run_tevs, trace_of, aof_log.
  destruct (history_is_trace h (init_server None) linv_init Hok) as (H2 & H3).
  change (s_aof (fold_left tev_step h (init_server None))) with (snd (st_of (fold_left tev_step h (init_server None)))).
  rewrite H2. change (st_of (init_server None)) with (dbs0, @nil (list frame)).
  destruct (run_trace_recs (trace_from (init_server None) h) dbs0 [] H3) as [A B].
  rewrite filter_all by (apply B; reflexivity). exact A.
Qed.
Lemma history_dbs h :
  forallb (fun te => ev_ok (snd te)) h = true ->
  s_dbs (run_tevs h) = fst (run_trace (trace_of h) (dbs0, [])).
Proof.
  intros Hok. unfold run_tevs, trace_of.
  destruct (history_is_trace h (init_server None) linv_init Hok) as (H2 & _).
  change (s_dbs (fold_left tev_step h (init_server None))) with (fst (st_of (fold_left tev_step h (init_server None)))).
  rewrite H2. reflexivity.
Qed.
(** the databases along a trace do not depend on the log *)
Lemma run_trace_dbs : forall tr dbs log log', fst (run_trace tr (dbs, log)) = fst (run_trace tr (dbs, log')).
Proof.
  induction tr as [|[t x] tr IH]; intros dbs log log'; [reflexivity|].
  rewrite !run_trace_cons. unfold xstep. cbn [fst snd]. apply IH.
Qed.
Fixpoint trace_dbs (tr : list titem) (dbs : list db) : list db :=
  match tr with [] => dbs | (t, x) :: r => trace_dbs r (xstep_dbs t dbs x) end.
Lemma run_trace_fst : forall tr dbs log, fst (run_trace tr (dbs, log)) = trace_dbs tr dbs.
Proof.
  induction tr as [|[t x] tr IH]; intros dbs log; [reflexivity|].
  rewrite run_trace_cons. cbn [trace_dbs]. unfold xstep. cbn [fst snd]. apply IH.
Qed.

(** ---- the redo of a list of records, as a function of (selected database, databases) ---- *)
Definition redo_step (now : Z) (st : Z * list db) (po : orec) : Z * list db :=
  (sel_db (fst st) (fst po), step_dbs now (snd st) (fst st) (fst po) (snd po)).
Definition redo (now : Z) (log : list orec) (st : Z * list db) : Z * list db :=
  fold_left (redo_step now) log st.
Lemma redo_app now a b st : redo now (a ++ b) st = redo now b (redo now a st).
Proof. unfold redo. apply fold_left_app. Qed.
Definition replay_from (now : Z) (R : server) (log : list orec) : server :=
  fold_left (replay_step now) log R.
Lemma replay_from_redo now : forall log R cn,
  s_password R = None -> zlookup replay_conn (s_conns R) = Some cn ->
  let R' := replay_from now R log in
  (conn_db R' replay_conn, s_dbs R') = redo now log (c_db cn, s_dbs R).
Proof.
  induction log as [|[p o] log IH]; intros R cn Hp Hc; cbv zeta.
  - unfold replay_from, conn_db. cbn [fold_left redo]. rewrite Hc. reflexivity.
  - pose proof (nc_dbs now R replay_conn (c_db cn) p o) as Hd.
    destruct (nc_conn now R replay_conn (c_db cn) p o cn Hp Hc) as (Hp' & (cn' & Hc' & Hdb' & _) & _).
    set (R1 := snd (normal_command now R replay_conn (c_db cn) p o)) in *.
    assert (E : replay_step now R (p, o) = R1).
    { unfold replay_step. cbn [fst snd]. unfold conn_db. rewrite Hc. reflexivity. }
    unfold replay_from. cbn [fold_left]. rewrite E.
    change (fold_left (replay_step now) log R1) with (replay_from now R1 log).
    etransitivity; [apply (IH R1 cn' Hp' Hc')|].
    unfold redo. cbn [fold_left]. unfold redo_step at 2. cbn [fst snd]. rewrite Hdb', Hd. reflexivity.
Qed.
Lemma replay_redo now log :
  s_dbs (replay_o now log) = snd (redo now log (0, dbs0)).
Proof.
  pose proof (replay_from_redo now log replay_init (new_conn true) eq_refl eq_refl) as H. cbv zeta in H.
  unfold replay_o. change (fold_left (replay_step now) log replay_init) with (replay_from now replay_init log).
  change (c_db (new_conn true)) with 0 in H. change (s_dbs replay_init) with dbs0 in H.
  rewrite <- H. reflexivity.
Qed.

Lemma sel_db_written cur p : is_write p = true -> sel_db cur p = cur.
Proof.
  intros H. destruct p as [|[] rest]; try discriminate. apply sel_db_other. apply written_not_select. exact H.
Qed.
Lemma sel_db_select cur dbi : db_ok dbi -> sel_db cur (aof_select dbi) = dbi.
Proof.
  intros Hd. unfold aof_select, sel_db. change (upper (bs "SELECT")) with (bs "SELECT").
  change (beq (bs "SELECT") (bs "SELECT")) with true. cbv iota.
  rewrite (small_db_text dbi Hd). unfold db_ok in Hd. replace (16 <=? dbi) with false by lia. reflexivity.
Qed.
Lemma select_unwritten dbi : is_write (aof_select dbi) = false.
Proof. vm_compute. reflexivity. Qed.

(** ---- the generic redo theorem over traces ---- *)
(** [Rl] relates the databases of the live server with those of the redo; [Q] is what is asked
    of every state of the live run, [P] of every executed command (with the state it ran in) *)
Section TraceRel.
Variable Rl : list db -> list db -> Prop.
Variable now' : Z.
Variable Q : list db -> Prop.
Variable P : titem -> list db -> Prop.
(** the SELECT record changes nothing *)
Hypothesis sel_rel : forall d1 d2 cur dbi, Q d1 -> Rl d1 d2 -> db_ok dbi ->
  Rl d1 (step_dbs now' d2 cur (aof_select dbi) None).
(** the records of one command, redone in its database, do what the command did *)
Hypothesis item_rel : forall t x d1 d2, Q d1 -> P (t, x) d1 -> item_ok x = true -> Rl d1 d2 ->
  redo now' (xorecs t d1 x) (x_db x, d2) = (x_db x, snd (redo now' (xorecs t d1 x) (x_db x, d2))) /\
  Rl (xstep_dbs t d1 x) (snd (redo now' (xorecs t d1 x) (x_db x, d2))).
(** a command that leaves no record changed nothing *)
Hypothesis quiet_rel : forall t x d1 d2, Q d1 -> P (t, x) d1 -> Rl d1 d2 -> xorecs t d1 x = [] ->
  Rl (xstep_dbs t d1 x) d2.

Fixpoint along (tr : list titem) (d1 : list db) : Prop :=
  match tr with
  | [] => Q d1
  | (t, x) :: r => Q d1 /\ P (t, x) d1 /\ along r (xstep_dbs t d1 x)
  end.

Lemma trace_redo_rel : forall tr d1 d2 last cur,
  Rl d1 d2 -> (forall n, last = Some n -> cur = n) ->
  forallb (fun x => item_ok (snd x)) tr = true -> along tr d1 ->
  Rl (trace_dbs tr d1) (snd (redo now' (trecs tr d1 last) (cur, d2))).
Proof.
  induction tr as [|[t x] tr IH]; intros d1 d2 last cur HR Hlink Hok Hal; [exact HR|].
  cbn [forallb snd] in Hok. apply andb_prop in Hok as [Hok1 Hok2].
  assert (Hd : db_ok (x_db x)) by (unfold item_ok in Hok1; unfold db_ok; lia).
  cbn [along] in Hal. destruct Hal as (HQ & HP & Hal).
  cbn [trace_dbs trecs]. destruct (xorecs t d1 x) as [|r0 rs] eqn:Ers.
  - (* no record *)
    cbn [sel_recs map app next_last]. apply IH; auto; apply (quiet_rel t x d1 d2 HQ HP HR Ers).
  - rewrite <- Ers. rewrite !redo_app.
    assert (Sel : exists d2', redo now' (map (fun p => (p, None)) (sel_recs last (x_db x) (xorecs t d1 x))) (cur, d2) = (x_db x, d2') /\ Rl d1 d2').
    { rewrite Ers. cbn [sel_recs]. destruct (same_db last (x_db x)) eqn:Es.
      - exists d2. split; [|exact HR]. cbn [map redo fold_left].
        destruct last as [n|]; cbn [same_db] in Es; [|discriminate]. apply Z.eqb_eq in Es. rewrite (Hlink n eq_refl), Es. reflexivity.
      - exists (step_dbs now' d2 cur (aof_select (x_db x)) None). split; [|apply sel_rel; auto].
        cbn [map redo fold_left]. unfold redo_step. cbn [fst snd]. rewrite sel_db_select by exact Hd. reflexivity. }
    destruct Sel as (d2' & S1 & S2). rewrite S1.
    destruct (item_rel t x d1 d2' HQ HP Hok1 S2) as [I1 I2]. rewrite I1.
    apply IH; auto. rewrite Ers. cbn [next_last]. intros n Hn. inversion Hn; reflexivity.
Qed.
End TraceRel.

(** ================= 6. what the records of an outcome do ================= *)
(** two databases that answer every lookup alike (the order of the keys - a HashMap order in the
    implementation - and the sweeper's index are left out) *)
Definition ext (d1 d2 : db) : Prop := forall k, get_entry d1 k = get_entry d2 k.
Lemma ext_refl d : ext d d. Proof. intros k; reflexivity. Qed.
Lemma ext_sym a b : ext a b -> ext b a. Proof. intros H k; symmetry; apply H. Qed.
Lemma ext_trans a b c : ext a b -> ext b c -> ext a c. Proof. intros H1 H2 k; rewrite H1; apply H2. Qed.
Lemma ext_put_same d k e : get_entry d k = Some e -> ext (put_entry d k e) d.
Proof.
  intros H k'. destruct (beq k' k) eqn:E.
  - apply beq_eq in E. subst. rewrite get_entry_put_same. symmetry; exact H.
  - apply get_entry_put_other; exact E.
Qed.

(** ---- SPOP is the SREM of the members it returned ---- *)
Lemma bremove_notin m s : bmem m s = false -> bremove m s = s.
Proof.
  induction s as [|x s IH]; [reflexivity|]. cbn [bmem bremove]. intros H. apply orb_false_iff in H as [H1 H2].
  rewrite H1, IH by exact H2. reflexivity.
Qed.
Lemma bremove_comm a b s : bremove a (bremove b s) = bremove b (bremove a s).
Proof.
  induction s as [|x s IH]; [reflexivity|]. cbn [bremove].
  destruct (beq b x) eqn:Eb; destruct (beq a x) eqn:Ea; cbn [bremove]; rewrite ?Eb, ?Ea, IH; reflexivity.
Qed.
Lemma remove_all_cons x xs s : remove_all (x :: xs) s = remove_all xs (bremove x s).
Proof. reflexivity. Qed.
Lemma remove_all_bremove xs : forall x s, remove_all xs (bremove x s) = bremove x (remove_all xs s).
Proof.
  induction xs as [|y xs IH]; intros x s; [reflexivity|].
  rewrite !remove_all_cons, bremove_comm. apply IH.
Qed.
Lemma remove_all_perm xs ys : Permutation xs ys -> forall s, remove_all xs s = remove_all ys s.
Proof.
  induction 1; intros s.
  - reflexivity.
  - rewrite !remove_all_cons. apply IHPermutation.
  - rewrite !remove_all_cons, bremove_comm. reflexivity.
  - rewrite IHPermutation1. apply IHPermutation2.
Qed.
Lemma srem_loop_remove_all : forall ms s n, fst (srem_loop s ms n) = remove_all ms s.
Proof.
  induction ms as [|m ms IH]; intros s n; [reflexivity|]. cbn [srem_loop]. rewrite remove_all_cons.
  destruct (bmem m s) eqn:E; [apply IH|]. rewrite (bremove_notin m s E). apply IH.
Qed.
Lemma only_bulks_map l : only_bulks (map FBulk l) = l.
Proof. induction l as [|x l IH]; [reflexivity|]. cbn [map only_bulks]. rewrite IH. reflexivity. Qed.
Lemma nth_arg_bulk parts i k : nth_arg parts i = Some k -> nth_error parts i = Some (FBulk k).
Proof. unfold nth_arg. destruct (nth_error parts i) as [[]|]; try discriminate. cbn. intros H; inversion H; reflexivity. Qed.

Definition upd_of (s' : list bytes) : upd := match s' with [] => Del | b :: l => Put (VSet (b :: l)) end.
(** the record of an SPOP, given the frame of its key *)
Definition spop_rec (kf r : frame) : option (list frame) :=
  match r with
  | FBulk _ => Some [FBulk (bs "SREM"); kf; r]
  | FArray (m :: ms) => Some (FBulk (bs "SREM") :: kf :: m :: ms)
  | _ => None
  end.
Lemma spop_form parts r :
  deterministic_form (bs "SPOP") parts r = match nth_error parts 1 with Some kf => spop_rec kf r | None => None end.
Proof.
  unfold deterministic_form, spop_rec. change (beq (bs "SPOP") (bs "SPOP")) with true. cbv iota.
  destruct (nth_error parts 1); [|reflexivity]. destruct r; try reflexivity; try (destruct l; reflexivity).
Qed.
Lemma e_spop_cases single c o cur r u : e_spop single c o cur = (r, u) ->
  (u = Keep /\ forall kf, spop_rec kf r = None) \/
  (exists s xs, cur = Some (VSet s) /\ u = upd_of (remove_all xs s) /\
     ((single = true /\ exists m, xs = [m] /\ r = FBulk m) \/ (single = false /\ r = FArray (map FBulk (bsort xs))))).
Proof.
  unfold e_spop. intros H.
  destruct cur as [[ | |s| | | ]|]; try (left; inversion H; subst; split; [reflexivity|intros kf; destruct single; reflexivity]).
  destruct s as [|s0 s1]; [left; inversion H; subst; split; [reflexivity|intros kf; destruct single; reflexivity]|].
  destruct (if single then oracle_bulk o else oracle_bulks o) as [xs|] eqn:Eo;
    [|left; inversion H; subst; split; [reflexivity|intros kf; reflexivity]].
  destruct (pick_distinct_ok (s0 :: s1) (Z.min c (len (s0 :: s1))) xs);
    [|left; inversion H; subst; split; [reflexivity|intros kf; reflexivity]].
  right. exists (s0 :: s1), xs. inversion H; subst. split; [reflexivity|]. split; [reflexivity|].
  destruct single.
  - left. split; [reflexivity|]. unfold oracle_bulk in Eo. destruct o as [[]|]; try discriminate.
    inversion Eo; subst. exists b. split; reflexivity.
  - right. split; reflexivity.
Qed.
Lemma e_srem_set ms s : snd (e_srem ms (Some (VSet s))) = upd_of (remove_all ms s).
Proof.
  unfold e_srem. rewrite <- (srem_loop_remove_all ms s 0). destruct (srem_loop s ms 0) as [s' n]. cbn [fst snd].
  destruct s'; reflexivity.
Qed.
Lemma on_key_snd d k f : snd (on_key d k f) = apply_upd d k (get_entry d k) (snd (f (option_map e_val (get_entry d k)))).
Proof. unfold on_key. destruct (f (option_map e_val (get_entry d k))). reflexivity. Qed.

(** the spop part of h_spop: either refused at once, or the engine's spop on the key *)
Lemma h_spop_cases d parts o r d' : h_spop d parts o = (r, d') ->
  (is_err r = true /\ d' = d) \/
  (exists k single c, nth_error parts 1 = Some (FBulk k) /\ on_key d k (e_spop single c o) = (r, d')).
Proof.
  unfold h_spop. intros H.
  destruct ((nparts parts <? 2) || (3 <? nparts parts)); [left; inversion H; auto|].
  destruct (key_of parts) as [k|] eqn:Ek; [|left; inversion H; auto]. apply nth_arg_bulk in Ek.
  destruct (nparts parts =? 3).
  - destruct (nth_arg parts 2); [|left; inversion H; auto].
    destruct (parse_usize b); [|left; inversion H; auto].
    right. exists k, false, z. auto.
  - right. exists k, true, 1. auto.
Qed.
Lemma len3 {A} (a b c : A) l : len (a :: b :: c :: l) <? 3 = false.
Proof. rewrite !len_cons. pose proof (len_nonneg l). lia. Qed.

(** SPOP answered with members: the SREM record does to the database what the SPOP did *)
Lemma spop_as_srem d parts o r d' p :
  h_spop d parts o = (r, d') -> deterministic_form (bs "SPOP") parts r = Some p ->
  snd (h_skipping e_srem d p) = d'.
Proof.
  intros H Hf. rewrite spop_form in Hf.
  destruct (h_spop_cases d parts o r d' H) as [[He _]|(k & single & c & Hk & Hon)].
  - destruct (nth_error parts 1); [|discriminate]. destruct r; discriminate.
  - rewrite Hk in Hf.
    pose proof (on_key_snd d k (e_spop single c o)) as Hs. rewrite Hon in Hs. cbn [snd] in Hs.
    destruct (e_spop single c o (option_map e_val (get_entry d k))) as [r0 u] eqn:Es.
    assert (r0 = r) by (unfold on_key in Hon; rewrite Es in Hon; inversion Hon; reflexivity). subst r0.
    cbn [snd] in Hs.
    destruct (e_spop_cases _ _ _ _ _ _ Es) as [[_ Hn]|(s & xs & Hc & Hu & Hr)]; [rewrite Hn in Hf; discriminate|].
    destruct Hr as [(-> & m & -> & ->)|(-> & ->)].
    + cbn [spop_rec] in Hf. inversion Hf; subst p. unfold h_skipping, nparts. rewrite len3.
      cbn [key_of nth_arg nth_error arg_bytes skipn only_bulks].
      rewrite on_key_snd, Hc, e_srem_set, Hs, Hu. reflexivity.
    + cbn [spop_rec] in Hf. destruct (map FBulk (bsort xs)) as [|m ms] eqn:Em; [discriminate|].
      inversion Hf; subst p. unfold h_skipping. unfold nparts. rewrite len3.
      cbn [key_of nth_arg nth_error arg_bytes skipn].
      rewrite <- Em, only_bulks_map, on_key_snd, Hc, e_srem_set, Hs, Hu.
      rewrite (remove_all_perm _ _ (bsort_perm xs)). reflexivity.
Qed.
(** SPOP answered with nothing: nothing changed (the set of a `SPOP key 0` is stored again as it was) *)
Lemma spop_quiet d parts o r d' :
  h_spop d parts o = (r, d') -> deterministic_form (bs "SPOP") parts r = None -> ext d' d.
Proof.
  intros H Hf. rewrite spop_form in Hf.
  destruct (h_spop_cases d parts o r d' H) as [[_ ->]|(k & single & c & Hk & Hon)]; [apply ext_refl|].
  rewrite Hk in Hf.
  pose proof (on_key_snd d k (e_spop single c o)) as Hs. rewrite Hon in Hs. cbn [snd] in Hs.
  destruct (e_spop single c o (option_map e_val (get_entry d k))) as [r0 u] eqn:Es.
  assert (r0 = r) by (unfold on_key in Hon; rewrite Es in Hon; inversion Hon; reflexivity). subst r0.
  cbn [snd] in Hs. subst d'.
  destruct (e_spop_cases _ _ _ _ _ _ Es) as [[-> _]|(s & xs & Hc & Hu & Hr)]; [apply ext_refl|].
  destruct Hr as [(-> & m & -> & ->)|(-> & ->)]; [discriminate Hf|].
  cbn [spop_rec] in Hf. destruct (bsort xs) as [|m ms] eqn:Eb; [|discriminate Hf].
  assert (xs = []) by (pose proof (bsort_perm xs) as Hp; rewrite Eb in Hp; apply Permutation_nil in Hp; exact Hp).
  subst xs u. cbn [remove_all fold_left].
  destruct (get_entry d k) as [e|] eqn:Ee; [|discriminate Hc]. cbn [option_map] in Hc. inversion Hc as [Hv].
  destruct s as [|s0 s1]; cbn [upd_of apply_upd].
  - (* an empty stored set does not reach this branch *)
    exfalso. unfold e_spop in Es. cbn [option_map] in Es. rewrite Hv in Es. inversion Es.
  - apply ext_put_same. rewrite Ee. destruct e as [v x]. cbn [e_val e_exp] in *. subst v. reflexivity.
Qed.

(** ---- XADD with the ID * is the XADD of the ID it generated ---- *)
Lemma sid_text_not_star i : in_u64 i -> beq (sid_to_bytes i) (bs "*") = false.
Proof.
  intros [[H1 H1'] _]. assert (H40 : 0 <= fst i < 10 ^ 40) by (unfold u64_max in H1'; lia).
  destruct (print_nat_head _ H40) as (c & r & Hc & Hd). unfold sid_to_bytes. rewrite Hc. cbn [app].
  unfold is_digit in Hd. match goal with |- ?b = false => destruct b eqn:E end; [|reflexivity].
  apply beq_eq in E. inversion E. lia.
Qed.
Lemma oracle_sid_range o oid : oracle_sid o = Some oid -> in_u64 oid.
Proof. unfold oracle_sid. destruct o as [[]|]; try discriminate. apply id_text_in_u64. Qed.

(** the stream under the key satisfies the stream invariant of Proofs/StreamFacts.v (C15) *)
Definition stream_fit (d : db) (k : bytes) : Prop :=
  match raw_stream d k with SStream _ s => SInv s /\ in_u64 (s_last s) | _ => True end.
Lemma st_auto_as_explicit s f n id s' : SInv s -> in_u64 (s_last s) ->
  st_add_auto n s f = Some (id, s') ->
  st_add_with_id s id f = Some s' /\ (fst id =? 0) && (snd id =? 0) = false.
Proof.
  intros Hi Hu H. unfold st_add_auto in H. destruct (gen_next n s) as [[[i ms] sq]|] eqn:E; [|discriminate].
  inversion H; subst. destruct (gen_next_gt n s id ms sq Hi E) as [Hlt ->]. split.
  - unfold st_add_with_id. replace (sid_leb (ms, sq) (s_last s)) with false by (symmetry; apply sid_leb_nle; exact Hlt).
    rewrite (has_id_above s (ms, sq) Hi Hlt). reflexivity.
  - destruct Hu as [[U1 _] [U2 _]]. unfold sid_lt in Hlt. cbn [fst snd] in *. lia.
Qed.

Lemma xadd_form parts r :
  deterministic_form (bs "XADD") parts r =
  match parts, r with a :: b :: _ :: rest, FBulk _ => Some (a :: b :: r :: rest) | _, _ => None end.
Proof. unfold deterministic_form. change (beq (bs "XADD") (bs "SPOP")) with false. reflexivity. Qed.

Lemma xadd_auto_cases d parts o r d' :
  by_outcome (bs "XADD") parts = true -> h_xadd d parts o = (r, d') ->
  (is_err r = true /\ d' = d) \/
  (exists a k rest f e s n id s',
     parts = a :: FBulk k :: FBulk (bs "*") :: rest /\ ((nparts parts <? 4) || negb ((nparts parts - 3) mod 2 =? 0)) = false /\
     parse_fields rest [] = Some f /\
     (raw_stream d k = SStream e s \/ (raw_stream d k = SMissing /\ e = new_entry empty_stream /\ s = empty_stream)) /\
     (exists oid, oracle_sid o = Some oid /\ auto_clock s oid = Some n) /\
     st_add_auto n s f = Some (id, s') /\ r = r_sid id /\ d' = put_stream d k e s').
Proof.
  unfold by_outcome. change (beq (bs "XADD") (bs "SPOP")) with false. change (beq (bs "XADD") (bs "XADD")) with true. cbn [orb andb].
  intros Hb H. unfold h_xadd in H.
  destruct ((nparts parts <? 4) || negb ((nparts parts - 3) mod 2 =? 0)) eqn:Eg; [left; inversion H; auto|].
  destruct parts as [|a [|b [|c rest]]]; try discriminate Hb. cbn [nth_error] in Hb, H.
  destruct c; try discriminate Hb. apply beq_eq in Hb. subst b0.
  destruct b; try (left; inversion H; auto; fail). cbn [arg_bytes] in H.
  change (skipn 3 (a :: FBulk b :: FBulk (bs "*") :: rest)) with rest in H.
  destruct (parse_fields rest []) as [f|] eqn:Ef; [|left; inversion H; auto].
  change (beq (bs "*") (bs "*")) with true in H. cbv iota in H.
  assert (G : forall e s, (match oracle_sid o with
            | None => if (u64_max <? s_aseq s + 1) && (u64_max <? s_ams s + 1) then (r_err, d) else (FError (bs "NOORACLE"), d)
            | Some oid => match auto_clock s oid with
                          | None => (FError (bs "BADAUTOID"), d)
                          | Some now_ms => match st_add_auto now_ms s f with
                                           | Some (id, s') => (r_sid id, put_stream d b e s')
                                           | None => (r_err, d)
                                           end
                          end
            end) = (r, d') ->
            (is_err r = true /\ d' = d) \/
            (exists n id s', (exists oid, oracle_sid o = Some oid /\ auto_clock s oid = Some n) /\
                             st_add_auto n s f = Some (id, s') /\ r = r_sid id /\ d' = put_stream d b e s')).
  { intros e s G. destruct (oracle_sid o) as [oid|] eqn:Eo.
    - destruct (auto_clock s oid) as [n|] eqn:Ea; [|left; inversion G; auto].
      destruct (st_add_auto n s f) as [[id s']|] eqn:Es; [|left; inversion G; auto].
      right. exists n, id, s'. inversion G; subst. eauto 10.
    - left. destruct ((u64_max <? s_aseq s + 1) && (u64_max <? s_ams s + 1)); inversion G; auto. }
  destruct (raw_stream d b) as [e s| |] eqn:Er.
  - destruct (G e s H) as [L|(n & id & s' & Ho & Hs & -> & ->)]; [left; exact L|].
    right. exists a, b, rest, f, e, s, n, id, s'. repeat split; auto.
  - destruct (G (new_entry empty_stream) empty_stream H) as [L|(n & id & s' & Ho & Hs & -> & ->)]; [left; exact L|].
    right. exists a, b, rest, f, (new_entry empty_stream), empty_stream, n, id, s'. repeat split; auto.
  - left. inversion H; auto.
Qed.

(** XADD * answered with an ID: the XADD of that ID does to the database what the XADD * did *)
Lemma xadd_auto_as_explicit d parts o r d' p :
  by_outcome (bs "XADD") parts = true ->
  (forall k, nth_error parts 1 = Some (FBulk k) -> stream_fit d k) ->
  h_xadd d parts o = (r, d') -> deterministic_form (bs "XADD") parts r = Some p ->
  snd (h_xadd d p None) = d'.
Proof.
  intros Hb Hfit H Hf. rewrite xadd_form in Hf.
  destruct (xadd_auto_cases d parts o r d' Hb H) as [[He _]|(a & k & rest & f & e & s & n & id & s' & -> & Eg & Ef & Er & (oid & Eo & Ea) & Es & -> & ->)].
  - destruct parts as [|? [|? [|? ?]]]; try discriminate. destruct r; discriminate.
  - cbn [r_sid] in Hf. inversion Hf; subst p. clear Hf.
    specialize (Hfit k eq_refl). unfold stream_fit in Hfit.
    destruct (auto_clock_sound s oid n Ea) as (ms & sq & Eg2).
    assert (id = oid) by (unfold st_add_auto in Es; rewrite Eg2 in Es; inversion Es; reflexivity). subst id.
    pose proof (oracle_sid_range o oid Eo) as R.
    assert (Hinv : SInv s /\ in_u64 (s_last s)).
    { destruct Er as [Er|(Er & _ & ->)]; rewrite Er in Hfit; [exact Hfit|].
      split; [apply SInv_empty|]. unfold in_u64, empty_stream, sid_zero. cbn. unfold u64_max. lia. }
    destruct (st_auto_as_explicit s f n oid s' (proj1 Hinv) (proj2 Hinv) Es) as [Ew Ez].
    unfold h_xadd, r_sid.
    replace (nparts (a :: FBulk k :: FBulk (sid_to_bytes oid) :: rest)) with (nparts (a :: FBulk k :: FBulk (bs "*") :: rest))
      by (unfold nparts; rewrite !len_cons; reflexivity).
    rewrite Eg. cbn [nth_error arg_bytes].
    change (skipn 3 (a :: FBulk k :: FBulk (sid_to_bytes oid) :: rest)) with rest. rewrite Ef.
    rewrite (sid_text_not_star oid R), (id_text_roundtrip oid R), Ez.
    destruct Er as [Er|(Er & -> & ->)]; rewrite Er, Ew; reflexivity.
Qed.
(** XADD * refused: nothing changed *)
Lemma xadd_quiet d parts o r d' :
  by_outcome (bs "XADD") parts = true -> h_xadd d parts o = (r, d') ->
  deterministic_form (bs "XADD") parts r = None -> d' = d.
Proof.
  intros Hb H Hf. rewrite xadd_form in Hf.
  destruct (xadd_auto_cases d parts o r d' Hb H) as [[_ ->]|(a & k & rest & f & e & s & n & id & s' & -> & _ & _ & _ & _ & _ & -> & _)];
    [reflexivity|discriminate Hf].
Qed.

(** ================= 7. the replay theorem, one clock reading ================= *)
(** Every command that is logged as it was sent and leaves no other record - this includes EVAL
    and the consumer-group commands, whose effect depends on the clock - redone at the clock
    reading of the live run: the databases are EQUAL.  (Commands logged by outcome and commands
    followed by a deadline record are the subject of Proofs/AofTimeFacts.v, at any later clock
    reading.) *)
Definition item_name (x : item) : bytes := match x_parts x with FBulk nm :: _ => upper nm | _ => [] end.
Definition plain_item (now : Z) (dbs : list db) (tx : titem) : bool :=
  (fst tx =? now) && negb (by_outcome (item_name (snd tx)) (x_parts (snd tx)))
  && match xout_recs now dbs (snd tx) with [] => true | _ => false end.
Fixpoint plain_run (now : Z) (tr : list titem) (dbs : list db) : bool :=
  match tr with
  | [] => fresh_all now dbs
  | tx :: r => fresh_all now dbs && plain_item now dbs tx && plain_run now r (xstep_dbs (fst tx) dbs (snd tx))
  end.

Lemma dstep_is_step now dbs dbi parts o : lfresh_all now dbs -> dstep_dbs now dbs dbi parts o = step_dbs now dbs dbi parts o.
Proof.
  intros F. unfold step_dbs. destruct parts as [|[] rest]; try reflexivity. rewrite pre_dbs_fresh by exact F. reflexivity.
Qed.
Lemma xstep_is_step now dbs x : lfresh_all now dbs -> xstep_dbs now dbs x = step_dbs now dbs (x_db x) (x_parts x) (x_or x).
Proof.
  intros F. unfold xstep_dbs, xbase. rewrite (purge_dbs_fresh now dbs (x_db x) (x_purge x) F).
  destruct (x_lazy x); [reflexivity|apply dstep_is_step; exact F].
Qed.
(** EVALSHA is in the table but never written as it was sent: in this model (no script cache
    behind process_normal_command) it changes nothing *)
Lemma evalsha_inert now dbs dbi parts o nm rest :
  parts = FBulk nm :: rest -> upper nm = bs "EVALSHA" -> lfresh_all now dbs -> step_dbs now dbs dbi parts o = dbs.
Proof.
  intros -> Hn F. unfold step_dbs. rewrite pre_dbs_fresh by exact F. unfold dstep_dbs. rewrite Hn.
  change (beq (bs "EVALSHA") (bs "PING")) with false. change (beq (bs "EVALSHA") (bs "ECHO")) with false.
  change (beq (bs "EVALSHA") (bs "SELECT")) with false. change (beq (bs "EVALSHA") (bs "FLUSHALL")) with false.
  change (beq (bs "EVALSHA") (bs "RANDOMKEY")) with false. change (beq (bs "EVALSHA") (bs "AUTH")) with false.
  change (beq (bs "EVALSHA") (bs "QUIT")) with false. change (beq (bs "EVALSHA") (bs "VERIF")) with false. cbv iota.
  replace (exec_db now (nth (Z.to_nat dbi) dbs empty_db) (bs "EVALSHA") (FBulk nm :: rest) o)
    with (Some (FError (bs "UNMODELLED"), nth (Z.to_nat dbi) dbs empty_db)) by reflexivity.
  apply list_set_nth_same.
Qed.
(** a command that is neither written as sent nor by outcome changes nothing *)
Lemma unrecorded_inert now dbs dbi parts o :
  verb_recs parts = [] -> by_outcome (match parts with FBulk nm :: _ => upper nm | _ => [] end) parts = false ->
  lfresh_all now dbs -> step_dbs now dbs dbi parts o = dbs.
Proof.
  intros Hv Hb F. destruct (is_write parts) eqn:W; [|apply step_dbs_unlogged; assumption].
  destruct parts as [|[] rest]; try discriminate W. unfold verb_recs in Hv. unfold is_write, mem_name in W.
  destruct (logs_before (upper b) (FBulk b :: rest)) eqn:L; [discriminate Hv|].
  unfold logs_before in L. rewrite W, Hb in L. cbn [andb negb] in L. apply negb_false_iff in L. apply beq_eq in L.
  eapply evalsha_inert; eauto.
Qed.

Lemma plain_run_along now : forall tr dbs, plain_run now tr dbs = true ->
  along (fun d => lfresh_all now d) (fun tx d => plain_item now d tx = true) tr dbs.
Proof.
  induction tr as [|[t x] tr IH]; intros dbs H; cbn [plain_run along] in *.
  - apply fresh_lfresh_all; exact H.
  - apply andb_prop in H as [H H3]. apply andb_prop in H as [H1 H2].
    split; [apply fresh_lfresh_all; exact H1|]. split; [exact H2|]. apply IH. exact H3.
Qed.

Theorem trace_redo_eq now : forall tr dbs,
  forallb (fun x => item_ok (snd x)) tr = true -> plain_run now tr dbs = true ->
  trace_dbs tr dbs = snd (redo now (trecs tr dbs None) (0, dbs)).
Proof.
  intros tr dbs Hok Hp.
  apply (trace_redo_rel eq now (fun d => lfresh_all now d) (fun tx d => plain_item now d tx = true)); auto;
    [| | |discriminate|apply plain_run_along; exact Hp].
  - (* SELECT *)
    intros d1 d2 cur dbi F <- Hd. symmetry. apply step_dbs_unlogged; [apply select_unwritten|exact F].
  - (* the records of one command *)
    intros t x d1 d2 F HP Hi <-. unfold plain_item in HP. cbn [fst snd] in HP.
    apply andb_prop in HP as [HP H3]. apply andb_prop in HP as [H1 H2]. apply Z.eqb_eq in H1. subst t.
    apply negb_true_iff in H2.
    unfold xorecs. destruct (xout_recs now d1 x); [|discriminate H3]. cbn [map]. rewrite app_nil_r.
    rewrite (xstep_is_step now d1 x F).
    unfold verb_recs. destruct (x_parts x) as [|[] rest] eqn:Ep; cbn [map redo fold_left snd];
      try (split; [reflexivity|]; apply (unrecorded_inert now d1 (x_db x) _ (x_or x)); [reflexivity| |exact F];
           unfold item_name in H2; rewrite Ep in H2; exact H2).
    destruct (logs_before (upper b) (FBulk b :: rest)) eqn:L; cbn [map redo fold_left snd].
    + unfold redo_step. cbn [fst snd]. rewrite sel_db_written; [split; reflexivity|].
      apply is_logged_write. exact L.
    + split; [reflexivity|]. apply (unrecorded_inert now d1 (x_db x) _ (x_or x)); [|unfold item_name in H2; rewrite Ep in H2; exact H2|exact F].
      unfold verb_recs. rewrite L. reflexivity.
  - (* no record *)
    intros t x d1 d2 F HP <- Hn. unfold plain_item in HP. cbn [fst snd] in HP.
    apply andb_prop in HP as [HP H3]. apply andb_prop in HP as [H1 H2]. apply Z.eqb_eq in H1. subst t.
    apply negb_true_iff in H2. rewrite (xstep_is_step now d1 x F).
    apply unrecorded_inert; [|unfold item_name in H2; exact H2|exact F].
    unfold xorecs in Hn. apply app_eq_nil in Hn as [Hn _]. destruct (verb_recs (x_parts x)); [reflexivity|discriminate Hn].
Qed.

(** THE REPLAY THEOREM, one clock reading: all sixteen databases of the redo equal those of the
    live server *)
Theorem replay_all_dbs now h :
  forallb (fun te => ev_ok (snd te)) h = true ->
  plain_run now (trace_of h) dbs0 = true ->
  aof_log (run_tevs h) = map fst (trecs (trace_of h) dbs0 None) /\
  s_dbs (replay_o now (trecs (trace_of h) dbs0 None)) = s_dbs (run_tevs h).
Proof.
  intros Hok Hp. split; [apply history_file; exact Hok|].
  rewrite replay_redo, (history_dbs h Hok), run_trace_fst. symmetry.
  apply trace_redo_eq; [|exact Hp].
  exact (proj2 (history_is_trace h (init_server None) linv_init Hok)).
Qed.
(** when no event carries an oracle, the redo needs none either *)
Lemma trecs_no_oracle : forall tr dbs last,
  forallb (fun tx => match x_or (snd tx) with None => true | Some _ => false end) tr = true ->
  trecs tr dbs last = no_oracle (map fst (trecs tr dbs last)).
Proof.
  induction tr as [|[t x] tr IH]; intros dbs last H; [reflexivity|].
  cbn [forallb snd] in H. apply andb_prop in H as [H1 H2]. destruct (x_or x) eqn:Eo; [discriminate|].
  cbn [trecs]. unfold no_oracle. rewrite !map_app, !map_map. cbn [fst].
  f_equal. f_equal; [|rewrite (IH _ _ H2) at 1; unfold no_oracle; rewrite map_map; reflexivity].
  unfold xorecs. rewrite Eo, !map_app, !map_map. reflexivity.
Qed.

(** ================= 8. blocking pops (Model/Blocking.v) ================= *)
(** the pop a waiting client is served by a push (wake_client, delivery branch) is the event
    [EServed]: one LPOP / RPOP record, at the moment the element leaves the list *)
Lemma wake_client_served now s b u v d' cst :
  was_expired now (get_db s (u_db u)) (u_key u) = false ->
  on_key (get_db s (u_db u)) (u_key u) (e_pop (u_left u)) = (FBulk v, d') ->
  zlookup (u_conn u) (b_blk b) = Some cst ->
  fst (wake_client now s b u) = served_pop s (u_db u) (u_left u) (u_key u).
Proof.
  intros Hx H Hb. unfold wake_client, served_pop, purge_key. cbn [fst snd]. unfold was_expired in Hx.
  destruct (get_entry (get_db s (u_db u)) (u_key u)) as [e|]; [rewrite Hx|]; cbn [fst snd]; rewrite H, Hb; reflexivity.
Qed.

(** no key holds an empty list (the engine removes a list when its last element goes) *)
Definition no_empty_list (d : db) : Prop := forall k e, get_entry d k = Some e -> e_val e <> VList [].
Lemma rev_nil_inv {A} (l : list A) : rev l = [] -> l = [].
Proof. intros H. apply (f_equal (@rev A)) in H. rewrite rev_involutive in H. exact H. Qed.
Lemma pop_try (lf : bool) d k : no_empty_list d ->
  (exists v, fst (on_key d k (e_pop lf)) = FBulk v) \/
  (snd (on_key d k (e_pop lf)) = d /\ forall v, fst (on_key d k (e_pop lf)) <> FBulk v).
Proof.
  intros Hn. unfold on_key. destruct (get_entry d k) as [e|] eqn:E; cbn [option_map e_pop].
  - destruct (e_val e) as [ |l| | | | ] eqn:Ev; try (right; split; [reflexivity|intros v; discriminate]).
    destruct l as [|x l]; [exfalso; exact (Hn k e E Ev)|].
    destruct lf; [left; exists x; reflexivity|].
    destruct (rev (x :: l)) as [|y r] eqn:Er; [apply rev_nil_inv in Er; discriminate|]. left; exists y; reflexivity.
  - right. split; [reflexivity|intros v; discriminate].
Qed.
Lemma fast_path_cases (lf : bool) : forall keys d r d', no_empty_list d -> fast_path lf d keys = (r, d') ->
  (exists k v, r = Some (FArray [FBulk k; FBulk v]) /\ on_key d k (e_pop lf) = (FBulk v, d')) \/
  (d' = d /\ forall k v, r <> Some (FArray [FBulk k; FBulk v])).
Proof.
  induction keys as [|k0 keys IH]; intros d r d' Hn H; cbn [fast_path] in H.
  - right. inversion H; subst. split; [reflexivity|intros; discriminate].
  - destruct (pop_try lf d k0 Hn) as [[v Hv]|[Hs Hv]].
    + destruct (on_key d k0 (e_pop lf)) as [r0 d0] eqn:E. cbn [fst] in Hv. subst r0.
      inversion H; subst. left. exists k0, v. auto.
    + destruct (on_key d k0 (e_pop lf)) as [r0 d0] eqn:E. cbn [fst snd] in *. subst d0.
      destruct r0; try (apply IH; assumption).
      * right. inversion H; subst. split; [reflexivity|intros; discriminate].
      * exfalso. exact (Hv b eq_refl).
Qed.
(** BLPOP / BRPOP that finds an element (fast path of h_bpop): the same event, for the key that
    served it; otherwise neither the databases nor the log change *)
Theorem bpop_immediate (lf : bool) now s b c dbi parts oms :
  no_empty_list (get_db s dbi) ->
  let s' := snd (fst (h_bpop lf now s b c dbi parts oms)) in
  (exists k v d', fst (fst (h_bpop lf now s b c dbi parts oms)) = FArray [FBulk k; FBulk v] /\
                  on_key (get_db s dbi) k (e_pop lf) = (FBulk v, d') /\
                  s' = served_pop s dbi lf k) \/
  st_of s' = st_of s.
Proof.
  intros Hn. cbv zeta. unfold h_bpop.
  destruct (len parts <? 3); [right; reflexivity|].
  destruct (timeout_of (last parts FNull) oms) as [tmo|]; [|right; reflexivity].
  destruct (all_bulks (removelast (tl parts))) as [keys|]; [|right; reflexivity].
  destruct (fast_path lf (get_db s dbi) keys) as [r d'] eqn:E.
  assert (Same : st_of (set_db s dbi (get_db s dbi)) = st_of s).
  { unfold st_of, set_db, get_db. cbn [s_dbs s_aof]. rewrite list_set_nth_same. reflexivity. }
  destruct (fast_path_cases lf keys _ _ _ Hn E) as [(k & v & -> & Ho)|[-> Hr]].
  - left. exists k, v, d'. cbn [fst snd log_served]. unfold served_pop. rewrite Ho. auto.
  - right. destruct r as [r|].
    + cbn [fst snd]. unfold log_served.
      repeat match goal with |- st_of (match ?v with _ => _ end) = _ => destruct v end; try exact Same.
      exfalso. eapply Hr; reflexivity.
    + destruct (c =? 0); [exact Same|]. cbn [fst snd]. exact Same.
Qed.


(** ---- small restatements for Props/C11.v ---- *)
Lemma verb_recs_spec p : verb_recs p = if is_logged p then [p] else [].
Proof. unfold verb_recs, is_logged. destruct p as [|[] rest]; reflexivity. Qed.
Lemma cmd_recs_split now dbs dbi nm rest o :
  cmd_recs now dbs dbi (FBulk nm :: rest) o =
  verb_recs (FBulk nm :: rest) ++ dout_recs now (pre_dbs now dbs dbi (upper nm) (FBulk nm :: rest)) dbi (FBulk nm :: rest) o.
Proof. reflexivity. Qed.
Lemma exec_queue_state now c q s dbi acc cn :
  linv s -> zlookup c (s_conns s) = Some cn -> c_db cn = dbi ->
  st_of (snd (exec_queue now s c dbi q acc)) = run_items now (queue_items dbi q) (st_of s).
Proof. intros Hi Hc Hd. exact (es_st _ _ _ _ (exec_queue_spec now c q s dbi acc cn Hi Hc Hd)). Qed.
Lemma served_pop_state now s dbi lf k :
  linv s -> st_of (served_pop s dbi lf k) = run_items now (ev_items now s (EServed dbi lf k)) (st_of s).
Proof. intros Hi. exact (es_st _ _ _ _ (served_pop_spec now s dbi lf k Hi)). Qed.
(** a wake-up appends at most one record: the pop of the key that served the client *)
Lemma wake_client_log now s b u :
  s_aof (fst (wake_client now s b u)) = s_aof s \/
  exists lf k, s_aof (fst (wake_client now s b u)) = aof_push (s_aof s) (u_db u) (pop_cmd lf k).
Proof.
  unfold wake_client.
  destruct (on_key _ (u_key u) (e_pop (u_left u))) as [r d'].
  destruct r; try (destruct (zlookup (u_conn u) (b_blk b)) as [st|]; cbn [fst]; left; reflexivity).
  destruct (zlookup (u_conn u) (b_blk b)); cbn [fst]; [|left; reflexivity].
  right. exists (u_left u), (u_key u). unfold log_pop. rewrite s_aof_log_aof_in. reflexivity.
Qed.
(** the item of a WATCH (no command, only keys to expire lazily): no record; the databases lose
    only entries of those keys whose deadline had passed - nothing at all when none has *)
Lemma purge_only_item now dbs x : x_parts x = [] ->
  xrecs now dbs x = [] /\ xstep_dbs now dbs x = purge_dbs now dbs (x_db x) (x_purge x) /\
  (lfresh_all now dbs -> xstep_dbs now dbs x = dbs).
Proof.
  intros Hp. unfold xrecs, xout_recs, xstep_dbs, xbase, step_dbs, dstep_dbs. rewrite Hp. cbn [verb_recs app].
  split; [reflexivity|]. split; [destruct (x_lazy x); reflexivity|].
  intros F. rewrite (purge_dbs_fresh now dbs _ _ F). destruct (x_lazy x); reflexivity.
Qed.
