(** Proofs for C11 (the append-only file): framing of the file, the logging
    discipline of process_normal_command / EXEC, inertness of the commands that are not
    logged (the completeness obligation over Generated.write_commands), and the replay
    theorem.  Statements are collected in Props/C11.v. *)
From Ferrous Require Import Base.Bytes Generated Model.Resp Model.Types Model.Glob Model.Strings
  Model.Lists Model.ZSets Model.Streams Model.Scan Model.Server Model.Conn Model.Aof
  Proofs.BytesFacts Proofs.RespFacts Proofs.StringsFacts Proofs.ListsFacts Proofs.ServerFacts
  Proofs.ConnFacts.
From Coq Require Import ZifyBool.
Open Scope Z_scope.

(** ================= 1. the file is a sequence of whole frames ================= *)

Lemma aof_file_replies log : aof_file log = write_replies (map FArray log).
Proof.
  unfold aof_file. induction log as [|p log IH]; [reflexivity|].
  cbn [map concat]. rewrite IH. reflexivity.
Qed.
Lemma aof_file_app a b : aof_file (a ++ b) = aof_file a ++ aof_file b.
Proof. unfold aof_file. rewrite map_app, concat_app. reflexivity. Qed.
Lemma aof_file_snoc log p : aof_file (log ++ [p]) = aof_file log ++ aof_frame p.
Proof. rewrite aof_file_app. unfold aof_file at 2. cbn [map concat]. rewrite app_nil_r. reflexivity. Qed.

(** a command as it can arrive from the wire: a frame the codec round-trips *)
Definition wire_cmd (parts : list frame) : Prop := wfb' max_levels (FArray parts) = true.

Lemma forallb_map_id {A} (g : A -> A) (p : A -> bool) l :
  (forall x, In x l -> p x = true -> g x = x) -> forallb p l = true -> map g l = l.
Proof.
  induction l as [|x l IH]; intros Hg Hp; [reflexivity|].
  cbn [forallb] in Hp. apply andb_prop in Hp as [H1 H2]. cbn [map].
  rewrite (Hg x (or_introl eq_refl) H1), IH; auto. intros y Hy. apply Hg. right; exact Hy.
Qed.
(** such a frame carries no CR / LF in a line payload: it reads back as itself *)
Lemma wfb_sanitize : forall f d, wfb' d f = true -> sanitize f = f.
Proof.
  induction f using frame_ind'; intros [|d'] Hb; cbn [wfb] in Hb; try discriminate; try reflexivity.
  - cbn [sanitize]. rewrite clean_id by exact Hb. reflexivity.
  - cbn [sanitize]. rewrite clean_id by exact Hb. reflexivity.
  - apply andb_prop in Hb as [_ H2]. cbn [sanitize]. f_equal.
    apply (forallb_map_id sanitize (wfb' d')); [|exact H2].
    intros x Hx Hw. rewrite Forall_forall in H. exact (H x Hx d' Hw).
  - apply andb_prop in Hb as [_ H2]. cbn [sanitize]. f_equal.
    apply (forallb_map_id sanitize (wfb' d')); [|exact H2].
    intros x Hx Hw. rewrite Forall_forall in H. exact (H x Hx d' Hw).
  - apply andb_prop in Hb as [_ H2]. cbn [sanitize]. f_equal.
    apply (forallb_map_id sanitize (wfb' d')); [|exact H2].
    intros x Hx Hw. rewrite Forall_forall in H. exact (H x Hx d' Hw).
Qed.
Lemma wire_sendable parts : wire_cmd parts -> sendable (FArray parts) /\ sanitize (FArray parts) = FArray parts.
Proof.
  intros H. pose proof (wfb_sanitize _ _ H) as Hs. split; [|exact Hs]. unfold sendable. rewrite Hs. exact H.
Qed.

(** decoding the file gives back exactly the logged commands, and nothing is left over *)
Lemma aof_decode_log log : Forall wire_cmd log ->
  aof_decode (aof_file log) = (map FArray log, NeedMore, []).
Proof.
  intros H. unfold aof_decode, drain_buf. rewrite aof_file_replies.
  rewrite drain_replies; [| |lia].
  - cbn [rev app]. f_equal. f_equal. rewrite map_map. apply map_ext_in. intros p Hp.
    rewrite Forall_forall in H. apply (wire_sendable p (H p Hp)).
  - rewrite Forall_forall in *. intros f Hf. apply in_map_iff in Hf as (p & <- & Hp).
    apply (wire_sendable p (H p Hp)).
Qed.
(** every append adds one whole frame: the longer file decodes to the old commands plus the new one *)
Lemma aof_append_whole log p : Forall wire_cmd log -> wire_cmd p ->
  aof_decode (aof_file log ++ aof_frame p) = (map FArray log ++ [FArray p], NeedMore, []).
Proof.
  intros Hl Hp. rewrite <- aof_file_snoc, aof_decode_log, map_app; [reflexivity|].
  apply Forall_app. split; [exact Hl|constructor; [exact Hp|constructor]].
Qed.
(** commands made of bulk strings only (what every client library sends) are wire commands
    as long as the lengths fit *)
Lemma wfb_array_unfold d l : wfb' (S d) (FArray l) = (len l <=? i64_max) && forallb (wfb' d) l.
Proof. reflexivity. Qed.
Lemma wfb_bulk_unfold d a : wfb' (S d) (FBulk a) = (len a <=? i64_max).
Proof. reflexivity. Qed.
Lemma bulk_cmd_wire (args : list bytes) :
  len args <= i64_max -> Forall (fun a => len a <= i64_max) args -> wire_cmd (map FBulk args).
Proof.
  intros Hn Ha. unfold wire_cmd. change max_levels with (S (S 31)). rewrite wfb_array_unfold, len_map.
  apply andb_true_intro. split; [lia|]. apply forallb_forall. intros f Hf.
  apply in_map_iff in Hf as (a & <- & Hin). rewrite Forall_forall in Ha. specialize (Ha a Hin).
  rewrite wfb_bulk_unfold. lia.
Qed.

(** ================= 2. the logging discipline ================= *)
(** is the command appended: its upper-cased name is in the generated table *)
Definition is_logged (parts : list frame) : bool :=
  match parts with FBulk nm :: _ => mem_name (upper nm) write_commands | _ => false end.

(** process_normal_command appends the command once, before dispatch, iff it is a write
    command by name - whatever it answers *)
Lemma nc_aof now s c dbi parts o :
  s_aof (snd (normal_command now s c dbi parts o)) = if is_logged parts then parts :: s_aof s else s_aof s.
Proof.
  unfold normal_command, is_logged.
  destruct parts as [|first rest]; [reflexivity|]. destruct first; try reflexivity.
  set (s0 := if mem_name (upper b) write_commands then log_aof s (FBulk b :: rest) else s).
  assert (H0 : s_aof s0 = if mem_name (upper b) write_commands then (FBulk b :: rest) :: s_aof s else s_aof s).
  { unfold s0. destruct (mem_name (upper b) write_commands); reflexivity. }
  rewrite <- H0. clear H0. generalize s0. clear s0. intros s0.
  destruct (beq (upper b) (bs "PING")); [reflexivity|].
  destruct (beq (upper b) (bs "ECHO")); [reflexivity|].
  destruct (beq (upper b) (bs "SELECT")).
  { destruct rest as [|a [|? ?]]; try reflexivity; try (destruct a; reflexivity).
    destruct a; try reflexivity.
    destruct (parse_usize b0); [|reflexivity]. destruct (16 <=? z); [reflexivity|].
    destruct (zlookup c (s_conns s0)); reflexivity. }
  destruct (beq (upper b) (bs "FLUSHALL")).
  { destruct (negb (len (FBulk b :: rest) =? 1)); reflexivity. }
  destruct (beq (upper b) (bs "RANDOMKEY")); [reflexivity|].
  destruct (beq (upper b) (bs "AUTH")).
  { destruct (h_auth s0 0 (FBulk b :: rest)) as [r1 s1] eqn:E.
    destruct (auth_per_connection _ _ _ _ _ E) as (_ & _ & _ & Ha & _). exact Ha. }
  destruct (beq (upper b) (bs "QUIT")); [reflexivity|].
  destruct (beq (upper b) (bs "VERIF")); [reflexivity|].
  destruct (exec_db now (get_db s0 dbi) (upper b) (FBulk b :: rest) o) as [[r0 d']|]; reflexivity.
Qed.

(** EXEC appends the queued write commands in queue (= execution) order, each once *)
Lemma exec_queue_aof now dbi : forall q s acc,
  s_aof (snd (exec_queue now s dbi q acc)) = rev (filter is_logged q) ++ s_aof s.
Proof.
  induction q as [|parts q IH]; intros s acc; cbn [exec_queue filter]; [reflexivity|].
  pose proof (nc_aof now s 0 dbi parts None) as Hn.
  destruct (normal_command now s 0 dbi parts None) as [rep s1]. cbn [snd] in Hn.
  rewrite IH, Hn. destruct (is_logged parts); [|reflexivity].
  cbn [rev]. rewrite <- app_assoc. reflexivity.
Qed.

(** ================= 3. commands that are not logged leave the database alone ================= *)
(** [lazy_removed now d d']: d' is d without some entries that had already expired at [now]
    (the lazy expiry of get: data entry and deadline-index entry removed) *)
Inductive lazy_removed (now : Z) : db -> db -> Prop :=
| lr_refl d : lazy_removed now d d
| lr_step d k d' : was_expired now d k = true ->
    lazy_removed now (index_del (del_entry d k) k) d' -> lazy_removed now d d'.

Lemma lr_trans now a b c : lazy_removed now a b -> lazy_removed now b c -> lazy_removed now a c.
Proof. induction 1; intros Hc; [exact Hc|]. eapply lr_step; eauto. Qed.
Lemma lr_one now d k : was_expired now d k = true -> lazy_removed now d (index_del (del_entry d k) k).
Proof. intros H. eapply lr_step; [exact H|apply lr_refl]. Qed.

(** every entry of d' is an entry of d *)
Lemma lr_sub now d d' : lazy_removed now d d' ->
  forall k e, get_entry d' k = Some e -> get_entry d k = Some e.
Proof.
  induction 1 as [|d k0 d' Hx _ IH]; intros k e He; [exact He|].
  specialize (IH k e He). rewrite get_entry_index_del in IH.
  destruct (beq k k0) eqn:E.
  - apply beq_eq in E. subst. rewrite get_entry_del_same in IH. discriminate.
  - rewrite get_entry_del_other in IH by exact E. exact IH.
Qed.

(** no entry of the database has expired *)
Definition fresh (now : Z) (d : db) : bool := forallb (fun ke => negb (expired now (snd ke))) (d_data d).
Lemma alookup_In' {A} k (l : list (bytes * A)) v : alookup k l = Some v -> exists k', In (k', v) l.
Proof.
  induction l as [|[k' v'] l IH]; cbn [alookup]; [discriminate|].
  destruct (beq k k'); intros H.
  - inversion H; subst. exists k'. left; reflexivity.
  - destruct (IH H) as (k2 & Hin). exists k2. right; exact Hin.
Qed.
Lemma fresh_not_expired now d k : fresh now d = true -> was_expired now d k = false.
Proof.
  unfold fresh, was_expired, get_entry. intros H. destruct (alookup k (d_data d)) as [e|] eqn:E; [|reflexivity].
  destruct (alookup_In' _ _ _ E) as (k' & Hin). rewrite forallb_forall in H.
  specialize (H _ Hin). cbn [snd] in H. apply negb_true_iff in H. exact H.
Qed.
(** on a database without expired entries lazy expiry removes nothing *)
Lemma lr_fresh now d d' : fresh now d = true -> lazy_removed now d d' -> d' = d.
Proof.
  intros Hf H. destruct H as [|d k d' Hx _]; [reflexivity|].
  rewrite (fresh_not_expired now d k Hf) in Hx. discriminate.
Qed.

Lemma lr_eng_get now d k g d' : eng_get now d k = (g, d') -> lazy_removed now d d'.
Proof.
  unfold eng_get. intros H. destruct (get_entry d k) as [e|] eqn:E.
  - destruct (expired now e) eqn:Ex; inversion H; subst; [|apply lr_refl].
    apply lr_one. unfold was_expired. rewrite E. exact Ex.
  - inversion H; subst. apply lr_refl.
Qed.
Lemma lr_get_string now d k g d' : get_string now d k = (g, d') -> lazy_removed now d d'.
Proof.
  unfold get_string. intros H. destruct (eng_get now d k) as [g1 d1] eqn:E.
  apply lr_eng_get in E. destruct g1 as [v| |]; [destruct v|..]; inversion H; subst; exact E.
Qed.
Lemma lr_get_stream now d k g d' : get_stream now d k = (g, d') -> lazy_removed now d d'.
Proof.
  unfold get_stream. intros H. destruct (eng_get now d k) as [g1 d1] eqn:E.
  apply lr_eng_get in E. destruct g1 as [v| |]; [destruct v|..]; inversion H; subst; exact E.
Qed.

(** a handler is inert: whatever it answers, the database is the old one up to lazy expiry *)
Ltac inert_step :=
  match goal with
  | H : (_, _) = (_, _) |- _ => inversion H; clear H; subst
  | H : Some _ = Some _ |- _ => inversion H; clear H; subst
  | H : context [get_string ?now ?d ?k] |- _ =>
      let E := fresh "Eg" in destruct (get_string now d k) as [? ?] eqn:E; apply lr_get_string in E
  | H : context [get_stream ?now ?d ?k] |- _ =>
      let E := fresh "Eg" in destruct (get_stream now d k) as [? ?] eqn:E; apply lr_get_stream in E
  | H : context [eng_get ?now ?d ?k] |- _ =>
      let E := fresh "Eg" in destruct (eng_get now d k) as [? ?] eqn:E; apply lr_eng_get in E
  | H : context [if ?c then _ else _] |- _ => destruct c eqn:?
  | H : context [match ?x with _ => _ end] |- _ => destruct x eqn:?
  end.
Ltac inert := intros; repeat inert_step; try discriminate; try assumption; try apply lr_refl.

(** ---- string / key family ---- *)
Lemma h_get_inert now d parts r d' : h_get now d parts = (r, d') -> lazy_removed now d d'.
Proof. unfold h_get. inert. Qed.
Lemma h_exists_inert now d parts r d' : h_exists now d parts = (r, d') -> lazy_removed now d d'.
Proof. unfold h_exists. inert. Qed.
Lemma h_ttl_inert now d parts r d' : h_ttl now d parts = (r, d') -> lazy_removed now d d'.
Proof. unfold h_ttl. inert. Qed.
Lemma h_pttl_inert now d parts r d' : h_pttl now d parts = (r, d') -> lazy_removed now d d'.
Proof. unfold h_pttl. inert. Qed.
Lemma mget_loop_inert now : forall args d acc r d', mget_loop now d args acc = (r, d') -> lazy_removed now d d'.
Proof.
  induction args as [|a args IH]; intros d acc r d' H; cbn [mget_loop] in H.
  - inversion H; subst. apply lr_refl.
  - destruct a; try (inversion H; subst; apply lr_refl).
    destruct (get_string now d b) as [g d1] eqn:E. apply lr_get_string in E.
    destruct g as [[x|]|]; [eapply lr_trans; [exact E|eapply IH; exact H]..|inversion H; subst; exact E].
Qed.
Lemma h_mget_inert now d parts r d' : h_mget now d parts = (r, d') -> lazy_removed now d d'.
Proof.
  unfold h_mget. intros H. destruct (nparts parts <? 2); [inversion H; subst; apply lr_refl|].
  eapply mget_loop_inert; exact H.
Qed.
Lemma h_strlen_inert now d parts r d' : h_strlen d parts = (r, d') -> lazy_removed now d d'.
Proof. unfold h_strlen. inert. Qed.
Lemma h_getrange_inert now d parts r d' : h_getrange d parts = (r, d') -> lazy_removed now d d'.
Proof. unfold h_getrange. inert. Qed.
Lemma h_type_inert now d parts r d' : h_type d parts = (r, d') -> lazy_removed now d d'.
Proof. unfold h_type. inert. Qed.
Lemma h_keys_inert now d parts r d' : h_keys d parts = (r, d') -> lazy_removed now d d'.
Proof. unfold h_keys. inert. Qed.
Lemma h_dbsize_inert now d parts r d' : h_dbsize d parts = (r, d') -> lazy_removed now d d'.
Proof. unfold h_dbsize. inert. Qed.

(** the commands that change data without being in the table (refuted part of the
    completeness obligation; each has its witness lemma below) *)
Definition unlogged_writers : list bytes := [bs "GETSET"; bs "HMSET"; bs "PEXPIRE"; bs "XREADGROUP"].

(** walk down an [if beq name (bs "X") then .. else ..] dispatcher: a branch whose name is a
    write command or a known unlogged writer contradicts the hypotheses, the other branches
    are left as goals *)
Ltac chain H Hw Hr :=
  repeat match type of H with
  | (if beq ?n ?c then _ else _) = _ =>
      let E := fresh "E" in
      destruct (beq n c) eqn:E;
      [ apply beq_eq in E; subst n;
        try (exfalso; vm_compute in Hw; discriminate Hw);
        try (exfalso; vm_compute in Hr; discriminate Hr) | clear E ]
  end.

Lemma exec_strings_inert now d name parts r d' :
  mem_name name write_commands = false -> mem_name name unlogged_writers = false ->
  exec_strings now d name parts = Some (r, d') -> lazy_removed now d d'.
Proof.
  unfold exec_strings. intros Hw Hr H. chain H Hw Hr; try discriminate; inversion H as [H1]; clear H;
  eauto using h_get_inert, h_exists_inert, h_ttl_inert, h_pttl_inert, h_mget_inert, h_strlen_inert,
    h_getrange_inert, h_type_inert, h_keys_inert, h_dbsize_inert.
Qed.

(** ---- lists / sets / hashes: the engine verdict of every read is Keep ---- *)
Lemma on_key_keep d k f : (forall cur, snd (f cur) = Keep) -> snd (on_key d k f) = d.
Proof.
  intros Hk. unfold on_key. specialize (Hk (option_map e_val (get_entry d k))).
  destruct (f (option_map e_val (get_entry d k))) as [r u]. cbn [snd] in *. subst u. reflexivity.
Qed.
Ltac keep_step :=
  match goal with
  | H : (_, _) = (_, _) |- _ => inversion H; clear H; subst
  | H : on_key ?d ?k ?f = (_, ?d') |- _ =>
      let K := fresh "K" in
      assert (K : snd (on_key d k f) = d) by (apply on_key_keep; auto);
      rewrite H in K; cbn [snd] in K; subst; clear H
  | H : context [if ?c then _ else _] |- _ => destruct c eqn:?
  | H : context [match ?x with _ => _ end] |- _ => destruct x eqn:?
  end.
Ltac keep := intros; repeat keep_step; try discriminate; try reflexivity.
Ltac keep_e := intros [[ | | | | | ]|]; red_reply; repeat break_match; reflexivity.

Lemma keep_llen : forall cur, snd (e_llen cur) = Keep. Proof. unfold e_llen. keep_e. Qed.
Lemma keep_lrange s e : forall cur, snd (e_lrange s e cur) = Keep. Proof. unfold e_lrange. keep_e. Qed.
Lemma keep_lindex i : forall cur, snd (e_lindex i cur) = Keep. Proof. unfold e_lindex. keep_e. Qed.
Lemma keep_smembers : forall cur, snd (e_smembers cur) = Keep. Proof. unfold e_smembers. keep_e. Qed.
Lemma keep_sismember m : forall cur, snd (e_sismember m cur) = Keep. Proof. unfold e_sismember. keep_e. Qed.
Lemma keep_scard : forall cur, snd (e_scard cur) = Keep. Proof. unfold e_scard. keep_e. Qed.
Lemma keep_srandmember c o : forall cur, snd (e_srandmember c o cur) = Keep. Proof. intros cur. apply srandmember_readonly. Qed.
Lemma keep_hget f : forall cur, snd (e_hget f cur) = Keep. Proof. unfold e_hget. keep_e. Qed.
Lemma keep_hmget fs : forall cur, snd (e_hmget fs cur) = Keep. Proof. unfold e_hmget. keep_e. Qed.
Lemma keep_hgetall : forall cur, snd (e_hgetall cur) = Keep. Proof. unfold e_hgetall. keep_e. Qed.
Lemma keep_hlen : forall cur, snd (e_hlen cur) = Keep. Proof. unfold e_hlen. keep_e. Qed.
Lemma keep_hexists f : forall cur, snd (e_hexists f cur) = Keep. Proof. unfold e_hexists. keep_e. Qed.
Lemma keep_hkeys : forall cur, snd (e_hkeys cur) = Keep. Proof. unfold e_hkeys. keep_e. Qed.
Lemma keep_hvals : forall cur, snd (e_hvals cur) = Keep. Proof. unfold e_hvals. keep_e. Qed.
#[local] Hint Resolve keep_llen keep_lrange keep_lindex keep_smembers keep_sismember keep_scard keep_srandmember
  keep_hget keep_hmget keep_hgetall keep_hlen keep_hexists keep_hkeys keep_hvals : core.

Lemma h_key1_keep f d parts r d' : (forall cur, snd (f cur) = Keep) -> h_key1 f d parts = (r, d') -> d' = d.
Proof. unfold h_key1. keep. Qed.
Lemma h_key_bulk_keep f d parts r d' : (forall a cur, snd (f a cur) = Keep) -> h_key_bulk f d parts = (r, d') -> d' = d.
Proof. unfold h_key_bulk. keep. Qed.
Lemma h_range_keep f d parts r d' : (forall s e cur, snd (f s e cur) = Keep) -> h_range f d parts = (r, d') -> d' = d.
Proof. unfold h_range. keep. Qed.
Lemma h_lindex_keep d parts r d' : h_lindex d parts = (r, d') -> d' = d.
Proof. unfold h_lindex. keep. Qed.
Lemma h_setalg_keep f d parts r d' : h_setalg f d parts = (r, d') -> d' = d.
Proof. unfold h_setalg. keep. Qed.
Lemma h_srandmember_keep d parts o r d' : h_srandmember d parts o = (r, d') -> d' = d.
Proof. unfold h_srandmember. keep. Qed.
Lemma h_hmget_keep d parts r d' : h_hmget d parts = (r, d') -> d' = d.
Proof. unfold h_hmget. keep. Qed.

Lemma exec_lists_inert now d name parts o r d' :
  mem_name name write_commands = false -> mem_name name unlogged_writers = false ->
  exec_lists now d name parts o = Some (r, d') -> d' = d.
Proof.
  unfold exec_lists. intros Hw Hr H. chain H Hw Hr; try discriminate; inversion H as [H1]; clear H;
  eauto using h_key1_keep, h_key_bulk_keep, h_range_keep, h_lindex_keep, h_setalg_keep, h_srandmember_keep,
    h_hmget_keep.
Qed.

(** ---- streams ---- *)
Lemma h_xrange_inert now d parts r d' : h_xrange d parts = (r, d') -> lazy_removed now d d'.
Proof. unfold h_xrange. inert. Qed.
Lemma h_xrevrange_inert now d parts r d' : h_xrevrange d parts = (r, d') -> lazy_removed now d d'.
Proof. unfold h_xrevrange. inert. Qed.
Lemma h_xlen_inert now d parts r d' : h_xlen d parts = (r, d') -> lazy_removed now d d'.
Proof. unfold h_xlen. inert. Qed.
Lemma h_xread_inert now d parts r d' : h_xread d parts = (r, d') -> lazy_removed now d d'.
Proof. unfold h_xread. inert. Qed.
Lemma h_xpending_inert now d parts r d' : h_xpending now d parts = (r, d') -> lazy_removed now d d'.
Proof. unfold h_xpending. inert. Qed.
Lemma h_xinfo_inert now d parts r d' : h_xinfo now d parts = (r, d') -> lazy_removed now d d'.
Proof. unfold h_xinfo. inert. Qed.
