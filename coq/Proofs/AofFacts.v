(** Proofs for C11 (the append-only file): framing of the file, the logging
    discipline of process_normal_command / EXEC, inertness of the commands that are not
    logged (the completeness obligation over Generated.write_commands), and the replay
    theorem.  Statements are collected in Props/C11.v. *)
From Ferrous Require Import Base.Bytes Generated Model.Resp Model.Types Model.Glob Model.Strings
  Model.Lists Model.ZSets Model.Streams Model.Scan Model.Server Model.Conn Model.Aof
  Proofs.BytesFacts Proofs.RespFacts Proofs.StringsFacts Proofs.ListsFacts Proofs.ServerFacts
  Proofs.ConnFacts.
From Coq Require Import ZifyBool.
Open Scope Z_scope.

(** ================= 1. the file is a sequence of whole frames ================= *)

Lemma aof_file_replies log : aof_file log = write_replies (map FArray log).
Proof.
  unfold aof_file. induction log as [|p log IH]; [reflexivity|].
  cbn [map concat]. rewrite IH. reflexivity.
Qed.
Lemma aof_file_app a b : aof_file (a ++ b) = aof_file a ++ aof_file b.
Proof. unfold aof_file. rewrite map_app, concat_app. reflexivity. Qed.
Lemma aof_file_snoc log p : aof_file (log ++ [p]) = aof_file log ++ aof_frame p.
Proof. rewrite aof_file_app. unfold aof_file at 2. cbn [map concat]. rewrite app_nil_r. reflexivity. Qed.

(** a command as it can arrive from the wire: a frame the codec round-trips *)
Definition wire_cmd (parts : list frame) : Prop := wfb' max_levels (FArray parts) = true.

Lemma forallb_map_id {A} (g : A -> A) (p : A -> bool) l :
  (forall x, In x l -> p x = true -> g x = x) -> forallb p l = true -> map g l = l.
Proof.
  induction l as [|x l IH]; intros Hg Hp; [reflexivity|].
  cbn [forallb] in Hp. apply andb_prop in Hp as [H1 H2]. cbn [map].
  rewrite (Hg x (or_introl eq_refl) H1), IH; auto. intros y Hy. apply Hg. right; exact Hy.
Qed.
(** such a frame carries no CR / LF in a line payload: it reads back as itself *)
Lemma wfb_sanitize : forall f d, wfb' d f = true -> sanitize f = f.
Proof.
  induction f using frame_ind'; intros [|d'] Hb; cbn [wfb] in Hb; try discriminate; try reflexivity.
  - cbn [sanitize]. rewrite clean_id by exact Hb. reflexivity.
  - cbn [sanitize]. rewrite clean_id by exact Hb. reflexivity.
  - apply andb_prop in Hb as [_ H2]. cbn [sanitize]. f_equal.
    apply (forallb_map_id sanitize (wfb' d')); [|exact H2].
    intros x Hx Hw. rewrite Forall_forall in H. exact (H x Hx d' Hw).
  - apply andb_prop in Hb as [_ H2]. cbn [sanitize]. f_equal.
    apply (forallb_map_id sanitize (wfb' d')); [|exact H2].
    intros x Hx Hw. rewrite Forall_forall in H. exact (H x Hx d' Hw).
  - apply andb_prop in Hb as [_ H2]. cbn [sanitize]. f_equal.
    apply (forallb_map_id sanitize (wfb' d')); [|exact H2].
    intros x Hx Hw. rewrite Forall_forall in H. exact (H x Hx d' Hw).
Qed.
Lemma wire_sendable parts : wire_cmd parts -> sendable (FArray parts) /\ sanitize (FArray parts) = FArray parts.
Proof.
  intros H. pose proof (wfb_sanitize _ _ H) as Hs. split; [|exact Hs]. unfold sendable. rewrite Hs. exact H.
Qed.

(** decoding the file gives back exactly the logged commands, and nothing is left over *)
Lemma aof_decode_log log : Forall wire_cmd log ->
  aof_decode (aof_file log) = (map FArray log, NeedMore, []).
Proof.
  intros H. unfold aof_decode, drain_buf. rewrite aof_file_replies.
  rewrite drain_replies; [| |lia].
  - cbn [rev app]. f_equal. f_equal. rewrite map_map. apply map_ext_in. intros p Hp.
    rewrite Forall_forall in H. apply (wire_sendable p (H p Hp)).
  - rewrite Forall_forall in *. intros f Hf. apply in_map_iff in Hf as (p & <- & Hp).
    apply (wire_sendable p (H p Hp)).
Qed.
(** every append adds one whole frame: the longer file decodes to the old commands plus the new one *)
Lemma aof_append_whole log p : Forall wire_cmd log -> wire_cmd p ->
  aof_decode (aof_file log ++ aof_frame p) = (map FArray log ++ [FArray p], NeedMore, []).
Proof.
  intros Hl Hp. rewrite <- aof_file_snoc, aof_decode_log, map_app; [reflexivity|].
  apply Forall_app. split; [exact Hl|constructor; [exact Hp|constructor]].
Qed.
(** commands made of bulk strings only (what every client library sends) are wire commands
    as long as the lengths fit *)
Lemma wfb_array_unfold d l : wfb' (S d) (FArray l) = (len l <=? i64_max) && forallb (wfb' d) l.
Proof. reflexivity. Qed.
Lemma wfb_bulk_unfold d a : wfb' (S d) (FBulk a) = (len a <=? i64_max).
Proof. reflexivity. Qed.
Lemma bulk_cmd_wire (args : list bytes) :
  len args <= i64_max -> Forall (fun a => len a <= i64_max) args -> wire_cmd (map FBulk args).
Proof.
  intros Hn Ha. unfold wire_cmd. change max_levels with (S (S 31)). rewrite wfb_array_unfold, len_map.
  apply andb_true_intro. split; [lia|]. apply forallb_forall. intros f Hf.
  apply in_map_iff in Hf as (a & <- & Hin). rewrite Forall_forall in Ha. specialize (Ha a Hin).
  rewrite wfb_bulk_unfold. lia.
Qed.

(** ================= 2. the logging discipline ================= *)
(** is the command appended: its upper-cased name is in the generated table *)
Definition is_logged (parts : list frame) : bool :=
  match parts with FBulk nm :: _ => mem_name (upper nm) write_commands | _ => false end.

(** process_normal_command appends the command once, before dispatch, iff it is a write
    command by name - whatever it answers *)
Lemma nc_aof now s c dbi parts o :
  s_aof (snd (normal_command now s c dbi parts o)) = if is_logged parts then parts :: s_aof s else s_aof s.
Proof.
  unfold normal_command, is_logged.
  destruct parts as [|first rest]; [reflexivity|]. destruct first; try reflexivity.
  set (s0 := if mem_name (upper b) write_commands then log_aof s (FBulk b :: rest) else s).
  assert (H0 : s_aof s0 = if mem_name (upper b) write_commands then (FBulk b :: rest) :: s_aof s else s_aof s).
  { unfold s0. destruct (mem_name (upper b) write_commands); reflexivity. }
  rewrite <- H0. clear H0. generalize s0. clear s0. intros s0.
  destruct (beq (upper b) (bs "PING")); [reflexivity|].
  destruct (beq (upper b) (bs "ECHO")); [reflexivity|].
  destruct (beq (upper b) (bs "SELECT")).
  { destruct rest as [|a [|? ?]]; try reflexivity; try (destruct a; reflexivity).
    destruct a; try reflexivity.
    destruct (parse_usize b0); [|reflexivity]. destruct (16 <=? z); [reflexivity|].
    destruct (zlookup c (s_conns s0)); reflexivity. }
  destruct (beq (upper b) (bs "FLUSHALL")).
  { destruct (negb (len (FBulk b :: rest) =? 1)); reflexivity. }
  destruct (beq (upper b) (bs "RANDOMKEY")); [reflexivity|].
  destruct (beq (upper b) (bs "AUTH")).
  { destruct (h_auth s0 0 (FBulk b :: rest)) as [r1 s1] eqn:E.
    destruct (auth_per_connection _ _ _ _ _ E) as (_ & _ & _ & Ha & _). exact Ha. }
  destruct (beq (upper b) (bs "QUIT")); [reflexivity|].
  destruct (beq (upper b) (bs "VERIF")); [reflexivity|].
  destruct (exec_db now (get_db s0 dbi) (upper b) (FBulk b :: rest) o) as [[r0 d']|]; reflexivity.
Qed.

(** EXEC appends the queued write commands in queue (= execution) order, each once *)
Lemma exec_queue_aof now dbi : forall q s acc,
  s_aof (snd (exec_queue now s dbi q acc)) = rev (filter is_logged q) ++ s_aof s.
Proof.
  induction q as [|parts q IH]; intros s acc; cbn [exec_queue filter]; [reflexivity|].
  pose proof (nc_aof now s 0 dbi parts None) as Hn.
  destruct (normal_command now s 0 dbi parts None) as [rep s1]. cbn [snd] in Hn.
  rewrite IH, Hn. destruct (is_logged parts); [|reflexivity].
  cbn [rev]. rewrite <- app_assoc. reflexivity.
Qed.

(** ================= 3. commands that are not logged leave the database alone ================= *)
(** [lazy_removed now d d']: d' is d without some entries that had already expired at [now]
    (the lazy expiry of get: data entry and deadline-index entry removed) *)
Inductive lazy_removed (now : Z) : db -> db -> Prop :=
| lr_refl d : lazy_removed now d d
| lr_step d k d' : was_expired now d k = true ->
    lazy_removed now (index_del (del_entry d k) k) d' -> lazy_removed now d d'.

Lemma lr_trans now a b c : lazy_removed now a b -> lazy_removed now b c -> lazy_removed now a c.
Proof. induction 1; intros Hc; [exact Hc|]. eapply lr_step; eauto. Qed.
Lemma lr_one now d k : was_expired now d k = true -> lazy_removed now d (index_del (del_entry d k) k).
Proof. intros H. eapply lr_step; [exact H|apply lr_refl]. Qed.

(** every entry of d' is an entry of d *)
Lemma lr_sub now d d' : lazy_removed now d d' ->
  forall k e, get_entry d' k = Some e -> get_entry d k = Some e.
Proof.
  induction 1 as [|d k0 d' Hx _ IH]; intros k e He; [exact He|].
  specialize (IH k e He). rewrite get_entry_index_del in IH.
  destruct (beq k k0) eqn:E.
  - apply beq_eq in E. subst. rewrite get_entry_del_same in IH. discriminate.
  - rewrite get_entry_del_other in IH by exact E. exact IH.
Qed.

(** no entry of the database has expired *)
Definition fresh (now : Z) (d : db) : bool := forallb (fun ke => negb (expired now (snd ke))) (d_data d).
Lemma alookup_In' {A} k (l : list (bytes * A)) v : alookup k l = Some v -> exists k', In (k', v) l.
Proof.
  induction l as [|[k' v'] l IH]; cbn [alookup]; [discriminate|].
  destruct (beq k k'); intros H.
  - inversion H; subst. exists k'. left; reflexivity.
  - destruct (IH H) as (k2 & Hin). exists k2. right; exact Hin.
Qed.
Lemma fresh_not_expired now d k : fresh now d = true -> was_expired now d k = false.
Proof.
  unfold fresh, was_expired, get_entry. intros H. destruct (alookup k (d_data d)) as [e|] eqn:E; [|reflexivity].
  destruct (alookup_In' _ _ _ E) as (k' & Hin). rewrite forallb_forall in H.
  specialize (H _ Hin). cbn [snd] in H. apply negb_true_iff in H. exact H.
Qed.
(** on a database without expired entries lazy expiry removes nothing *)
Lemma lr_fresh now d d' : fresh now d = true -> lazy_removed now d d' -> d' = d.
Proof.
  intros Hf H. destruct H as [|d k d' Hx _]; [reflexivity|].
  rewrite (fresh_not_expired now d k Hf) in Hx. discriminate.
Qed.

Lemma lr_eng_get now d k g d' : eng_get now d k = (g, d') -> lazy_removed now d d'.
Proof.
  unfold eng_get. intros H. destruct (get_entry d k) as [e|] eqn:E.
  - destruct (expired now e) eqn:Ex; inversion H; subst; [|apply lr_refl].
    apply lr_one. unfold was_expired. rewrite E. exact Ex.
  - inversion H; subst. apply lr_refl.
Qed.
Lemma lr_get_string now d k g d' : get_string now d k = (g, d') -> lazy_removed now d d'.
Proof.
  unfold get_string. intros H. destruct (eng_get now d k) as [g1 d1] eqn:E.
  apply lr_eng_get in E. destruct g1 as [v| |]; [destruct v|..]; inversion H; subst; exact E.
Qed.
Lemma lr_get_stream now d k g d' : get_stream now d k = (g, d') -> lazy_removed now d d'.
Proof.
  unfold get_stream. intros H. destruct (eng_get now d k) as [g1 d1] eqn:E.
  apply lr_eng_get in E. destruct g1 as [v| |]; [destruct v|..]; inversion H; subst; exact E.
Qed.

(** a handler is inert: whatever it answers, the database is the old one up to lazy expiry *)
Ltac inert_step :=
  match goal with
  | H : (_, _) = (_, _) |- _ => inversion H; clear H; subst
  | H : Some _ = Some _ |- _ => inversion H; clear H; subst
  | H : context [get_string ?now ?d ?k] |- _ =>
      let E := fresh "Eg" in destruct (get_string now d k) as [? ?] eqn:E; apply lr_get_string in E
  | H : context [get_stream ?now ?d ?k] |- _ =>
      let E := fresh "Eg" in destruct (get_stream now d k) as [? ?] eqn:E; apply lr_get_stream in E
  | H : context [eng_get ?now ?d ?k] |- _ =>
      let E := fresh "Eg" in destruct (eng_get now d k) as [? ?] eqn:E; apply lr_eng_get in E
  | H : context [if ?c then _ else _] |- _ => destruct c eqn:?
  | H : context [match ?x with _ => _ end] |- _ => destruct x eqn:?
  end.
Ltac inert := intros; repeat inert_step; try discriminate; try assumption; try apply lr_refl.

(** ---- string / key family ---- *)
Lemma h_get_inert now d parts r d' : h_get now d parts = (r, d') -> lazy_removed now d d'.
Proof. unfold h_get. inert. Qed.
Lemma h_exists_inert now d parts r d' : h_exists now d parts = (r, d') -> lazy_removed now d d'.
Proof. unfold h_exists. inert. Qed.
Lemma h_ttl_inert now d parts r d' : h_ttl now d parts = (r, d') -> lazy_removed now d d'.
Proof. unfold h_ttl. inert. Qed.
Lemma h_pttl_inert now d parts r d' : h_pttl now d parts = (r, d') -> lazy_removed now d d'.
Proof. unfold h_pttl. inert. Qed.
Lemma mget_loop_inert now : forall args d acc r d', mget_loop now d args acc = (r, d') -> lazy_removed now d d'.
Proof.
  induction args as [|a args IH]; intros d acc r d' H; cbn [mget_loop] in H.
  - inversion H; subst. apply lr_refl.
  - destruct a; try (inversion H; subst; apply lr_refl).
    destruct (get_string now d b) as [g d1] eqn:E. apply lr_get_string in E.
    destruct g as [[x|]|]; [eapply lr_trans; [exact E|eapply IH; exact H]..|inversion H; subst; exact E].
Qed.
Lemma h_mget_inert now d parts r d' : h_mget now d parts = (r, d') -> lazy_removed now d d'.
Proof.
  unfold h_mget. intros H. destruct (nparts parts <? 2); [inversion H; subst; apply lr_refl|].
  eapply mget_loop_inert; exact H.
Qed.
Lemma h_strlen_inert now d parts r d' : h_strlen d parts = (r, d') -> lazy_removed now d d'.
Proof. unfold h_strlen. inert. Qed.
Lemma h_getrange_inert now d parts r d' : h_getrange d parts = (r, d') -> lazy_removed now d d'.
Proof. unfold h_getrange. inert. Qed.
Lemma h_type_inert now d parts r d' : h_type d parts = (r, d') -> lazy_removed now d d'.
Proof. unfold h_type. inert. Qed.
Lemma h_keys_inert now d parts r d' : h_keys d parts = (r, d') -> lazy_removed now d d'.
Proof. unfold h_keys. inert. Qed.
Lemma h_dbsize_inert now d parts r d' : h_dbsize d parts = (r, d') -> lazy_removed now d d'.
Proof. unfold h_dbsize. inert. Qed.

(** the commands that change data without being in the table (refuted part of the
    completeness obligation; each has its witness lemma below) *)
Definition unlogged_writers : list bytes := [bs "GETSET"; bs "HMSET"; bs "PEXPIRE"; bs "XREADGROUP"].

(** walk down an [if beq name (bs "X") then .. else ..] dispatcher: a branch whose name is a
    write command or a known unlogged writer contradicts the hypotheses, the other branches
    are left as goals *)
Ltac chain H Hw Hr :=
  repeat match type of H with
  | (if beq ?n ?c then _ else _) = _ =>
      let E := fresh "E" in
      destruct (beq n c) eqn:E;
      [ apply beq_eq in E; subst n;
        try (exfalso; vm_compute in Hw; discriminate Hw);
        try (exfalso; vm_compute in Hr; discriminate Hr) | clear E ]
  end.

Lemma exec_strings_inert now d name parts r d' :
  mem_name name write_commands = false -> mem_name name unlogged_writers = false ->
  exec_strings now d name parts = Some (r, d') -> lazy_removed now d d'.
Proof.
  unfold exec_strings. intros Hw Hr H. chain H Hw Hr; try discriminate; inversion H as [H1]; clear H;
  eauto using h_get_inert, h_exists_inert, h_ttl_inert, h_pttl_inert, h_mget_inert, h_strlen_inert,
    h_getrange_inert, h_type_inert, h_keys_inert, h_dbsize_inert.
Qed.

(** ---- lists / sets / hashes: the engine verdict of every read is Keep ---- *)
Lemma on_key_keep d k f : (forall cur, snd (f cur) = Keep) -> snd (on_key d k f) = d.
Proof.
  intros Hk. unfold on_key. specialize (Hk (option_map e_val (get_entry d k))).
  destruct (f (option_map e_val (get_entry d k))) as [r u]. cbn [snd] in *. subst u. reflexivity.
Qed.
Ltac keep_step :=
  match goal with
  | H : (_, _) = (_, _) |- _ => inversion H; clear H; subst
  | H : on_key ?d ?k ?f = (_, ?d') |- _ =>
      let K := fresh "K" in
      assert (K : snd (on_key d k f) = d) by (apply on_key_keep; auto);
      rewrite H in K; cbn [snd] in K; subst; clear H
  | H : context [if ?c then _ else _] |- _ => destruct c eqn:?
  | H : context [match ?x with _ => _ end] |- _ => destruct x eqn:?
  end.
Ltac keep := intros; repeat keep_step; try discriminate; try reflexivity.
Ltac keep_e := intros [[ | | | | | ]|]; red_reply; repeat break_match; reflexivity.

Lemma keep_llen : forall cur, snd (e_llen cur) = Keep. Proof. unfold e_llen. keep_e. Qed.
Lemma keep_lrange s e : forall cur, snd (e_lrange s e cur) = Keep. Proof. unfold e_lrange. keep_e. Qed.
Lemma keep_lindex i : forall cur, snd (e_lindex i cur) = Keep. Proof. unfold e_lindex. keep_e. Qed.
Lemma keep_smembers : forall cur, snd (e_smembers cur) = Keep. Proof. unfold e_smembers. keep_e. Qed.
Lemma keep_sismember m : forall cur, snd (e_sismember m cur) = Keep. Proof. unfold e_sismember. keep_e. Qed.
Lemma keep_scard : forall cur, snd (e_scard cur) = Keep. Proof. unfold e_scard. keep_e. Qed.
Lemma keep_srandmember c o : forall cur, snd (e_srandmember c o cur) = Keep. Proof. intros cur. apply srandmember_readonly. Qed.
Lemma keep_hget f : forall cur, snd (e_hget f cur) = Keep. Proof. unfold e_hget. keep_e. Qed.
Lemma keep_hmget fs : forall cur, snd (e_hmget fs cur) = Keep. Proof. unfold e_hmget. keep_e. Qed.
Lemma keep_hgetall : forall cur, snd (e_hgetall cur) = Keep. Proof. unfold e_hgetall. keep_e. Qed.
Lemma keep_hlen : forall cur, snd (e_hlen cur) = Keep. Proof. unfold e_hlen. keep_e. Qed.
Lemma keep_hexists f : forall cur, snd (e_hexists f cur) = Keep. Proof. unfold e_hexists. keep_e. Qed.
Lemma keep_hkeys : forall cur, snd (e_hkeys cur) = Keep. Proof. unfold e_hkeys. keep_e. Qed.
Lemma keep_hvals : forall cur, snd (e_hvals cur) = Keep. Proof. unfold e_hvals. keep_e. Qed.
#[local] Hint Resolve keep_llen keep_lrange keep_lindex keep_smembers keep_sismember keep_scard keep_srandmember
  keep_hget keep_hmget keep_hgetall keep_hlen keep_hexists keep_hkeys keep_hvals : core.

Lemma h_key1_keep f d parts r d' : (forall cur, snd (f cur) = Keep) -> h_key1 f d parts = (r, d') -> d' = d.
Proof. unfold h_key1. keep. Qed.
Lemma h_key_bulk_keep f d parts r d' : (forall a cur, snd (f a cur) = Keep) -> h_key_bulk f d parts = (r, d') -> d' = d.
Proof. unfold h_key_bulk. keep. Qed.
Lemma h_range_keep f d parts r d' : (forall s e cur, snd (f s e cur) = Keep) -> h_range f d parts = (r, d') -> d' = d.
Proof. unfold h_range. keep. Qed.
Lemma h_lindex_keep d parts r d' : h_lindex d parts = (r, d') -> d' = d.
Proof. unfold h_lindex. keep. Qed.
Lemma h_setalg_keep f d parts r d' : h_setalg f d parts = (r, d') -> d' = d.
Proof. unfold h_setalg. keep. Qed.
Lemma h_srandmember_keep d parts o r d' : h_srandmember d parts o = (r, d') -> d' = d.
Proof. unfold h_srandmember. keep. Qed.
Lemma h_hmget_keep d parts r d' : h_hmget d parts = (r, d') -> d' = d.
Proof. unfold h_hmget. keep. Qed.

Lemma exec_lists_inert now d name parts o r d' :
  mem_name name write_commands = false -> mem_name name unlogged_writers = false ->
  exec_lists now d name parts o = Some (r, d') -> d' = d.
Proof.
  unfold exec_lists. intros Hw Hr H. chain H Hw Hr; try discriminate; inversion H as [H1]; clear H;
  eauto using h_key1_keep, h_key_bulk_keep, h_range_keep, h_lindex_keep, h_setalg_keep, h_srandmember_keep,
    h_hmget_keep.
Qed.

(** ---- streams ---- *)
Lemma h_xrange_inert now d parts r d' : h_xrange d parts = (r, d') -> lazy_removed now d d'.
Proof. unfold h_xrange. inert. Qed.
Lemma h_xrevrange_inert now d parts r d' : h_xrevrange d parts = (r, d') -> lazy_removed now d d'.
Proof. unfold h_xrevrange. inert. Qed.
Lemma h_xlen_inert now d parts r d' : h_xlen d parts = (r, d') -> lazy_removed now d d'.
Proof. unfold h_xlen. inert. Qed.
Lemma h_xread_inert now d parts r d' : h_xread d parts = (r, d') -> lazy_removed now d d'.
Proof. unfold h_xread. inert. Qed.
Lemma h_xpending_inert now d parts r d' : h_xpending now d parts = (r, d') -> lazy_removed now d d'.
Proof. unfold h_xpending. inert. Qed.
Lemma h_xinfo_inert now d parts r d' : h_xinfo now d parts = (r, d') -> lazy_removed now d d'.
Proof. unfold h_xinfo. inert. Qed.

Lemma exec_streams_inert now d name parts o r d' :
  mem_name name write_commands = false -> mem_name name unlogged_writers = false ->
  exec_streams now d name parts o = Some (r, d') -> lazy_removed now d d'.
Proof.
  unfold exec_streams. intros Hw Hr H. chain H Hw Hr; try discriminate; inversion H as [H1]; clear H;
  eauto using h_xrange_inert, h_xrevrange_inert, h_xlen_inert, h_xread_inert, h_xpending_inert, h_xinfo_inert.
Qed.

(** ---- SCAN family ---- *)
Lemma eng_hscan_inert now d k c p n nv g d' : eng_hscan now d k c p n nv = (g, d') -> lazy_removed now d d'.
Proof. unfold eng_hscan. inert. Qed.
Lemma eng_sscan_inert now d k c p n g d' : eng_sscan now d k c p n = (g, d') -> lazy_removed now d d'.
Proof. unfold eng_sscan. inert. Qed.
Lemma eng_zscan_inert now d k c p n g d' : eng_zscan now d k c p n = (g, d') -> lazy_removed now d d'.
Proof. unfold eng_zscan. inert. Qed.
Lemma h_scan_inert now d parts r d' : h_scan now d parts = (r, d') -> lazy_removed now d d'.
Proof. unfold h_scan. inert. Qed.
Lemma h_hscan_inert now d parts r d' : h_hscan now d parts = (r, d') -> lazy_removed now d d'.
Proof.
  unfold h_hscan. intros H. destruct (kscan_parse true parts); [|inversion H; subst; apply lr_refl].
  destruct (eng_hscan now d key cursor pat count nov) as [g d1] eqn:E. apply eng_hscan_inert in E.
  destruct g as [[? ?]|]; inversion H; subst; exact E.
Qed.
Lemma h_sscan_inert now d parts r d' : h_sscan now d parts = (r, d') -> lazy_removed now d d'.
Proof.
  unfold h_sscan. intros H. destruct (kscan_parse false parts); [|inversion H; subst; apply lr_refl].
  destruct (eng_sscan now d key cursor pat count) as [g d1] eqn:E. apply eng_sscan_inert in E.
  destruct g as [[? ?]|]; inversion H; subst; exact E.
Qed.
Lemma h_zscan_inert now d parts o r d' : h_zscan now d parts o = (r, d') -> lazy_removed now d d'.
Proof.
  unfold h_zscan. intros H. destruct (kscan_parse false parts); [|inversion H; subst; apply lr_refl].
  destruct (eng_zscan now d key cursor pat count) as [g d1] eqn:E. apply eng_zscan_inert in E.
  destruct g as [[? ?]|]; inversion H; subst; exact E.
Qed.
Lemma exec_scan_inert now d name parts o r d' :
  exec_scan now d name parts o = Some (r, d') -> lazy_removed now d d'.
Proof.
  unfold exec_scan. intros H.
  repeat match type of H with (if ?c then _ else _) = _ => destruct c end;
  try discriminate; inversion H as [H1]; clear H;
  eauto using h_scan_inert, h_hscan_inert, h_sscan_inert, h_zscan_inert.
Qed.

(** sorted sets: the family is still a stub on this branch (its dispatcher answers None); when it
    is merged this lemma is where its reads are discharged and ZADD .. ZPOPMAX meet the table *)
Lemma exec_zsets_inert now d name parts o r d' :
  mem_name name write_commands = false -> mem_name name unlogged_writers = false ->
  exec_zsets now d name parts o = Some (r, d') -> lazy_removed now d d'.
Proof. unfold exec_zsets. discriminate. Qed.

(** THE COMPLETENESS OBLIGATION over the generated table: a command of the modelled dispatch
    (strings/keys, lists/sets/hashes, streams/groups, SCAN family) whose name is NOT in
    [Generated.write_commands] - and is not one of the four known unlogged writers - leaves
    the database unchanged up to lazy removal of expired entries.  Removing a name from the
    Rust matches! makes [mem_name name write_commands] false for it and this proof fails at
    that name's branch. *)
Lemma exec_db_inert now d name parts o r d' :
  mem_name name write_commands = false -> mem_name name unlogged_writers = false ->
  exec_db now d name parts o = Some (r, d') -> lazy_removed now d d'.
Proof.
  unfold exec_db. intros Hw Hr H.
  destruct (exec_strings now d name parts) as [[r1 d1]|] eqn:E1.
  { inversion H; subst. eapply exec_strings_inert; eauto. }
  destruct (exec_lists now d name parts o) as [[r2 d2]|] eqn:E2.
  { inversion H; subst. rewrite (exec_lists_inert _ _ _ _ _ _ _ Hw Hr E2). apply lr_refl. }
  destruct (exec_zsets now d name parts o) as [[r3 d3]|] eqn:E3.
  { inversion H; subst. eapply exec_zsets_inert; eauto. }
  destruct (exec_streams now d name parts o) as [[r4 d4]|] eqn:E4.
  { inversion H; subst. eapply exec_streams_inert; eauto. }
  eapply exec_scan_inert; eauto.
Qed.
Lemma exec_db_inert_fresh now d name parts o r d' :
  mem_name name write_commands = false -> mem_name name unlogged_writers = false ->
  fresh now d = true -> exec_db now d name parts o = Some (r, d') -> d' = d.
Proof. intros Hw Hr Hf H. eapply lr_fresh; [exact Hf|]. eapply exec_db_inert; eauto. Qed.

(** the four refuted names: each changes a database that lazy expiry cannot have changed *)
Lemma not_lr_new now d d' k e : get_entry d k = None -> get_entry d' k = Some e -> ~ lazy_removed now d d'.
Proof. intros Hn Hs H. rewrite (lr_sub _ _ _ H k e Hs) in Hn. discriminate. Qed.
Lemma not_lr_changed now d d' k e e' :
  get_entry d k = Some e -> get_entry d' k = Some e' -> e <> e' -> ~ lazy_removed now d d'.
Proof. intros Hn Hs Hne H. rewrite (lr_sub _ _ _ H k e' Hs) in Hn. congruence. Qed.

(** ================= 4. replay ================= *)
(** what a command run in database 0 does to database 0, as a function of that database alone *)
Definition step_db0 (now : Z) (d : db) (parts : list frame) (o : option frame) : db :=
  match parts with
  | FBulk nm :: _ =>
      let name := upper nm in
      if beq name (bs "PING") then d
      else if beq name (bs "ECHO") then d
      else if beq name (bs "SELECT") then d
      else if beq name (bs "FLUSHALL") then (if negb (len parts =? 1) then d else empty_db)
      else if beq name (bs "RANDOMKEY") then d
      else if beq name (bs "AUTH") then d
      else if beq name (bs "QUIT") then d
      else if beq name (bs "VERIF") then d
      else match exec_db now d name parts o with Some (_, d') => d' | None => d end
  | _ => d
  end.

Definition wf_srv (s : server) : Prop := length (s_dbs s) = 16%nat.
Lemma list_set_length {A} (l : list A) : forall i x, length (list_set l i x) = length l.
Proof. induction l as [|y l IH]; intros [|i] x; cbn [list_set length]; auto. Qed.
Lemma wf_init pw : wf_srv (init_server pw).
Proof. reflexivity. Qed.
Lemma get_db_set_db_same s d : wf_srv s -> get_db (set_db s 0 d) 0 = d.
Proof. unfold wf_srv, get_db, set_db. cbn [s_dbs]. intros H. apply nth_list_set_same. cbn. lia. Qed.

Lemma nc_db0 now s c parts o : wf_srv s ->
  get_db (snd (normal_command now s c 0 parts o)) 0 = step_db0 now (get_db s 0) parts o.
Proof.
  intros Hwf. unfold normal_command, step_db0.
  destruct parts as [|first rest]; [reflexivity|]. destruct first; try reflexivity.
  set (s0 := if mem_name (upper b) write_commands then log_aof s (FBulk b :: rest) else s).
  assert (H0 : get_db s0 0 = get_db s 0) by (unfold s0; destruct (mem_name (upper b) write_commands); reflexivity).
  assert (Hw0 : wf_srv s0) by (unfold s0; destruct (mem_name (upper b) write_commands); exact Hwf).
  rewrite <- H0. clear H0. generalize dependent s0. intros s0 Hw0.
  destruct (beq (upper b) (bs "PING")); [reflexivity|].
  destruct (beq (upper b) (bs "ECHO")); [reflexivity|].
  destruct (beq (upper b) (bs "SELECT")).
  { destruct rest as [|a [|? ?]]; try reflexivity; try (destruct a; reflexivity).
    destruct a; try reflexivity.
    destruct (parse_usize b0); [|reflexivity]. destruct (16 <=? z); [reflexivity|].
    destruct (zlookup c (s_conns s0)); reflexivity. }
  destruct (beq (upper b) (bs "FLUSHALL")).
  { destruct (negb (len (FBulk b :: rest) =? 1)); [reflexivity|]. cbn [snd]. unfold get_db. cbn [s_dbs].
    unfold wf_srv in Hw0. destruct (s_dbs s0); [discriminate|reflexivity]. }
  destruct (beq (upper b) (bs "RANDOMKEY")); [reflexivity|].
  destruct (beq (upper b) (bs "AUTH")).
  { destruct (h_auth s0 0 (FBulk b :: rest)) as [r1 s1] eqn:E.
    destruct (auth_per_connection _ _ _ _ _ E) as (Hd & _). cbn [snd]. unfold get_db. rewrite Hd. reflexivity. }
  destruct (beq (upper b) (bs "QUIT")); [reflexivity|].
  destruct (beq (upper b) (bs "VERIF")); [reflexivity|].
  destruct (exec_db now (get_db s0 0) (upper b) (FBulk b :: rest) o) as [[r0 d']|]; [|reflexivity].
  cbn [snd]. rewrite get_db_set_trk. apply get_db_set_db_same. exact Hw0.
Qed.

Lemma nc_wf now s c dbi parts o : wf_srv s -> wf_srv (snd (normal_command now s c dbi parts o)).
Proof.
  intros Hwf. unfold normal_command.
  destruct parts as [|first rest]; [exact Hwf|]. destruct first; try exact Hwf.
  set (s0 := if mem_name (upper b) write_commands then log_aof s (FBulk b :: rest) else s).
  assert (Hw0 : wf_srv s0) by (unfold s0; destruct (mem_name (upper b) write_commands); exact Hwf).
  generalize dependent s0. intros s0 Hw0.
  destruct (beq (upper b) (bs "PING")); [exact Hw0|].
  destruct (beq (upper b) (bs "ECHO")); [exact Hw0|].
  destruct (beq (upper b) (bs "SELECT")).
  { destruct rest as [|a [|? ?]]; try exact Hw0; try (destruct a; exact Hw0).
    destruct a; try exact Hw0.
    destruct (parse_usize b0); [|exact Hw0]. destruct (16 <=? z); [exact Hw0|].
    destruct (zlookup c (s_conns s0)); exact Hw0. }
  destruct (beq (upper b) (bs "FLUSHALL")).
  { destruct (negb (len (FBulk b :: rest) =? 1)); [exact Hw0|]. unfold wf_srv in *. cbn [snd s_dbs].
    rewrite map_length. exact Hw0. }
  destruct (beq (upper b) (bs "RANDOMKEY")); [exact Hw0|].
  destruct (beq (upper b) (bs "AUTH")).
  { destruct (h_auth s0 0 (FBulk b :: rest)) as [r1 s1] eqn:E.
    destruct (auth_per_connection _ _ _ _ _ E) as (Hd & _). cbn [snd]. unfold wf_srv in *. rewrite Hd. exact Hw0. }
  destruct (beq (upper b) (bs "QUIT")); [exact Hw0|].
  destruct (beq (upper b) (bs "VERIF")); [exact Hw0|].
  destruct (exec_db now (get_db s0 dbi) (upper b) (FBulk b :: rest) o) as [[r0 d']|]; [|exact Hw0].
  cbn [snd]. unfold wf_srv in *. cbn [set_trk set_db s_dbs]. rewrite list_set_length. exact Hw0.
Qed.

(** connections and password are left alone by every command but SELECT (and AUTH when a
    password is configured) *)
Lemma nc_conns now s c dbi parts o :
  s_password s = None -> beq (cmd_name parts) (bs "SELECT") = false ->
  s_conns (snd (normal_command now s c dbi parts o)) = s_conns s /\
  s_password (snd (normal_command now s c dbi parts o)) = None.
Proof.
  intros Hpw Hsel. unfold normal_command, cmd_name in *.
  destruct parts as [|first rest]; [auto|]. destruct first; auto.
  set (s0 := if mem_name (upper b) write_commands then log_aof s (FBulk b :: rest) else s).
  assert (Hc0 : s_conns s0 = s_conns s /\ s_password s0 = None)
    by (unfold s0; destruct (mem_name (upper b) write_commands); auto).
  destruct Hc0 as [Hc0 Hp0]. rewrite <- Hc0. clear Hc0. generalize dependent s0. intros s0 Hp0.
  destruct (beq (upper b) (bs "PING")); [auto|].
  destruct (beq (upper b) (bs "ECHO")); [auto|].
  rewrite Hsel.
  destruct (beq (upper b) (bs "FLUSHALL")).
  { destruct (negb (len (FBulk b :: rest) =? 1)); auto. }
  destruct (beq (upper b) (bs "RANDOMKEY")); [auto|].
  destruct (beq (upper b) (bs "AUTH")).
  { unfold h_auth. rewrite Hp0. destruct rest as [|x [|? ?]]; auto; destruct x; auto. }
  destruct (beq (upper b) (bs "QUIT")); [auto|].
  destruct (beq (upper b) (bs "VERIF")); [auto|].
  destruct (exec_db now (get_db s0 dbi) (upper b) (FBulk b :: rest) o) as [[r0 d']|]; auto.
Qed.

(** ---- the domain of the replay theorem ---- *)
(** names outside it: SELECT (the log has no database), the four unlogged writers, SPOP (random) *)
Definition replay_excluded : list bytes :=
  [bs "SELECT"; bs "GETSET"; bs "HMSET"; bs "PEXPIRE"; bs "XREADGROUP"; bs "SPOP"].
(** XADD with an auto-generated ID (time dependent) *)
Definition auto_id (parts : list frame) : bool :=
  match parts with _ :: _ :: FBulk i :: _ => beq i (bs "*") | _ => false end.
Definition cmd_ok (parts : list frame) : bool :=
  match parts with
  | FBulk nm :: _ => negb (mem_name (upper nm) replay_excluded)
                     && negb (beq (upper nm) (bs "XADD") && auto_id parts)
  | _ => true
  end.

Lemma cmd_ok_not_select parts : cmd_ok parts = true -> beq (cmd_name parts) (bs "SELECT") = false.
Proof.
  unfold cmd_ok, cmd_name. destruct parts as [|[] rest]; try reflexivity.
  intros H. apply andb_prop in H as [H _]. apply negb_true_iff in H.
  destruct (beq (upper b) (bs "SELECT")) eqn:E; [|reflexivity].
  apply beq_eq in E. rewrite E in H. vm_compute in H. discriminate.
Qed.
Lemma cmd_ok_not_unlogged nm rest : cmd_ok (FBulk nm :: rest) = true -> mem_name (upper nm) unlogged_writers = false.
Proof.
  unfold cmd_ok. intros H. apply andb_prop in H as [H _]. apply negb_true_iff in H.
  unfold mem_name, replay_excluded, unlogged_writers in *. cbn [bmem] in *.
  repeat match type of H with (_ || _) = false => apply orb_false_elim in H; destruct H as [? H] end.
  repeat (apply orb_false_intro; [assumption|]). reflexivity.
Qed.

(** a command that is not logged, run on a database without expired entries, changes nothing *)
Lemma step_db0_unlogged now d parts o :
  is_logged parts = false -> cmd_ok parts = true -> fresh now d = true -> step_db0 now d parts o = d.
Proof.
  unfold step_db0, is_logged. intros Hl Hok Hf.
  destruct parts as [|first rest]; [reflexivity|]. destruct first; try reflexivity.
  destruct (beq (upper b) (bs "PING")); [reflexivity|].
  destruct (beq (upper b) (bs "ECHO")); [reflexivity|].
  destruct (beq (upper b) (bs "SELECT")); [reflexivity|].
  destruct (beq (upper b) (bs "FLUSHALL")) eqn:E.
  { apply beq_eq in E. rewrite E in Hl. vm_compute in Hl. discriminate. }
  destruct (beq (upper b) (bs "RANDOMKEY")); [reflexivity|].
  destruct (beq (upper b) (bs "AUTH")); [reflexivity|].
  destruct (beq (upper b) (bs "QUIT")); [reflexivity|].
  destruct (beq (upper b) (bs "VERIF")); [reflexivity|].
  destruct (exec_db now d (upper b) (FBulk b :: rest) o) as [[r d']|] eqn:Ex; [|reflexivity].
  eapply exec_db_inert_fresh; eauto. eapply cmd_ok_not_unlogged; eauto.
Qed.

(** ---- lock-step invariant between the live server [s] and the replayed one [R] ---- *)
Definition conns_ok (s : server) : Prop :=
  forall c cn, zlookup c (s_conns s) = Some cn -> c_db cn = 0 /\ forallb cmd_ok (c_queue cn) = true.
Record inv (now : Z) (s R : server) : Prop := {
  inv_wf : wf_srv s;
  inv_rwf : wf_srv R;
  inv_pw : s_password s = None;
  inv_conns : conns_ok s;
  inv_db : get_db R 0 = get_db s 0;
  inv_fresh : fresh now (get_db s 0) = true
}.

(** freshness of the replayed states after each logged command *)
Fixpoint fresh_from (now : Z) (R : server) (log : list (list frame)) : bool :=
  match log with
  | [] => true
  | p :: r => let R' := replay_step now R (p, None) in fresh now (get_db R' 0) && fresh_from now R' r
  end.
Definition fresh_replay (now : Z) (log : list (list frame)) : bool := fresh_from now replay_init log.
Definition replay_from (now : Z) (R : server) (log : list (list frame)) : server :=
  fold_left (replay_step now) (no_oracle log) R.
Lemma replay_from_app now R a b : replay_from now R (a ++ b) = replay_from now (replay_from now R a) b.
Proof. unfold replay_from, no_oracle. rewrite map_app, fold_left_app. reflexivity. Qed.
Lemma fresh_from_app now : forall a R b,
  fresh_from now R (a ++ b) = fresh_from now R a && fresh_from now (replay_from now R a) b.
Proof.
  induction a as [|p a IH]; intros R b; [reflexivity|].
  cbn [app fresh_from]. rewrite IH, andb_assoc. reflexivity.
Qed.

Lemma conns_ok_same s s' : s_conns s' = s_conns s -> conns_ok s -> conns_ok s'.
Proof. unfold conns_ok. intros E H. rewrite E. exact H. Qed.
Lemma conns_ok_set s c cn : conns_ok s -> c_db cn = 0 -> forallb cmd_ok (c_queue cn) = true ->
  forall s', s_conns s' = zset_ c cn (s_conns s) -> conns_ok s'.
Proof.
  intros H Hd Hq s' E c' cn' Hl. rewrite E in Hl. destruct (Z.eq_dec c' c) as [->|Hn].
  - rewrite zlookup_zset_same in Hl. inversion Hl; subst. auto.
  - rewrite zlookup_zset_other in Hl by exact Hn. exact (H c' cn' Hl).
Qed.
Lemma conns_ok_del s c : conns_ok s -> forall s', s_conns s' = zremove c (s_conns s) -> conns_ok s'.
Proof.
  intros H s' E c' cn' Hl. rewrite E in Hl. destruct (Z.eq_dec c' c) as [->|Hn].
  - rewrite zlookup_zremove_same in Hl. discriminate.
  - rewrite zlookup_zremove_other in Hl by exact Hn. exact (H c' cn' Hl).
Qed.

(** changing only connections / trackers keeps the invariant *)
Lemma inv_same_dbs now s R s' :
  inv now s R -> s_dbs s' = s_dbs s -> s_password s' = s_password s -> conns_ok s' -> inv now s' R.
Proof.
  intros [H1 H2 H3 H4 H5 H6] Hd Hp Hc. constructor; auto.
  - unfold wf_srv. rewrite Hd. exact H1.
  - rewrite Hp. exact H3.
  - unfold get_db. rewrite Hd. exact H5.
  - unfold get_db. rewrite Hd. exact H6.
Qed.

(** one command through process_normal_command in database 0 *)
Lemma nc_inv now s R c parts :
  inv now s R -> cmd_ok parts = true ->
  fresh_from now R (if is_logged parts then [parts] else []) = true ->
  inv now (snd (normal_command now s c 0 parts None))
          (replay_from now R (if is_logged parts then [parts] else [])).
Proof.
  intros [H1 H2 H3 H4 H5 H6] Hok Hfr.
  pose proof (cmd_ok_not_select _ Hok) as Hsel.
  destruct (nc_conns now s c 0 parts None H3 Hsel) as [Hc Hp].
  pose proof (nc_db0 now s c parts None H1) as Hd.
  destruct (is_logged parts) eqn:Hl.
  - (* logged: the replayed server runs the same command on the same database 0 *)
    unfold replay_from, no_oracle. cbn [map fold_left]. cbn [fresh_from] in Hfr.
    apply andb_prop in Hfr as [Hfr _].
    unfold replay_step in *. cbn [fst snd] in *.
    pose proof (nc_db0 now R replay_conn parts None H2) as Hr.
    constructor.
    + apply nc_wf; exact H1.
    + apply nc_wf; exact H2.
    + exact Hp.
    + eapply conns_ok_same; eauto.
    + rewrite Hr, Hd, H5. reflexivity.
    + rewrite Hd, <- H5, <- Hr. exact Hfr.
  - (* not logged: nothing changes in database 0 *)
    unfold replay_from, no_oracle. cbn [map fold_left].
    rewrite (step_db0_unlogged now _ parts None Hl Hok H6) in Hd.
    constructor; auto.
    + apply nc_wf; exact H1.
    + eapply conns_ok_same; eauto.
    + rewrite Hd. exact H5.
    + rewrite Hd. exact H6.
Qed.

(** the queue of an EXEC *)
Lemma exec_queue_inv now : forall q s R acc,
  inv now s R -> forallb cmd_ok q = true -> fresh_from now R (filter is_logged q) = true ->
  inv now (snd (exec_queue now s 0 q acc)) (replay_from now R (filter is_logged q)).
Proof.
  induction q as [|parts q IH]; intros s R acc Hi Hq Hf; cbn [exec_queue filter].
  - exact Hi.
  - cbn [forallb] in Hq. apply andb_prop in Hq as [Hq1 Hq2]. cbn [filter] in Hf.
    pose proof (nc_inv now s R 0 parts Hi Hq1) as Hn.
    destruct (normal_command now s 0 0 parts None) as [rep s1]. cbn [snd] in Hn.
    destruct (is_logged parts).
    + change (parts :: filter is_logged q) with ([parts] ++ filter is_logged q) in *.
      rewrite fresh_from_app in Hf. apply andb_prop in Hf as [Hf1 Hf2].
      rewrite replay_from_app. apply IH; auto.
    + apply IH; auto.
Qed.

Lemma h_auth_nopw s c parts : s_password s = None -> snd (h_auth s c parts) = s.
Proof.
  intros Hp. unfold h_auth. rewrite Hp.
  destruct parts as [|x [|y [|? ?]]]; try reflexivity; destruct y; reflexivity.
Qed.

(** the log of a state, oldest first, after steps that only prepend to [s_aof] *)
Lemma aof_log_cons s s' p : s_aof s' = p :: s_aof s -> aof_log s' = aof_log s ++ [p].
Proof. unfold aof_log. intros ->. reflexivity. Qed.
Lemma aof_log_same s s' : s_aof s' = s_aof s -> aof_log s' = aof_log s ++ [].
Proof. unfold aof_log. intros ->. rewrite app_nil_r. reflexivity. Qed.

(** one request frame of connection [c] *)
Lemma pf_inv now s R c req :
  inv now s R -> (match req with FArray parts => cmd_ok parts | _ => true end) = true ->
  exists new, aof_log (snd (process_frame now s c req None)) = aof_log s ++ new /\
              (fresh_from now R new = true ->
               inv now (snd (process_frame now s c req None)) (replay_from now R new)).
Proof.
  intros Hi Hok.
  assert (Hsame : exists new, aof_log s = aof_log s ++ new /\
                    (fresh_from now R new = true -> inv now s (replay_from now R new))).
  { exists []. rewrite app_nil_r. split; [reflexivity|]. intros _. exact Hi. }
  (* a step that changes connections / trackers only *)
  assert (Hconn : forall s', s_dbs s' = s_dbs s -> s_password s' = s_password s -> s_aof s' = s_aof s ->
            conns_ok s' ->
            exists new, aof_log s' = aof_log s ++ new /\
              (fresh_from now R new = true -> inv now s' (replay_from now R new))).
  { intros s' Hd Hp Ha Hc. exists []. split; [apply aof_log_same; exact Ha|].
    intros _. eapply inv_same_dbs; eauto. }
  unfold process_frame.
  destruct req as [| | | | |l| | | | | | |]; try exact Hsame.
  destruct l as [|first rest]; [exact Hsame|].
  destruct first as [| | |nm| | | | | | | | |]; try exact Hsame.
  destruct (zlookup c (s_conns s)) as [cn|] eqn:Hc; [|exact Hsame].
  destruct (inv_conns _ _ _ Hi c cn Hc) as [Hdb Hq].
  rewrite (inv_pw _ _ _ Hi). cbn [andb].
  set (parts := FBulk nm :: rest) in *.
  destruct (beq (upper (trim nm)) (bs "MULTI")).
  { destruct (c_intx cn); [exact Hsame|]. cbn [snd]. apply Hconn; try reflexivity.
    eapply conns_ok_set; [exact (inv_conns _ _ _ Hi)| | |reflexivity]; [exact Hdb|reflexivity]. }
  destruct (beq (upper (trim nm)) (bs "EXEC")).
  { unfold h_exec. destruct (c_intx cn); [|exact Hsame]. cbn [negb].
    assert (Hi1 : inv now (set_conn s c (clear_tx cn)) R).
    { eapply inv_same_dbs; [exact Hi|reflexivity|reflexivity|].
      eapply conns_ok_set; [exact (inv_conns _ _ _ Hi)| | |reflexivity]; [exact Hdb|reflexivity]. }
    destruct (existsb _ (c_watched cn)).
    { cbn [snd]. exists []. split; [apply aof_log_same; reflexivity|]. intros _. exact Hi1. }
    rewrite Hdb.
    pose proof (exec_queue_aof now 0 (c_queue cn) (set_conn s c (clear_tx cn)) []) as Ha.
    pose proof (exec_queue_inv now (c_queue cn) (set_conn s c (clear_tx cn)) R [] Hi1 Hq) as Hx.
    destruct (exec_queue now (set_conn s c (clear_tx cn)) 0 (c_queue cn) []) as [reps s2].
    cbn [snd] in *. exists (filter is_logged (c_queue cn)). split; [|exact Hx].
    unfold aof_log. rewrite Ha. cbn [set_conn s_aof]. rewrite rev_app_distr, rev_involutive. reflexivity. }
  destruct (beq (upper (trim nm)) (bs "DISCARD")).
  { destruct (c_intx cn); [|exact Hsame]. cbn [negb snd]. apply Hconn; try reflexivity.
    eapply conns_ok_set; [exact (inv_conns _ _ _ Hi)| | |reflexivity]; [exact Hdb|reflexivity]. }
  destruct (beq (upper (trim nm)) (bs "WATCH")).
  { destruct (len parts <? 2); [exact Hsame|]. destruct (c_intx cn); [exact Hsame|].
    destruct (watch_loop_partial (get_trk s (c_db cn)) rest (c_watched cn)) as [[t' w'] okb].
    cbn [snd]. apply Hconn; try reflexivity.
    eapply conns_ok_set; [exact (inv_conns _ _ _ Hi)| | |reflexivity]; [exact Hdb|exact Hq]. }
  destruct (beq (upper (trim nm)) (bs "UNWATCH")).
  { cbn [snd]. apply Hconn; try reflexivity.
    eapply conns_ok_set; [exact (inv_conns _ _ _ Hi)| | |reflexivity]; [exact Hdb|exact Hq]. }
  destruct (beq (upper (trim nm)) (bs "AUTH")).
  { rewrite (h_auth_nopw s c parts (inv_pw _ _ _ Hi)). exact Hsame. }
  destruct (c_intx cn && negb (mem_name (upper (trim nm)) tx_not_queued)).
  { cbn [snd]. apply Hconn; try reflexivity.
    eapply conns_ok_set; [exact (inv_conns _ _ _ Hi)| | |reflexivity]; [exact Hdb|].
    cbn [with_tx c_queue]. rewrite forallb_app, Hq. cbn [forallb]. rewrite Hok. reflexivity. }
  (* a command executed directly, in database 0 *)
  rewrite Hdb.
  pose proof (nc_aof now s c 0 parts None) as Ha.
  pose proof (nc_inv now s R c parts Hi Hok) as Hn.
  destruct (normal_command now s c 0 parts None) as [rep s1]. cbn [snd] in *.
  exists (if is_logged parts then [parts] else []). split; [|exact Hn].
  destruct (is_logged parts); [apply aof_log_cons|apply aof_log_same]; exact Ha.
Qed.

(** ---- histories ---- *)
Inductive ev := EConn (c : Z) | EClose (c : Z) | EFrame (c : Z) (req : frame).
(** one event of the single command thread, everything at the same clock reading [now];
    no oracle: commands with random outcomes are outside the deterministic catalogue *)
Definition ev_step (now : Z) (s : server) (e : ev) : server :=
  match e with
  | EConn c => connect s c
  | EClose c => del_conn s c
  | EFrame c req => let s' := snd (process_frame now s c req None) in
                    if is_quit req then del_conn s' c else s'
  end.
Definition run_evs (now : Z) (h : list ev) : server := fold_left (ev_step now) h (init_server None).
Definition ev_ok (e : ev) : bool :=
  match e with EFrame _ (FArray parts) => cmd_ok parts | _ => true end.

Lemma ev_inv now s R e :
  inv now s R -> ev_ok e = true ->
  exists new, aof_log (ev_step now s e) = aof_log s ++ new /\
              (fresh_from now R new = true -> inv now (ev_step now s e) (replay_from now R new)).
Proof.
  intros Hi Hok. destruct e as [c|c|c req]; cbn [ev_step].
  - exists []. split; [apply aof_log_same; reflexivity|]. intros _.
    eapply inv_same_dbs; [exact Hi|reflexivity|reflexivity|].
    unfold connect. rewrite (inv_pw _ _ _ Hi).
    eapply conns_ok_set; [exact (inv_conns _ _ _ Hi)| | |reflexivity]; reflexivity.
  - exists []. split; [apply aof_log_same; reflexivity|]. intros _.
    eapply inv_same_dbs; [exact Hi|reflexivity|reflexivity|].
    eapply conns_ok_del; [exact (inv_conns _ _ _ Hi)|reflexivity].
  - assert (Hok' : (match req with FArray parts => cmd_ok parts | _ => true end) = true)
      by (destruct req; try reflexivity; exact Hok).
    destruct (pf_inv now s R c req Hi Hok') as (new & Ha & Hn).
    destruct (is_quit req); [|exists new; split; assumption].
    exists new. split; [exact Ha|]. intros Hf. specialize (Hn Hf).
    eapply inv_same_dbs; [exact Hn|reflexivity|reflexivity|].
    eapply conns_ok_del; [exact (inv_conns _ _ _ Hn)|reflexivity].
Qed.

Lemma inv_init now : inv now (init_server None) replay_init.
Proof.
  constructor; try reflexivity.
  intros c cn Hl. cbn in Hl. discriminate.
Qed.

(** THE REPLAY THEOREM (lock-step form): along any history of the domain, re-executing the
    log so far on an empty server reproduces database 0 of the live server exactly *)
Lemma run_inv now : forall h,
  forallb ev_ok h = true -> fresh_replay now (aof_log (run_evs now h)) = true ->
  inv now (run_evs now h) (replay now (aof_log (run_evs now h))).
Proof.
  induction h as [|e h IH] using rev_ind; intros Hok Hf.
  - exact (inv_init now).
  - rewrite forallb_app in Hok. apply andb_prop in Hok as [Hok1 Hok2].
    cbn [forallb] in Hok2. apply andb_prop in Hok2 as [Hok2 _].
    unfold run_evs in *. rewrite fold_left_app in *. cbn [fold_left] in *.
    set (s := fold_left (ev_step now) h (init_server None)) in *.
    (* the log of the longer history extends the log of the shorter one *)
    assert (Hext : exists new, aof_log (ev_step now s e) = aof_log s ++ new).
    { destruct e as [c|c|c req]; cbn [ev_step].
      - exists []. apply aof_log_same. reflexivity.
      - exists []. apply aof_log_same. reflexivity.
      - assert (Hmono : exists new, aof_log (snd (process_frame now s c req None)) = aof_log s ++ new).
        { clear. unfold process_frame.
          assert (Hs : exists new, aof_log s = aof_log s ++ new) by (exists []; rewrite app_nil_r; reflexivity).
          destruct req as [| | | | |l| | | | | | |]; try exact Hs.
          destruct l as [|first rest]; [exact Hs|]. destruct first as [| | |nm| | | | | | | | |]; try exact Hs.
          destruct (zlookup c (s_conns s)) as [cn|]; [|exact Hs].
          destruct ((match s_password s with Some _ => true | None => false end) && negb (c_auth cn)).
          { destruct (beq (upper (trim nm)) (bs "AUTH")).
            { destruct (h_auth s c (FBulk nm :: rest)) as [r1 s1] eqn:E.
              destruct (auth_per_connection _ _ _ _ _ E) as (_ & _ & _ & Ha & _).
              exists []. apply aof_log_same. exact Ha. }
            destruct (beq (upper (trim nm)) (bs "PING")); [exact Hs|].
            destruct (beq (upper (trim nm)) (bs "QUIT")); exact Hs. }
          destruct (beq (upper (trim nm)) (bs "MULTI")).
          { destruct (c_intx cn); [exact Hs|]. exists []. apply aof_log_same. reflexivity. }
          destruct (beq (upper (trim nm)) (bs "EXEC")).
          { unfold h_exec. destruct (negb (c_intx cn)); [exact Hs|].
            destruct (existsb _ (c_watched cn)); [exists []; apply aof_log_same; reflexivity|].
            pose proof (exec_queue_aof now (c_db cn) (c_queue cn) (set_conn s c (clear_tx cn)) []) as Ha.
            destruct (exec_queue now (set_conn s c (clear_tx cn)) (c_db cn) (c_queue cn) []) as [reps s2].
            cbn [snd] in *. exists (filter is_logged (c_queue cn)).
            unfold aof_log. rewrite Ha. cbn [set_conn s_aof]. rewrite rev_app_distr, rev_involutive. reflexivity. }
          destruct (beq (upper (trim nm)) (bs "DISCARD")).
          { destruct (negb (c_intx cn)); [exact Hs|]. exists []. apply aof_log_same. reflexivity. }
          destruct (beq (upper (trim nm)) (bs "WATCH")).
          { destruct (len (FBulk nm :: rest) <? 2); [exact Hs|]. destruct (c_intx cn); [exact Hs|].
            destruct (watch_loop_partial (get_trk s (c_db cn)) rest (c_watched cn)) as [[t' w'] okb].
            exists []. apply aof_log_same. reflexivity. }
          destruct (beq (upper (trim nm)) (bs "UNWATCH")); [exists []; apply aof_log_same; reflexivity|].
          destruct (beq (upper (trim nm)) (bs "AUTH")).
          { destruct (h_auth s c (FBulk nm :: rest)) as [r1 s1] eqn:E.
            destruct (auth_per_connection _ _ _ _ _ E) as (_ & _ & _ & Ha & _).
            exists []. apply aof_log_same. exact Ha. }
          destruct (c_intx cn && negb (mem_name (upper (trim nm)) tx_not_queued));
            [exists []; apply aof_log_same; reflexivity|].
          pose proof (nc_aof now s c (c_db cn) (FBulk nm :: rest) None) as Ha.
          destruct (normal_command now s c (c_db cn) (FBulk nm :: rest) None) as [rep s1]. cbn [snd] in *.
          exists (if is_logged (FBulk nm :: rest) then [FBulk nm :: rest] else []).
          destruct (is_logged (FBulk nm :: rest)); [apply aof_log_cons|apply aof_log_same]; exact Ha. }
        destruct Hmono as (new & Hm). exists new. destruct (is_quit req); exact Hm. }
    destruct Hext as (new0 & Hext).
    unfold fresh_replay in Hf. rewrite Hext, fresh_from_app in Hf. apply andb_prop in Hf as [Hf1 Hf2].
    specialize (IH Hok1 Hf1).
    destruct (ev_inv now s _ e IH Hok2) as (new & Ha & Hn).
    assert (new = new0) by (rewrite Ha in Hext; apply app_inv_head in Hext; exact Hext). subst new0.
    rewrite Ha. change (replay now (aof_log s ++ new)) with (replay_from now replay_init (aof_log s ++ new)).
    rewrite replay_from_app. apply Hn. exact Hf2.
Qed.

Theorem replay_db0 now h :
  forallb ev_ok h = true -> fresh_replay now (aof_log (run_evs now h)) = true ->
  get_db (replay now (aof_log (run_evs now h))) 0 = get_db (run_evs now h) 0.
Proof. intros Hok Hf. exact (inv_db _ _ _ (run_inv now h Hok Hf)). Qed.

Corollary replay_dataset now h :
  forallb ev_ok h = true -> fresh_replay now (aof_log (run_evs now h)) = true ->
  dataset (get_db (replay now (aof_log (run_evs now h))) 0) = dataset (get_db (run_evs now h) 0).
Proof. intros Hok Hf. rewrite (replay_db0 now h Hok Hf). reflexivity. Qed.

(** ================= 5. the refuted parts of the property ================= *)
Definition cmd (args : list bytes) : frame := FArray (map FBulk args).
Definition hist (cs : list (list bytes)) : list ev := EConn 1 :: map (fun a => EFrame 1 (cmd a)) cs.
Definition diverges (now : Z) (h : list ev) : Prop :=
  get_db (replay now (aof_log (run_evs now h))) 0 <> get_db (run_evs now h) 0.
Ltac diverge := unfold diverges; let H := fresh "H" in intro H; vm_compute in H; discriminate H.

(** unlogged writers: the live dataset has the effect, the file does not *)
Lemma getset_diverges : diverges 0 (hist [[bs "SET"; bs "k"; bs "a"]; [bs "GETSET"; bs "k"; bs "b"]]).
Proof. diverge. Qed.
Lemma hmset_diverges : diverges 0 (hist [[bs "HMSET"; bs "h"; bs "f"; bs "1"]]).
Proof. diverge. Qed.
Lemma pexpire_diverges : diverges 0 (hist [[bs "SET"; bs "k"; bs "a"]; [bs "PEXPIRE"; bs "k"; bs "100000"]]).
Proof. diverge. Qed.
Lemma xreadgroup_diverges :
  diverges 0 (hist [[bs "XADD"; bs "x"; bs "1-1"; bs "f"; bs "v"]; [bs "XGROUP"; bs "CREATE"; bs "x"; bs "g"; bs "0"];
                    [bs "XREADGROUP"; bs "GROUP"; bs "g"; bs "c"; bs "STREAMS"; bs "x"; bs ">"]]).
Proof. diverge. Qed.
(** ... and at the level of the completeness obligation: each of the four names changes a
    database in a way lazy expiry cannot *)
Lemma unlogged_writers_not_inert :
  forallb (fun n => negb (mem_name n write_commands)) unlogged_writers = true /\
  (exists d parts r d', exec_db 0 d (bs "GETSET") parts None = Some (r, d') /\ ~ lazy_removed 0 d d') /\
  (exists d parts r d', exec_db 0 d (bs "HMSET") parts None = Some (r, d') /\ ~ lazy_removed 0 d d') /\
  (exists d parts r d', exec_db 0 d (bs "PEXPIRE") parts None = Some (r, d') /\ ~ lazy_removed 0 d d') /\
  (exists d parts r d', exec_db 0 d (bs "XREADGROUP") parts None = Some (r, d') /\ ~ lazy_removed 0 d d').
Proof.
  split; [vm_compute; reflexivity|]. repeat split.
  - exists empty_db, [FBulk (bs "GETSET"); FBulk (bs "k"); FBulk (bs "b")]. eexists. eexists.
    split; [vm_compute; reflexivity|]. eapply (not_lr_new 0 _ _ (bs "k")); vm_compute; reflexivity.
  - exists empty_db, [FBulk (bs "HMSET"); FBulk (bs "h"); FBulk (bs "f"); FBulk (bs "1")]. eexists. eexists.
    split; [vm_compute; reflexivity|]. eapply (not_lr_new 0 _ _ (bs "h")); vm_compute; reflexivity.
  - exists (put_entry empty_db (bs "k") {| e_val := VStr (bs "a"); e_exp := None |}),
           [FBulk (bs "PEXPIRE"); FBulk (bs "k"); FBulk (bs "100000")]. eexists. eexists.
    split; [vm_compute; reflexivity|].
    eapply (not_lr_changed 0 _ _ (bs "k")); [vm_compute; reflexivity|vm_compute; reflexivity|discriminate].
  - pose (d0 := match exec_db 0 empty_db (bs "XADD") [FBulk (bs "XADD"); FBulk (bs "x"); FBulk (bs "1-1"); FBulk (bs "f"); FBulk (bs "v")] None with
                | Some (_, d) => d | None => empty_db end).
    pose (d1 := match exec_db 0 d0 (bs "XGROUP") [FBulk (bs "XGROUP"); FBulk (bs "CREATE"); FBulk (bs "x"); FBulk (bs "g"); FBulk (bs "0")] None with
                | Some (_, d) => d | None => empty_db end).
    exists d1, [FBulk (bs "XREADGROUP"); FBulk (bs "GROUP"); FBulk (bs "g"); FBulk (bs "c"); FBulk (bs "STREAMS"); FBulk (bs "x"); FBulk (bs ">")].
    eexists. eexists. split; [vm_compute; reflexivity|].
    eapply (not_lr_changed 0 _ _ (bs "x")); [vm_compute; reflexivity|vm_compute; reflexivity|discriminate].
Qed.

(** the log carries no SELECT: a command issued in database 1 is replayed into database 0 *)
Lemma select_diverges : diverges 0 (hist [[bs "SELECT"; bs "1"]; [bs "SET"; bs "k"; bs "a"]]).
Proof. diverge. Qed.
(** removal of an expired key by a read is not logged (and TTLs are logged relative): here
    GET removes k, INCR recreates it as 1; the replay increments the stale 5 *)
Definition expired_history : list ev :=
  hist [[bs "SET"; bs "k"; bs "5"; bs "PX"; bs "0"]; [bs "GET"; bs "k"]; [bs "INCR"; bs "k"]].
Lemma expired_diverges : diverges 0 expired_history /\ forallb ev_ok expired_history = true /\
  fresh_replay 0 (aof_log (run_evs 0 expired_history)) = false.
Proof. split; [diverge|]. split; vm_compute; reflexivity. Qed.

(** random outcomes are logged verbatim: two admissible outcomes of the same SPOP / XADD *
    leave the same file and different datasets, so no function of the file restores both *)
Lemma spop_verbatim :
  let s := run_evs 0 (hist [[bs "SADD"; bs "s"; bs "a"; bs "b"]]) in
  let s1 := snd (process_frame 0 s 1 (cmd [bs "SPOP"; bs "s"]) (Some (FBulk (bs "a")))) in
  let s2 := snd (process_frame 0 s 1 (cmd [bs "SPOP"; bs "s"]) (Some (FBulk (bs "b")))) in
  aof_log s1 = aof_log s2 /\ get_db s1 0 <> get_db s2 0 /\
  is_error (fst (process_frame 0 s 1 (cmd [bs "SPOP"; bs "s"]) (Some (FBulk (bs "a"))))) = false /\
  is_error (fst (process_frame 0 s 1 (cmd [bs "SPOP"; bs "s"]) (Some (FBulk (bs "b"))))) = false.
Proof.
  cbv zeta. split; [vm_compute; reflexivity|]. split; [intro H; vm_compute in H; discriminate H|].
  split; vm_compute; reflexivity.
Qed.
Lemma xadd_auto_verbatim :
  let s := run_evs 0 (hist []) in
  let q := cmd [bs "XADD"; bs "x"; bs "*"; bs "f"; bs "v"] in
  let s1 := snd (process_frame 0 s 1 q (Some (FBulk (bs "1700000000000-0")))) in
  let s2 := snd (process_frame 0 s 1 q (Some (FBulk (bs "1700000000001-0")))) in
  aof_log s1 = aof_log s2 /\ get_db s1 0 <> get_db s2 0 /\
  fst (process_frame 0 s 1 q (Some (FBulk (bs "1700000000000-0")))) = FBulk (bs "1700000000000-0") /\
  fst (process_frame 0 s 1 q (Some (FBulk (bs "1700000000001-0")))) = FBulk (bs "1700000000001-0").
Proof.
  cbv zeta. split; [vm_compute; reflexivity|]. split; [intro H; vm_compute in H; discriminate H|].
  split; vm_compute; reflexivity.
Qed.

(** start-up: the implementation's own replay executes nothing, and a file that is not
    UTF-8 text stops the server from starting *)
Lemma restart_loses_dataset :
  let s := run_evs 0 (hist [[bs "SET"; bs "k"; bs "a"]; [bs "RPUSH"; bs "l"; bs "x"]]) in
  exists s', restart s = Some s' /\ get_db s' 0 = empty_db /\ get_db s 0 <> empty_db /\ aof_log s' = aof_log s.
Proof. cbv zeta. eexists. split; [vm_compute; reflexivity|]. split; [reflexivity|]. split; [|reflexivity].
  intro H; vm_compute in H; discriminate H. Qed.
Lemma restart_fails_on_binary :
  restart (run_evs 0 (hist [[bs "SET"; bs "k"; [255]]])) = None.
Proof. vm_compute. reflexivity. Qed.

(** non-vacuity of the replay theorem: a history with direct commands, a transaction, a
    refused command, TTLs and reads satisfies the hypotheses and ends with data in place *)
Definition sample_history : list ev :=
  [EConn 1; EConn 2;
   EFrame 1 (cmd [bs "SET"; bs "k"; bs "a"; bs "EX"; bs "100"]);
   EFrame 2 (cmd [bs "MULTI"]);
   EFrame 2 (cmd [bs "RPUSH"; bs "l"; bs "x"; bs "y"]);
   EFrame 2 (cmd [bs "INCR"; bs "k"]);
   EFrame 2 (cmd [bs "HSET"; bs "h"; bs "f"; bs "1"]);
   EFrame 1 (cmd [bs "GET"; bs "k"]);
   EFrame 2 (cmd [bs "EXEC"]);
   EFrame 1 (cmd [bs "XADD"; bs "x"; bs "1-1"; bs "f"; bs "v"]);
   EFrame 1 (cmd [bs "LPOP"; bs "l"]);
   EFrame 1 (cmd [bs "EXPIRE"; bs "h"; bs "50"]);
   EClose 2].
Lemma sample_history_ok :
  forallb ev_ok sample_history = true /\ fresh_replay 0 (aof_log (run_evs 0 sample_history)) = true /\
  len (aof_log (run_evs 0 sample_history)) = 7 /\ len (d_data (get_db (run_evs 0 sample_history) 0)) = 4.
Proof. repeat split; vm_compute; reflexivity. Qed.
