(** C11, second part: the clock does not matter as long as nothing expires.
    [sim d1 d2]: the same keys in the same order, equal values, TTL present on both sides or
    on neither (deadlines and the sweeper's index may differ).  Every write command of the
    string/key family, the list/set/hash family and XADD / XDEL / XTRIM, run at two different
    clock readings on [sim]-related databases without expired entries, yields [sim]-related
    databases: so a redo at ANY later time restores values and TTL presence. *)
From Ferrous Require Import Base.Bytes Generated Model.Resp Model.Types Model.Glob Model.Strings
  Model.Lists Model.ZSets Model.Streams Model.Scan Model.Server Model.Conn Model.Aof
  Proofs.BytesFacts Proofs.StringsFacts Proofs.ListsFacts Proofs.ServerFacts Proofs.AofFacts.
From Coq Require Import ZifyBool.
Open Scope Z_scope.

Definition sim_e (e1 e2 : entry) : Prop := e_val e1 = e_val e2 /\ has_ttl e1 = has_ttl e2.
Definition sim_kv (a b : bytes * entry) : Prop := fst a = fst b /\ sim_e (snd a) (snd b).
Definition sim (d1 d2 : db) : Prop := Forall2 sim_kv (d_data d1) (d_data d2).

Lemma sim_e_refl e : sim_e e e. Proof. split; reflexivity. Qed.
Lemma sim_refl d : sim d d.
Proof. unfold sim. induction (d_data d) as [|a l IH]; constructor; [split; [reflexivity|apply sim_e_refl]|exact IH]. Qed.
Lemma sim_empty : sim empty_db empty_db. Proof. constructor. Qed.

(** what the property compares is equal on [sim]-related databases *)
Lemma sim_dataset d1 d2 : sim d1 d2 -> dataset d1 = dataset d2.
Proof.
  unfold sim, dataset. induction 1 as [|[k1 e1] [k2 e2] l1 l2 [Hk [Hv Ht]] _ IH]; [reflexivity|].
  cbn [map fst snd] in *. subst. rewrite Hv, Ht, IH. reflexivity.
Qed.

Definition orel {A} (R : A -> A -> Prop) (a b : option A) : Prop :=
  match a, b with Some x, Some y => R x y | None, None => True | _, _ => False end.

Lemma sim_lookup d1 d2 k : sim d1 d2 -> orel sim_e (get_entry d1 k) (get_entry d2 k).
Proof.
  unfold sim, get_entry. induction 1 as [|[k1 e1] [k2 e2] l1 l2 [Hk He] _ IH]; cbn [alookup orel]; [exact I|].
  cbn [fst snd] in *. subst k2. destruct (beq k k1); [exact He|exact IH].
Qed.
Lemma sim_aremove k l1 l2 : Forall2 sim_kv l1 l2 -> Forall2 sim_kv (aremove k l1) (aremove k l2).
Proof.
  induction 1 as [|[k1 e1] [k2 e2] l1 l2 [Hk He] _ IH]; cbn [aremove]; [constructor|].
  cbn [fst snd] in *. subst k2. destruct (beq k k1); [exact IH|]. constructor; [split; [reflexivity|exact He]|exact IH].
Qed.
Lemma sim_put d1 d2 k e1 e2 : sim d1 d2 -> sim_e e1 e2 -> sim (put_entry d1 k e1) (put_entry d2 k e2).
Proof.
  unfold sim, put_entry, aset. cbn [d_data]. intros H He.
  constructor; [split; [reflexivity|exact He]|apply sim_aremove; exact H].
Qed.
Lemma sim_del d1 d2 k : sim d1 d2 -> sim (del_entry d1 k) (del_entry d2 k).
Proof. unfold sim, del_entry. cbn [d_data]. apply sim_aremove. Qed.
Lemma sim_index_set_l d1 d2 k t : sim d1 d2 -> sim (index_set d1 k t) d2. Proof. exact (fun H => H). Qed.
Lemma sim_index_set_r d1 d2 k t : sim d1 d2 -> sim d1 (index_set d2 k t). Proof. exact (fun H => H). Qed.
Lemma sim_index_del_l d1 d2 k : sim d1 d2 -> sim (index_del d1 k) d2. Proof. exact (fun H => H). Qed.
Lemma sim_index_del_r d1 d2 k : sim d1 d2 -> sim d1 (index_del d2 k). Proof. exact (fun H => H). Qed.

Lemma sim_set_value t1 t2 d1 d2 k v ttl :
  sim d1 d2 -> sim (set_value t1 d1 k v ttl) (set_value t2 d2 k v ttl).
Proof.
  intros H. unfold set_value. destruct ttl.
  - apply sim_index_set_l, sim_index_set_r, sim_put; [exact H|split; reflexivity].
  - apply sim_put; [exact H|split; reflexivity].
Qed.

(** ---- without expired entries the clock is invisible ---- *)
Lemma fresh_entry now d k e : fresh now d = true -> get_entry d k = Some e -> expired now e = false.
Proof.
  intros Hf He. pose proof (fresh_not_expired now d k Hf) as H. unfold was_expired in H. rewrite He in H. exact H.
Qed.
Lemma exists_sim t1 t2 d1 d2 k :
  sim d1 d2 -> fresh t1 d1 = true -> fresh t2 d2 = true -> eng_exists t2 d2 k = eng_exists t1 d1 k.
Proof.
  intros H F1 F2. unfold eng_exists. pose proof (sim_lookup d1 d2 k H) as R.
  destruct (get_entry d1 k) as [e1|] eqn:E1, (get_entry d2 k) as [e2|] eqn:E2; cbn [orel] in R; try contradiction; [|reflexivity].
  rewrite (fresh_entry _ _ _ _ F1 E1), (fresh_entry _ _ _ _ F2 E2). reflexivity.
Qed.
Lemma eng_get_fresh now d k : fresh now d = true ->
  eng_get now d k = (match get_entry d k with Some e => Found (e_val e) | None => NotFound end, d).
Proof.
  intros F. unfold eng_get. destruct (get_entry d k) as [e|] eqn:E; [|reflexivity].
  rewrite (fresh_entry _ _ _ _ F E). reflexivity.
Qed.

(** ---- the generic single-key engine functions of lists / sets / hashes ---- *)
Lemma on_key_sim d1 d2 k f : sim d1 d2 ->
  fst (on_key d1 k f) = fst (on_key d2 k f) /\ sim (snd (on_key d1 k f)) (snd (on_key d2 k f)).
Proof.
  intros H. unfold on_key. pose proof (sim_lookup d1 d2 k H) as R.
  destruct (get_entry d1 k) as [e1|] eqn:E1, (get_entry d2 k) as [e2|] eqn:E2; cbn [orel] in R; try contradiction.
  - destruct R as [Rv Rt]. cbn [option_map]. rewrite Rv. destruct (f (Some (e_val e2))) as [r u]. cbn [fst snd].
    split; [reflexivity|]. destruct u; cbn [apply_upd]; [exact H| |apply sim_del; exact H].
    apply sim_put; [exact H|]. split; [reflexivity|exact Rt].
  - cbn [option_map]. destruct (f None) as [r u]. cbn [fst snd].
    split; [reflexivity|]. destruct u; cbn [apply_upd]; [exact H| |apply sim_del; exact H].
    apply sim_put; [exact H|apply sim_e_refl].
Qed.

(** handlers of the shape "parse the arguments, then one engine call on one key":
    the parse does not look at the database, so both sides take the same branch *)
Ltac two_sided H :=
  repeat match goal with
  | |- context [if ?c then _ else _] => destruct c
  | |- context [match ?x with _ => _ end] => destruct x
  end;
  cbn [snd]; try exact H; try (apply on_key_sim; exact H).

Lemma h_push_sim l d1 d2 parts : sim d1 d2 -> sim (snd (h_push l d1 parts)) (snd (h_push l d2 parts)).
Proof. intros H. unfold h_push. two_sided H. Qed.
Lemma h_key1_sim f d1 d2 parts : sim d1 d2 -> sim (snd (h_key1 f d1 parts)) (snd (h_key1 f d2 parts)).
Proof. intros H. unfold h_key1. two_sided H. Qed.
Lemma h_key_bulk_sim f d1 d2 parts : sim d1 d2 -> sim (snd (h_key_bulk f d1 parts)) (snd (h_key_bulk f d2 parts)).
Proof. intros H. unfold h_key_bulk. two_sided H. Qed.
Lemma h_range_sim f d1 d2 parts : sim d1 d2 -> sim (snd (h_range f d1 parts)) (snd (h_range f d2 parts)).
Proof. intros H. unfold h_range. two_sided H. Qed.
Lemma h_lindex_sim d1 d2 parts : sim d1 d2 -> sim (snd (h_lindex d1 parts)) (snd (h_lindex d2 parts)).
Proof. intros H. unfold h_lindex. two_sided H. Qed.
Lemma h_int_bulk_sim f d1 d2 parts : sim d1 d2 -> sim (snd (h_int_bulk f d1 parts)) (snd (h_int_bulk f d2 parts)).
Proof. intros H. unfold h_int_bulk. two_sided H. Qed.
Lemma h_sadd_sim d1 d2 parts : sim d1 d2 -> sim (snd (h_sadd d1 parts)) (snd (h_sadd d2 parts)).
Proof. intros H. unfold h_sadd. two_sided H. Qed.
Lemma h_skipping_sim f d1 d2 parts : sim d1 d2 -> sim (snd (h_skipping f d1 parts)) (snd (h_skipping f d2 parts)).
Proof. intros H. unfold h_skipping. two_sided H. Qed.
Lemma h_srandmember_sim d1 d2 parts o : sim d1 d2 -> sim (snd (h_srandmember d1 parts o)) (snd (h_srandmember d2 parts o)).
Proof. intros H. unfold h_srandmember. two_sided H. Qed.
Lemma h_spop_sim d1 d2 parts o : sim d1 d2 -> sim (snd (h_spop d1 parts o)) (snd (h_spop d2 parts o)).
Proof. intros H. unfold h_spop. two_sided H. Qed.
Lemma h_hset_sim b d1 d2 parts : sim d1 d2 -> sim (snd (h_hset b d1 parts)) (snd (h_hset b d2 parts)).
Proof. intros H. unfold h_hset. two_sided H. Qed.
Lemma h_hmget_sim d1 d2 parts : sim d1 d2 -> sim (snd (h_hmget d1 parts)) (snd (h_hmget d2 parts)).
Proof. intros H. unfold h_hmget. two_sided H. Qed.
Lemma h_hincrby_sim d1 d2 parts : sim d1 d2 -> sim (snd (h_hincrby d1 parts)) (snd (h_hincrby d2 parts)).
Proof. intros H. unfold h_hincrby. two_sided H. Qed.
(** SUNION / SINTER / SDIFF never change the database *)
Lemma h_setalg_sim f d1 d2 parts : sim d1 d2 -> sim (snd (h_setalg f d1 parts)) (snd (h_setalg f d2 parts)).
Proof.
  intros H. destruct (h_setalg f d1 parts) as [r1 x1] eqn:E1. destruct (h_setalg f d2 parts) as [r2 x2] eqn:E2.
  rewrite (h_setalg_keep _ _ _ _ _ E1), (h_setalg_keep _ _ _ _ _ E2). exact H.
Qed.

Lemma exec_lists_sim t1 t2 d1 d2 name parts o r1 r2 x1 x2 :
  sim d1 d2 -> exec_lists t1 d1 name parts o = Some (r1, x1) -> exec_lists t2 d2 name parts o = Some (r2, x2) ->
  sim x1 x2.
Proof.
  unfold exec_lists. intros H E1 E2.
  repeat match type of E1 with
  | (if ?c then _ else _) = _ => destruct c
  end; try discriminate; inversion E1 as [A1]; inversion E2 as [A2]; clear E1 E2;
  match goal with
  | A1 : ?h1 = (r1, x1), A2 : ?h2 = (r2, x2) |- _ =>
      change x1 with (snd (r1, x1)); change x2 with (snd (r2, x2)); rewrite <- A1, <- A2
  end;
  auto using h_push_sim, h_key1_sim, h_key_bulk_sim, h_range_sim, h_lindex_sim, h_int_bulk_sim, h_sadd_sim,
    h_skipping_sim, h_srandmember_sim, h_spop_sim, h_hset_sim, h_hmget_sim, h_hincrby_sim, h_setalg_sim.
Qed.

(** ---- string / key family ---- *)
Ltac sim_close H :=
  cbn [snd fst];
  repeat first [apply sim_index_set_l | apply sim_index_set_r | apply sim_index_del_l | apply sim_index_del_r];
  first [ exact H | apply sim_refl | apply sim_empty
        | (apply sim_set_value; exact H)
        | (apply sim_put; [exact H | split; [reflexivity | first [assumption | reflexivity]]])
        | (apply sim_del; exact H) ].
(** both sides look the key up: related entries or both absent *)
Ltac sim_get H :=
  match goal with
  | |- context [get_entry ?d2 ?k] =>
      match type of H with
      | sim ?d1 d2 =>
          let R := fresh "R" in
          pose proof (sim_lookup d1 d2 k H) as R;
          destruct (get_entry d1 k) eqn:?, (get_entry d2 k) eqn:?; cbn [orel] in R; try contradiction;
          [ let Rv := fresh "Rv" in let Rt := fresh "Rt" in destruct R as [Rv Rt]; try rewrite Rv in * | ]
      end
  end.
Ltac sim_branch :=
  match goal with
  | |- context [if ?c then _ else _] => destruct c
  | |- context [match ?x with _ => _ end] => destruct x
  end.

Section Strings.
Variables (t1 t2 : Z) (d1 d2 : db).
Hypothesis H : sim d1 d2.
Hypothesis F1 : fresh t1 d1 = true.
Hypothesis F2 : fresh t2 d2 = true.

Ltac ex := match goal with |- context [eng_exists t2 d2 ?k] => rewrite (exists_sim t1 t2 d1 d2 k H F1 F2) end.
Ltac go := repeat first [ex | sim_get H | sim_branch].

Lemma h_set_sim parts : sim (snd (h_set t1 d1 parts)) (snd (h_set t2 d2 parts)).
Proof. unfold h_set. go; sim_close H. Qed.
Lemma h_setnx_sim parts : sim (snd (h_setnx t1 d1 parts)) (snd (h_setnx t2 d2 parts)).
Proof. unfold h_setnx. go; sim_close H. Qed.
Lemma h_setex_sim m parts : sim (snd (h_setex m t1 d1 parts)) (snd (h_setex m t2 d2 parts)).
Proof. unfold h_setex. repeat sim_branch; sim_close H. Qed.
Lemma h_exists_sim parts : sim (snd (h_exists t1 d1 parts)) (snd (h_exists t2 d2 parts)).
Proof. unfold h_exists. repeat sim_branch; sim_close H. Qed.
Lemma h_flushdb_sim parts : sim (snd (h_flushdb d1 parts)) (snd (h_flushdb d2 parts)).
Proof. unfold h_flushdb. repeat sim_branch; sim_close H. Qed.
Lemma h_append_sim parts : sim (snd (h_append d1 parts)) (snd (h_append d2 parts)).
Proof. unfold h_append. go; sim_close H. Qed.
Lemma h_setrange_sim parts : sim (snd (h_setrange d1 parts)) (snd (h_setrange d2 parts)).
Proof. unfold h_setrange. go; sim_close H. Qed.

Lemma eng_incr_by_sim k inc : sim (snd (eng_incr_by d1 k inc)) (snd (eng_incr_by d2 k inc)).
Proof. unfold eng_incr_by. go; sim_close H. Qed.
Lemma snd_reply_incr x : snd (reply_incr x) = snd x.
Proof. destruct x as [[n|] d]; reflexivity. Qed.
Lemma h_incr_sim b delta parts : sim (snd (h_incr b delta d1 parts)) (snd (h_incr b delta d2 parts)).
Proof. unfold h_incr. go; try sim_close H; rewrite !snd_reply_incr; apply eng_incr_by_sim. Qed.
Lemma h_incrby_sim parts : sim (snd (h_incrby d1 parts)) (snd (h_incrby d2 parts)).
Proof. unfold h_incrby. go; try sim_close H; rewrite !snd_reply_incr; apply eng_incr_by_sim. Qed.
Lemma h_decrby_sim parts : sim (snd (h_decrby d1 parts)) (snd (h_decrby d2 parts)).
Proof. unfold h_decrby. go; try sim_close H; rewrite !snd_reply_incr; apply eng_incr_by_sim. Qed.
Lemma eng_persist_sim k : fst (eng_persist d1 k) = fst (eng_persist d2 k) /\ sim (snd (eng_persist d1 k)) (snd (eng_persist d2 k)).
Proof.
  unfold eng_persist. pose proof (sim_lookup d1 d2 k H) as R.
  destruct (get_entry d1 k) as [e1|], (get_entry d2 k) as [e2|]; cbn [orel] in R; try contradiction;
    [|split; [reflexivity|exact H]].
  destruct R as [Rv Rt]. unfold has_ttl in Rt.
  destruct (e_exp e1), (e_exp e2); try discriminate; cbn [fst snd]; (split; [reflexivity|]); [|exact H].
  apply sim_index_del_l, sim_index_del_r, sim_put; [exact H|split; [exact Rv|reflexivity]].
Qed.
Lemma h_persist_sim parts : sim (snd (h_persist d1 parts)) (snd (h_persist d2 parts)).
Proof.
  unfold h_persist. destruct (negb (nparts parts =? 2)); [sim_close H|].
  destruct (nth_arg parts 1) as [k|]; [|sim_close H].
  destruct (eng_persist_sim k) as [_ Hs]. destruct (eng_persist d1 k), (eng_persist d2 k). exact Hs.
Qed.

Lemma eng_delete_sim k : fst (eng_delete d1 k) = fst (eng_delete d2 k) /\ sim (snd (eng_delete d1 k)) (snd (eng_delete d2 k)).
Proof.
  unfold eng_delete. pose proof (sim_lookup d1 d2 k H) as R.
  destruct (get_entry d1 k), (get_entry d2 k); cbn [orel] in R; try contradiction; cbn [fst snd];
    (split; [reflexivity|]); [|exact H].
  apply sim_index_del_l, sim_index_del_r, sim_del. exact H.
Qed.
Lemma eng_expire_sim k ms : fst (eng_expire t1 d1 k ms) = fst (eng_expire t2 d2 k ms) /\
  sim (snd (eng_expire t1 d1 k ms)) (snd (eng_expire t2 d2 k ms)).
Proof.
  unfold eng_expire. pose proof (sim_lookup d1 d2 k H) as R.
  destruct (get_entry d1 k) as [e1|], (get_entry d2 k) as [e2|]; cbn [orel] in R; try contradiction; cbn [fst snd];
    (split; [reflexivity|]); [|exact H].
  destruct R as [Rv _]. apply sim_index_set_l, sim_index_set_r, sim_put; [exact H|split; [exact Rv|reflexivity]].
Qed.
Lemma eng_rename_sim o n : fst (eng_rename d1 o n) = fst (eng_rename d2 o n) /\
  sim (snd (eng_rename d1 o n)) (snd (eng_rename d2 o n)).
Proof.
  unfold eng_rename. pose proof (sim_lookup d1 d2 o H) as R.
  destruct (get_entry d1 o) as [e1|], (get_entry d2 o) as [e2|]; cbn [orel] in R; try contradiction; cbn [fst snd];
    (split; [reflexivity|]); [|exact H].
  apply sim_put; [apply sim_del; exact H|exact R].
Qed.
End Strings.

Lemma del_loop_sim : forall args d1 d2 n, sim d1 d2 ->
  fst (del_loop d1 args n) = fst (del_loop d2 args n) /\ sim (snd (del_loop d1 args n)) (snd (del_loop d2 args n)).
Proof.
  induction args as [|a args IH]; intros d1 d2 n H; cbn [del_loop]; [split; [reflexivity|exact H]|].
  destruct a; try (apply IH; exact H).
  destruct (eng_delete_sim d1 d2 H b) as [Hf Hs].
  destruct (eng_delete d1 b) as [b1 x1], (eng_delete d2 b) as [b2 x2]. cbn [fst snd] in *. subst b2.
  destruct b1; apply IH; exact Hs.
Qed.
Lemma h_del_sim d1 d2 parts : sim d1 d2 -> sim (snd (h_del d1 parts)) (snd (h_del d2 parts)).
Proof.
  intros H. unfold h_del. destruct (nparts parts <? 2); [exact H|].
  destruct (del_loop_sim (tl parts) d1 d2 0 H) as [_ Hs].
  destruct (del_loop d1 (tl parts) 0), (del_loop d2 (tl parts) 0). exact Hs.
Qed.
Lemma mset_loop_sim t1 t2 : forall args d1 d2, sim d1 d2 ->
  sim (snd (mset_loop t1 d1 args)) (snd (mset_loop t2 d2 args)).
Proof.
  intros args. remember (length args) as n eqn:Hn. revert args Hn.
  induction n as [n IH] using lt_wf_ind. intros args Hn d1 d2 H.
  destruct args as [|a rest]; cbn [mset_loop]; [exact H|].
  destruct a; try exact H. destruct rest as [|v rest']; [exact H|]. destruct v; try exact H.
  eapply (IH (length rest')); [subst n; cbn [length]; lia|reflexivity|]. apply sim_set_value. exact H.
Qed.
Lemma h_mset_sim t1 t2 d1 d2 parts : sim d1 d2 -> sim (snd (h_mset t1 d1 parts)) (snd (h_mset t2 d2 parts)).
Proof.
  intros H. unfold h_mset. destruct ((nparts parts <? 3) || (nparts parts mod 2 =? 0)); [exact H|].
  apply mset_loop_sim. exact H.
Qed.

Section Strings2.
Variables (t1 t2 : Z) (d1 d2 : db).
Hypothesis H : sim d1 d2.
Hypothesis F1 : fresh t1 d1 = true.
Hypothesis F2 : fresh t2 d2 = true.
Ltac ex := match goal with |- context [eng_exists t2 d2 ?k] => rewrite (exists_sim t1 t2 d1 d2 k H F1 F2) end.

Lemma h_expire_sim parts : sim (snd (h_expire t1 d1 parts)) (snd (h_expire t2 d2 parts)).
Proof.
  unfold h_expire. destruct (negb (nparts parts =? 3)); [exact H|].
  destruct (nth_arg parts 1) as [k|]; [|exact H]. destruct (nth_arg parts 2) as [a|]; [|exact H].
  destruct (parse_i64 a) as [s|]; [|exact H]. destruct (s <=? 0).
  - destruct (eng_delete_sim d1 d2 H k) as [_ Hs]. destruct (eng_delete d1 k), (eng_delete d2 k). exact Hs.
  - destruct (ttl_ok (s * 1000)); [|exact H].
    destruct (eng_expire_sim t1 t2 d1 d2 H k (s * 1000)) as [_ Hs].
    destruct (eng_expire t1 d1 k (s * 1000)), (eng_expire t2 d2 k (s * 1000)). exact Hs.
Qed.
Lemma h_pexpire_sim parts : sim (snd (h_pexpire t1 d1 parts)) (snd (h_pexpire t2 d2 parts)).
Proof.
  unfold h_pexpire. destruct (negb (nparts parts =? 3)); [exact H|].
  destruct (nth_arg parts 1) as [k|]; [|exact H]. destruct (nth_arg parts 2) as [a|]; [|exact H].
  destruct (parse_u64 a) as [ms|]; [|exact H]. destruct (ttl_ok ms); [|exact H].
  destruct (eng_expire_sim t1 t2 d1 d2 H k ms) as [_ Hs].
  destruct (eng_expire t1 d1 k ms), (eng_expire t2 d2 k ms). exact Hs.
Qed.
Lemma h_rename_sim parts : sim (snd (h_rename d1 parts)) (snd (h_rename d2 parts)).
Proof.
  unfold h_rename. destruct (negb (nparts parts =? 3)); [exact H|].
  destruct (nth_arg parts 1) as [o|]; [|exact H]. destruct (nth_arg parts 2) as [n|]; [|exact H].
  destruct (eng_rename_sim d1 d2 H o n) as [Hf Hs].
  destruct (eng_rename d1 o n) as [b1 x1], (eng_rename d2 o n) as [b2 x2]. cbn [fst snd] in *. subst b2.
  destruct b1; exact Hs.
Qed.
Lemma h_renamenx_sim parts : sim (snd (h_renamenx t1 d1 parts)) (snd (h_renamenx t2 d2 parts)).
Proof.
  unfold h_renamenx. destruct (negb (nparts parts =? 3)); [exact H|].
  destruct (nth_arg parts 1) as [o|]; [|exact H]. destruct (nth_arg parts 2) as [n|]; [|exact H].
  repeat ex. destruct (negb (eng_exists t1 d1 o)); [exact H|]. destruct (eng_exists t1 d1 n); [exact H|].
  destruct (eng_rename_sim d1 d2 H o n) as [Hf Hs].
  destruct (eng_rename d1 o n) as [b1 x1], (eng_rename d2 o n) as [b2 x2]. cbn [fst snd] in *. subst b2.
  destruct b1; exact Hs.
Qed.
(** reads through get: nothing has expired, so nothing is removed, and both sides see the same value *)
Lemma get_string_sim k :
  get_string t1 d1 k = (fst (get_string t1 d1 k), d1) /\ get_string t2 d2 k = (fst (get_string t2 d2 k), d2) /\
  fst (get_string t1 d1 k) = fst (get_string t2 d2 k).
Proof.
  unfold get_string. rewrite (eng_get_fresh t1 d1 k F1), (eng_get_fresh t2 d2 k F2).
  pose proof (sim_lookup d1 d2 k H) as R.
  destruct (get_entry d1 k) as [e1|], (get_entry d2 k) as [e2|]; cbn [orel] in R; try contradiction.
  - destruct R as [Rv _]. rewrite Rv. destruct (e_val e2); auto.
  - auto.
Qed.
Lemma h_getset_sim parts : sim (snd (h_getset t1 d1 parts)) (snd (h_getset t2 d2 parts)).
Proof.
  unfold h_getset. destruct (negb (nparts parts =? 3)); [exact H|].
  destruct (nth_arg parts 1) as [k|]; [|exact H]. destruct (nth_arg parts 2) as [v|]; [|exact H].
  destruct (get_string_sim k) as (E1 & E2 & E3). rewrite E1, E2, <- E3.
  destruct (fst (get_string t1 d1 k)); cbn [snd]; [apply sim_set_value|]; exact H.
Qed.
End Strings2.

Lemma inert_pair_sim t1 t2 d1 d2 (x1 x2 : db) :
  sim d1 d2 -> fresh t1 d1 = true -> fresh t2 d2 = true ->
  lazy_removed t1 d1 x1 -> lazy_removed t2 d2 x2 -> sim x1 x2.
Proof. intros H F1 F2 L1 L2. rewrite (lr_fresh _ _ _ F1 L1), (lr_fresh _ _ _ F2 L2). exact H. Qed.

Ltac to_snd A1 A2 :=
  match type of A1 with _ = (?r1, ?x1) => match type of A2 with _ = (?r2, ?x2) =>
    change x1 with (snd (r1, x1)); change x2 with (snd (r2, x2)); rewrite <- A1, <- A2 end end.

Lemma exec_strings_sim t1 t2 d1 d2 name parts r1 r2 x1 x2 :
  sim d1 d2 -> fresh t1 d1 = true -> fresh t2 d2 = true ->
  exec_strings t1 d1 name parts = Some (r1, x1) -> exec_strings t2 d2 name parts = Some (r2, x2) ->
  sim x1 x2.
Proof.
  unfold exec_strings. intros H F1 F2 E1 E2.
  repeat match type of E1 with
  | (if ?c then _ else _) = _ => destruct c
  end; try discriminate; inversion E1 as [A1]; inversion E2 as [A2]; clear E1 E2;
  first
  [ (* reads: inert on both sides *)
    (eapply (inert_pair_sim t1 t2 d1 d2); [exact H|exact F1|exact F2| |];
     eauto using h_get_inert, h_exists_inert, h_ttl_inert, h_pttl_inert, h_mget_inert, h_strlen_inert,
       h_getrange_inert, h_type_inert, h_keys_inert, h_dbsize_inert; fail)
  | (to_snd A1 A2;
     auto using h_set_sim, h_setnx_sim, h_setex_sim, h_flushdb_sim, h_append_sim, h_setrange_sim, h_incr_sim,
       h_incrby_sim, h_decrby_sim, h_persist_sim, h_del_sim, h_mset_sim, h_expire_sim, h_pexpire_sim,
       h_rename_sim, h_renamenx_sim, h_getset_sim) ].
Qed.

(** ---- streams: XADD / XTRIM / XDEL (the group commands stamp pending entries with the clock
    and are outside this part) ---- *)
Definition sres_rel (a b : Streams.sres) : Prop :=
  match a, b with
  | SStream e1 s1, SStream e2 s2 => s1 = s2 /\ has_ttl e1 = has_ttl e2
  | Streams.SWrong, Streams.SWrong => True
  | SMissing, SMissing => True
  | _, _ => False
  end.
Lemma raw_stream_sim d1 d2 k : sim d1 d2 -> sres_rel (raw_stream d1 k) (raw_stream d2 k).
Proof.
  intros H. unfold raw_stream. pose proof (sim_lookup d1 d2 k H) as R.
  destruct (get_entry d1 k) as [e1|], (get_entry d2 k) as [e2|]; cbn [orel] in R; try contradiction; [|exact I].
  destruct R as [Rv Rt]. rewrite Rv. destruct (e_val e2); cbn [sres_rel]; auto.
Qed.
Lemma put_stream_sim d1 d2 k e1 e2 s : sim d1 d2 -> has_ttl e1 = has_ttl e2 ->
  sim (put_stream d1 k e1 s) (put_stream d2 k e2 s).
Proof. intros H Ht. unfold put_stream. apply sim_put; [exact H|split; [reflexivity|exact Ht]]. Qed.

Ltac raw_tac H k :=
  let R := fresh "R" in
  match type of H with sim ?d1 ?d2 =>
    pose proof (raw_stream_sim d1 d2 k H) as R;
    destruct (raw_stream d1 k) as [? ?| |], (raw_stream d2 k) as [? ?| |]; cbn [sres_rel] in R; try contradiction;
    [destruct R as [? ?]; subst | | ]
  end.
Tactic Notation "raw" constr(H) constr(k) := raw_tac H k.

Lemma h_xadd_sim d1 d2 parts o : sim d1 d2 -> sim (snd (h_xadd d1 parts o)) (snd (h_xadd d2 parts o)).
Proof.
  intros H. unfold h_xadd.
  destruct ((nparts parts <? 4) || negb ((nparts parts - 3) mod 2 =? 0)); [exact H|].
  destruct (nth_error parts 1) as [f1|]; destruct (nth_error parts 2) as [idf|];
    try exact H; try (destruct f1; exact H).
  destruct f1 as [| | |k| | | | | | | | |]; try exact H.
  destruct (arg_bytes idf) as [idb|]; [|exact H].
  destruct (parse_fields (skipn 3 parts) []) as [f|]; [|exact H].
  destruct (beq idb (bs "*")).
  - raw H k; try exact H.
    + destruct (oracle_sid o); [|destruct (_ <=? _); exact H].
      destruct (auto_clock _ _); [|exact H]. destruct (st_add_auto _ _ _) as [[? ?]|]; [|exact H].
      cbn [snd]. apply put_stream_sim; assumption.
    + destruct (oracle_sid o); [|destruct (_ <=? _); exact H].
      destruct (auto_clock _ _); [|exact H]. destruct (st_add_auto _ _ _) as [[? ?]|]; [|exact H].
      cbn [snd]. apply put_stream_sim; [exact H|reflexivity].
  - destruct (sid_of_bytes idb) as [id|]; [|exact H].
    destruct ((fst id =? 0) && (snd id =? 0)); [exact H|].
    raw H k; try exact H.
    + destruct (st_add_with_id _ _ _); [|exact H]. cbn [snd]. apply put_stream_sim; assumption.
    + destruct (st_add_with_id _ _ _); [|exact H]. cbn [snd]. apply sim_put; [exact H|apply sim_e_refl].
Qed.
Lemma h_xtrim_sim d1 d2 parts : sim d1 d2 -> sim (snd (h_xtrim d1 parts)) (snd (h_xtrim d2 parts)).
Proof.
  intros H. unfold h_xtrim. destruct (nparts parts <? 4); [exact H|].
  destruct (nth_arg parts 1) as [k|]; [|exact H]. destruct (nth_arg parts 2) as [st|]; [|exact H].
  destruct (negb _); [exact H|]. destruct (xtrim_maxlen parts) as [n|]; [|exact H].
  raw H k; try exact H. destruct (st_trim _ n) as [t s']. cbn [snd].
  destruct (0 <? t); [apply put_stream_sim; assumption|exact H].
Qed.
Lemma h_xdel_sim d1 d2 parts : sim d1 d2 -> sim (snd (h_xdel d1 parts)) (snd (h_xdel d2 parts)).
Proof.
  intros H. unfold h_xdel. destruct (nparts parts <? 3); [exact H|].
  destruct (nth_arg parts 1) as [k|]; [|exact H]. destruct (parse_ids _) as [ids|]; [|exact H].
  raw H k; try exact H. destruct (st_delete _ ids) as [n s']. cbn [snd].
  destruct (0 <? n); [apply put_stream_sim; assumption|exact H].
Qed.

(** commands that stamp the clock into the value (pending entries' delivery times) *)
Definition clocked_cmds : list bytes := [bs "XGROUP"; bs "XREADGROUP"; bs "XACK"; bs "XCLAIM"].

Lemma exec_streams_sim t1 t2 d1 d2 name parts o r1 r2 x1 x2 :
  mem_name name clocked_cmds = false ->
  sim d1 d2 -> fresh t1 d1 = true -> fresh t2 d2 = true ->
  exec_streams t1 d1 name parts o = Some (r1, x1) -> exec_streams t2 d2 name parts o = Some (r2, x2) ->
  sim x1 x2.
Proof.
  unfold exec_streams. intros Hc H F1 F2 E1 E2.
  repeat match type of E1 with
  | (if beq ?n ?c then _ else _) = _ =>
      let E := fresh "E" in destruct (beq n c) eqn:E;
      [apply beq_eq in E; subst n; try (exfalso; vm_compute in Hc; discriminate Hc)|clear E]
  end; try discriminate; inversion E1 as [A1]; inversion E2 as [A2]; clear E1 E2;
  first
  [ (eapply (inert_pair_sim t1 t2 d1 d2); [exact H|exact F1|exact F2| |];
     eauto using h_xrange_inert, h_xrevrange_inert, h_xlen_inert, h_xread_inert, h_xpending_inert, h_xinfo_inert; fail)
  | (to_snd A1 A2; auto using h_xadd_sim, h_xtrim_sim, h_xdel_sim) ].
Qed.
Lemma exec_scan_sim t1 t2 d1 d2 name parts o r1 r2 x1 x2 :
  sim d1 d2 -> fresh t1 d1 = true -> fresh t2 d2 = true ->
  exec_scan t1 d1 name parts o = Some (r1, x1) -> exec_scan t2 d2 name parts o = Some (r2, x2) -> sim x1 x2.
Proof.
  intros H F1 F2 E1 E2. eapply (inert_pair_sim t1 t2 d1 d2); eauto using exec_scan_inert.
Qed.

(** which dispatcher answers depends on the name only *)
Ltac dom_tac := repeat match goal with |- context [if ?c then _ else _] => destruct c end; split; intros; try discriminate; reflexivity.
Lemma exec_strings_dom t1 t2 d1 d2 name parts :
  exec_strings t1 d1 name parts = None <-> exec_strings t2 d2 name parts = None.
Proof. unfold exec_strings. dom_tac. Qed.
Lemma exec_lists_dom t1 t2 d1 d2 name parts o :
  exec_lists t1 d1 name parts o = None <-> exec_lists t2 d2 name parts o = None.
Proof. unfold exec_lists. dom_tac. Qed.
Lemma exec_streams_dom t1 t2 d1 d2 name parts o :
  exec_streams t1 d1 name parts o = None <-> exec_streams t2 d2 name parts o = None.
Proof. unfold exec_streams. dom_tac. Qed.
Lemma exec_scan_dom t1 t2 d1 d2 name parts o :
  exec_scan t1 d1 name parts o = None <-> exec_scan t2 d2 name parts o = None.
Proof. unfold exec_scan. dom_tac. Qed.

Lemma exec_db_sim t1 t2 d1 d2 name parts o :
  mem_name name clocked_cmds = false ->
  sim d1 d2 -> fresh t1 d1 = true -> fresh t2 d2 = true ->
  match exec_db t1 d1 name parts o, exec_db t2 d2 name parts o with
  | Some (_, x1), Some (_, x2) => sim x1 x2
  | None, None => True
  | _, _ => False
  end.
Proof.
  intros Hc H F1 F2. unfold exec_db.
  pose proof (exec_strings_dom t1 t2 d1 d2 name parts) as D1.
  destruct (exec_strings t1 d1 name parts) as [[r1 x1]|] eqn:E1, (exec_strings t2 d2 name parts) as [[r2 x2]|] eqn:E2;
    try (destruct D1 as [D1a D1b]; first [specialize (D1a eq_refl) | specialize (D1b eq_refl)]; discriminate).
  { eapply exec_strings_sim; eauto. }
  clear D1. pose proof (exec_lists_dom t1 t2 d1 d2 name parts o) as D2.
  destruct (exec_lists t1 d1 name parts o) as [[r1 x1]|] eqn:E3, (exec_lists t2 d2 name parts o) as [[r2 x2]|] eqn:E4;
    try (destruct D2 as [D2a D2b]; first [specialize (D2a eq_refl) | specialize (D2b eq_refl)]; discriminate).
  { eapply exec_lists_sim; eauto. }
  clear D2. unfold exec_zsets.
  pose proof (exec_streams_dom t1 t2 d1 d2 name parts o) as D3.
  destruct (exec_streams t1 d1 name parts o) as [[r1 x1]|] eqn:E5, (exec_streams t2 d2 name parts o) as [[r2 x2]|] eqn:E6;
    try (destruct D3 as [D3a D3b]; first [specialize (D3a eq_refl) | specialize (D3b eq_refl)]; discriminate).
  { eapply exec_streams_sim; eauto. }
  clear D3. pose proof (exec_scan_dom t1 t2 d1 d2 name parts o) as D4.
  destruct (exec_scan t1 d1 name parts o) as [[r1 x1]|] eqn:E7, (exec_scan t2 d2 name parts o) as [[r2 x2]|] eqn:E8;
    try (destruct D4 as [D4a D4b]; first [specialize (D4a eq_refl) | specialize (D4b eq_refl)]; discriminate).
  { eapply exec_scan_sim; eauto. }
  exact I.
Qed.

(** one command at two clock readings *)
Lemma step_db0_sim t1 t2 d1 d2 parts o :
  mem_name (cmd_name parts) clocked_cmds = false ->
  sim d1 d2 -> fresh t1 d1 = true -> fresh t2 d2 = true ->
  sim (step_db0 t1 d1 parts o) (step_db0 t2 d2 parts o).
Proof.
  intros Hc H F1 F2. unfold step_db0, cmd_name in *.
  destruct parts as [|first rest]; [exact H|]. destruct first; try exact H.
  repeat match goal with |- context [if ?c then _ else _] => destruct c end; try exact H; try apply sim_empty.
  pose proof (exec_db_sim t1 t2 d1 d2 (upper b) (FBulk b :: rest) o Hc H F1 F2) as X.
  destruct (exec_db t1 d1 (upper b) (FBulk b :: rest) o) as [[? ?]|], (exec_db t2 d2 (upper b) (FBulk b :: rest) o) as [[? ?]|];
    try contradiction; [exact X|exact H].
Qed.

(** ================= traces: commands with the clock reading at which each ran ================= *)
Definition tcmd := (Z * list frame)%type.
Definition run_trace (tr : list tcmd) (d : db) : db :=
  fold_left (fun d tp => step_db0 (fst tp) d (snd tp) None) tr d.
Definition redo (now : Z) (log : list (list frame)) (d : db) : db :=
  fold_left (fun d p => step_db0 now d p None) log d.
(** the domain: that of c11_replay minus the commands that stamp the clock into values *)
Definition timeless (parts : list frame) : bool :=
  cmd_ok parts && negb (mem_name (cmd_name parts) clocked_cmds).
(** nothing has expired when a command runs (live: at that command's clock reading) *)
Fixpoint live_fresh (tr : list tcmd) (d : db) : bool :=
  match tr with
  | [] => true
  | tp :: r => fresh (fst tp) d && live_fresh r (step_db0 (fst tp) d (snd tp) None)
  end.
Fixpoint redo_fresh (now : Z) (log : list (list frame)) (d : db) : bool :=
  match log with
  | [] => true
  | p :: r => fresh now d && redo_fresh now r (step_db0 now d p None)
  end.
Definition logged_of (tr : list tcmd) : list (list frame) := filter is_logged (map snd tr).

Lemma trace_redo_sim now' : forall tr d1 d2,
  sim d1 d2 -> forallb (fun tp => timeless (snd tp)) tr = true ->
  live_fresh tr d1 = true -> redo_fresh now' (logged_of tr) d2 = true ->
  sim (run_trace tr d1) (redo now' (logged_of tr) d2).
Proof.
  induction tr as [|[t p] tr IH]; intros d1 d2 H Hok Hl Hr; [exact H|].
  cbn [forallb snd] in Hok. apply andb_prop in Hok as [Hp Hok]. unfold timeless in Hp. apply andb_prop in Hp as [Hp1 Hp2].
  apply negb_true_iff in Hp2.
  cbn [live_fresh fst snd] in Hl. apply andb_prop in Hl as [Hl1 Hl2].
  unfold logged_of in *. cbn [map filter snd] in *. cbn [run_trace fold_left fst snd]. fold (run_trace tr).
  destruct (is_logged p) eqn:Lp.
  - cbn [redo_fresh] in Hr. apply andb_prop in Hr as [Hr1 Hr2]. cbn [redo fold_left]. fold (redo now').
    apply IH; auto. apply step_db0_sim; auto.
  - rewrite (step_db0_unlogged t d1 p None Lp Hp1 Hl1) in *. apply IH; auto.
Qed.

(** the replayed server's database 0 is the redo of the log on the empty database *)
Lemma replay_from_db0 now : forall log R, wf_srv R ->
  get_db (replay_from now R log) 0 = redo now log (get_db R 0).
Proof.
  induction log as [|p log IH]; intros R Hw; [reflexivity|].
  unfold replay_from, no_oracle in *. cbn [map fold_left redo]. fold (redo now).
  rewrite IH.
  - unfold replay_step. cbn [fst snd]. rewrite nc_db0 by exact Hw. reflexivity.
  - unfold replay_step. apply nc_wf. exact Hw.
Qed.
Lemma replay_db0_redo now log : get_db (replay now log) 0 = redo now log empty_db.
Proof. exact (replay_from_db0 now log replay_init eq_refl). Qed.

(** ================= histories with a clock reading per event ================= *)
(** the commands one event runs through process_normal_command, in execution order
    (no password configured): a direct command, or the queue of an EXEC that is not aborted *)
Definition ev_cmds (now : Z) (s : server) (e : ev) : list (list frame) :=
  match e with
  | EFrame c (FArray (FBulk nm :: rest)) =>
      match zlookup c (s_conns s) with
      | None => []
      | Some cn =>
          let command := upper (trim nm) in
          if beq command (bs "MULTI") then []
          else if beq command (bs "EXEC") then
            (if c_intx cn then
               if existsb (fun kb => was_modified_since now s (c_db cn) (fst kb) (snd kb)) (c_watched cn)
               then [] else c_queue cn
             else [])
          else if beq command (bs "DISCARD") then []
          else if beq command (bs "WATCH") then []
          else if beq command (bs "UNWATCH") then []
          else if beq command (bs "AUTH") then []
          else if c_intx cn && negb (mem_name command tx_not_queued) then []
          else [FBulk nm :: rest]
      end
  | _ => []
  end.

Definition conns_okT (s : server) : Prop :=
  forall c cn, zlookup c (s_conns s) = Some cn -> c_db cn = 0 /\ forallb timeless (c_queue cn) = true.
Record linv (s : server) : Prop := {
  linv_wf : wf_srv s; linv_pw : s_password s = None; linv_conns : conns_okT s }.
Definition ev_okT (e : ev) : bool :=
  match e with EFrame _ (FArray parts) => timeless parts | _ => true end.

Lemma timeless_cmd_ok p : timeless p = true -> cmd_ok p = true.
Proof. unfold timeless. intros H. apply andb_prop in H as [H _]. exact H. Qed.
Lemma conns_okT_set s c cn : conns_okT s -> c_db cn = 0 -> forallb timeless (c_queue cn) = true ->
  forall s', s_conns s' = zset_ c cn (s_conns s) -> conns_okT s'.
Proof.
  intros H Hd Hq s' E c' cn' Hl. rewrite E in Hl. destruct (Z.eq_dec c' c) as [->|Hn].
  - rewrite zlookup_zset_same in Hl. inversion Hl; subst. auto.
  - rewrite zlookup_zset_other in Hl by exact Hn. exact (H c' cn' Hl).
Qed.
Lemma conns_okT_del s c : conns_okT s -> forall s', s_conns s' = zremove c (s_conns s) -> conns_okT s'.
Proof.
  intros H s' E c' cn' Hl. rewrite E in Hl. destruct (Z.eq_dec c' c) as [->|Hn].
  - rewrite zlookup_zremove_same in Hl. discriminate.
  - rewrite zlookup_zremove_other in Hl by exact Hn. exact (H c' cn' Hl).
Qed.
Lemma linv_same s s' : linv s -> s_dbs s' = s_dbs s -> s_password s' = s_password s -> conns_okT s' -> linv s'.
Proof.
  intros [H1 H2 H3] Hd Hp Hc. constructor; [unfold wf_srv; rewrite Hd; exact H1|rewrite Hp; exact H2|exact Hc].
Qed.

(** what one event does, as a redo of its commands *)
Record ev_spec (now : Z) (s s' : server) (cmds : list (list frame)) : Prop := {
  es_inv : linv s';
  es_db : get_db s' 0 = redo now cmds (get_db s 0);
  es_log : aof_log s' = aof_log s ++ filter is_logged cmds
}.
Lemma ev_spec_nil now s s' : linv s -> s_dbs s' = s_dbs s -> s_password s' = s_password s -> s_aof s' = s_aof s ->
  conns_okT s' -> ev_spec now s s' [].
Proof.
  intros Hi Hd Hp Ha Hc. constructor; [eapply linv_same; eauto| |].
  - unfold get_db. rewrite Hd. reflexivity.
  - cbn [filter]. unfold aof_log. rewrite Ha, app_nil_r. reflexivity.
Qed.

Lemma nc_spec now s c parts :
  linv s -> timeless parts = true ->
  ev_spec now s (snd (normal_command now s c 0 parts None)) [parts].
Proof.
  intros [H1 H2 H3] Hok. pose proof (cmd_ok_not_select _ (timeless_cmd_ok _ Hok)) as Hsel.
  destruct (nc_conns now s c 0 parts None H2 Hsel) as [Hc Hp].
  constructor.
  - constructor; [apply nc_wf; exact H1|exact Hp|]. unfold conns_okT. rewrite Hc. exact H3.
  - rewrite nc_db0 by exact H1. reflexivity.
  - unfold aof_log. rewrite nc_aof. cbn [filter]. destruct (is_logged parts); [reflexivity|rewrite app_nil_r; reflexivity].
Qed.
Lemma exec_queue_spec now : forall q s acc,
  linv s -> forallb timeless q = true -> ev_spec now s (snd (exec_queue now s 0 q acc)) q.
Proof.
  induction q as [|parts q IH]; intros s acc Hi Hq; cbn [exec_queue].
  - constructor; [exact Hi|reflexivity|]. cbn [filter]. rewrite app_nil_r. reflexivity.
  - cbn [forallb] in Hq. apply andb_prop in Hq as [Hq1 Hq2].
    pose proof (nc_spec now s 0 parts Hi Hq1) as [N1 N2 N3].
    destruct (normal_command now s 0 0 parts None) as [rep s1]. cbn [snd] in *.
    destruct (IH s1 (rep :: acc) N1 Hq2) as [X1 X2 X3]. constructor; [exact X1| |].
    + rewrite X2, N2. reflexivity.
    + rewrite X3, N3. cbn [filter]. destruct (is_logged parts); [|rewrite app_nil_r; reflexivity].
      rewrite <- app_assoc. reflexivity.
Qed.

Lemma ev_step_spec now s e :
  linv s -> ev_okT e = true ->
  ev_spec now s (ev_step now s e) (ev_cmds now s e) /\ forallb timeless (ev_cmds now s e) = true.
Proof.
  intros Hi Hok. destruct e as [c|c|c req]; cbn [ev_step ev_cmds].
  - split; [|reflexivity]. apply ev_spec_nil; try reflexivity; [exact Hi|].
    unfold connect. rewrite (linv_pw _ Hi).
    eapply conns_okT_set; [exact (linv_conns _ Hi)| | |reflexivity]; reflexivity.
  - split; [|reflexivity]. apply ev_spec_nil; try reflexivity; [exact Hi|].
    eapply conns_okT_del; [exact (linv_conns _ Hi)|reflexivity].
  - (* a request frame; QUIT closes the connection afterwards *)
    assert (Hq : forall s1 cmds, ev_spec now s s1 cmds ->
                   ev_spec now s (if is_quit req then del_conn s1 c else s1) cmds).
    { intros s1 cmds X. destruct (is_quit req); [|exact X]. destruct X as [X1 X2 X3].
      constructor; [|exact X2|exact X3].
      eapply linv_same; [exact X1|reflexivity|reflexivity|].
      eapply conns_okT_del; [exact (linv_conns _ X1)|reflexivity]. }
    assert (Hsame : ev_spec now s s []).
    { apply ev_spec_nil; try reflexivity; [exact Hi|exact (linv_conns _ Hi)]. }
    unfold process_frame.
    destruct req as [| | | | |l| | | | | | |]; try (split; [apply Hq; exact Hsame|reflexivity]).
    destruct l as [|first rest]; [split; [apply Hq; exact Hsame|reflexivity]|].
    destruct first as [| | |nm| | | | | | | | |]; try (split; [apply Hq; exact Hsame|reflexivity]).
    destruct (zlookup c (s_conns s)) as [cn|] eqn:Hc; [|split; [apply Hq; exact Hsame|reflexivity]].
    destruct (linv_conns _ Hi c cn Hc) as [Hdb Hqu].
    rewrite (linv_pw _ Hi). cbn [andb].
    set (parts := FBulk nm :: rest) in *. cbn [ev_okT] in Hok.
    assert (Hconn : forall s', s_dbs s' = s_dbs s -> s_password s' = s_password s -> s_aof s' = s_aof s ->
              conns_okT s' -> ev_spec now s (if is_quit (FArray parts) then del_conn s' c else s') []).
    { intros s' Hd Hp Ha Hcs. apply Hq. apply ev_spec_nil; auto. }
    destruct (beq (upper (trim nm)) (bs "MULTI")).
    { split; [|reflexivity]. destruct (c_intx cn); [apply Hq; exact Hsame|]. cbn [snd]. apply Hconn; try reflexivity.
      eapply conns_okT_set; [exact (linv_conns _ Hi)| | |reflexivity]; [exact Hdb|reflexivity]. }
    destruct (beq (upper (trim nm)) (bs "EXEC")).
    { unfold h_exec. destruct (c_intx cn); [|split; [apply Hq; exact Hsame|reflexivity]]. cbn [negb].
      assert (Hi1 : linv (set_conn s c (clear_tx cn))).
      { eapply linv_same; [exact Hi|reflexivity|reflexivity|].
        eapply conns_okT_set; [exact (linv_conns _ Hi)| | |reflexivity]; [exact Hdb|reflexivity]. }
      destruct (existsb _ (c_watched cn)).
      { split; [|reflexivity]. cbn [snd]. apply Hconn; try reflexivity. exact (linv_conns _ Hi1). }
      split; [|exact Hqu]. rewrite Hdb.
      pose proof (exec_queue_spec now (c_queue cn) (set_conn s c (clear_tx cn)) [] Hi1 Hqu) as X.
      destruct (exec_queue now (set_conn s c (clear_tx cn)) 0 (c_queue cn) []) as [reps s2]. cbn [snd] in *.
      apply Hq. destruct X as [X1 X2 X3]. constructor; [exact X1|exact X2|exact X3]. }
    destruct (beq (upper (trim nm)) (bs "DISCARD")).
    { split; [|reflexivity]. destruct (c_intx cn); [|apply Hq; exact Hsame]. cbn [negb snd]. apply Hconn; try reflexivity.
      eapply conns_okT_set; [exact (linv_conns _ Hi)| | |reflexivity]; [exact Hdb|reflexivity]. }
    destruct (beq (upper (trim nm)) (bs "WATCH")).
    { split; [|reflexivity]. destruct (len parts <? 2); [apply Hq; exact Hsame|].
      destruct (c_intx cn); [apply Hq; exact Hsame|].
      destruct (watch_loop_partial (get_trk s (c_db cn)) rest (c_watched cn)) as [[t' w'] okb].
      cbn [snd]. apply Hconn; try reflexivity.
      eapply conns_okT_set; [exact (linv_conns _ Hi)| | |reflexivity]; [exact Hdb|exact Hqu]. }
    destruct (beq (upper (trim nm)) (bs "UNWATCH")).
    { split; [|reflexivity]. cbn [snd]. apply Hconn; try reflexivity.
      eapply conns_okT_set; [exact (linv_conns _ Hi)| | |reflexivity]; [exact Hdb|exact Hqu]. }
    destruct (beq (upper (trim nm)) (bs "AUTH")).
    { split; [|reflexivity]. rewrite (h_auth_nopw s c parts (linv_pw _ Hi)). apply Hq. exact Hsame. }
    destruct (c_intx cn && negb (mem_name (upper (trim nm)) tx_not_queued)).
    { split; [|reflexivity]. cbn [snd]. apply Hconn; try reflexivity.
      eapply conns_okT_set; [exact (linv_conns _ Hi)| | |reflexivity]; [exact Hdb|].
      cbn [with_tx c_queue]. rewrite forallb_app, Hqu. cbn [forallb]. rewrite Hok. reflexivity. }
    split; [|cbn [forallb]; rewrite Hok; reflexivity].
    rewrite Hdb. apply Hq. apply nc_spec; [exact Hi|exact Hok].
Qed.

Definition tev := (Z * ev)%type.
Definition tev_step (s : server) (te : tev) : server := ev_step (fst te) s (snd te).
Definition run_tevs (h : list tev) : server := fold_left tev_step h (init_server None).
(** the executed commands of a history, each with the clock reading of its event *)
Fixpoint trace_from (s : server) (h : list tev) : list tcmd :=
  match h with
  | [] => []
  | te :: r => map (fun p => (fst te, p)) (ev_cmds (fst te) s (snd te)) ++ trace_from (tev_step s te) r
  end.
Definition trace_of (h : list tev) : list tcmd := trace_from (init_server None) h.

Lemma run_trace_app a b d : run_trace (a ++ b) d = run_trace b (run_trace a d).
Proof. unfold run_trace. apply fold_left_app. Qed.
Lemma run_trace_same_time t cmds d : run_trace (map (fun p => (t, p)) cmds) d = redo t cmds d.
Proof. revert d. induction cmds as [|p cmds IH]; intros d; [reflexivity|]. cbn [map]. unfold run_trace, redo in *. cbn [fold_left fst snd]. apply IH. Qed.
Lemma logged_of_app a b : logged_of (a ++ b) = logged_of a ++ logged_of b.
Proof. unfold logged_of. rewrite map_app, filter_app. reflexivity. Qed.
Lemma logged_of_same_time t cmds : logged_of (map (fun p => (t, p)) cmds) = filter is_logged cmds.
Proof. unfold logged_of. rewrite map_map. cbn [snd]. rewrite map_id. reflexivity. Qed.

Lemma history_is_trace : forall h s,
  linv s -> forallb (fun te => ev_okT (snd te)) h = true ->
  get_db (fold_left tev_step h s) 0 = run_trace (trace_from s h) (get_db s 0) /\
  aof_log (fold_left tev_step h s) = aof_log s ++ logged_of (trace_from s h) /\
  forallb (fun tp => timeless (snd tp)) (trace_from s h) = true.
Proof.
  induction h as [|[t e] h IH]; intros s Hi Hok; cbn [fold_left trace_from].
  - rewrite app_nil_r. auto.
  - cbn [forallb snd] in Hok. apply andb_prop in Hok as [Hok1 Hok2].
    destruct (ev_step_spec t s e Hi Hok1) as [[E1 E2 E3] E4].
    change (tev_step s (t, e)) with (ev_step t s e). cbn [fst snd].
    destruct (IH (ev_step t s e) E1 Hok2) as (I1 & I2 & I3). repeat split.
    + rewrite I1, run_trace_app, run_trace_same_time, E2. reflexivity.
    + rewrite I2, E3, logged_of_app, logged_of_same_time, app_assoc. reflexivity.
    + rewrite forallb_app, I3, andb_true_r. rewrite forallb_forall in *. intros [t' p] Hin.
      apply in_map_iff in Hin as (p' & Hp & Hin). inversion Hp; subst. cbn [snd]. exact (E4 _ Hin).
Qed.
Lemma linv_init : linv (init_server None).
Proof. constructor; try reflexivity. intros c cn Hl. cbn in Hl. discriminate. Qed.

(** THE REPLAY THEOREM, ANY CLOCK: every event of the history at its own clock reading, the
    redo at any reading [now'].  When nothing has expired at the moment a command runs - live,
    and in the redo - re-executing the file yields the live dataset: values and TTL presence. *)
Theorem replay_any_time h now' :
  forallb (fun te => ev_okT (snd te)) h = true ->
  live_fresh (trace_of h) empty_db = true ->
  redo_fresh now' (logged_of (trace_of h)) empty_db = true ->
  aof_log (run_tevs h) = logged_of (trace_of h) /\
  dataset (get_db (replay now' (aof_log (run_tevs h))) 0) = dataset (get_db (run_tevs h) 0).
Proof.
  intros Hok Hl Hr. unfold run_tevs, trace_of in *.
  destruct (history_is_trace h (init_server None) linv_init Hok) as (H1 & H2 & H3).
  change (aof_log (init_server None)) with (@nil (list frame)) in H2. cbn [app] in H2.
  split; [exact H2|]. rewrite H2, replay_db0_redo, H1. symmetry. apply sim_dataset.
  change (get_db (init_server None) 0) with empty_db.
  apply trace_redo_sim; auto. apply sim_empty.
Qed.

(** non-vacuity: events spread over an hour, TTLs set, a transaction; redo a day later *)
Definition sample_timed : list tev :=
  [(0, EConn 1); (0, EConn 2);
   (1000, EFrame 1 (cmd [bs "SET"; bs "k"; bs "a"; bs "EX"; bs "100000"]));
   (2000, EFrame 2 (cmd [bs "MULTI"]));
   (2500, EFrame 2 (cmd [bs "RPUSH"; bs "l"; bs "x"; bs "y"]));
   (2600, EFrame 2 (cmd [bs "SETEX"; bs "t"; bs "90000"; bs "v"]));
   (60000, EFrame 1 (cmd [bs "GET"; bs "k"]));
   (3600000, EFrame 2 (cmd [bs "EXEC"]));
   (3600001, EFrame 1 (cmd [bs "XADD"; bs "x"; bs "1-1"; bs "f"; bs "v"]));
   (3600002, EFrame 1 (cmd [bs "EXPIRE"; bs "l"; bs "50"]));
   (3600003, EFrame 1 (cmd [bs "PERSIST"; bs "k"]))].
Lemma sample_timed_ok :
  forallb (fun te => ev_okT (snd te)) sample_timed = true /\
  live_fresh (trace_of sample_timed) empty_db = true /\
  redo_fresh 86400000 (logged_of (trace_of sample_timed)) empty_db = true /\
  len (logged_of (trace_of sample_timed)) = 6 /\
  get_db (replay 86400000 (aof_log (run_tevs sample_timed))) 0 <> get_db (run_tevs sample_timed) 0.
Proof. repeat split; try (vm_compute; reflexivity). intro H; vm_compute in H; discriminate H. Qed.

(** ================= re-sending the file over a connection IS the redo ================= *)
(** what the harness (and any external redo tool) does: the logged commands are sent as
    request frames over a fresh connection, i.e. through process_frame.  A logged name is
    never transaction control and contains no blanks, so every frame goes straight to
    process_normal_command in database 0: the result is [replay]. *)
Definition plain_name (u : bytes) : bool :=
  forallb (fun c => negb (is_space c)) u
  && negb (beq u (bs "MULTI")) && negb (beq u (bs "EXEC")) && negb (beq u (bs "DISCARD"))
  && negb (beq u (bs "WATCH")) && negb (beq u (bs "UNWATCH")) && negb (beq u (bs "AUTH"))
  && negb (beq u (bs "SELECT")).
Lemma write_names_plain : forallb plain_name write_commands = true.
Proof. vm_compute. reflexivity. Qed.
Lemma bmem_In x l : bmem x l = true -> In x l.
Proof.
  induction l as [|y l IH]; cbn [bmem]; [discriminate|]. intros H. apply orb_prop in H as [H|H].
  - apply beq_eq in H. left. symmetry. exact H.
  - right. exact (IH H).
Qed.
Lemma is_space_upper1 c : is_space (upper1 c) = is_space c.
Proof. unfold is_space, upper1. destruct ((97 <=? c) && (c <=? 122)) eqn:E; [|reflexivity]. lia. Qed.
Lemma nospace_upper b : forallb (fun c => negb (is_space c)) (upper b) = forallb (fun c => negb (is_space c)) b.
Proof. unfold upper. induction b as [|c b IH]; [reflexivity|]. cbn [map forallb]. rewrite is_space_upper1, IH. reflexivity. Qed.
Lemma drop_while_nospace b : forallb (fun c => negb (is_space c)) b = true -> drop_while is_space b = b.
Proof. destruct b as [|c b]; [reflexivity|]. cbn [forallb drop_while]. intros H. apply andb_prop in H as [H _]. apply negb_true_iff in H. rewrite H. reflexivity. Qed.
Lemma forallb_rev {A} (p : A -> bool) l : forallb p (rev l) = forallb p l.
Proof. induction l as [|x l IH]; [reflexivity|]. cbn [rev forallb]. rewrite forallb_app, IH. cbn [forallb]. rewrite andb_true_r. apply andb_comm. Qed.
Lemma trim_nospace b : forallb (fun c => negb (is_space c)) b = true -> trim b = b.
Proof.
  intros H. unfold trim. rewrite (drop_while_nospace b H).
  rewrite drop_while_nospace by (rewrite forallb_rev; exact H). apply rev_involutive.
Qed.

Lemma resend_is_normal now s cn parts o :
  is_logged parts = true -> s_password s = None ->
  zlookup replay_conn (s_conns s) = Some cn -> c_db cn = 0 -> c_intx cn = false ->
  process_frame now s replay_conn (FArray parts) o = normal_command now s replay_conn 0 parts o.
Proof.
  unfold is_logged. intros Hl Hp Hc Hd Hi. destruct parts as [|first rest]; [discriminate|].
  destruct first; try discriminate.
  pose proof write_names_plain as W. rewrite forallb_forall in W.
  specialize (W (upper b) (bmem_In _ _ Hl)). unfold plain_name in W.
  repeat match type of W with (_ && _) = true => apply andb_prop in W; destruct W as [W ?] end.
  repeat match goal with X : negb _ = true |- _ => apply negb_true_iff in X end.
  rewrite nospace_upper in W.
  unfold process_frame. rewrite Hc, Hp. cbn [andb]. rewrite (trim_nospace b W).
  repeat match goal with X : beq (upper b) _ = false |- _ => rewrite X end.
  rewrite Hi, Hd. reflexivity.
Qed.

(** the connection of the redo stays in database 0, outside MULTI *)
Definition resend_step (now : Z) (s : server) (parts : list frame) : server :=
  snd (process_frame now s replay_conn (FArray parts) None).
Definition resend (now : Z) (log : list (list frame)) : server := fold_left (resend_step now) log replay_init.
Lemma resend_is_replay now log :
  forallb is_logged log = true -> resend now log = replay now log.
Proof.
  unfold resend, replay, replay_o, no_oracle.
  assert (G : forall l s, forallb is_logged l = true -> s_password s = None ->
                (exists cn, zlookup replay_conn (s_conns s) = Some cn /\ c_db cn = 0 /\ c_intx cn = false) ->
                fold_left (resend_step now) l s = fold_left (replay_step now) (map (fun p => (p, None)) l) s).
  { induction l as [|p l IH]; intros s Hl Hp (cn & Hc & Hd & Hi); [reflexivity|].
    cbn [forallb] in Hl. apply andb_prop in Hl as [Hl1 Hl2]. cbn [map fold_left].
    unfold resend_step at 2. unfold replay_step at 2. cbn [fst snd].
    rewrite (resend_is_normal now s cn p None Hl1 Hp Hc Hd Hi).
    assert (Hsel : beq (cmd_name p) (bs "SELECT") = false).
    { unfold is_logged in Hl1. unfold cmd_name. destruct p as [|[] ?]; try discriminate.
      pose proof write_names_plain as W. rewrite forallb_forall in W.
      specialize (W (upper b) (bmem_In _ _ Hl1)). unfold plain_name in W.
      apply andb_prop in W as [_ W]. apply negb_true_iff in W. exact W. }
    destruct (nc_conns now s replay_conn 0 p None Hp Hsel) as [Hcs Hps].
    apply IH; [exact Hl2|exact Hps|]. exists cn. rewrite Hcs. auto. }
  intros Hl. apply G; [exact Hl|reflexivity|]. eexists. split; [reflexivity|]. split; reflexivity.
Qed.
(** every command in a server's log is a logged command *)
Lemma nc_log_logged now s c dbi parts o :
  forallb is_logged (s_aof s) = true -> forallb is_logged (s_aof (snd (normal_command now s c dbi parts o))) = true.
Proof. intros H. rewrite nc_aof. destruct (is_logged parts) eqn:E; [cbn [forallb]; rewrite E, H; reflexivity|exact H]. Qed.
Lemma logged_of_all_logged tr : forallb is_logged (logged_of tr) = true.
Proof. unfold logged_of. apply forallb_forall. intros p Hp. apply filter_In in Hp as [_ Hp]. exact Hp. Qed.
