(** C11, second part: the clock does not matter as long as nothing expires.
    [sim d1 d2]: the same keys in the same order, equal values, TTL present on both sides or
    on neither (deadlines and the sweeper's index may differ).  Every command of the
    string/key family, the list/set/hash family, XADD / XDEL / XTRIM, and every read, run at two
    different clock readings on [sim]-related databases without expired entries, yields
    [sim]-related databases: so a redo at ANY later time restores values and TTL presence.
    Outside this part: the consumer-group commands (they stamp the clock into pending entries),
    the sorted-set writes and scripts (their per-handler proofs are not done here; they are
    covered by the one-clock theorem of Proofs/AofFacts.v). *)
From Ferrous Require Import Base.Bytes Generated Model.Resp Model.Types Model.Glob Model.Strings
  Model.Lists Model.ZSets Model.Streams Model.Scan Model.Lua Model.Server Model.Conn Model.Aof
  Proofs.BytesFacts Proofs.StringsFacts Proofs.ListsFacts Proofs.ServerFacts Proofs.AofFacts.
From Coq Require Import ZifyBool.
Open Scope Z_scope.

Definition sim_e (e1 e2 : entry) : Prop := e_val e1 = e_val e2 /\ has_ttl e1 = has_ttl e2.
Definition sim_kv (a b : bytes * entry) : Prop := fst a = fst b /\ sim_e (snd a) (snd b).
Definition sim (d1 d2 : db) : Prop := Forall2 sim_kv (d_data d1) (d_data d2).

Lemma sim_e_refl e : sim_e e e. Proof. split; reflexivity. Qed.
Lemma sim_refl d : sim d d.
Proof. unfold sim. induction (d_data d) as [|a l IH]; constructor; [split; [reflexivity|apply sim_e_refl]|exact IH]. Qed.
Lemma sim_empty : sim empty_db empty_db. Proof. constructor. Qed.

(** what the property compares is equal on [sim]-related databases *)
Lemma sim_dataset d1 d2 : sim d1 d2 -> dataset d1 = dataset d2.
Proof.
  unfold sim, dataset. induction 1 as [|[k1 e1] [k2 e2] l1 l2 [Hk [Hv Ht]] _ IH]; [reflexivity|].
  cbn [map fst snd] in *. subst. rewrite Hv, Ht, IH. reflexivity.
Qed.

Definition orel {A} (R : A -> A -> Prop) (a b : option A) : Prop :=
  match a, b with Some x, Some y => R x y | None, None => True | _, _ => False end.

Lemma sim_lookup d1 d2 k : sim d1 d2 -> orel sim_e (get_entry d1 k) (get_entry d2 k).
Proof.
  unfold sim, get_entry. induction 1 as [|[k1 e1] [k2 e2] l1 l2 [Hk He] _ IH]; cbn [alookup orel]; [exact I|].
  cbn [fst snd] in *. subst k2. destruct (beq k k1); [exact He|exact IH].
Qed.
Lemma sim_aremove k l1 l2 : Forall2 sim_kv l1 l2 -> Forall2 sim_kv (aremove k l1) (aremove k l2).
Proof.
  induction 1 as [|[k1 e1] [k2 e2] l1 l2 [Hk He] _ IH]; cbn [aremove]; [constructor|].
  cbn [fst snd] in *. subst k2. destruct (beq k k1); [exact IH|]. constructor; [split; [reflexivity|exact He]|exact IH].
Qed.
Lemma sim_put d1 d2 k e1 e2 : sim d1 d2 -> sim_e e1 e2 -> sim (put_entry d1 k e1) (put_entry d2 k e2).
Proof.
  unfold sim, put_entry, aset. cbn [d_data]. intros H He.
  constructor; [split; [reflexivity|exact He]|apply sim_aremove; exact H].
Qed.
Lemma sim_del d1 d2 k : sim d1 d2 -> sim (del_entry d1 k) (del_entry d2 k).
Proof. unfold sim, del_entry. cbn [d_data]. apply sim_aremove. Qed.
Lemma sim_index_set_l d1 d2 k t : sim d1 d2 -> sim (index_set d1 k t) d2. Proof. exact (fun H => H). Qed.
Lemma sim_index_set_r d1 d2 k t : sim d1 d2 -> sim d1 (index_set d2 k t). Proof. exact (fun H => H). Qed.
Lemma sim_index_del_l d1 d2 k : sim d1 d2 -> sim (index_del d1 k) d2. Proof. exact (fun H => H). Qed.
Lemma sim_index_del_r d1 d2 k : sim d1 d2 -> sim d1 (index_del d2 k). Proof. exact (fun H => H). Qed.

Lemma sim_set_value t1 t2 d1 d2 k v ttl :
  sim d1 d2 -> sim (set_value t1 d1 k v ttl) (set_value t2 d2 k v ttl).
Proof.
  intros H. unfold set_value. destruct ttl.
  - apply sim_index_set_l, sim_index_set_r, sim_put; [exact H|split; reflexivity].
  - apply sim_put; [exact H|split; reflexivity].
Qed.

(** ---- without expired entries the clock is invisible ---- *)
Lemma fresh_entry now d k e : fresh now d = true -> get_entry d k = Some e -> expired now e = false.
Proof.
  intros Hf He. pose proof (fresh_not_expired now d k Hf) as H. unfold was_expired in H. rewrite He in H. exact H.
Qed.
Lemma exists_sim t1 t2 d1 d2 k :
  sim d1 d2 -> fresh t1 d1 = true -> fresh t2 d2 = true -> eng_exists t2 d2 k = eng_exists t1 d1 k.
Proof.
  intros H F1 F2. unfold eng_exists. pose proof (sim_lookup d1 d2 k H) as R.
  destruct (get_entry d1 k) as [e1|] eqn:E1, (get_entry d2 k) as [e2|] eqn:E2; cbn [orel] in R; try contradiction; [|reflexivity].
  rewrite (fresh_entry _ _ _ _ F1 E1), (fresh_entry _ _ _ _ F2 E2). reflexivity.
Qed.
Lemma eng_get_fresh now d k : fresh now d = true ->
  eng_get now d k = (match get_entry d k with Some e => Found (e_val e) | None => NotFound end, d).
Proof.
  intros F. unfold eng_get. destruct (get_entry d k) as [e|] eqn:E; [|reflexivity].
  rewrite (fresh_entry _ _ _ _ F E). reflexivity.
Qed.

(** ---- the generic single-key engine functions of lists / sets / hashes ---- *)
Lemma on_key_sim d1 d2 k f : sim d1 d2 ->
  fst (on_key d1 k f) = fst (on_key d2 k f) /\ sim (snd (on_key d1 k f)) (snd (on_key d2 k f)).
Proof.
  intros H. unfold on_key. pose proof (sim_lookup d1 d2 k H) as R.
  destruct (get_entry d1 k) as [e1|] eqn:E1, (get_entry d2 k) as [e2|] eqn:E2; cbn [orel] in R; try contradiction.
  - destruct R as [Rv Rt]. cbn [option_map]. rewrite Rv. destruct (f (Some (e_val e2))) as [r u]. cbn [fst snd].
    split; [reflexivity|]. destruct u; cbn [apply_upd]; [exact H| |apply sim_del; exact H].
    apply sim_put; [exact H|]. split; [reflexivity|exact Rt].
  - cbn [option_map]. destruct (f None) as [r u]. cbn [fst snd].
    split; [reflexivity|]. destruct u; cbn [apply_upd]; [exact H| |apply sim_del; exact H].
    apply sim_put; [exact H|apply sim_e_refl].
Qed.

(** handlers of the shape "parse the arguments, then one engine call on one key":
    the parse does not look at the database, so both sides take the same branch *)
Ltac two_sided H :=
  repeat match goal with
  | |- context [if ?c then _ else _] => destruct c
  | |- context [match ?x with _ => _ end] => destruct x
  end;
  cbn [snd]; try exact H; try (apply on_key_sim; exact H).

Lemma h_push_sim l d1 d2 parts : sim d1 d2 -> sim (snd (h_push l d1 parts)) (snd (h_push l d2 parts)).
Proof. intros H. unfold h_push. two_sided H. Qed.
Lemma h_key1_sim f d1 d2 parts : sim d1 d2 -> sim (snd (h_key1 f d1 parts)) (snd (h_key1 f d2 parts)).
Proof. intros H. unfold h_key1. two_sided H. Qed.
Lemma h_key_bulk_sim f d1 d2 parts : sim d1 d2 -> sim (snd (h_key_bulk f d1 parts)) (snd (h_key_bulk f d2 parts)).
Proof. intros H. unfold h_key_bulk. two_sided H. Qed.
Lemma h_range_sim f d1 d2 parts : sim d1 d2 -> sim (snd (h_range f d1 parts)) (snd (h_range f d2 parts)).
Proof. intros H. unfold h_range. two_sided H. Qed.
Lemma h_lindex_sim d1 d2 parts : sim d1 d2 -> sim (snd (h_lindex d1 parts)) (snd (h_lindex d2 parts)).
Proof. intros H. unfold h_lindex. two_sided H. Qed.
Lemma h_int_bulk_sim f d1 d2 parts : sim d1 d2 -> sim (snd (h_int_bulk f d1 parts)) (snd (h_int_bulk f d2 parts)).
Proof. intros H. unfold h_int_bulk. two_sided H. Qed.
Lemma h_sadd_sim d1 d2 parts : sim d1 d2 -> sim (snd (h_sadd d1 parts)) (snd (h_sadd d2 parts)).
Proof. intros H. unfold h_sadd. two_sided H. Qed.
Lemma h_skipping_sim f d1 d2 parts : sim d1 d2 -> sim (snd (h_skipping f d1 parts)) (snd (h_skipping f d2 parts)).
Proof. intros H. unfold h_skipping. two_sided H. Qed.
Lemma h_srandmember_sim d1 d2 parts o : sim d1 d2 -> sim (snd (h_srandmember d1 parts o)) (snd (h_srandmember d2 parts o)).
Proof. intros H. unfold h_srandmember. two_sided H. Qed.
Lemma h_spop_sim d1 d2 parts o : sim d1 d2 -> sim (snd (h_spop d1 parts o)) (snd (h_spop d2 parts o)).
Proof. intros H. unfold h_spop. two_sided H. Qed.
Lemma h_hset_sim b d1 d2 parts : sim d1 d2 -> sim (snd (h_hset b d1 parts)) (snd (h_hset b d2 parts)).
Proof. intros H. unfold h_hset. two_sided H. Qed.
Lemma h_hmget_sim d1 d2 parts : sim d1 d2 -> sim (snd (h_hmget d1 parts)) (snd (h_hmget d2 parts)).
Proof. intros H. unfold h_hmget. two_sided H. Qed.
Lemma h_hincrby_sim d1 d2 parts : sim d1 d2 -> sim (snd (h_hincrby d1 parts)) (snd (h_hincrby d2 parts)).
Proof. intros H. unfold h_hincrby. two_sided H. Qed.
(** SUNION / SINTER / SDIFF never change the database *)
Lemma h_setalg_sim f d1 d2 parts : sim d1 d2 -> sim (snd (h_setalg f d1 parts)) (snd (h_setalg f d2 parts)).
Proof.
  intros H. destruct (h_setalg f d1 parts) as [r1 x1] eqn:E1. destruct (h_setalg f d2 parts) as [r2 x2] eqn:E2.
  rewrite (h_setalg_keep _ _ _ _ _ E1), (h_setalg_keep _ _ _ _ _ E2). exact H.
Qed.

Lemma exec_lists_sim t1 t2 d1 d2 name parts o r1 r2 x1 x2 :
  sim d1 d2 -> exec_lists t1 d1 name parts o = Some (r1, x1) -> exec_lists t2 d2 name parts o = Some (r2, x2) ->
  sim x1 x2.
Proof.
  unfold exec_lists. intros H E1 E2.
  repeat match type of E1 with
  | (if ?c then _ else _) = _ => destruct c
  end; try discriminate; inversion E1 as [A1]; inversion E2 as [A2]; clear E1 E2;
  match goal with
  | A1 : ?h1 = (r1, x1), A2 : ?h2 = (r2, x2) |- _ =>
      change x1 with (snd (r1, x1)); change x2 with (snd (r2, x2)); rewrite <- A1, <- A2
  end;
  auto using h_push_sim, h_key1_sim, h_key_bulk_sim, h_range_sim, h_lindex_sim, h_int_bulk_sim, h_sadd_sim,
    h_skipping_sim, h_srandmember_sim, h_spop_sim, h_hset_sim, h_hmget_sim, h_hincrby_sim, h_setalg_sim.
Qed.

(** ---- string / key family ---- *)
Ltac sim_close H :=
  cbn [snd fst];
  repeat first [apply sim_index_set_l | apply sim_index_set_r | apply sim_index_del_l | apply sim_index_del_r];
  first [ exact H | apply sim_refl | apply sim_empty
        | (apply sim_set_value; exact H)
        | (apply sim_put; [exact H | split; [reflexivity | first [assumption | reflexivity]]])
        | (apply sim_del; exact H) ].
(** both sides look the key up: related entries or both absent *)
Ltac sim_get H :=
  match goal with
  | |- context [get_entry ?d2 ?k] =>
      match type of H with
      | sim ?d1 d2 =>
          let R := fresh "R" in
          pose proof (sim_lookup d1 d2 k H) as R;
          destruct (get_entry d1 k) eqn:?, (get_entry d2 k) eqn:?; cbn [orel] in R; try contradiction;
          [ let Rv := fresh "Rv" in let Rt := fresh "Rt" in destruct R as [Rv Rt]; try rewrite Rv in * | ]
      end
  end.
Ltac sim_branch :=
  match goal with
  | |- context [if ?c then _ else _] => destruct c
  | |- context [match ?x with _ => _ end] => destruct x
  end.

Section Strings.
Variables (t1 t2 : Z) (d1 d2 : db).
Hypothesis H : sim d1 d2.
Hypothesis F1 : fresh t1 d1 = true.
Hypothesis F2 : fresh t2 d2 = true.

Ltac ex := match goal with |- context [eng_exists t2 d2 ?k] => rewrite (exists_sim t1 t2 d1 d2 k H F1 F2) end.
Ltac go := repeat first [ex | sim_get H | sim_branch].

Lemma h_set_sim parts : sim (snd (h_set t1 d1 parts)) (snd (h_set t2 d2 parts)).
Proof. unfold h_set. go; sim_close H. Qed.
Lemma h_setnx_sim parts : sim (snd (h_setnx t1 d1 parts)) (snd (h_setnx t2 d2 parts)).
Proof. unfold h_setnx. go; sim_close H. Qed.
Lemma h_setex_sim m parts : sim (snd (h_setex m t1 d1 parts)) (snd (h_setex m t2 d2 parts)).
Proof. unfold h_setex. repeat sim_branch; sim_close H. Qed.
Lemma h_exists_sim parts : sim (snd (h_exists t1 d1 parts)) (snd (h_exists t2 d2 parts)).
Proof. unfold h_exists. repeat sim_branch; sim_close H. Qed.
Lemma h_flushdb_sim parts : sim (snd (h_flushdb d1 parts)) (snd (h_flushdb d2 parts)).
Proof. unfold h_flushdb. repeat sim_branch; sim_close H. Qed.
Lemma h_append_sim parts : sim (snd (h_append d1 parts)) (snd (h_append d2 parts)).
Proof. unfold h_append. go; sim_close H. Qed.
Lemma h_setrange_sim parts : sim (snd (h_setrange d1 parts)) (snd (h_setrange d2 parts)).
Proof. unfold h_setrange. go; sim_close H. Qed.

Lemma eng_incr_by_sim k inc : sim (snd (eng_incr_by d1 k inc)) (snd (eng_incr_by d2 k inc)).
Proof. unfold eng_incr_by. go; sim_close H. Qed.
Lemma snd_reply_incr x : snd (reply_incr x) = snd x.
Proof. destruct x as [[n|] d]; reflexivity. Qed.
Lemma h_incr_sim b delta parts : sim (snd (h_incr b delta d1 parts)) (snd (h_incr b delta d2 parts)).
Proof. unfold h_incr. go; try sim_close H; rewrite !snd_reply_incr; apply eng_incr_by_sim. Qed.
Lemma h_incrby_sim parts : sim (snd (h_incrby d1 parts)) (snd (h_incrby d2 parts)).
Proof. unfold h_incrby. go; try sim_close H; rewrite !snd_reply_incr; apply eng_incr_by_sim. Qed.
Lemma h_decrby_sim parts : sim (snd (h_decrby d1 parts)) (snd (h_decrby d2 parts)).
Proof. unfold h_decrby. go; try sim_close H; rewrite !snd_reply_incr; apply eng_incr_by_sim. Qed.
Lemma eng_persist_sim k : fst (eng_persist d1 k) = fst (eng_persist d2 k) /\ sim (snd (eng_persist d1 k)) (snd (eng_persist d2 k)).
Proof.
  unfold eng_persist. pose proof (sim_lookup d1 d2 k H) as R.
  destruct (get_entry d1 k) as [e1|], (get_entry d2 k) as [e2|]; cbn [orel] in R; try contradiction;
    [|split; [reflexivity|exact H]].
  destruct R as [Rv Rt]. unfold has_ttl in Rt.
  destruct (e_exp e1), (e_exp e2); try discriminate; cbn [fst snd]; (split; [reflexivity|]); [|exact H].
  apply sim_index_del_l, sim_index_del_r, sim_put; [exact H|split; [exact Rv|reflexivity]].
Qed.
Lemma h_persist_sim parts : sim (snd (h_persist d1 parts)) (snd (h_persist d2 parts)).
Proof.
  unfold h_persist. destruct (negb (nparts parts =? 2)); [sim_close H|].
  destruct (nth_arg parts 1) as [k|]; [|sim_close H].
  destruct (eng_persist_sim k) as [_ Hs]. destruct (eng_persist d1 k), (eng_persist d2 k). exact Hs.
Qed.

Lemma eng_delete_sim k : fst (eng_delete d1 k) = fst (eng_delete d2 k) /\ sim (snd (eng_delete d1 k)) (snd (eng_delete d2 k)).
Proof.
  unfold eng_delete. pose proof (sim_lookup d1 d2 k H) as R.
  destruct (get_entry d1 k), (get_entry d2 k); cbn [orel] in R; try contradiction; cbn [fst snd];
    (split; [reflexivity|]); [|exact H].
  apply sim_index_del_l, sim_index_del_r, sim_del. exact H.
Qed.
Lemma eng_expire_sim k ms : fst (eng_expire t1 d1 k ms) = fst (eng_expire t2 d2 k ms) /\
  sim (snd (eng_expire t1 d1 k ms)) (snd (eng_expire t2 d2 k ms)).
Proof.
  unfold eng_expire. pose proof (sim_lookup d1 d2 k H) as R.
  destruct (get_entry d1 k) as [e1|], (get_entry d2 k) as [e2|]; cbn [orel] in R; try contradiction; cbn [fst snd];
    (split; [reflexivity|]); [|exact H].
  destruct R as [Rv _]. apply sim_index_set_l, sim_index_set_r, sim_put; [exact H|split; [exact Rv|reflexivity]].
Qed.
Lemma eng_rename_sim o n : fst (eng_rename d1 o n) = fst (eng_rename d2 o n) /\
  sim (snd (eng_rename d1 o n)) (snd (eng_rename d2 o n)).
Proof.
  unfold eng_rename. pose proof (sim_lookup d1 d2 o H) as R.
  destruct (get_entry d1 o) as [e1|], (get_entry d2 o) as [e2|]; cbn [orel] in R; try contradiction; cbn [fst snd];
    (split; [reflexivity|]); [|exact H].
  apply sim_put; [|exact R].
  destruct (e_exp e1), (e_exp e2);
    repeat first [apply sim_index_set_l | apply sim_index_set_r | apply sim_index_del_l | apply sim_index_del_r];
    apply sim_del; exact H.
Qed.
End Strings.

Lemma del_loop_sim : forall args d1 d2 n, sim d1 d2 ->
  fst (del_loop d1 args n) = fst (del_loop d2 args n) /\ sim (snd (del_loop d1 args n)) (snd (del_loop d2 args n)).
Proof.
  induction args as [|a args IH]; intros d1 d2 n H; cbn [del_loop]; [split; [reflexivity|exact H]|].
  destruct a; try (apply IH; exact H).
  destruct (eng_delete_sim d1 d2 H b) as [Hf Hs].
  destruct (eng_delete d1 b) as [b1 x1], (eng_delete d2 b) as [b2 x2]. cbn [fst snd] in *. subst b2.
  destruct b1; apply IH; exact Hs.
Qed.
Lemma h_del_sim d1 d2 parts : sim d1 d2 -> sim (snd (h_del d1 parts)) (snd (h_del d2 parts)).
Proof.
  intros H. unfold h_del. destruct (nparts parts <? 2); [exact H|].
  destruct (del_loop_sim (tl parts) d1 d2 0 H) as [_ Hs].
  destruct (del_loop d1 (tl parts) 0), (del_loop d2 (tl parts) 0). exact Hs.
Qed.
Lemma mset_loop_sim t1 t2 : forall args d1 d2, sim d1 d2 ->
  sim (snd (mset_loop t1 d1 args)) (snd (mset_loop t2 d2 args)).
Proof.
  intros args. remember (length args) as n eqn:Hn. revert args Hn.
  induction n as [n IH] using lt_wf_ind. intros args Hn d1 d2 H.
  destruct args as [|a rest]; cbn [mset_loop]; [exact H|].
  destruct a; try exact H. destruct rest as [|v rest']; [exact H|]. destruct v; try exact H.
  eapply (IH (length rest')); [subst n; cbn [length]; lia|reflexivity|]. apply sim_set_value. exact H.
Qed.
Lemma h_mset_sim t1 t2 d1 d2 parts : sim d1 d2 -> sim (snd (h_mset t1 d1 parts)) (snd (h_mset t2 d2 parts)).
Proof.
  intros H. unfold h_mset. destruct ((nparts parts <? 3) || (nparts parts mod 2 =? 0)); [exact H|].
  destruct (mset_valid (tl parts)); [|exact H].
  apply mset_loop_sim. exact H.
Qed.

Section Strings2.
Variables (t1 t2 : Z) (d1 d2 : db).
Hypothesis H : sim d1 d2.
Hypothesis F1 : fresh t1 d1 = true.
Hypothesis F2 : fresh t2 d2 = true.
Ltac ex := match goal with |- context [eng_exists t2 d2 ?k] => rewrite (exists_sim t1 t2 d1 d2 k H F1 F2) end.

Lemma h_expire_sim parts : sim (snd (h_expire t1 d1 parts)) (snd (h_expire t2 d2 parts)).
Proof.
  unfold h_expire. destruct (negb (nparts parts =? 3)); [exact H|].
  destruct (nth_arg parts 1) as [k|]; [|exact H]. destruct (nth_arg parts 2) as [a|]; [|exact H].
  destruct (parse_i64 a) as [s|]; [|exact H]. destruct (s <=? 0).
  - destruct (eng_delete_sim d1 d2 H k) as [_ Hs]. destruct (eng_delete d1 k), (eng_delete d2 k). exact Hs.
  - destruct (ttl_ok (s * 1000)); [|exact H].
    destruct (eng_expire_sim t1 t2 d1 d2 H k (s * 1000)) as [_ Hs].
    destruct (eng_expire t1 d1 k (s * 1000)), (eng_expire t2 d2 k (s * 1000)). exact Hs.
Qed.
Lemma h_pexpire_sim parts : sim (snd (h_pexpire t1 d1 parts)) (snd (h_pexpire t2 d2 parts)).
Proof.
  unfold h_pexpire. destruct (negb (nparts parts =? 3)); [exact H|].
  destruct (nth_arg parts 1) as [k|]; [|exact H]. destruct (nth_arg parts 2) as [a|]; [|exact H].
  destruct (parse_u64 a) as [ms|]; [|exact H]. destruct (ttl_ok ms); [|exact H].
  destruct (eng_expire_sim t1 t2 d1 d2 H k ms) as [_ Hs].
  destruct (eng_expire t1 d1 k ms), (eng_expire t2 d2 k ms). exact Hs.
Qed.
Lemma h_rename_sim parts : sim (snd (h_rename d1 parts)) (snd (h_rename d2 parts)).
Proof.
  unfold h_rename. destruct (negb (nparts parts =? 3)); [exact H|].
  destruct (nth_arg parts 1) as [o|]; [|exact H]. destruct (nth_arg parts 2) as [n|]; [|exact H].
  destruct (eng_rename_sim d1 d2 H o n) as [Hf Hs].
  destruct (eng_rename d1 o n) as [b1 x1], (eng_rename d2 o n) as [b2 x2]. cbn [fst snd] in *. subst b2.
  destruct b1; exact Hs.
Qed.
Lemma h_renamenx_sim parts : sim (snd (h_renamenx t1 d1 parts)) (snd (h_renamenx t2 d2 parts)).
Proof.
  unfold h_renamenx. destruct (negb (nparts parts =? 3)); [exact H|].
  destruct (nth_arg parts 1) as [o|]; [|exact H]. destruct (nth_arg parts 2) as [n|]; [|exact H].
  repeat ex. destruct (negb (eng_exists t1 d1 o)); [exact H|]. destruct (eng_exists t1 d1 n); [exact H|].
  destruct (eng_rename_sim d1 d2 H o n) as [Hf Hs].
  destruct (eng_rename d1 o n) as [b1 x1], (eng_rename d2 o n) as [b2 x2]. cbn [fst snd] in *. subst b2.
  destruct b1; exact Hs.
Qed.
(** reads through get: nothing has expired, so nothing is removed, and both sides see the same value *)
Lemma get_string_sim k :
  get_string t1 d1 k = (fst (get_string t1 d1 k), d1) /\ get_string t2 d2 k = (fst (get_string t2 d2 k), d2) /\
  fst (get_string t1 d1 k) = fst (get_string t2 d2 k).
Proof.
  unfold get_string. rewrite (eng_get_fresh t1 d1 k F1), (eng_get_fresh t2 d2 k F2).
  pose proof (sim_lookup d1 d2 k H) as R.
  destruct (get_entry d1 k) as [e1|], (get_entry d2 k) as [e2|]; cbn [orel] in R; try contradiction.
  - destruct R as [Rv _]. rewrite Rv. destruct (e_val e2); auto.
  - auto.
Qed.
Lemma h_getset_sim parts : sim (snd (h_getset t1 d1 parts)) (snd (h_getset t2 d2 parts)).
Proof.
  unfold h_getset. destruct (negb (nparts parts =? 3)); [exact H|].
  destruct (nth_arg parts 1) as [k|]; [|exact H]. destruct (nth_arg parts 2) as [v|]; [|exact H].
  destruct (get_string_sim k) as (E1 & E2 & E3). rewrite E1, E2, <- E3.
  destruct (fst (get_string t1 d1 k)); cbn [snd]; [apply sim_set_value|]; exact H.
Qed.
End Strings2.

Lemma inert_pair_sim t1 t2 d1 d2 (x1 x2 : db) :
  sim d1 d2 -> fresh t1 d1 = true -> fresh t2 d2 = true ->
  lazy_removed t1 d1 x1 -> lazy_removed t2 d2 x2 -> sim x1 x2.
Proof. intros H F1 F2 L1 L2. rewrite (lr_fresh _ _ _ F1 L1), (lr_fresh _ _ _ F2 L2). exact H. Qed.

Ltac to_snd A1 A2 :=
  match type of A1 with _ = (?r1, ?x1) => match type of A2 with _ = (?r2, ?x2) =>
    change x1 with (snd (r1, x1)); change x2 with (snd (r2, x2)); rewrite <- A1, <- A2 end end.

Lemma exec_strings_sim t1 t2 d1 d2 name parts r1 r2 x1 x2 :
  sim d1 d2 -> fresh t1 d1 = true -> fresh t2 d2 = true ->
  exec_strings t1 d1 name parts = Some (r1, x1) -> exec_strings t2 d2 name parts = Some (r2, x2) ->
  sim x1 x2.
Proof.
  unfold exec_strings. intros H F1 F2 E1 E2.
  repeat match type of E1 with
  | (if ?c then _ else _) = _ => destruct c
  end; try discriminate; inversion E1 as [A1]; inversion E2 as [A2]; clear E1 E2;
  first
  [ (* reads: inert on both sides *)
    (eapply (inert_pair_sim t1 t2 d1 d2); [exact H|exact F1|exact F2| |];
     eauto using h_get_inert, h_exists_inert, h_ttl_inert, h_pttl_inert, h_mget_inert, h_strlen_inert,
       h_getrange_inert, h_type_inert, h_keys_inert, h_dbsize_inert; fail)
  | (to_snd A1 A2;
     auto using h_set_sim, h_setnx_sim, h_setex_sim, h_flushdb_sim, h_append_sim, h_setrange_sim, h_incr_sim,
       h_incrby_sim, h_decrby_sim, h_persist_sim, h_del_sim, h_mset_sim, h_expire_sim, h_pexpire_sim,
       h_rename_sim, h_renamenx_sim, h_getset_sim) ].
Qed.

(** ---- streams: XADD / XTRIM / XDEL (the group commands stamp pending entries with the clock
    and are outside this part) ---- *)
Definition sres_rel (a b : Streams.sres) : Prop :=
  match a, b with
  | SStream e1 s1, SStream e2 s2 => s1 = s2 /\ has_ttl e1 = has_ttl e2
  | Streams.SWrong, Streams.SWrong => True
  | SMissing, SMissing => True
  | _, _ => False
  end.
Lemma raw_stream_sim d1 d2 k : sim d1 d2 -> sres_rel (raw_stream d1 k) (raw_stream d2 k).
Proof.
  intros H. unfold raw_stream. pose proof (sim_lookup d1 d2 k H) as R.
  destruct (get_entry d1 k) as [e1|], (get_entry d2 k) as [e2|]; cbn [orel] in R; try contradiction; [|exact I].
  destruct R as [Rv Rt]. rewrite Rv. destruct (e_val e2); cbn [sres_rel]; auto.
Qed.
Lemma put_stream_sim d1 d2 k e1 e2 s : sim d1 d2 -> has_ttl e1 = has_ttl e2 ->
  sim (put_stream d1 k e1 s) (put_stream d2 k e2 s).
Proof. intros H Ht. unfold put_stream. apply sim_put; [exact H|split; [reflexivity|exact Ht]]. Qed.

Ltac raw_tac H k :=
  let R := fresh "R" in
  match type of H with sim ?d1 ?d2 =>
    pose proof (raw_stream_sim d1 d2 k H) as R;
    destruct (raw_stream d1 k) as [? ?| |], (raw_stream d2 k) as [? ?| |]; cbn [sres_rel] in R; try contradiction;
    [destruct R as [? ?]; subst | | ]
  end.
Tactic Notation "raw" constr(H) constr(k) := raw_tac H k.

Lemma h_xadd_sim d1 d2 parts o : sim d1 d2 -> sim (snd (h_xadd d1 parts o)) (snd (h_xadd d2 parts o)).
Proof.
  intros H. unfold h_xadd.
  destruct ((nparts parts <? 4) || negb ((nparts parts - 3) mod 2 =? 0)); [exact H|].
  destruct (nth_error parts 1) as [f1|]; destruct (nth_error parts 2) as [idf|];
    try exact H; try (destruct f1; exact H).
  destruct f1 as [| | |k| | | | | | | | |]; try exact H.
  destruct (arg_bytes idf) as [idb|]; [|exact H].
  destruct (parse_fields (skipn 3 parts) []) as [f|]; [|exact H].
  destruct (beq idb (bs "*")).
  - raw H k; try exact H.
    + destruct (oracle_sid o); [|destruct (_ && _); exact H].
      destruct (auto_clock _ _); [|exact H]. destruct (st_add_auto _ _ _) as [[? ?]|]; [|exact H].
      cbn [snd]. apply put_stream_sim; assumption.
    + destruct (oracle_sid o); [|destruct (_ && _); exact H].
      destruct (auto_clock _ _); [|exact H]. destruct (st_add_auto _ _ _) as [[? ?]|]; [|exact H].
      cbn [snd]. apply put_stream_sim; [exact H|reflexivity].
  - destruct (sid_of_bytes idb) as [id|]; [|exact H].
    destruct ((fst id =? 0) && (snd id =? 0)); [exact H|].
    raw H k; try exact H.
    + destruct (st_add_with_id _ _ _); [|exact H]. cbn [snd]. apply put_stream_sim; assumption.
    + destruct (st_add_with_id _ _ _); [|exact H]. cbn [snd]. apply sim_put; [exact H|apply sim_e_refl].
Qed.
Lemma h_xtrim_sim d1 d2 parts : sim d1 d2 -> sim (snd (h_xtrim d1 parts)) (snd (h_xtrim d2 parts)).
Proof.
  intros H. unfold h_xtrim. destruct (nparts parts <? 4); [exact H|].
  destruct (nth_arg parts 1) as [k|]; [|exact H]. destruct (nth_arg parts 2) as [st|]; [|exact H].
  destruct (negb _); [exact H|]. destruct (xtrim_maxlen parts) as [n|]; [|exact H].
  raw H k; try exact H. destruct (st_trim _ n) as [t s']. cbn [snd].
  destruct (0 <? t); [apply put_stream_sim; assumption|exact H].
Qed.
Lemma h_xdel_sim d1 d2 parts : sim d1 d2 -> sim (snd (h_xdel d1 parts)) (snd (h_xdel d2 parts)).
Proof.
  intros H. unfold h_xdel. destruct (nparts parts <? 3); [exact H|].
  destruct (nth_arg parts 1) as [k|]; [|exact H]. destruct (parse_ids _) as [ids|]; [|exact H].
  raw H k; try exact H. destruct (st_delete _ ids) as [n s']. cbn [snd].
  destruct (0 <? n); [apply put_stream_sim; assumption|exact H].
Qed.

(** commands outside the clock-independent part: XGROUP .. XCLAIM stamp the clock into the value;
    for the sorted-set writes and scripts the handler-by-handler proof is not done here *)
Definition untimed_excluded : list bytes :=
  [bs "XGROUP"; bs "XREADGROUP"; bs "XACK"; bs "XCLAIM";
   bs "ZADD"; bs "ZREM"; bs "ZINCRBY"; bs "ZPOPMIN"; bs "ZPOPMAX"; bs "EVAL"; bs "EVALSHA"; bs "SCRIPT"].

Lemma exec_streams_sim t1 t2 d1 d2 name parts o r1 r2 x1 x2 :
  mem_name name untimed_excluded = false ->
  sim d1 d2 -> fresh t1 d1 = true -> fresh t2 d2 = true ->
  exec_streams t1 d1 name parts o = Some (r1, x1) -> exec_streams t2 d2 name parts o = Some (r2, x2) ->
  sim x1 x2.
Proof.
  unfold exec_streams. intros Hc H F1 F2 E1 E2.
  repeat match type of E1 with
  | (if beq ?n ?c then _ else _) = _ =>
      let E := fresh "E" in destruct (beq n c) eqn:E;
      [apply beq_eq in E; subst n; try (exfalso; vm_compute in Hc; discriminate Hc)|clear E]
  end; try discriminate; inversion E1 as [A1]; inversion E2 as [A2]; clear E1 E2;
  first
  [ (eapply (inert_pair_sim t1 t2 d1 d2); [exact H|exact F1|exact F2| |];
     eauto using h_xrange_inert, h_xrevrange_inert, h_xlen_inert, h_xread_inert, h_xpending_inert, h_xinfo_inert; fail)
  | (to_snd A1 A2; auto using h_xadd_sim, h_xtrim_sim, h_xdel_sim) ].
Qed.
Lemma exec_zsets_sim t1 t2 d1 d2 name parts o r1 r2 x1 x2 :
  mem_name name untimed_excluded = false ->
  sim d1 d2 -> fresh t1 d1 = true -> fresh t2 d2 = true ->
  exec_zsets t1 d1 name parts o = Some (r1, x1) -> exec_zsets t2 d2 name parts o = Some (r2, x2) ->
  sim x1 x2.
Proof.
  unfold exec_zsets. intros Hc H F1 F2 E1 E2.
  repeat match type of E1 with
  | (if beq ?n ?c then _ else _) = _ =>
      let E := fresh "E" in destruct (beq n c) eqn:E;
      [apply beq_eq in E; subst n; try (exfalso; vm_compute in Hc; discriminate Hc)|clear E]
  end; try discriminate; inversion E1 as [A1]; inversion E2 as [A2]; clear E1 E2;
  (eapply (inert_pair_sim t1 t2 d1 d2); [exact H|exact F1|exact F2| |];
   eauto using h_zscore_inert, h_zcard_inert, h_zrank_inert, h_zrange_inert, h_zrangebyscore_inert, h_zcount_inert).
Qed.
Lemma exec_scan_sim t1 t2 d1 d2 name parts o r1 r2 x1 x2 :
  sim d1 d2 -> fresh t1 d1 = true -> fresh t2 d2 = true ->
  exec_scan t1 d1 name parts o = Some (r1, x1) -> exec_scan t2 d2 name parts o = Some (r2, x2) -> sim x1 x2.
Proof.
  intros H F1 F2 E1 E2. eapply (inert_pair_sim t1 t2 d1 d2); eauto using exec_scan_inert.
Qed.
Lemma exec_scripts_sim t1 t2 d1 d2 name parts o r1 r2 x1 x2 :
  mem_name name untimed_excluded = false -> sim d1 d2 ->
  exec_scripts t1 d1 name parts o = Some (r1, x1) -> exec_scripts t2 d2 name parts o = Some (r2, x2) -> sim x1 x2.
Proof.
  unfold exec_scripts. intros Hc H E1 E2.
  destruct (beq name (bs "EVAL")) eqn:E.
  { apply beq_eq in E. subst name. vm_compute in Hc. discriminate Hc. }
  destruct (beq name (bs "EVALSHA") || beq name (bs "SCRIPT")); [|discriminate].
  inversion E1; inversion E2; subst. exact H.
Qed.

(** which dispatcher answers depends on the name only *)
Ltac dom_tac := repeat match goal with |- context [if ?c then _ else _] => destruct c end; split; intros; try discriminate; reflexivity.
Lemma exec_strings_dom t1 t2 d1 d2 name parts :
  exec_strings t1 d1 name parts = None <-> exec_strings t2 d2 name parts = None.
Proof. unfold exec_strings. dom_tac. Qed.
Lemma exec_lists_dom t1 t2 d1 d2 name parts o :
  exec_lists t1 d1 name parts o = None <-> exec_lists t2 d2 name parts o = None.
Proof. unfold exec_lists. dom_tac. Qed.
Lemma exec_zsets_dom t1 t2 d1 d2 name parts o :
  exec_zsets t1 d1 name parts o = None <-> exec_zsets t2 d2 name parts o = None.
Proof. unfold exec_zsets. dom_tac. Qed.
Lemma exec_streams_dom t1 t2 d1 d2 name parts o :
  exec_streams t1 d1 name parts o = None <-> exec_streams t2 d2 name parts o = None.
Proof. unfold exec_streams. dom_tac. Qed.
Lemma exec_scan_dom t1 t2 d1 d2 name parts o :
  exec_scan t1 d1 name parts o = None <-> exec_scan t2 d2 name parts o = None.
Proof. unfold exec_scan. dom_tac. Qed.
Lemma exec_scripts_dom t1 t2 d1 d2 name parts o :
  exec_scripts t1 d1 name parts o = None <-> exec_scripts t2 d2 name parts o = None.
Proof. unfold exec_scripts. dom_tac. Qed.

Ltac dom_case D :=
  try (destruct D as [Da Db]; first [specialize (Da eq_refl) | specialize (Db eq_refl)]; discriminate).
Lemma exec_db_sim t1 t2 d1 d2 name parts o :
  mem_name name untimed_excluded = false ->
  sim d1 d2 -> fresh t1 d1 = true -> fresh t2 d2 = true ->
  match exec_db t1 d1 name parts o, exec_db t2 d2 name parts o with
  | Some (_, x1), Some (_, x2) => sim x1 x2
  | None, None => True
  | _, _ => False
  end.
Proof.
  intros Hc H F1 F2. unfold exec_db.
  pose proof (exec_strings_dom t1 t2 d1 d2 name parts) as D.
  destruct (exec_strings t1 d1 name parts) as [[r1 x1]|] eqn:E1, (exec_strings t2 d2 name parts) as [[r2 x2]|] eqn:E2; dom_case D.
  { eapply exec_strings_sim; eauto. }
  clear D. pose proof (exec_lists_dom t1 t2 d1 d2 name parts o) as D.
  destruct (exec_lists t1 d1 name parts o) as [[r1 x1]|] eqn:E3, (exec_lists t2 d2 name parts o) as [[r2 x2]|] eqn:E4; dom_case D.
  { eapply exec_lists_sim; eauto. }
  clear D. pose proof (exec_zsets_dom t1 t2 d1 d2 name parts o) as D.
  destruct (exec_zsets t1 d1 name parts o) as [[r1 x1]|] eqn:E5, (exec_zsets t2 d2 name parts o) as [[r2 x2]|] eqn:E6; dom_case D.
  { eapply exec_zsets_sim; eauto. }
  clear D. pose proof (exec_streams_dom t1 t2 d1 d2 name parts o) as D.
  destruct (exec_streams t1 d1 name parts o) as [[r1 x1]|] eqn:E7, (exec_streams t2 d2 name parts o) as [[r2 x2]|] eqn:E8; dom_case D.
  { eapply exec_streams_sim; eauto. }
  clear D. pose proof (exec_scan_dom t1 t2 d1 d2 name parts o) as D.
  destruct (exec_scan t1 d1 name parts o) as [[r1 x1]|] eqn:E9, (exec_scan t2 d2 name parts o) as [[r2 x2]|] eqn:E10; dom_case D.
  { eapply exec_scan_sim; eauto. }
  clear D. pose proof (exec_scripts_dom t1 t2 d1 d2 name parts o) as D.
  destruct (exec_scripts t1 d1 name parts o) as [[r1 x1]|] eqn:E11, (exec_scripts t2 d2 name parts o) as [[r2 x2]|] eqn:E12; dom_case D.
  { eapply exec_scripts_sim; eauto. }
  exact I.
Qed.

(** ---- all sixteen databases ---- *)
Definition sims (a b : list db) : Prop := Forall2 sim a b.
Lemma sims_refl l : sims l l.
Proof. induction l; constructor; [apply sim_refl|assumption]. Qed.
Lemma sims_nth : forall a b i, sims a b -> sim (nth i a empty_db) (nth i b empty_db).
Proof. intros a b i H. revert i. induction H; intros [|i]; cbn [nth]; try apply sim_empty; auto. Qed.
Lemma sims_list_set : forall a b i x y, sims a b -> sim x y -> sims (list_set a i x) (list_set b i y).
Proof. intros a b i x y H. revert i. induction H; intros [|i] Hs; cbn [list_set]; constructor; auto. apply IHForall2. exact Hs. Qed.
Lemma sims_flush a b : sims a b -> sims (map (fun _ => empty_db) a) (map (fun _ => empty_db) b).
Proof. induction 1; cbn [map]; constructor; [apply sim_empty|assumption]. Qed.
Lemma sims_datasets a b : sims a b -> map dataset a = map dataset b.
Proof. induction 1; cbn [map]; [reflexivity|]. rewrite (sim_dataset _ _ H), IHForall2. reflexivity. Qed.

(** one command at two clock readings *)
Lemma step_dbs_sim t1 t2 a b dbi parts o :
  mem_name (cmd_name parts) untimed_excluded = false ->
  sims a b -> fresh_all t1 a = true -> fresh_all t2 b = true ->
  sims (step_dbs t1 a dbi parts o) (step_dbs t2 b dbi parts o).
Proof.
  intros Hc H F1 F2. unfold step_dbs, cmd_name in *.
  destruct parts as [|first rest]; [exact H|]. destruct first; try exact H.
  rewrite (pre_dbs_fresh t1 a dbi _ _ F1), (pre_dbs_fresh t2 b dbi _ _ F2). unfold dstep_dbs.
  repeat match goal with |- context [if ?c then _ else _] => destruct c end; try exact H; try (apply sims_flush; exact H).
  pose proof (exec_db_sim t1 t2 _ _ (upper b0) (FBulk b0 :: rest) o Hc (sims_nth a b (Z.to_nat dbi) H)
                (fresh_all_nth t1 a _ F1) (fresh_all_nth t2 b _ F2)) as X.
  destruct (exec_db t1 (nth (Z.to_nat dbi) a empty_db) (upper b0) (FBulk b0 :: rest) o) as [[? ?]|],
           (exec_db t2 (nth (Z.to_nat dbi) b empty_db) (upper b0) (FBulk b0 :: rest) o) as [[? ?]|];
    try contradiction; [apply sims_list_set; assumption|exact H].
Qed.

(** ================= the replay theorem with a clock ================= *)
Definition timeless (x : tcmd) : bool := negb (mem_name (cmd_name (snd (snd x))) untimed_excluded).
Theorem replay_any_time h now' :
  forallb (fun te => ev_ok (snd te)) h = true ->
  forallb timeless (trace_of h) = true ->
  live_fresh (trace_of h) dbs0 = true ->
  redo_fresh now' (aof_log (run_tevs h)) (0, dbs0) = true ->
  map dataset (s_dbs (replay now' (aof_log (run_tevs h)))) = map dataset (s_dbs (run_tevs h)).
Proof.
  intros Hok Ht Hl Hr. rewrite (history_file h Hok) in *. rewrite replay_redo.
  unfold run_tevs, trace_of in *.
  destruct (history_is_trace h (init_server None) linv_init Hok) as (H1 & _ & H3).
  rewrite H1. symmetry. apply sims_datasets.
  apply (trace_redo_rel sims now' timeless); auto; [|apply sims_refl|discriminate].
  intros t dbi p d1 d2 HP _ HR F1 F2. unfold timeless in HP. cbn [snd] in HP. apply negb_true_iff in HP.
  apply step_dbs_sim; assumption.
Qed.

(** non-vacuity: events spread over an hour in two databases, TTLs set, a transaction; redo a day later *)
Definition sample_timed : list tev :=
  [(0, EConn 1); (0, EConn 2);
   (1000, EFrame 1 (cmd [bs "SET"; bs "k"; bs "a"; bs "EX"; bs "100000"]));
   (1500, EFrame 2 (cmd [bs "SELECT"; bs "2"]));
   (2000, EFrame 2 (cmd [bs "MULTI"]));
   (2500, EFrame 2 (cmd [bs "RPUSH"; bs "l"; bs "x"; bs "y"]));
   (2600, EFrame 2 (cmd [bs "SETEX"; bs "t"; bs "90000"; bs "v"]));
   (60000, EFrame 1 (cmd [bs "GETSET"; bs "k"; bs "b"]));
   (3600000, EFrame 2 (cmd [bs "EXEC"]));
   (3600001, EFrame 1 (cmd [bs "XADD"; bs "x"; bs "1-1"; bs "f"; bs "v"]));
   (3600002, EFrame 2 (cmd [bs "EXPIRE"; bs "l"; bs "50"]));
   (3600003, EFrame 1 (cmd [bs "PEXPIRE"; bs "k"; bs "100000"]))].
Lemma sample_timed_ok :
  forallb (fun te => ev_ok (snd te)) sample_timed = true /\
  forallb timeless (trace_of sample_timed) = true /\
  live_fresh (trace_of sample_timed) dbs0 = true /\
  redo_fresh 86400000 (aof_log (run_tevs sample_timed)) (0, dbs0) = true /\
  len (aof_log (run_tevs sample_timed)) = 12 /\
  s_dbs (replay 86400000 (aof_log (run_tevs sample_timed))) <> s_dbs (run_tevs sample_timed).
Proof. repeat (apply conj; [vm_compute; reflexivity|]). intro H; vm_compute in H; discriminate H. Qed.

(** ================= re-sending the file over a connection IS the redo ================= *)
(** what the harness (and any external redo tool) does: the records of the file are sent as
    request frames over a fresh connection, i.e. through process_frame.  A logged name - and
    SELECT - is never transaction control and contains no blanks, so every frame goes straight
    to process_normal_command in the database the connection has selected: the result is
    [replay]. *)
Definition plain_name (u : bytes) : bool :=
  forallb (fun c => negb (is_space c)) u
  && negb (beq u (bs "MULTI")) && negb (beq u (bs "EXEC")) && negb (beq u (bs "DISCARD"))
  && negb (beq u (bs "WATCH")) && negb (beq u (bs "UNWATCH")) && negb (beq u (bs "AUTH")).
Lemma write_names_plain : forallb plain_name (bs "SELECT" :: write_commands) = true.
Proof. vm_compute. reflexivity. Qed.
Lemma bmem_In x l : bmem x l = true -> In x l.
Proof.
  induction l as [|y l IH]; cbn [bmem]; [discriminate|]. intros H. apply orb_prop in H as [H|H].
  - apply beq_eq in H. left. symmetry. exact H.
  - right. exact (IH H).
Qed.
Lemma is_space_upper1 c : is_space (upper1 c) = is_space c.
Proof. unfold is_space, upper1. destruct ((97 <=? c) && (c <=? 122)) eqn:E; [|reflexivity]. lia. Qed.
Lemma nospace_upper b : forallb (fun c => negb (is_space c)) (upper b) = forallb (fun c => negb (is_space c)) b.
Proof. unfold upper. induction b as [|c b IH]; [reflexivity|]. cbn [map forallb]. rewrite is_space_upper1, IH. reflexivity. Qed.
Lemma drop_while_nospace b : forallb (fun c => negb (is_space c)) b = true -> drop_while is_space b = b.
Proof. destruct b as [|c b]; [reflexivity|]. cbn [forallb drop_while]. intros H. apply andb_prop in H as [H _]. apply negb_true_iff in H. rewrite H. reflexivity. Qed.
Lemma forallb_rev {A} (p : A -> bool) l : forallb p (rev l) = forallb p l.
Proof. induction l as [|x l IH]; [reflexivity|]. cbn [rev forallb]. rewrite forallb_app, IH. cbn [forallb]. rewrite andb_true_r. apply andb_comm. Qed.
Lemma trim_nospace b : forallb (fun c => negb (is_space c)) b = true -> trim b = b.
Proof.
  intros H. unfold trim. rewrite (drop_while_nospace b H).
  rewrite drop_while_nospace by (rewrite forallb_rev; exact H). apply rev_involutive.
Qed.
(** a record of the file: a logged command or the engine's SELECT *)
Definition file_record (parts : list frame) : bool :=
  match parts with FBulk nm :: _ => mem_name (upper nm) (bs "SELECT" :: write_commands) | _ => false end.

Lemma resend_is_normal now s cn parts o :
  file_record parts = true -> s_password s = None ->
  zlookup replay_conn (s_conns s) = Some cn -> c_intx cn = false ->
  process_frame now s replay_conn (FArray parts) o = normal_command now s replay_conn (c_db cn) parts o.
Proof.
  unfold file_record. intros Hl Hp Hc Hi. destruct parts as [|first rest]; [discriminate|].
  destruct first; try discriminate.
  pose proof write_names_plain as W. rewrite forallb_forall in W.
  specialize (W (upper b) (bmem_In _ _ Hl)). unfold plain_name in W.
  repeat match type of W with (_ && _) = true => apply andb_prop in W; destruct W as [W ?] end.
  repeat match goal with X : negb _ = true |- _ => apply negb_true_iff in X end.
  rewrite nospace_upper in W.
  unfold process_frame. rewrite Hc, Hp. cbn [andb]. rewrite (trim_nospace b W).
  repeat match goal with X : beq (upper b) _ = false |- _ => rewrite X end.
  rewrite Hi. reflexivity.
Qed.

Definition resend_step (now : Z) (s : server) (parts : list frame) : server :=
  snd (process_frame now s replay_conn (FArray parts) None).
Definition resend (now : Z) (log : list (list frame)) : server := fold_left (resend_step now) log replay_init.
Lemma resend_is_replay now log :
  forallb file_record log = true -> resend now log = replay now log.
Proof.
  unfold resend, replay, replay_o, no_oracle.
  assert (G : forall l s, forallb file_record l = true -> s_password s = None ->
                (exists cn, zlookup replay_conn (s_conns s) = Some cn /\ c_intx cn = false) ->
                fold_left (resend_step now) l s = fold_left (replay_step now) (map (fun p => (p, None)) l) s).
  { induction l as [|p l IH]; intros s Hl Hp (cn & Hc & Hi); [reflexivity|].
    cbn [forallb] in Hl. apply andb_prop in Hl as [Hl1 Hl2]. cbn [map fold_left].
    unfold resend_step at 2. unfold replay_step at 2. cbn [fst snd]. unfold conn_db. rewrite Hc.
    rewrite (resend_is_normal now s cn p None Hl1 Hp Hc Hi).
    destruct (nc_conn now s replay_conn (c_db cn) p None cn Hp Hc) as (Hp' & (cn' & Hc' & _ & Hi' & _) & _).
    apply IH; [exact Hl2|exact Hp'|]. exists cn'. rewrite Hi', Hi. auto. }
  intros Hl. apply G; [exact Hl|reflexivity|]. eexists. split; reflexivity.
Qed.
(** the file of a history holds records only *)
Lemma recs_records : forall cmds last, forallb file_record (recs last cmds) = true.
Proof.
  induction cmds as [|[dbi p] cmds IH]; intros last; cbn [recs]; [reflexivity|].
  destruct (is_logged p) eqn:Lp; [|apply IH].
  assert (Hp : file_record p = true).
  { unfold file_record, is_logged in *. destruct p as [|[] ?]; try discriminate.
    unfold mem_name in *. cbn [bmem]. rewrite Lp. apply orb_true_r. }
  destruct (same_db last dbi); cbn [app forallb]; rewrite ?Hp, IH; reflexivity.
Qed.
Lemma history_resend now h :
  forallb (fun te => ev_ok (snd te)) h = true ->
  resend now (aof_log (run_tevs h)) = replay now (aof_log (run_tevs h)).
Proof. intros Hok. apply resend_is_replay. rewrite (history_file h Hok). apply recs_records. Qed.
