(** C11, second part: the redo at ANY later clock reading.
    [sim d1 d2]: every lookup gives the same entry - value AND deadline - in both databases
    (the order of the keys, a HashMap order in the implementation, and the sweeper's index are
    left out).  A deadline is in the file as an absolute time (PEXPIREAT, 98d0d1a), a random or
    clock-dependent outcome as the deterministic command it amounted to (f085462): the records
    of every command of the string/key family, the list/set/hash family, XADD / XDEL / XTRIM
    and every read, redone at a later clock reading on a [sim]-related database, yield
    [sim]-related databases - PROVIDED no deadline of the live run has passed by the time of
    the redo.  Outside this part: the consumer-group commands (they stamp the clock into pending
    entries), the sorted-set writes and scripts (their per-handler proofs are not done here; they
    are covered by the one-clock theorem of Proofs/AofFacts.v). *)
From Ferrous Require Import Base.Bytes Generated Model.Resp Model.Types Model.Glob Model.Strings
  Model.Lists Model.ZSets Model.Streams Model.Scan Model.Lua Model.Server Model.Conn Model.Blocking Model.RunLua Model.Aof
  Proofs.BytesFacts Proofs.StringsFacts Proofs.ListsFacts Proofs.ServerFacts Proofs.StreamFacts Proofs.AofFacts.
From Coq Require Import ZifyBool.
Open Scope Z_scope.

Definition sim_e (e1 e2 : entry) : Prop := e_val e1 = e_val e2 /\ e_exp e1 = e_exp e2.
Definition orel {A} (R : A -> A -> Prop) (a b : option A) : Prop :=
  match a, b with Some x, Some y => R x y | None, None => True | _, _ => False end.
Definition sim (d1 d2 : db) : Prop := forall k, orel sim_e (get_entry d1 k) (get_entry d2 k).

Lemma sim_e_refl e : sim_e e e. Proof. split; reflexivity. Qed.
Lemma sim_e_eq e1 e2 : sim_e e1 e2 -> e1 = e2.
Proof. destruct e1 as [v1 x1], e2 as [v2 x2]. unfold sim_e. cbn [e_val e_exp]. intros [H1 H2]. subst. reflexivity. Qed.
Lemma sim_refl d : sim d d.
Proof. intros k. destruct (get_entry d k); cbn; [apply sim_e_refl|exact I]. Qed.
Lemma sim_empty : sim empty_db empty_db. Proof. apply sim_refl. Qed.
(** [sim] is lookup-equivalence *)
Lemma sim_ext d1 d2 : sim d1 d2 <-> ext d1 d2.
Proof.
  split; intros H k; specialize (H k).
  - destruct (get_entry d1 k), (get_entry d2 k); cbn [orel] in H; try contradiction; [f_equal; apply sim_e_eq; exact H|reflexivity].
  - rewrite H. destruct (get_entry d2 k); cbn; [apply sim_e_refl|exact I].
Qed.
Lemma sim_sym d1 d2 : sim d1 d2 -> sim d2 d1.
Proof. rewrite !sim_ext. apply ext_sym. Qed.
Lemma sim_trans a b c : sim a b -> sim b c -> sim a c.
Proof. rewrite !sim_ext. apply ext_trans. Qed.

Lemma sim_lookup d1 d2 k : sim d1 d2 -> orel sim_e (get_entry d1 k) (get_entry d2 k).
Proof. intros H. exact (H k). Qed.
Lemma sim_put d1 d2 k e1 e2 : sim d1 d2 -> sim_e e1 e2 -> sim (put_entry d1 k e1) (put_entry d2 k e2).
Proof.
  intros H He k'. destruct (beq k' k) eqn:E.
  - apply beq_eq in E. subst. rewrite !get_entry_put_same. exact He.
  - rewrite !get_entry_put_other by exact E. apply H.
Qed.
Lemma sim_del d1 d2 k : sim d1 d2 -> sim (del_entry d1 k) (del_entry d2 k).
Proof.
  intros H k'. destruct (beq k' k) eqn:E.
  - apply beq_eq in E. subst. rewrite !get_entry_del_same. exact I.
  - rewrite !get_entry_del_other by exact E. apply H.
Qed.
Lemma sim_index_set_l d1 d2 k t : sim d1 d2 -> sim (index_set d1 k t) d2. Proof. exact (fun H => H). Qed.
Lemma sim_index_set_r d1 d2 k t : sim d1 d2 -> sim d1 (index_set d2 k t). Proof. exact (fun H => H). Qed.
Lemma sim_index_del_l d1 d2 k : sim d1 d2 -> sim (index_del d1 k) d2. Proof. exact (fun H => H). Qed.
Lemma sim_index_del_r d1 d2 k : sim d1 d2 -> sim d1 (index_del d2 k). Proof. exact (fun H => H). Qed.

(** storing a value without a time to live does not look at the clock *)
Lemma sim_set_value t1 t2 d1 d2 k v :
  sim d1 d2 -> sim (set_value t1 d1 k v None) (set_value t2 d2 k v None).
Proof. intros H. unfold set_value. apply sim_put; [exact H|split; reflexivity]. Qed.

(** ---- without expired entries the clock is invisible ---- *)
Lemma exists_sim t1 t2 d1 d2 k :
  sim d1 d2 -> lfresh t1 d1 -> lfresh t2 d2 -> eng_exists t2 d2 k = eng_exists t1 d1 k.
Proof.
  intros H F1 F2. unfold eng_exists. pose proof (sim_lookup d1 d2 k H) as R.
  destruct (get_entry d1 k) as [e1|] eqn:E1, (get_entry d2 k) as [e2|] eqn:E2; cbn [orel] in R; try contradiction; [|reflexivity].
  rewrite (lfresh_entry _ _ _ _ F1 E1), (lfresh_entry _ _ _ _ F2 E2). reflexivity.
Qed.
Lemma eng_get_fresh now d k : lfresh now d ->
  eng_get now d k = (match get_entry d k with Some e => Found (e_val e) | None => NotFound end, d).
Proof.
  intros F. unfold eng_get. destruct (get_entry d k) as [e|] eqn:E; [|reflexivity].
  rewrite (lfresh_entry _ _ _ _ F E). reflexivity.
Qed.

(** ---- the generic single-key engine functions of lists / sets / hashes ---- *)
Lemma on_key_sim d1 d2 k f : sim d1 d2 ->
  fst (on_key d1 k f) = fst (on_key d2 k f) /\ sim (snd (on_key d1 k f)) (snd (on_key d2 k f)).
Proof.
  intros H. unfold on_key. pose proof (sim_lookup d1 d2 k H) as R.
  destruct (get_entry d1 k) as [e1|] eqn:E1, (get_entry d2 k) as [e2|] eqn:E2; cbn [orel] in R; try contradiction.
  - destruct R as [Rv Rt]. cbn [option_map]. rewrite Rv. destruct (f (Some (e_val e2))) as [r u]. cbn [fst snd].
    split; [reflexivity|]. destruct u; cbn [apply_upd]; [exact H| |apply sim_del; exact H].
    apply sim_put; [exact H|]. split; [reflexivity|exact Rt].
  - cbn [option_map]. destruct (f None) as [r u]. cbn [fst snd].
    split; [reflexivity|]. destruct u; cbn [apply_upd]; [exact H| |apply sim_del; exact H].
    apply sim_put; [exact H|apply sim_e_refl].
Qed.

(** handlers of the shape "parse the arguments, then one engine call on one key":
    the parse does not look at the database, so both sides take the same branch *)
Ltac two_sided H :=
  repeat match goal with
  | |- context [if ?c then _ else _] => destruct c
  | |- context [match ?x with _ => _ end] => destruct x
  end;
  cbn [snd]; try exact H; try (apply on_key_sim; exact H).

Lemma h_push_sim l d1 d2 parts : sim d1 d2 -> sim (snd (h_push l d1 parts)) (snd (h_push l d2 parts)).
Proof. intros H. unfold h_push. two_sided H. Qed.
Lemma h_key1_sim f d1 d2 parts : sim d1 d2 -> sim (snd (h_key1 f d1 parts)) (snd (h_key1 f d2 parts)).
Proof. intros H. unfold h_key1. two_sided H. Qed.
Lemma h_key_bulk_sim f d1 d2 parts : sim d1 d2 -> sim (snd (h_key_bulk f d1 parts)) (snd (h_key_bulk f d2 parts)).
Proof. intros H. unfold h_key_bulk. two_sided H. Qed.
Lemma h_range_sim f d1 d2 parts : sim d1 d2 -> sim (snd (h_range f d1 parts)) (snd (h_range f d2 parts)).
Proof. intros H. unfold h_range. two_sided H. Qed.
Lemma h_lindex_sim d1 d2 parts : sim d1 d2 -> sim (snd (h_lindex d1 parts)) (snd (h_lindex d2 parts)).
Proof. intros H. unfold h_lindex. two_sided H. Qed.
Lemma h_int_bulk_sim f d1 d2 parts : sim d1 d2 -> sim (snd (h_int_bulk f d1 parts)) (snd (h_int_bulk f d2 parts)).
Proof. intros H. unfold h_int_bulk. two_sided H. Qed.
Lemma h_sadd_sim d1 d2 parts : sim d1 d2 -> sim (snd (h_sadd d1 parts)) (snd (h_sadd d2 parts)).
Proof. intros H. unfold h_sadd. two_sided H. Qed.
Lemma h_skipping_sim f d1 d2 parts : sim d1 d2 -> sim (snd (h_skipping f d1 parts)) (snd (h_skipping f d2 parts)).
Proof. intros H. unfold h_skipping. two_sided H. Qed.
Lemma h_srandmember_sim d1 d2 parts o : sim d1 d2 -> sim (snd (h_srandmember d1 parts o)) (snd (h_srandmember d2 parts o)).
Proof. intros H. unfold h_srandmember. two_sided H. Qed.
Lemma h_spop_sim d1 d2 parts o : sim d1 d2 -> sim (snd (h_spop d1 parts o)) (snd (h_spop d2 parts o)).
Proof. intros H. unfold h_spop. two_sided H. Qed.
Lemma h_hset_sim b d1 d2 parts : sim d1 d2 -> sim (snd (h_hset b d1 parts)) (snd (h_hset b d2 parts)).
Proof. intros H. unfold h_hset. two_sided H. Qed.
Lemma h_hmget_sim d1 d2 parts : sim d1 d2 -> sim (snd (h_hmget d1 parts)) (snd (h_hmget d2 parts)).
Proof. intros H. unfold h_hmget. two_sided H. Qed.
Lemma h_hincrby_sim d1 d2 parts : sim d1 d2 -> sim (snd (h_hincrby d1 parts)) (snd (h_hincrby d2 parts)).
Proof. intros H. unfold h_hincrby. two_sided H. Qed.
(** SUNION / SINTER / SDIFF never change the database *)
Lemma h_setalg_sim f d1 d2 parts : sim d1 d2 -> sim (snd (h_setalg f d1 parts)) (snd (h_setalg f d2 parts)).
Proof.
  intros H. destruct (h_setalg f d1 parts) as [r1 x1] eqn:E1. destruct (h_setalg f d2 parts) as [r2 x2] eqn:E2.
  rewrite (h_setalg_keep _ _ _ _ _ E1), (h_setalg_keep _ _ _ _ _ E2). exact H.
Qed.

Lemma exec_lists_sim t1 t2 d1 d2 name parts o r1 r2 x1 x2 :
  sim d1 d2 -> exec_lists t1 d1 name parts o = Some (r1, x1) -> exec_lists t2 d2 name parts o = Some (r2, x2) ->
  sim x1 x2.
Proof.
  unfold exec_lists. intros H E1 E2.
  repeat match type of E1 with
  | (if ?c then _ else _) = _ => destruct c
  end; try discriminate; inversion E1 as [A1]; inversion E2 as [A2]; clear E1 E2;
  match goal with
  | A1 : ?h1 = (r1, x1), A2 : ?h2 = (r2, x2) |- _ =>
      change x1 with (snd (r1, x1)); change x2 with (snd (r2, x2)); rewrite <- A1, <- A2
  end;
  auto using h_push_sim, h_key1_sim, h_key_bulk_sim, h_range_sim, h_lindex_sim, h_int_bulk_sim, h_sadd_sim,
    h_skipping_sim, h_srandmember_sim, h_spop_sim, h_hset_sim, h_hmget_sim, h_hincrby_sim, h_setalg_sim.
Qed.

(** ---- string / key family ---- *)
Ltac sim_close H :=
  cbn [snd fst];
  repeat first [apply sim_index_set_l | apply sim_index_set_r | apply sim_index_del_l | apply sim_index_del_r];
  first [ exact H | apply sim_refl | apply sim_empty
        | (apply sim_set_value; exact H)
        | (apply sim_put; [exact H | split; [reflexivity | first [assumption | reflexivity]]])
        | (apply sim_del; exact H) ].
(** both sides look the key up: related entries or both absent *)
Ltac sim_get H :=
  match goal with
  | |- context [get_entry ?d2 ?k] =>
      match type of H with
      | sim ?d1 d2 =>
          let R := fresh "R" in
          pose proof (sim_lookup d1 d2 k H) as R;
          destruct (get_entry d1 k) eqn:?, (get_entry d2 k) eqn:?; cbn [orel] in R; try contradiction;
          [ let Rv := fresh "Rv" in let Rt := fresh "Rt" in destruct R as [Rv Rt]; try rewrite Rv in * | ]
      end
  end.
Ltac sim_branch :=
  match goal with
  | |- context [if ?c then _ else _] => destruct c
  | |- context [match ?x with _ => _ end] => destruct x
  end.

Section Strings.
Variables (t1 t2 : Z) (d1 d2 : db).
Hypothesis H : sim d1 d2.
Hypothesis F1 : lfresh t1 d1.
Hypothesis F2 : lfresh t2 d2.

Ltac ex := match goal with |- context [eng_exists t2 d2 ?k] => rewrite (exists_sim t1 t2 d1 d2 k H F1 F2) end.
Ltac go := repeat first [ex | sim_get H | sim_branch].

Lemma h_setnx_sim parts : sim (snd (h_setnx t1 d1 parts)) (snd (h_setnx t2 d2 parts)).
Proof. unfold h_setnx. go; sim_close H. Qed.
Lemma h_exists_sim parts : sim (snd (h_exists t1 d1 parts)) (snd (h_exists t2 d2 parts)).
Proof. unfold h_exists. repeat sim_branch; sim_close H. Qed.
Lemma h_flushdb_sim parts : sim (snd (h_flushdb d1 parts)) (snd (h_flushdb d2 parts)).
Proof. unfold h_flushdb. repeat sim_branch; sim_close H. Qed.
Lemma h_append_sim parts : sim (snd (h_append d1 parts)) (snd (h_append d2 parts)).
Proof. unfold h_append. go; sim_close H. Qed.
Lemma h_setrange_sim parts : sim (snd (h_setrange d1 parts)) (snd (h_setrange d2 parts)).
Proof. unfold h_setrange, eng_setrange. go; sim_close H. Qed.

Lemma eng_incr_by_sim k inc : sim (snd (eng_incr_by d1 k inc)) (snd (eng_incr_by d2 k inc)).
Proof. unfold eng_incr_by. go; sim_close H. Qed.
Lemma snd_reply_incr x : snd (reply_incr x) = snd x.
Proof. destruct x as [[n|] d]; reflexivity. Qed.
Lemma h_incr_sim b delta parts : sim (snd (h_incr b delta d1 parts)) (snd (h_incr b delta d2 parts)).
Proof. unfold h_incr. go; try sim_close H; rewrite !snd_reply_incr; apply eng_incr_by_sim. Qed.
Lemma h_incrby_sim parts : sim (snd (h_incrby d1 parts)) (snd (h_incrby d2 parts)).
Proof. unfold h_incrby. go; try sim_close H; rewrite !snd_reply_incr; apply eng_incr_by_sim. Qed.
Lemma h_decrby_sim parts : sim (snd (h_decrby d1 parts)) (snd (h_decrby d2 parts)).
Proof. unfold h_decrby. go; try sim_close H; rewrite !snd_reply_incr; apply eng_incr_by_sim. Qed.
Lemma eng_persist_sim k : fst (eng_persist d1 k) = fst (eng_persist d2 k) /\ sim (snd (eng_persist d1 k)) (snd (eng_persist d2 k)).
Proof.
  unfold eng_persist. pose proof (sim_lookup d1 d2 k H) as R.
  destruct (get_entry d1 k) as [e1|], (get_entry d2 k) as [e2|]; cbn [orel] in R; try contradiction;
    [|split; [reflexivity|exact H]].
  destruct R as [Rv Rt].
  destruct (e_exp e1), (e_exp e2); try discriminate; cbn [fst snd]; (split; [reflexivity|]); [|exact H].
  apply sim_index_del_l, sim_index_del_r, sim_put; [exact H|split; [exact Rv|reflexivity]].
Qed.
Lemma h_persist_sim parts : sim (snd (h_persist d1 parts)) (snd (h_persist d2 parts)).
Proof.
  unfold h_persist. destruct (negb (nparts parts =? 2)); [sim_close H|].
  destruct (nth_arg parts 1) as [k|]; [|sim_close H].
  destruct (eng_persist_sim k) as [_ Hs]. destruct (eng_persist d1 k), (eng_persist d2 k). exact Hs.
Qed.

Lemma eng_delete_sim k : fst (eng_delete d1 k) = fst (eng_delete d2 k) /\ sim (snd (eng_delete d1 k)) (snd (eng_delete d2 k)).
Proof.
  unfold eng_delete. pose proof (sim_lookup d1 d2 k H) as R.
  destruct (get_entry d1 k), (get_entry d2 k); cbn [orel] in R; try contradiction; cbn [fst snd];
    (split; [reflexivity|]); [|exact H].
  apply sim_index_del_l, sim_index_del_r, sim_del. exact H.
Qed.
Lemma eng_rename_sim o n : fst (eng_rename d1 o n) = fst (eng_rename d2 o n) /\
  sim (snd (eng_rename d1 o n)) (snd (eng_rename d2 o n)).
Proof.
  unfold eng_rename. pose proof (sim_lookup d1 d2 o H) as R.
  destruct (get_entry d1 o) as [e1|], (get_entry d2 o) as [e2|]; cbn [orel] in R; try contradiction; cbn [fst snd];
    (split; [reflexivity|]); [|exact H].
  apply sim_put; [|exact R].
  destruct (e_exp e1), (e_exp e2);
    repeat first [apply sim_index_set_l | apply sim_index_set_r | apply sim_index_del_l | apply sim_index_del_r];
    apply sim_del; exact H.
Qed.
End Strings.

Lemma del_loop_sim : forall args d1 d2 n, sim d1 d2 ->
  fst (del_loop d1 args n) = fst (del_loop d2 args n) /\ sim (snd (del_loop d1 args n)) (snd (del_loop d2 args n)).
Proof.
  induction args as [|a args IH]; intros d1 d2 n H; cbn [del_loop]; [split; [reflexivity|exact H]|].
  destruct a; try (apply IH; exact H).
  destruct (eng_delete_sim d1 d2 H b) as [Hf Hs].
  destruct (eng_delete d1 b) as [b1 x1], (eng_delete d2 b) as [b2 x2]. cbn [fst snd] in *. subst b2.
  destruct b1; apply IH; exact Hs.
Qed.
Lemma h_del_sim d1 d2 parts : sim d1 d2 -> sim (snd (h_del d1 parts)) (snd (h_del d2 parts)).
Proof.
  intros H. unfold h_del. destruct (nparts parts <? 2); [exact H|].
  destruct (del_loop_sim (tl parts) d1 d2 0 H) as [_ Hs].
  destruct (del_loop d1 (tl parts) 0), (del_loop d2 (tl parts) 0). exact Hs.
Qed.
Lemma mset_loop_sim t1 t2 : forall args d1 d2, sim d1 d2 ->
  sim (snd (mset_loop t1 d1 args)) (snd (mset_loop t2 d2 args)).
Proof.
  intros args. remember (length args) as n eqn:Hn. revert args Hn.
  induction n as [n IH] using lt_wf_ind. intros args Hn d1 d2 H.
  destruct args as [|a rest]; cbn [mset_loop]; [exact H|].
  destruct a; try exact H. destruct rest as [|v rest']; [exact H|]. destruct v; try exact H.
  eapply (IH (length rest')); [subst n; cbn [length]; lia|reflexivity|]. apply sim_set_value. exact H.
Qed.
Lemma h_mset_sim t1 t2 d1 d2 parts : sim d1 d2 -> sim (snd (h_mset t1 d1 parts)) (snd (h_mset t2 d2 parts)).
Proof.
  intros H. unfold h_mset. destruct ((nparts parts <? 3) || (nparts parts mod 2 =? 0)); [exact H|].
  destruct (mset_valid (tl parts)); [|exact H].
  apply mset_loop_sim. exact H.
Qed.

Section Strings2.
Variables (t1 t2 : Z) (d1 d2 : db).
Hypothesis H : sim d1 d2.
Hypothesis F1 : lfresh t1 d1.
Hypothesis F2 : lfresh t2 d2.
Ltac ex := match goal with |- context [eng_exists t2 d2 ?k] => rewrite (exists_sim t1 t2 d1 d2 k H F1 F2) end.

Lemma h_rename_sim parts : sim (snd (h_rename d1 parts)) (snd (h_rename d2 parts)).
Proof.
  unfold h_rename. destruct (negb (nparts parts =? 3)); [exact H|].
  destruct (nth_arg parts 1) as [o|]; [|exact H]. destruct (nth_arg parts 2) as [n|]; [|exact H].
  destruct (eng_rename_sim d1 d2 H o n) as [Hf Hs].
  destruct (eng_rename d1 o n) as [b1 x1], (eng_rename d2 o n) as [b2 x2]. cbn [fst snd] in *. subst b2.
  destruct b1; exact Hs.
Qed.
Lemma h_renamenx_sim parts : sim (snd (h_renamenx t1 d1 parts)) (snd (h_renamenx t2 d2 parts)).
Proof.
  unfold h_renamenx. destruct (negb (nparts parts =? 3)); [exact H|].
  destruct (nth_arg parts 1) as [o|]; [|exact H]. destruct (nth_arg parts 2) as [n|]; [|exact H].
  repeat ex. destruct (negb (eng_exists t1 d1 o)); [exact H|]. destruct (eng_exists t1 d1 n); [exact H|].
  destruct (eng_rename_sim d1 d2 H o n) as [Hf Hs].
  destruct (eng_rename d1 o n) as [b1 x1], (eng_rename d2 o n) as [b2 x2]. cbn [fst snd] in *. subst b2.
  destruct b1; exact Hs.
Qed.
(** reads through get: nothing has expired, so nothing is removed, and both sides see the same value *)
Lemma get_string_sim k :
  get_string t1 d1 k = (fst (get_string t1 d1 k), d1) /\ get_string t2 d2 k = (fst (get_string t2 d2 k), d2) /\
  fst (get_string t1 d1 k) = fst (get_string t2 d2 k).
Proof.
  unfold get_string. rewrite (eng_get_fresh t1 d1 k F1), (eng_get_fresh t2 d2 k F2).
  pose proof (sim_lookup d1 d2 k H) as R.
  destruct (get_entry d1 k) as [e1|], (get_entry d2 k) as [e2|]; cbn [orel] in R; try contradiction.
  - destruct R as [Rv _]. rewrite Rv. destruct (e_val e2); auto.
  - auto.
Qed.
Lemma h_getset_sim parts : sim (snd (h_getset t1 d1 parts)) (snd (h_getset t2 d2 parts)).
Proof.
  unfold h_getset. destruct (negb (nparts parts =? 3)); [exact H|].
  destruct (nth_arg parts 1) as [k|]; [|exact H]. destruct (nth_arg parts 2) as [v|]; [|exact H].
  destruct (get_string_sim k) as (E1 & E2 & E3). rewrite E1, E2, <- E3.
  destruct (fst (get_string t1 d1 k)); cbn [snd]; [apply sim_set_value|]; exact H.
Qed.
End Strings2.

Lemma inert_pair_sim t1 t2 d1 d2 (x1 x2 : db) :
  sim d1 d2 -> lfresh t1 d1 -> lfresh t2 d2 ->
  lazy_removed t1 d1 x1 -> lazy_removed t2 d2 x2 -> sim x1 x2.
Proof. intros H F1 F2 L1 L2. rewrite (lr_fresh _ _ _ F1 L1), (lr_fresh _ _ _ F2 L2). exact H. Qed.

Ltac to_snd A1 A2 :=
  match type of A1 with _ = (?r1, ?x1) => match type of A2 with _ = (?r2, ?x2) =>
    change x1 with (snd (r1, x1)); change x2 with (snd (r2, x2)); rewrite <- A1, <- A2 end end.

(** (SET, SETEX, PSETEX, EXPIRE, PEXPIRE compute a deadline from the clock: they are treated
    together with their PEXPIREAT record below) *)
Lemma exec_strings_sim t1 t2 d1 d2 name parts r1 r2 x1 x2 :
  ttl_recorded name = false ->
  sim d1 d2 -> lfresh t1 d1 -> lfresh t2 d2 ->
  exec_strings t1 d1 name parts = Some (r1, x1) -> exec_strings t2 d2 name parts = Some (r2, x2) ->
  sim x1 x2.
Proof.
  unfold exec_strings. intros Ht H F1 F2 E1 E2.
  repeat match type of E1 with
  | (if beq ?n ?c then _ else _) = _ =>
      let E := fresh "E" in destruct (beq n c) eqn:E;
      [try (exfalso; apply beq_eq in E; rewrite E in Ht; vm_compute in Ht; discriminate Ht)|clear E]
  end; try discriminate; inversion E1 as [A1]; inversion E2 as [A2]; clear E1 E2;
  first
  [ (* reads: inert on both sides *)
    (eapply (inert_pair_sim t1 t2 d1 d2); [exact H|exact F1|exact F2| |];
     eauto using h_get_inert, h_exists_inert, h_ttl_inert, h_pttl_inert, h_mget_inert, h_strlen_inert,
       h_getrange_inert, h_type_inert, h_keys_inert, h_dbsize_inert; fail)
  | (to_snd A1 A2;
     auto using h_setnx_sim, h_flushdb_sim, h_append_sim, h_setrange_sim, h_incr_sim,
       h_incrby_sim, h_decrby_sim, h_persist_sim, h_del_sim, h_mset_sim,
       h_rename_sim, h_renamenx_sim, h_getset_sim) ].
Qed.

(** ---- streams: XADD / XTRIM / XDEL (the group commands stamp pending entries with the clock
    and are outside this part) ---- *)
Definition sres_rel (a b : Streams.sres) : Prop :=
  match a, b with
  | SStream e1 s1, SStream e2 s2 => s1 = s2 /\ e_exp e1 = e_exp e2
  | Streams.SWrong, Streams.SWrong => True
  | SMissing, SMissing => True
  | _, _ => False
  end.
Lemma raw_stream_sim d1 d2 k : sim d1 d2 -> sres_rel (raw_stream d1 k) (raw_stream d2 k).
Proof.
  intros H. unfold raw_stream. pose proof (sim_lookup d1 d2 k H) as R.
  destruct (get_entry d1 k) as [e1|], (get_entry d2 k) as [e2|]; cbn [orel] in R; try contradiction; [|exact I].
  destruct R as [Rv Rt]. rewrite Rv. destruct (e_val e2); cbn [sres_rel]; auto.
Qed.
Lemma put_stream_sim d1 d2 k e1 e2 s : sim d1 d2 -> e_exp e1 = e_exp e2 ->
  sim (put_stream d1 k e1 s) (put_stream d2 k e2 s).
Proof. intros H Ht. unfold put_stream. apply sim_put; [exact H|split; [reflexivity|exact Ht]]. Qed.

Ltac raw_tac H k :=
  let R := fresh "R" in
  match type of H with sim ?d1 ?d2 =>
    pose proof (raw_stream_sim d1 d2 k H) as R;
    destruct (raw_stream d1 k) as [? ?| |], (raw_stream d2 k) as [? ?| |]; cbn [sres_rel] in R; try contradiction;
    [destruct R as [? ?]; subst | | ]
  end.
Tactic Notation "raw" constr(H) constr(k) := raw_tac H k.

Lemma h_xadd_sim d1 d2 parts o : sim d1 d2 -> sim (snd (h_xadd d1 parts o)) (snd (h_xadd d2 parts o)).
Proof.
  intros H. unfold h_xadd.
  destruct ((nparts parts <? 4) || negb ((nparts parts - 3) mod 2 =? 0)); [exact H|].
  destruct (nth_error parts 1) as [f1|]; destruct (nth_error parts 2) as [idf|];
    try exact H; try (destruct f1; exact H).
  destruct f1 as [| | |k| | | | | | | | |]; try exact H.
  destruct (arg_bytes idf) as [idb|]; [|exact H].
  destruct (parse_fields (skipn 3 parts) []) as [f|]; [|exact H].
  destruct (beq idb (bs "*")).
  - raw H k; try exact H.
    + destruct (oracle_sid o); [|destruct (_ && _); exact H].
      destruct (auto_clock _ _); [|exact H]. destruct (st_add_auto _ _ _) as [[? ?]|]; [|exact H].
      cbn [snd]. apply put_stream_sim; assumption.
    + destruct (oracle_sid o); [|destruct (_ && _); exact H].
      destruct (auto_clock _ _); [|exact H]. destruct (st_add_auto _ _ _) as [[? ?]|]; [|exact H].
      cbn [snd]. apply put_stream_sim; [exact H|reflexivity].
  - destruct (sid_of_bytes idb) as [id|]; [|exact H].
    destruct ((fst id =? 0) && (snd id =? 0)); [exact H|].
    raw H k; try exact H.
    + destruct (st_add_with_id _ _ _); [|exact H]. cbn [snd]. apply put_stream_sim; assumption.
    + destruct (st_add_with_id _ _ _); [|exact H]. cbn [snd]. apply sim_put; [exact H|apply sim_e_refl].
Qed.
Lemma h_xtrim_sim d1 d2 parts : sim d1 d2 -> sim (snd (h_xtrim d1 parts)) (snd (h_xtrim d2 parts)).
Proof.
  intros H. unfold h_xtrim. destruct (nparts parts <? 4); [exact H|].
  destruct (nth_arg parts 1) as [k|]; [|exact H]. destruct (nth_arg parts 2) as [st|]; [|exact H].
  destruct (negb _); [exact H|]. destruct (xtrim_maxlen parts) as [n|]; [|exact H].
  raw H k; try exact H. destruct (st_trim _ n) as [t s']. cbn [snd].
  destruct (0 <? t); [apply put_stream_sim; assumption|exact H].
Qed.
Lemma h_xdel_sim d1 d2 parts : sim d1 d2 -> sim (snd (h_xdel d1 parts)) (snd (h_xdel d2 parts)).
Proof.
  intros H. unfold h_xdel. destruct (nparts parts <? 3); [exact H|].
  destruct (nth_arg parts 1) as [k|]; [|exact H]. destruct (parse_ids _) as [ids|]; [|exact H].
  raw H k; try exact H. destruct (st_delete _ ids) as [n s']. cbn [snd].
  destruct (0 <? n); [apply put_stream_sim; assumption|exact H].
Qed.

(** PEXPIREAT: the deadline is an absolute time; the clock only decides whether it has passed -
    and it has passed at neither clock reading when the databases are to stay without expired entries *)
Lemma eng_expire_abs t1 t2 d1 d2 k D : sim d1 d2 ->
  fst (eng_expire t1 d1 k (D - t1)) = fst (eng_expire t2 d2 k (D - t2)) /\
  sim (snd (eng_expire t1 d1 k (D - t1))) (snd (eng_expire t2 d2 k (D - t2))).
Proof.
  intros H. unfold eng_expire. pose proof (sim_lookup d1 d2 k H) as R.
  destruct (get_entry d1 k) as [e1|], (get_entry d2 k) as [e2|]; cbn [orel] in R; try contradiction; cbn [fst snd];
    (split; [reflexivity|]); [|exact H].
  destruct R as [Rv _]. apply sim_index_set_l, sim_index_set_r, sim_put; [exact H|split; [exact Rv|cbn [e_exp]; f_equal; lia]].
Qed.
(** commands outside the clock-independent part: XGROUP .. XCLAIM stamp the clock into the value;
    for the sorted-set writes and scripts the handler-by-handler proof is not done here *)
Definition untimed_excluded : list bytes :=
  [bs "XGROUP"; bs "XREADGROUP"; bs "XACK"; bs "XCLAIM";
   bs "ZADD"; bs "ZREM"; bs "ZINCRBY"; bs "ZPOPMIN"; bs "ZPOPMAX"; bs "EVAL"; bs "EVALSHA"; bs "SCRIPT"].

Lemma exec_streams_sim t1 t2 d1 d2 name parts o r1 r2 x1 x2 :
  mem_name name untimed_excluded = false ->
  sim d1 d2 -> lfresh t1 d1 -> lfresh t2 d2 ->
  exec_streams t1 d1 name parts o = Some (r1, x1) -> exec_streams t2 d2 name parts o = Some (r2, x2) ->
  sim x1 x2.
Proof.
  unfold exec_streams. intros Hc H F1 F2 E1 E2.
  repeat match type of E1 with
  | (if beq ?n ?c then _ else _) = _ =>
      let E := fresh "E" in destruct (beq n c) eqn:E;
      [try (exfalso; apply beq_eq in E; rewrite E in Hc; vm_compute in Hc; discriminate Hc)|clear E]
  end; try discriminate; inversion E1 as [A1]; inversion E2 as [A2]; clear E1 E2;
  first
  [ (eapply (inert_pair_sim t1 t2 d1 d2); [exact H|exact F1|exact F2| |];
     eauto using h_xrange_inert, h_xrevrange_inert, h_xlen_inert, h_xread_inert, h_xpending_inert, h_xinfo_inert; fail)
  | (to_snd A1 A2; auto using h_xadd_sim, h_xtrim_sim, h_xdel_sim) ].
Qed.
Lemma exec_zsets_sim t1 t2 d1 d2 name parts o r1 r2 x1 x2 :
  mem_name name untimed_excluded = false ->
  sim d1 d2 -> lfresh t1 d1 -> lfresh t2 d2 ->
  exec_zsets t1 d1 name parts o = Some (r1, x1) -> exec_zsets t2 d2 name parts o = Some (r2, x2) ->
  sim x1 x2.
Proof.
  unfold exec_zsets. intros Hc H F1 F2 E1 E2.
  repeat match type of E1 with
  | (if beq ?n ?c then _ else _) = _ =>
      let E := fresh "E" in destruct (beq n c) eqn:E;
      [try (exfalso; apply beq_eq in E; rewrite E in Hc; vm_compute in Hc; discriminate Hc)|clear E]
  end; try discriminate; inversion E1 as [A1]; inversion E2 as [A2]; clear E1 E2;
  (eapply (inert_pair_sim t1 t2 d1 d2); [exact H|exact F1|exact F2| |];
   eauto using h_zscore_inert, h_zcard_inert, h_zrank_inert, h_zrange_inert, h_zrangebyscore_inert, h_zcount_inert).
Qed.
Lemma exec_scan_sim t1 t2 d1 d2 name parts o r1 r2 x1 x2 :
  sim d1 d2 -> lfresh t1 d1 -> lfresh t2 d2 ->
  exec_scan t1 d1 name parts o = Some (r1, x1) -> exec_scan t2 d2 name parts o = Some (r2, x2) -> sim x1 x2.
Proof.
  intros H F1 F2 E1 E2. eapply (inert_pair_sim t1 t2 d1 d2); eauto using exec_scan_inert.
Qed.
Lemma exec_scripts_sim t1 t2 d1 d2 name parts o r1 r2 x1 x2 :
  mem_name name untimed_excluded = false -> sim d1 d2 ->
  exec_scripts t1 d1 name parts o = Some (r1, x1) -> exec_scripts t2 d2 name parts o = Some (r2, x2) -> sim x1 x2.
Proof.
  unfold exec_scripts. intros Hc H E1 E2.
  destruct (beq name (bs "EVAL")) eqn:E.
  { apply beq_eq in E. subst name. vm_compute in Hc. discriminate Hc. }
  destruct (beq name (bs "EVALSHA") || beq name (bs "SCRIPT")); [|discriminate].
  inversion E1; inversion E2; subst. exact H.
Qed.

(** which dispatcher answers depends on the name only *)
Ltac dom_tac := repeat match goal with |- context [if ?c then _ else _] => destruct c end; split; intros; try discriminate; reflexivity.
Lemma exec_strings_dom t1 t2 d1 d2 name parts :
  exec_strings t1 d1 name parts = None <-> exec_strings t2 d2 name parts = None.
Proof. unfold exec_strings. dom_tac. Qed.
Lemma exec_lists_dom t1 t2 d1 d2 name parts o :
  exec_lists t1 d1 name parts o = None <-> exec_lists t2 d2 name parts o = None.
Proof. unfold exec_lists. dom_tac. Qed.
Lemma exec_zsets_dom t1 t2 d1 d2 name parts o :
  exec_zsets t1 d1 name parts o = None <-> exec_zsets t2 d2 name parts o = None.
Proof. unfold exec_zsets. dom_tac. Qed.
Lemma exec_streams_dom t1 t2 d1 d2 name parts o :
  exec_streams t1 d1 name parts o = None <-> exec_streams t2 d2 name parts o = None.
Proof. unfold exec_streams. dom_tac. Qed.
Lemma exec_scan_dom t1 t2 d1 d2 name parts o :
  exec_scan t1 d1 name parts o = None <-> exec_scan t2 d2 name parts o = None.
Proof. unfold exec_scan. dom_tac. Qed.
Lemma exec_scripts_dom t1 t2 d1 d2 name parts o :
  exec_scripts t1 d1 name parts o = None <-> exec_scripts t2 d2 name parts o = None.
Proof. unfold exec_scripts. dom_tac. Qed.

Ltac dom_case D :=
  try (destruct D as [Da Db]; first [specialize (Da eq_refl) | specialize (Db eq_refl)]; discriminate).
Lemma exec_db_sim t1 t2 d1 d2 name parts o :
  mem_name name untimed_excluded = false -> ttl_recorded name = false -> beq name (bs "PEXPIREAT") = false ->
  sim d1 d2 -> lfresh t1 d1 -> lfresh t2 d2 ->
  match exec_db t1 d1 name parts o, exec_db t2 d2 name parts o with
  | Some (_, x1), Some (_, x2) => sim x1 x2
  | None, None => True
  | _, _ => False
  end.
Proof.
  intros Hc Ht Hx H F1 F2. unfold exec_db.
  pose proof (exec_strings_dom t1 t2 d1 d2 name parts) as D.
  destruct (exec_strings t1 d1 name parts) as [[r1 x1]|] eqn:E1, (exec_strings t2 d2 name parts) as [[r2 x2]|] eqn:E2; dom_case D.
  { exact (exec_strings_sim t1 t2 d1 d2 name parts r1 r2 x1 x2 Ht H F1 F2 E1 E2). }
  clear D. pose proof (exec_lists_dom t1 t2 d1 d2 name parts o) as D.
  destruct (exec_lists t1 d1 name parts o) as [[r1 x1]|] eqn:E3, (exec_lists t2 d2 name parts o) as [[r2 x2]|] eqn:E4; dom_case D.
  { exact (exec_lists_sim t1 t2 d1 d2 name parts o r1 r2 x1 x2 H E3 E4). }
  clear D. pose proof (exec_zsets_dom t1 t2 d1 d2 name parts o) as D.
  destruct (exec_zsets t1 d1 name parts o) as [[r1 x1]|] eqn:E5, (exec_zsets t2 d2 name parts o) as [[r2 x2]|] eqn:E6; dom_case D.
  { exact (exec_zsets_sim t1 t2 d1 d2 name parts o r1 r2 x1 x2 Hc H F1 F2 E5 E6). }
  clear D. pose proof (exec_streams_dom t1 t2 d1 d2 name parts o) as D.
  destruct (exec_streams t1 d1 name parts o) as [[r1 x1]|] eqn:E7, (exec_streams t2 d2 name parts o) as [[r2 x2]|] eqn:E8; dom_case D.
  { exact (exec_streams_sim t1 t2 d1 d2 name parts o r1 r2 x1 x2 Hc H F1 F2 E7 E8). }
  clear D. pose proof (exec_scan_dom t1 t2 d1 d2 name parts o) as D.
  destruct (exec_scan t1 d1 name parts o) as [[r1 x1]|] eqn:E9, (exec_scan t2 d2 name parts o) as [[r2 x2]|] eqn:E10; dom_case D.
  { exact (exec_scan_sim t1 t2 d1 d2 name parts o r1 r2 x1 x2 H F1 F2 E9 E10). }
  clear D. pose proof (exec_scripts_dom t1 t2 d1 d2 name parts o) as D.
  destruct (exec_scripts t1 d1 name parts o) as [[r1 x1]|] eqn:E11, (exec_scripts t2 d2 name parts o) as [[r2 x2]|] eqn:E12; dom_case D.
  { exact (exec_scripts_sim t1 t2 d1 d2 name parts o r1 r2 x1 x2 Hc H E11 E12). }
  (* PEXPIREAT: needs the state AFTER the command, see below *)
  unfold exec_aofcmds. rewrite Hx. exact I.
Qed.

(** ---- all sixteen databases ---- *)
Definition sims (a b : list db) : Prop := Forall2 sim a b.
Lemma sims_refl l : sims l l.
Proof. induction l; constructor; [apply sim_refl|assumption]. Qed.
Lemma sims_nth : forall a b i, sims a b -> sim (nth i a empty_db) (nth i b empty_db).
Proof. intros a b i H. revert i. induction H; intros [|i]; cbn [nth]; try apply sim_empty; auto. Qed.
Lemma sims_list_set : forall a b i x y, sims a b -> sim x y -> sims (list_set a i x) (list_set b i y).
Proof. intros a b i x y H. revert i. induction H; intros [|i] Hs; cbn [list_set]; constructor; auto. apply IHForall2. exact Hs. Qed.
Lemma sims_flush a b : sims a b -> sims (map (fun _ => empty_db) a) (map (fun _ => empty_db) b).
Proof. induction 1; cbn [map]; constructor; [apply sim_empty|assumption]. Qed.

(** one command at two clock readings *)
Lemma step_dbs_sim t1 t2 a b dbi parts o :
  mem_name (cmd_name parts) untimed_excluded = false -> ttl_recorded (cmd_name parts) = false ->
  beq (cmd_name parts) (bs "PEXPIREAT") = false ->
  sims a b -> lfresh_all t1 a -> lfresh_all t2 b ->
  sims (step_dbs t1 a dbi parts o) (step_dbs t2 b dbi parts o).
Proof.
  intros Hc Ht Hx H F1 F2. unfold step_dbs, cmd_name in *.
  destruct parts as [|first rest]; [exact H|]. destruct first; try exact H.
  rewrite (pre_dbs_fresh t1 a dbi _ _ F1), (pre_dbs_fresh t2 b dbi _ _ F2). unfold dstep_dbs.
  repeat match goal with |- context [if ?c then _ else _] => destruct c end; try exact H; try (apply sims_flush; exact H).
  pose proof (exec_db_sim t1 t2 _ _ (upper b0) (FBulk b0 :: rest) o Hc Ht Hx (sims_nth a b (Z.to_nat dbi) H)
                (F1 _) (F2 _)) as X.
  destruct (exec_db t1 (nth (Z.to_nat dbi) a empty_db) (upper b0) (FBulk b0 :: rest) o) as [[? ?]|],
           (exec_db t2 (nth (Z.to_nat dbi) b empty_db) (upper b0) (FBulk b0 :: rest) o) as [[? ?]|];
    try contradiction; [apply sims_list_set; assumption|exact H].
Qed.


(** ================= the commands that give a key a time to live ================= *)
(** what SET / SETEX / PSETEX / EXPIRE / PEXPIRE do to the database, as a plan that does not
    mention the clock; the clock enters when the plan is run: deadline = clock + time to live *)
Inductive plan := PKeep | PSet (k : bytes) (v : value) (ttl : option Z) | PExp (k : bytes) (ms : Z) | PDel (k : bytes).
Definition run_plan (now : Z) (d : db) (p : plan) : db :=
  match p with
  | PKeep => d
  | PSet k v ttl => set_value now d k v ttl
  | PExp k ms => snd (eng_expire now d k ms)
  | PDel k => snd (eng_delete d k)
  end.
Definition plan_on (p : plan) (k : bytes) : Prop :=
  match p with PKeep => True | PSet k' _ _ => k' = k | PExp k' _ => k' = k | PDel k' => k' = k end.
(** the plan concerns the key the command names (its first argument), if it does anything *)
Definition plan_key (p : plan) (parts : list frame) : Prop :=
  match nth_error parts 1 with Some (FBulk k) => plan_on p k | _ => p = PKeep end.
Definition has_key (d : db) (k : bytes) : bool := match get_entry d k with Some _ => true | None => false end.
Lemma exists_has_key now d k : lfresh now d -> eng_exists now d k = has_key d k.
Proof.
  intros F. unfold eng_exists, has_key. destruct (get_entry d k) as [e|] eqn:E; [|reflexivity].
  rewrite (lfresh_entry _ _ _ _ F E). reflexivity.
Qed.
Lemma has_key_sim d1 d2 k : sim d1 d2 -> has_key d1 k = has_key d2 k.
Proof.
  intros H. unfold has_key. pose proof (sim_lookup d1 d2 k H) as R.
  destruct (get_entry d1 k), (get_entry d2 k); cbn [orel] in R; try contradiction; reflexivity.
Qed.

Definition set_plan (d : db) (parts : list frame) : plan :=
  if nparts parts <? 3 then PKeep else
  match nth_error parts 1, nth_error parts 2 with
  | Some (FBulk k), Some v =>
      if beq k [] then PKeep else
      match arg_bytes v with
      | None => PKeep
      | Some vb =>
          match parse_set_opts (length parts) (skipn 3 parts) None false false false false with
          | SetSyntax | SetBadExpire => PKeep
          | SetOpts ttl nx xx =>
              if nx && xx then PKeep else
              match ttl with
              | Some ms => if ttl_ok ms then
                             (if nx then (if has_key d k then PKeep else PSet k (VStr vb) ttl)
                              else if xx then (if has_key d k then PSet k (VStr vb) ttl else PKeep)
                              else PSet k (VStr vb) ttl)
                           else PKeep
              | None => if nx then (if has_key d k then PKeep else PSet k (VStr vb) None)
                        else if xx then (if has_key d k then PSet k (VStr vb) None else PKeep)
                        else PSet k (VStr vb) None
              end
          end
      end
  | _, _ => PKeep
  end.
Definition setex_plan (mult : Z) (parts : list frame) : plan :=
  if negb (nparts parts =? 4) then PKeep else
  match nth_arg parts 1, nth_arg parts 2, nth_arg parts 3 with
  | Some k, Some a, Some v =>
      match parse_u64 a with
      | Some n => if n =? 0 then PKeep else if ttl_ok (n * mult) then PSet k (VStr v) (Some (n * mult)) else PKeep
      | None => PKeep
      end
  | _, _, _ => PKeep
  end.
Definition expire_plan (parts : list frame) : plan :=
  if negb (nparts parts =? 3) then PKeep else
  match nth_arg parts 1, nth_arg parts 2 with
  | Some k, Some a =>
      match parse_i64 a with
      | Some s => if s <=? 0 then PDel k else if ttl_ok (s * 1000) then PExp k (s * 1000) else PKeep
      | None => PKeep
      end
  | _, _ => PKeep
  end.
Definition pexpire_plan (parts : list frame) : plan :=
  if negb (nparts parts =? 3) then PKeep else
  match nth_arg parts 1, nth_arg parts 2 with
  | Some k, Some a =>
      match parse_u64 a with
      | Some ms => if ttl_ok ms then PExp k ms else PKeep
      | None => PKeep
      end
  | _, _ => PKeep
  end.
Definition ttl_plan (name : bytes) (d : db) (parts : list frame) : plan :=
  if beq name (bs "SET") then set_plan d parts
  else if beq name (bs "SETEX") then setex_plan 1000 parts
  else if beq name (bs "PSETEX") then setex_plan 1 parts
  else if beq name (bs "EXPIRE") then expire_plan parts
  else if beq name (bs "PEXPIRE") then pexpire_plan parts
  else PKeep.

Ltac plan_tac :=
  repeat match goal with
  | |- context [if ?c then _ else _] => destruct c
  | |- context [match ?x with _ => _ end] => destruct x
  end; cbn [fst snd run_plan is_err r_err r_ok r_nil r_int]; repeat split; intros; try reflexivity; try discriminate.

Lemma plan_key_keep parts : plan_key PKeep parts.
Proof. unfold plan_key. destruct (nth_error parts 1) as [[]|]; cbn [plan_on]; auto. Qed.
Lemma h_set_plan t d parts : lfresh t d ->
  snd (h_set t d parts) = run_plan t d (set_plan d parts) /\
  (is_err (fst (h_set t d parts)) = true -> set_plan d parts = PKeep).
Proof.
  intros F. unfold h_set, set_plan.
  destruct (nparts parts <? 3); [cbn; auto|].
  destruct (nth_error parts 1) as [[| | |k| | | | | | | | |]|]; try (cbn; auto; fail);
    destruct (nth_error parts 2) as [v|]; try (cbn; auto; fail).
  destruct (beq k []); [cbn; auto|]. destruct (arg_bytes v) as [vb|]; [|cbn; auto].
  rewrite !(exists_has_key t d k F).
  destruct (parse_set_opts (length parts) (skipn 3 parts) None false false false false) as [ttl nx xx| |]; try (cbn; auto; fail).
  destruct (nx && xx); [cbn; auto|].
  destruct ttl as [ms|]; [destruct (ttl_ok ms)|]; destruct nx; destruct xx; destruct (has_key d k);
    cbn [fst snd run_plan is_err r_err r_ok r_nil]; repeat split; intros; try reflexivity; try discriminate.
Qed.
Lemma set_plan_key d parts : plan_key (set_plan d parts) parts.
Proof.
  unfold set_plan. destruct (nparts parts <? 3); [apply plan_key_keep|].
  destruct (nth_error parts 1) as [[| | |k| | | | | | | | |]|] eqn:E1; try apply plan_key_keep;
    destruct (nth_error parts 2) as [v|]; try apply plan_key_keep.
  assert (K : forall v t, plan_key (PSet k v t) parts) by (intros; unfold plan_key; rewrite E1; reflexivity).
  destruct (beq k []); [apply plan_key_keep|]. destruct (arg_bytes v) as [vb|]; [|apply plan_key_keep].
  destruct (parse_set_opts (length parts) (skipn 3 parts) None false false false false) as [ttl nx xx| |]; try apply plan_key_keep.
  destruct (nx && xx); [apply plan_key_keep|].
  destruct ttl as [ms|]; [destruct (ttl_ok ms)|]; destruct nx; destruct xx; destruct (has_key d k);
    first [apply plan_key_keep | apply K].
Qed.
Lemma h_setex_plan m t d parts :
  snd (h_setex m t d parts) = run_plan t d (setex_plan m parts) /\
  (is_err (fst (h_setex m t d parts)) = true -> setex_plan m parts = PKeep) /\
  plan_key (setex_plan m parts) parts.
Proof.
  pose proof (plan_key_keep parts) as K.
  unfold h_setex, setex_plan. destruct (negb (nparts parts =? 4)); [cbn; auto|].
  destruct (nth_arg parts 1) as [k|] eqn:Ek; [|cbn; auto]. destruct (nth_arg parts 2) as [a|]; [|cbn; auto].
  destruct (parse_u64 a) as [n|]; [|destruct (nth_arg parts 3); cbn; auto].
  destruct (n =? 0); [destruct (nth_arg parts 3); cbn; auto|].
  destruct (nth_arg parts 3) as [v|]; [|cbn; auto]. destruct (ttl_ok (n * m)); cbn [fst snd run_plan is_err r_ok r_err]; repeat split; intros; try reflexivity; try discriminate; try exact K.
  apply nth_arg_bulk in Ek. unfold plan_key. rewrite Ek. reflexivity.
Qed.
Lemma h_expire_plan t d parts :
  snd (h_expire t d parts) = run_plan t d (expire_plan parts) /\
  (is_err (fst (h_expire t d parts)) = true -> expire_plan parts = PKeep) /\
  plan_key (expire_plan parts) parts.
Proof.
  pose proof (plan_key_keep parts) as K.
  unfold h_expire, expire_plan. destruct (negb (nparts parts =? 3)); [cbn; auto|].
  destruct (nth_arg parts 1) as [k|] eqn:Ek; [|cbn; auto]. destruct (nth_arg parts 2) as [a|]; [|cbn; auto].
  destruct (parse_i64 a) as [s|]; [|cbn; auto]. apply nth_arg_bulk in Ek.
  destruct (s <=? 0).
  - destruct (eng_delete d k) as [b x] eqn:E. cbn [fst snd run_plan]. rewrite E. cbn [snd].
    repeat split; intros; try discriminate. unfold plan_key. rewrite Ek. reflexivity.
  - destruct (ttl_ok (s * 1000)); [|cbn; auto].
    destruct (eng_expire t d k (s * 1000)) as [b x] eqn:E. cbn [fst snd run_plan]. rewrite E. cbn [snd].
    repeat split; intros; try discriminate. unfold plan_key. rewrite Ek. reflexivity.
Qed.
Lemma h_pexpire_plan t d parts :
  snd (h_pexpire t d parts) = run_plan t d (pexpire_plan parts) /\
  (is_err (fst (h_pexpire t d parts)) = true -> pexpire_plan parts = PKeep) /\
  plan_key (pexpire_plan parts) parts.
Proof.
  pose proof (plan_key_keep parts) as K.
  unfold h_pexpire, pexpire_plan. destruct (negb (nparts parts =? 3)); [cbn; auto|].
  destruct (nth_arg parts 1) as [k|] eqn:Ek; [|cbn; auto]. destruct (nth_arg parts 2) as [a|]; [|cbn; auto].
  destruct (parse_u64 a) as [ms|]; [|cbn; auto]. apply nth_arg_bulk in Ek.
  destruct (ttl_ok ms); [|cbn; auto].
  destruct (eng_expire t d k ms) as [b x] eqn:E. cbn [fst snd run_plan]. rewrite E. cbn [snd].
  repeat split; intros; try discriminate. unfold plan_key. rewrite Ek. reflexivity.
Qed.
(** the five commands, through the dispatcher *)
Lemma exec_db_ttl t d name parts o : ttl_recorded name = true -> lfresh t d ->
  exists r, exec_db t d name parts o = Some (r, run_plan t d (ttl_plan name d parts)) /\
            (is_err r = true -> ttl_plan name d parts = PKeep) /\
            plan_key (ttl_plan name d parts) parts.
Proof.
  intros Ht F. unfold ttl_recorded in Ht. unfold ttl_plan.
  destruct (beq name (bs "SET")) eqn:E1.
  { apply beq_eq in E1. subst name. destruct (h_set_plan t d parts F) as (A & B). pose proof (set_plan_key d parts) as C.
    exists (fst (h_set t d parts)). split; [|auto].
    change (exec_db t d (bs "SET") parts o) with (Some (h_set t d parts)). rewrite <- A. destruct (h_set t d parts); reflexivity. }
  destruct (beq name (bs "SETEX")) eqn:E2.
  { apply beq_eq in E2. subst name. destruct (h_setex_plan 1000 t d parts) as (A & B & C).
    exists (fst (h_setex 1000 t d parts)). split; [|auto].
    change (exec_db t d (bs "SETEX") parts o) with (Some (h_setex 1000 t d parts)). rewrite <- A. destruct (h_setex 1000 t d parts); reflexivity. }
  destruct (beq name (bs "PSETEX")) eqn:E3.
  { apply beq_eq in E3. subst name. destruct (h_setex_plan 1 t d parts) as (A & B & C).
    exists (fst (h_setex 1 t d parts)). split; [|auto].
    change (exec_db t d (bs "PSETEX") parts o) with (Some (h_setex 1 t d parts)). rewrite <- A. destruct (h_setex 1 t d parts); reflexivity. }
  destruct (beq name (bs "EXPIRE")) eqn:E4.
  { apply beq_eq in E4. subst name. destruct (h_expire_plan t d parts) as (A & B & C).
    exists (fst (h_expire t d parts)). split; [|auto].
    change (exec_db t d (bs "EXPIRE") parts o) with (Some (h_expire t d parts)). rewrite <- A. destruct (h_expire t d parts); reflexivity. }
  destruct (beq name (bs "PEXPIRE")) eqn:E5; [|discriminate Ht].
  apply beq_eq in E5. subst name. destruct (h_pexpire_plan t d parts) as (A & B & C).
  exists (fst (h_pexpire t d parts)). split; [|auto].
  change (exec_db t d (bs "PEXPIRE") parts o) with (Some (h_pexpire t d parts)). rewrite <- A. destruct (h_pexpire t d parts); reflexivity.
Qed.
Lemma ttl_plan_sim name d1 d2 parts : sim d1 d2 -> ttl_plan name d1 parts = ttl_plan name d2 parts.
Proof.
  intros H. unfold ttl_plan. destruct (beq name (bs "SET")); [|reflexivity].
  unfold set_plan. destruct (nparts parts <? 3); [reflexivity|].
  destruct (nth_error parts 1) as [[| | |k| | | | | | | | |]|]; try reflexivity.
  rewrite (has_key_sim d1 d2 k H). reflexivity.
Qed.

(** ---- a plan run at two clock readings, and the deadline record ---- *)
Lemma lfresh_put now d k e : lfresh now d -> expired now e = false -> lfresh now (put_entry d k e).
Proof.
  intros F He k'. unfold was_expired. destruct (beq k' k) eqn:E.
  - apply beq_eq in E. subst. rewrite get_entry_put_same. exact He.
  - rewrite get_entry_put_other by exact E. apply F.
Qed.
Lemma lfresh_del now d k : lfresh now d -> lfresh now (del_entry d k).
Proof.
  intros F k'. unfold was_expired. destruct (beq k' k) eqn:E.
  - apply beq_eq in E. subst. rewrite get_entry_del_same. reflexivity.
  - rewrite get_entry_del_other by exact E. apply F.
Qed.
Lemma sim_put_right d1 d2 k e1 e' : sim d1 d2 -> get_entry d1 k = Some e1 -> sim_e e1 e' -> sim d1 (put_entry d2 k e').
Proof.
  intros H E He k'. destruct (beq k' k) eqn:B.
  - apply beq_eq in B. subst. rewrite get_entry_put_same, E. exact He.
  - rewrite get_entry_put_other by exact B. apply H.
Qed.
Lemma eng_delete_sim' d1 d2 k : sim d1 d2 -> sim (snd (eng_delete d1 k)) (snd (eng_delete d2 k)).
Proof. intros H. exact (proj2 (eng_delete_sim d1 d2 H k)). Qed.

(** [x1] = the plan run live at [t1]; [x2] = the plan run by the redo at [t2] >= [t1].  If the key
    [k] of the command then carries a deadline in [x1], the live server wrote PEXPIREAT k deadline:
    moving the deadline of [k] in [x2] to that time gives [x1] back - provided it is still ahead *)
Lemma plan_redo t1 t2 d1 d2 p k :
  t1 <= t2 -> sim d1 d2 -> plan_on p k -> lfresh t2 d2 -> lfresh t2 (run_plan t1 d1 p) ->
  lfresh t2 (run_plan t2 d2 p) /\
  match eng_ttl t1 (run_plan t1 d1 p) k with
  | Some rem => t2 < t1 + rem /\ sim (run_plan t1 d1 p) (snd (eng_expire t2 (run_plan t2 d2 p) k (t1 + rem - t2)))
  | None => sim (run_plan t1 d1 p) (run_plan t2 d2 p)
  end.
Proof.
  intros Ht H Hon F2 Fx.
  (* a key with a deadline in a database fresh at t2: the deadline record moves it to the same time *)
  assert (Keep : forall a b, sim a b -> lfresh t2 a ->
            match eng_ttl t1 a k with
            | Some rem => t2 < t1 + rem /\ sim a (snd (eng_expire t2 b k (t1 + rem - t2)))
            | None => True end).
  { intros a b Hab Fa. unfold eng_ttl. pose proof (sim_lookup a b k Hab) as R.
    destruct (get_entry a k) as [e1|] eqn:E1; [|exact I]. destruct (e_exp e1) as [D|] eqn:ED; [|exact I].
    pose proof (lfresh_entry _ _ _ _ Fa E1) as Hx. unfold expired in Hx. rewrite ED in Hx.
    replace (t1 <? D) with true by lia. split; [lia|].
    unfold eng_expire. destruct (get_entry b k) as [e2|] eqn:E2; cbn [orel] in R; [|contradiction].
    cbn [snd]. apply sim_index_set_r. eapply sim_put_right; [exact Hab|exact E1|].
    destruct R as [Rv _]. split; [exact Rv|]. cbn [e_exp]. rewrite ED. f_equal. lia. }
  destruct p as [|k' v ttl|k' ms|k']; cbn [run_plan plan_on] in *.
  - (* nothing done *)
    split; [exact F2|]. specialize (Keep d1 d2 H Fx). destruct (eng_ttl t1 d1 k); [exact Keep|exact H].
  - subst k'. destruct ttl as [ms|]; unfold set_value in *.
    + (* stored with a time to live *)
      assert (Hms : t2 < t1 + ms).
      { specialize (Fx k). unfold was_expired in Fx. rewrite get_entry_index, get_entry_put_same in Fx.
        unfold expired in Fx. cbn [e_exp] in Fx. lia. }
      split.
      * intros k'. unfold was_expired. rewrite get_entry_index. apply lfresh_put; [exact F2|]. unfold expired. cbn [e_exp]. lia.
      * unfold eng_ttl. rewrite get_entry_index, get_entry_put_same. cbn [e_exp]. replace (t1 <? t1 + ms) with true by lia.
        split; [lia|]. unfold eng_expire. rewrite get_entry_index, get_entry_put_same. cbn [snd e_val].
        apply sim_index_set_l, sim_index_set_r. intros k'. destruct (beq k' k) eqn:B.
        -- apply beq_eq in B. subst. rewrite get_entry_put_same. rewrite get_entry_put_same. cbn [orel]. split; [reflexivity|]. cbn [e_exp]. f_equal. lia.
        -- rewrite !get_entry_put_other by exact B. rewrite get_entry_index, get_entry_put_other by exact B. apply H.
    + split; [apply lfresh_put; [exact F2|reflexivity]|].
      unfold eng_ttl. rewrite get_entry_put_same. cbn [e_exp]. apply sim_put; [exact H|split; reflexivity].
  - (* EXPIRE / PEXPIRE *)
    subst k'. unfold eng_expire in *. pose proof (sim_lookup d1 d2 k H) as R.
    destruct (get_entry d1 k) as [e1|] eqn:E1, (get_entry d2 k) as [e2|] eqn:E2; cbn [orel] in R; try contradiction; cbn [snd] in *.
    + assert (Hms : t2 < t1 + ms).
      { specialize (Fx k). unfold was_expired in Fx. rewrite get_entry_index, get_entry_put_same in Fx.
        unfold expired in Fx. cbn [e_exp] in Fx. lia. }
      destruct R as [Rv _]. split.
      * intros k'. unfold was_expired. rewrite get_entry_index. apply lfresh_put; [exact F2|]. unfold expired. cbn [e_exp]. lia.
      * unfold eng_ttl. rewrite get_entry_index, get_entry_put_same. cbn [e_exp]. replace (t1 <? t1 + ms) with true by lia.
        split; [lia|]. rewrite get_entry_index, get_entry_put_same. cbn [snd e_val].
        apply sim_index_set_l, sim_index_set_r. intros k'. destruct (beq k' k) eqn:B.
        -- apply beq_eq in B. subst. rewrite get_entry_put_same. rewrite get_entry_put_same. cbn [orel]. split; [exact Rv|]. cbn [e_exp]. f_equal. lia.
        -- rewrite !get_entry_put_other by exact B. rewrite get_entry_index, get_entry_put_other by exact B. apply H.
    + split; [exact F2|]. unfold eng_ttl. rewrite E1. exact H.
  - (* deleted *)
    subst k'. split.
    + unfold eng_delete. destruct (get_entry d2 k); cbn [snd]; [|exact F2].
      intros k'. unfold was_expired. rewrite get_entry_index_del. apply lfresh_del. exact F2.
    + assert (N : get_entry (snd (eng_delete d1 k)) k = None).
      { unfold eng_delete. destruct (get_entry d1 k) eqn:E; cbn [snd]; [|exact E]. rewrite get_entry_index_del. apply get_entry_del_same. }
      unfold eng_ttl. rewrite N. apply eng_delete_sim'. exact H.
Qed.

(** ================= one command and its records, at two clock readings ================= *)
Lemma lfresh_sim now d1 d2 : sim d1 d2 -> lfresh now d1 -> lfresh now d2.
Proof.
  intros H F k. specialize (F k). unfold was_expired in *. pose proof (sim_lookup d1 d2 k H) as R.
  destruct (get_entry d1 k) as [e1|], (get_entry d2 k) as [e2|]; cbn [orel] in R; try contradiction; [|reflexivity].
  rewrite <- (sim_e_eq _ _ R). exact F.
Qed.
Lemma sims_lfresh now a b : sims a b -> lfresh_all now a -> lfresh_all now b.
Proof. intros H F i. eapply lfresh_sim; [apply sims_nth; exact H|apply F]. Qed.
Lemma sims_length a b : sims a b -> length a = length b.
Proof. induction 1; cbn [length]; congruence. Qed.
Lemma sims_list_set_cond a b i x y : sims a b -> ((i < length a)%nat -> sim x y) -> sims (list_set a i x) (list_set b i y).
Proof.
  intros H. revert i. induction H as [|a0 b0 a b H0 H IH]; intros [|i] Hs; cbn [list_set]; constructor; auto.
  - apply Hs. cbn. lia.
  - apply IH. intros Hl. apply Hs. cbn. lia.
Qed.
Lemma sims_list_set_right a b i y : sims a b -> ((i < length a)%nat -> sim (nth i a empty_db) y) -> sims a (list_set b i y).
Proof. intros H Hs. rewrite <- (list_set_nth_same a i empty_db) at 1. apply sims_list_set_cond; assumption. Qed.
Lemma sims_list_set_left a b i x : sims a b -> ((i < length a)%nat -> sim x (nth i b empty_db)) -> sims (list_set a i x) b.
Proof. intros H Hs. rewrite <- (list_set_nth_same b i empty_db). apply sims_list_set_cond; assumption. Qed.
Lemma list_set_beyond {A} (l : list A) : forall i x, ~ (i < length l)%nat -> list_set l i x = l.
Proof.
  induction l as [|z l IH]; intros i x H; [destruct i; reflexivity|].
  destruct i; cbn [list_set]; [cbn in H; lia|]. f_equal. apply IH. cbn in H. lia.
Qed.
Lemma list_set_twice {A} (l : list A) : forall i x y, list_set (list_set l i x) i y = list_set l i y.
Proof. induction l as [|z l IH]; intros [|i] x y; cbn [list_set]; try reflexivity. rewrite IH. reflexivity. Qed.
Lemma nth_list_set_or {A} (l : list A) : forall i j x dflt, nth j (list_set l i x) dflt = x \/ nth j (list_set l i x) dflt = nth j l dflt.
Proof.
  induction l as [|z l IH]; intros i j x dflt; [right; destruct i; reflexivity|].
  destruct i, j; cbn [list_set nth]; auto.
Qed.
Lemma lfresh_all_list_set now a i x : lfresh_all now a -> lfresh now x -> lfresh_all now (list_set a i x).
Proof. intros F Fx j. destruct (nth_list_set_or a i j x empty_db) as [->| ->]; [exact Fx|apply F]. Qed.
Lemma lfresh_all_post now a i x : lfresh_all now (list_set a i x) -> (i < length a)%nat -> lfresh now x.
Proof. intros F Hl. specialize (F i). rewrite nth_list_set_same in F by exact Hl. exact F. Qed.

(** the records of one command, all in its database *)
Definition redo_dbs (now : Z) (dbi : Z) (l : list orec) (d : list db) : list db :=
  fold_left (fun d po => step_dbs now d dbi (fst po) (snd po)) l d.
Lemma redo_writes now dbi : forall l d, Forall (fun po => is_write (fst po) = true) l ->
  redo now l (dbi, d) = (dbi, redo_dbs now dbi l d).
Proof.
  induction l as [|[p o] l IH]; intros d H; [reflexivity|]. inversion H as [|? ? Hp Hl]; subst. cbn [fst] in Hp.
  unfold redo, redo_dbs. cbn [fold_left]. unfold redo_step at 2. cbn [fst snd]. rewrite (sel_db_written dbi p Hp).
  apply IH. exact Hl.
Qed.
Definition special8 (name : bytes) : bool :=
  beq name (bs "PING") || beq name (bs "ECHO") || beq name (bs "SELECT") || beq name (bs "FLUSHALL")
  || beq name (bs "RANDOMKEY") || beq name (bs "AUTH") || beq name (bs "QUIT") || beq name (bs "VERIF").
Ltac split_special H :=
  unfold special8 in H;
  repeat match goal with X : _ || _ = false |- _ => apply orb_false_iff in X; destruct X end;
  repeat match goal with X : beq _ _ = false |- _ => rewrite X; clear X end.
Lemma dstep_exec now dbs dbi nm rest o : special8 (upper nm) = false ->
  dstep_dbs now dbs dbi (FBulk nm :: rest) o =
  match exec_db now (nth (Z.to_nat dbi) dbs empty_db) (upper nm) (FBulk nm :: rest) o with
  | Some (_, d') => list_set dbs (Z.to_nat dbi) d'
  | None => dbs
  end.
Proof. intros H. unfold dstep_dbs. split_special H. reflexivity. Qed.
Lemma dout_exec now dbs dbi nm rest o : special8 (upper nm) = false ->
  dout_recs now dbs dbi (FBulk nm :: rest) o =
  match exec_db now (nth (Z.to_nat dbi) dbs empty_db) (upper nm) (FBulk nm :: rest) o with
  | Some (r, d') => out_recs now d' (upper nm) (FBulk nm :: rest) r
  | None => []
  end.
Proof. intros H. unfold dout_recs. split_special H. reflexivity. Qed.
Lemma step_fresh now dbs dbi nm rest o : lfresh_all now dbs ->
  step_dbs now dbs dbi (FBulk nm :: rest) o = dstep_dbs now dbs dbi (FBulk nm :: rest) o.
Proof. intros F. unfold step_dbs. rewrite pre_dbs_fresh by exact F. reflexivity. Qed.
Lemma xout_fresh now dbs x : lfresh_all now dbs -> xout_recs now dbs x = dout_recs now dbs (x_db x) (x_parts x) (x_or x).
Proof.
  intros F. unfold xout_recs, xbase. rewrite (purge_dbs_fresh now dbs (x_db x) (x_purge x) F).
  destruct (x_parts x) as [|[] rest]; try reflexivity.
  destruct (x_lazy x); [rewrite pre_dbs_fresh by exact F|]; reflexivity.
Qed.
Lemma out_recs_plain now d' name parts r : by_outcome name parts = false -> ttl_recorded name = false ->
  out_recs now d' name parts r = [].
Proof. intros H1 H2. unfold out_recs. rewrite H1, H2. reflexivity. Qed.

(** ---- SPOP ---- *)
Lemma exec_spop now d parts o : exec_db now d (bs "SPOP") parts o = Some (h_spop d parts o).
Proof. reflexivity. Qed.
Lemma exec_srem now d parts o : exec_db now d (bs "SREM") parts o = Some (h_skipping e_srem d parts).
Proof. reflexivity. Qed.
Lemma srem_head p parts r : deterministic_form (bs "SPOP") parts r = Some p ->
  exists kf ms, p = FBulk (bs "SREM") :: kf :: ms.
Proof.
  rewrite spop_form. destruct (nth_error parts 1) as [kf|]; [|discriminate]. unfold spop_rec.
  destruct r; try discriminate; [intros H; inversion H; eauto|]. destruct l; [discriminate|]. intros H; inversion H; eauto.
Qed.
Lemma item_spop t now' d1 d2 dbi nm rest o :
  upper nm = bs "SPOP" -> sims d1 d2 -> lfresh_all t d1 -> lfresh_all now' d2 ->
  sims (step_dbs t d1 dbi (FBulk nm :: rest) o)
       (redo_dbs now' dbi (map (fun r => (r, None)) (dout_recs t d1 dbi (FBulk nm :: rest) o)) d2).
Proof.
  intros Hn H F1 F2.
  rewrite (step_fresh t d1 dbi nm rest o F1), dstep_exec, dout_exec by (rewrite Hn; reflexivity).
  set (p := FBulk nm :: rest). rewrite Hn, exec_spop. destruct (h_spop (nth (Z.to_nat dbi) d1 empty_db) p o) as [r x1] eqn:E.
  unfold out_recs. change (by_outcome (bs "SPOP") p) with true. change (ttl_recorded (bs "SPOP")) with false.
  cbn [andb]. rewrite app_nil_r.
  destruct (deterministic_form (bs "SPOP") p r) as [rec|] eqn:Ef; cbn [map redo_dbs fold_left fst snd].
  - destruct (srem_head _ _ _ Ef) as (kf & ms & ->).
    rewrite (step_fresh now' d2 dbi _ _ None F2), dstep_exec by reflexivity.
    change (upper (bs "SREM")) with (bs "SREM"). rewrite exec_srem.
    destruct (h_skipping e_srem (nth (Z.to_nat dbi) d2 empty_db) (FBulk (bs "SREM") :: kf :: ms)) as [r2 x2] eqn:E2.
    apply sims_list_set_cond; [exact H|]. intros _.
    rewrite <- (spop_as_srem _ _ _ _ _ _ E Ef). change x2 with (snd (r2, x2)). rewrite <- E2.
    apply h_skipping_sim. apply sims_nth. exact H.
  - apply sims_list_set_left; [exact H|]. intros _.
    eapply sim_trans; [apply sim_ext; exact (spop_quiet _ _ _ _ _ E Ef)|apply sims_nth; exact H].
Qed.

(** ---- XADD with the ID * ---- *)
Lemma exec_xadd now d parts o : exec_db now d (bs "XADD") parts o = Some (h_xadd d parts o).
Proof. reflexivity. Qed.
Lemma item_xadd t now' d1 d2 dbi nm rest o :
  upper nm = bs "XADD" -> by_outcome (bs "XADD") (FBulk nm :: rest) = true ->
  (forall k, nth_error (FBulk nm :: rest) 1 = Some (FBulk k) -> stream_fit (nth (Z.to_nat dbi) d1 empty_db) k) ->
  sims d1 d2 -> lfresh_all t d1 -> lfresh_all now' d2 ->
  sims (step_dbs t d1 dbi (FBulk nm :: rest) o)
       (redo_dbs now' dbi (map (fun r => (r, None)) (dout_recs t d1 dbi (FBulk nm :: rest) o)) d2).
Proof.
  intros Hn Hb Hfit H F1 F2.
  rewrite (step_fresh t d1 dbi nm rest o F1), dstep_exec, dout_exec by (rewrite Hn; reflexivity).
  set (p := FBulk nm :: rest) in *. rewrite Hn, exec_xadd. destruct (h_xadd (nth (Z.to_nat dbi) d1 empty_db) p o) as [r x1] eqn:E.
  unfold out_recs. rewrite Hb. change (ttl_recorded (bs "XADD")) with false. cbn [andb]. rewrite app_nil_r.
  destruct (deterministic_form (bs "XADD") p r) as [rec|] eqn:Ef; cbn [map redo_dbs fold_left fst snd].
  - pose proof (xadd_auto_as_explicit _ _ _ _ _ _ Hb Hfit E Ef) as Hx.
    assert (Hrec : exists rest', rec = FBulk nm :: rest').
    { rewrite xadd_form in Ef. unfold p in Ef. destruct rest as [|b [|c rest']]; try discriminate. destruct r; try discriminate.
      inversion Ef. eauto. }
    destruct Hrec as (rest' & ->).
    rewrite (step_fresh now' d2 dbi _ _ None F2), dstep_exec by (rewrite Hn; reflexivity).
    rewrite Hn, exec_xadd.
    destruct (h_xadd (nth (Z.to_nat dbi) d2 empty_db) (FBulk nm :: rest') None) as [r2 x2] eqn:E2.
    apply sims_list_set_cond; [exact H|]. intros _.
    rewrite <- Hx. change x2 with (snd (r2, x2)). rewrite <- E2.
    apply h_xadd_sim. apply sims_nth. exact H.
  - rewrite (xadd_quiet _ _ _ _ _ Hb E Ef). rewrite list_set_nth_same. exact H.
Qed.

(** ---- SET / SETEX / PSETEX / EXPIRE / PEXPIRE with their deadline record ---- *)
Lemma exec_pexpireat now d parts o : exec_db now d (bs "PEXPIREAT") parts o = Some (h_pexpireat now d parts).
Proof. reflexivity. Qed.
Lemma ttl_not_special name : ttl_recorded name = true -> special8 name = false /\ by_outcome name = (fun _ => false) /\ beq name (bs "EVALSHA") = false /\ bmem name write_commands = true.
Proof.
  unfold ttl_recorded. intros H.
  destruct (beq name (bs "SET")) eqn:E1; [apply beq_eq in E1; subst name; repeat split; reflexivity|].
  destruct (beq name (bs "SETEX")) eqn:E2; [apply beq_eq in E2; subst name; repeat split; reflexivity|].
  destruct (beq name (bs "PSETEX")) eqn:E3; [apply beq_eq in E3; subst name; repeat split; reflexivity|].
  destruct (beq name (bs "EXPIRE")) eqn:E4; [apply beq_eq in E4; subst name; repeat split; reflexivity|].
  cbn [orb] in H. apply beq_eq in H. subst name. repeat split; reflexivity.
Qed.
(** the PEXPIREAT record of a deadline that is still ahead and fits an i64 *)
Lemma pexpireat_redo now d k D : now < D -> in_i64 D = true ->
  snd (h_pexpireat now d (pexpireat_record k D)) = snd (eng_expire now d k (D - now)).
Proof.
  intros Hlt Hr. unfold h_pexpireat, pexpireat_record.
  change (nparts [FBulk (bs "PEXPIREAT"); FBulk k; FBulk (print_int D)]) with 3. cbn [Z.eqb negb Pos.eqb].
  cbn [nth_arg nth_error arg_bytes]. rewrite (parse_i64_print D Hr). replace (D <=? now) with false by lia.
  destruct (eng_expire now d k (D - now)). reflexivity.
Qed.
Lemma item_ttl t now' d1 d2 dbi nm rest o :
  t <= now' -> ttl_recorded (upper nm) = true -> sims d1 d2 -> lfresh_all t d1 -> lfresh_all now' d2 ->
  lfresh_all now' (step_dbs t d1 dbi (FBulk nm :: rest) o) ->
  (forall k rem, nth_error (FBulk nm :: rest) 1 = Some (FBulk k) ->
     eng_ttl t (nth (Z.to_nat dbi) (step_dbs t d1 dbi (FBulk nm :: rest) o) empty_db) k = Some rem -> in_i64 (t + rem) = true) ->
  sims (step_dbs t d1 dbi (FBulk nm :: rest) o)
       (redo_dbs now' dbi ((FBulk nm :: rest, o) :: map (fun r => (r, None)) (dout_recs t d1 dbi (FBulk nm :: rest) o)) d2).
Proof.
  intros Ht Hn H F1 F2 Fp Hfit. destruct (ttl_not_special _ Hn) as (Hs & Hb & _ & _).
  rewrite (step_fresh t d1 dbi nm rest o F1), dstep_exec in * by exact Hs.
  rewrite dout_exec in * by exact Hs.
  set (i := Z.to_nat dbi) in *.
  destruct (exec_db_ttl t (nth i d1 empty_db) (upper nm) (FBulk nm :: rest) o Hn (F1 i)) as (r1 & E1 & Herr1 & Hkey1).
  destruct (exec_db_ttl now' (nth i d2 empty_db) (upper nm) (FBulk nm :: rest) o Hn (F2 i)) as (r2 & E2 & _ & _).
  rewrite E1 in *. rewrite <- (ttl_plan_sim (upper nm) _ _ (FBulk nm :: rest) (sims_nth d1 d2 i H)) in E2.
  set (pl := ttl_plan (upper nm) (nth i d1 empty_db) (FBulk nm :: rest)) in *.
  cbn [redo_dbs fold_left fst snd]. rewrite (step_fresh now' d2 dbi nm rest o F2), dstep_exec by exact Hs. fold i. rewrite E2.
  unfold out_recs in *. rewrite Hb in *. cbn [app] in *.
  destruct (negb (is_err r1)) eqn:Er; rewrite Hn in *; cbn [andb] in *.
  2:{ (* refused: nothing done, no record *)
    apply negb_false_iff in Er. rewrite (Herr1 Er) in *. cbn [run_plan map fold_left].
    apply sims_list_set_cond; [exact H|]. intros _. apply sims_nth. exact H. }
  unfold plan_key in Hkey1.
  destruct (nth_error (FBulk nm :: rest) 1) as [[| | |k| | | | | | | | |]|] eqn:Ek;
    try (rewrite Hkey1 in *; cbn [run_plan map fold_left]; apply sims_list_set_cond; [exact H|]; intros _; apply sims_nth; exact H).
  (* the key of the command *)
  assert (Len : (i < length d1)%nat \/ ~ (i < length d1)%nat) by lia. destruct Len as [Len|Len].
  2:{ (* no such database: nothing is stored on either side *)
    assert (G : forall a x, sims d1 a -> list_set a i x = a).
    { intros a x Ha. apply list_set_beyond. rewrite <- (sims_length _ _ Ha). exact Len. }
    rewrite (G d1 _ (sims_refl d1)), (G d2 _ H).
    clear - H G F2 Hs. revert H. generalize (eng_ttl t (run_plan t (nth i d1 empty_db) pl) k). intros [rem|] H; cbn [map fold_left fst snd]; [|exact H].
    unfold pexpireat_record. rewrite (step_fresh now' d2 dbi _ _ None F2), dstep_exec by reflexivity.
    destruct (exec_db _ _ _ _ _) as [[? ?]|]; [rewrite (G d2 _ H)|]; exact H. }
  pose proof (lfresh_all_post now' d1 i _ Fp Len) as Fx.
  destruct (plan_redo t now' _ _ pl k Ht (sims_nth d1 d2 i H) Hkey1 (F2 i) Fx) as [Fx2 Hp].
  destruct (eng_ttl t (run_plan t (nth i d1 empty_db) pl) k) as [rem|] eqn:Et; cbn [map fold_left fst snd].
  - destruct Hp as [Hlt Hsim].
    assert (Hr : in_i64 (t + rem) = true).
    { apply (Hfit k rem eq_refl). rewrite nth_list_set_same by exact Len. exact Et. }
    assert (F2' : lfresh_all now' (list_set d2 i (run_plan now' (nth i d2 empty_db) pl))) by (apply lfresh_all_list_set; assumption).
    unfold pexpireat_record at 1. rewrite (step_fresh now' _ dbi _ _ None F2'), dstep_exec by reflexivity.
    change (upper (bs "PEXPIREAT")) with (bs "PEXPIREAT"). rewrite exec_pexpireat.
    fold (pexpireat_record k (t + rem)).
    destruct (h_pexpireat now' _ (pexpireat_record k (t + rem))) as [r3 x3] eqn:E3.
    rewrite list_set_twice. apply sims_list_set_cond; [exact H|]. intros _.
    change x3 with (snd (r3, x3)). rewrite <- E3.
    rewrite nth_list_set_same by (rewrite <- (sims_length _ _ H); exact Len).
    rewrite (pexpireat_redo now' _ k (t + rem) Hlt Hr). exact Hsim.
  - apply sims_list_set_cond; [exact H|]. intros _. exact Hp.
Qed.

(** ---- PEXPIREAT sent by a client ---- *)
Lemma h_pexpireat_sim t1 t2 d1 d2 parts : t1 <= t2 -> sim d1 d2 ->
  lfresh t2 (snd (h_pexpireat t1 d1 parts)) ->
  sim (snd (h_pexpireat t1 d1 parts)) (snd (h_pexpireat t2 d2 parts)).
Proof.
  intros Ht H Fx. unfold h_pexpireat in *. destruct (negb (nparts parts =? 3)); [exact H|].
  destruct (nth_arg parts 1) as [k|]; [|exact H]. destruct (nth_arg parts 2) as [a|]; [|exact H].
  destruct (parse_i64 a) as [T|]; [|exact H].
  pose proof (sim_lookup d1 d2 k H) as R.
  destruct (T <=? t1) eqn:E1.
  - replace (T <=? t2) with true by lia.
    pose proof (eng_delete_sim' d1 d2 k H) as Hs. destruct (eng_delete d1 k), (eng_delete d2 k). exact Hs.
  - destruct (get_entry d1 k) as [e1|] eqn:G1.
    + (* the key is there: its deadline T is still ahead at t2 *)
      assert (HT : t2 < T).
      { unfold eng_expire in Fx. rewrite G1 in Fx. cbn [snd] in Fx. specialize (Fx k). unfold was_expired in Fx.
        rewrite get_entry_index, get_entry_put_same in Fx. unfold expired in Fx. cbn [e_exp] in Fx. lia. }
      replace (T <=? t2) with false by lia.
      destruct (eng_expire_abs t1 t2 d1 d2 k T H) as [_ Hs].
      destruct (eng_expire t1 d1 k (T - t1)), (eng_expire t2 d2 k (T - t2)). exact Hs.
    + (* no such key: nothing happens at either clock reading *)
      destruct (get_entry d2 k) as [e2|] eqn:G2; cbn [orel] in R; [contradiction|].
      unfold eng_expire, eng_delete. rewrite G1, G2. destruct (T <=? t2); exact H.
Qed.
Lemma item_pexpireat t now' d1 d2 dbi nm rest o :
  t <= now' -> upper nm = bs "PEXPIREAT" -> sims d1 d2 -> lfresh_all t d1 -> lfresh_all now' d2 ->
  lfresh_all now' (step_dbs t d1 dbi (FBulk nm :: rest) o) ->
  sims (step_dbs t d1 dbi (FBulk nm :: rest) o) (step_dbs now' d2 dbi (FBulk nm :: rest) o).
Proof.
  intros Ht Hn H F1 F2 Fp.
  rewrite (step_fresh t d1 dbi nm rest o F1), dstep_exec in * by (rewrite Hn; reflexivity).
  rewrite (step_fresh now' d2 dbi nm rest o F2), dstep_exec by (rewrite Hn; reflexivity).
  rewrite Hn, !exec_pexpireat in *.
  destruct (h_pexpireat t (nth (Z.to_nat dbi) d1 empty_db) (FBulk nm :: rest)) as [r1 x1] eqn:E1.
  destruct (h_pexpireat now' (nth (Z.to_nat dbi) d2 empty_db) (FBulk nm :: rest)) as [r2 x2] eqn:E2.
  apply sims_list_set_cond; [exact H|]. intros Len.
  change x1 with (snd (r1, x1)). change x2 with (snd (r2, x2)). rewrite <- E1, <- E2.
  apply h_pexpireat_sim; [exact Ht|apply sims_nth; exact H|]. rewrite E1. cbn [snd].
  exact (lfresh_all_post now' d1 _ x1 Fp Len).
Qed.

(** ================= the redo at any later clock reading ================= *)
Definition timeless (x : item) : bool := negb (mem_name (cmd_name (x_parts x)) untimed_excluded).
(** the deadline written to the file after a TTL command fits the i64 its reader parses *)
Definition deadline_fits (t : Z) (dbs : list db) (x : item) : bool :=
  if ttl_recorded (cmd_name (x_parts x)) then
    match nth_error (x_parts x) 1 with
    | Some (FBulk k) =>
        match eng_ttl t (nth (Z.to_nat (x_db x)) (xstep_dbs t dbs x) empty_db) k with
        | Some rem => in_i64 (t + rem)
        | None => true
        end
    | _ => true
    end
  else true.
(** XADD with the ID *: the stream under the key satisfies the stream invariant *)
Definition auto_fit (d1 : list db) (x : item) : Prop :=
  by_outcome (cmd_name (x_parts x)) (x_parts x) = true ->
  forall k, nth_error (x_parts x) 1 = Some (FBulk k) -> stream_fit (nth (Z.to_nat (x_db x)) d1 empty_db) k.

Lemma dout_recs_plain now dbs dbi nm rest o :
  by_outcome (upper nm) (FBulk nm :: rest) = false -> ttl_recorded (upper nm) = false ->
  dout_recs now dbs dbi (FBulk nm :: rest) o = [].
Proof.
  intros Hb Ht. unfold dout_recs.
  repeat match goal with |- (if ?c then _ else _) = _ => destruct c; [reflexivity|] end.
  destruct (exec_db _ _ _ _ _) as [[r d']|]; [apply out_recs_plain; assumption|reflexivity].
Qed.

Lemma item_sims t now' x d1 d2 :
  t <= now' -> sims d1 d2 -> lfresh_all now' d1 -> lfresh_all now' (xstep_dbs t d1 x) ->
  timeless x = true -> deadline_fits t d1 x = true -> auto_fit d1 x ->
  sims (xstep_dbs t d1 x) (redo_dbs now' (x_db x) (xorecs t d1 x) d2).
Proof.
  intros Ht H Fn Fp Htl Hfit Hauto. unfold deadline_fits in Hfit.
  pose proof (lfresh_all_mono t now' d1 Ht Fn) as F1. pose proof (sims_lfresh now' d1 d2 H Fn) as F2.
  rewrite (xstep_is_step t d1 x F1) in *. unfold xorecs. rewrite (xout_fresh t d1 x F1) in *.
  unfold timeless, auto_fit, deadline_fits in *. apply negb_true_iff in Htl.
  destruct (x_parts x) as [|first rest] eqn:Ep; [exact H|]. destruct first; try exact H.
  unfold cmd_name in *. set (dbi := x_db x) in *. set (o := x_or x) in *.
  destruct (by_outcome (upper b) (FBulk b :: rest)) eqn:Hb.
  - (* logged by outcome *)
    assert (Hv : verb_recs (FBulk b :: rest) = []).
    { unfold verb_recs, logs_before. rewrite Hb. rewrite andb_false_r. reflexivity. }
    rewrite Hv. cbn [map app].
    pose proof Hb as Hb'. unfold by_outcome in Hb'. destruct (beq (upper b) (bs "SPOP")) eqn:E.
    + apply beq_eq in E. apply item_spop; assumption.
    + cbn [orb] in Hb'. apply andb_prop in Hb' as [E2 _]. apply beq_eq in E2.
      apply item_xadd; try assumption; [rewrite <- E2; exact Hb|]. apply Hauto. reflexivity.
  - destruct (ttl_recorded (upper b)) eqn:Htr.
    + (* a time to live *)
      destruct (ttl_not_special _ Htr) as (_ & _ & He & Hm).
      assert (Hv : verb_recs (FBulk b :: rest) = [FBulk b :: rest]).
      { unfold verb_recs, logs_before. rewrite Hm, Hb, He. reflexivity. }
      rewrite Hv. cbn [map app]. apply item_ttl; try assumption.
      intros k rem Hk Hrem. rewrite Hk in Hfit. fold dbi in Hfit. rewrite Hrem in Hfit. exact Hfit.
    + rewrite (dout_recs_plain t d1 dbi b rest o Hb Htr). cbn [map]. rewrite app_nil_r.
      destruct (beq (upper b) (bs "PEXPIREAT")) eqn:Hx.
      * apply beq_eq in Hx.
        assert (Hv : verb_recs (FBulk b :: rest) = [FBulk b :: rest]).
        { unfold verb_recs, logs_before. rewrite Hb, Hx. reflexivity. }
        rewrite Hv. cbn [map redo_dbs fold_left fst snd]. apply item_pexpireat; assumption.
      * unfold verb_recs. destruct (logs_before (upper b) (FBulk b :: rest)) eqn:L; cbn [map redo_dbs fold_left fst snd].
        -- apply step_dbs_sim; assumption.
        -- rewrite (unrecorded_inert t d1 dbi (FBulk b :: rest) o); [exact H| |exact Hb|exact F1].
           unfold verb_recs. rewrite L. reflexivity.
Qed.

Lemma xorecs_writes t d x : Forall (fun po => is_write (fst po) = true) (xorecs t d x).
Proof.
  unfold xorecs. apply Forall_app. split.
  - unfold verb_recs. destruct (x_parts x) as [|[] rest]; try constructor.
    destruct (logs_before (upper b) (FBulk b :: rest)) eqn:L; constructor; [|constructor].
    cbn [fst]. apply is_logged_write. exact L.
  - unfold xout_recs. destruct (x_parts x) as [|[] rest] eqn:Ep; try constructor.
    generalize (if x_lazy x then pre_dbs t (xbase t d x) (x_db x) (upper b) (FBulk b :: rest) else xbase t d x). intros d0.
    unfold dout_recs.
    repeat match goal with |- Forall _ (map _ (if ?c then _ else _)) => destruct c; [constructor|] end.
    destruct (exec_db _ _ _ _ _) as [[r d']|]; [|constructor].
    unfold out_recs. rewrite map_app. apply Forall_app. split.
    + destruct (by_outcome (upper b) (FBulk b :: rest)) eqn:Hb; [|constructor].
      destruct (deterministic_form (upper b) (FBulk b :: rest) r) as [rec|] eqn:Ef; constructor; [|constructor].
      cbn [fst]. unfold by_outcome in Hb. destruct (beq (upper b) (bs "SPOP")) eqn:E.
      * apply beq_eq in E. rewrite E in Ef. destruct (srem_head _ _ _ Ef) as (kf & ms & ->). reflexivity.
      * cbn [orb] in Hb. apply andb_prop in Hb as [E2 _]. apply beq_eq in E2. rewrite E2 in Ef.
        rewrite xadd_form in Ef. destruct rest as [|x1 [|x2 rest']]; try discriminate. destruct r; try discriminate.
        inversion Ef. unfold is_write. rewrite E2. reflexivity.
    + destruct (ttl_recorded (upper b) && negb (is_err r)); [|constructor].
      destruct (nth_error (FBulk b :: rest) 1) as [[]|]; try constructor.
      destruct (eng_ttl t d' b0); constructor; [reflexivity|constructor].
Qed.

Definition timed_item (now' : Z) (dbs : list db) (tx : titem) : bool :=
  (fst tx <=? now') && timeless (snd tx) && fresh_all now' (xstep_dbs (fst tx) dbs (snd tx))
  && deadline_fits (fst tx) dbs (snd tx).
(** every clock reading of the history is at most [now'], every command is in the clock-independent
    part, and NO DEADLINE OF THE LIVE RUN HAS PASSED AT [now']: every state the live server went
    through is without entries that are expired at the time of the redo *)
Fixpoint timed_run (now' : Z) (tr : list titem) (dbs : list db) : bool :=
  match tr with
  | [] => fresh_all now' dbs
  | tx :: r => fresh_all now' dbs && timed_item now' dbs tx && timed_run now' r (xstep_dbs (fst tx) dbs (snd tx))
  end.
Fixpoint fits_run (tr : list titem) (dbs : list db) : Prop :=
  match tr with
  | [] => True
  | (t, x) :: r => auto_fit dbs x /\ fits_run r (xstep_dbs t dbs x)
  end.

Theorem trace_redo_any_time now' : forall tr dbs,
  forallb (fun x => item_ok (snd x)) tr = true -> timed_run now' tr dbs = true -> fits_run tr dbs ->
  sims (trace_dbs tr dbs) (snd (redo now' (trecs tr dbs None) (0, dbs))).
Proof.
  intros tr dbs Hok Hr Hf.
  apply (trace_redo_rel sims now' (fun d => lfresh_all now' d)
           (fun tx d => timed_item now' d tx = true /\ auto_fit d (snd tx)));
    auto; [| | |apply sims_refl|discriminate|].
  - (* SELECT *)
    intros d1 d2 cur dbi F H Hd. rewrite step_dbs_unlogged; [exact H|apply select_unwritten|].
    eapply sims_lfresh; eauto.
  - intros t x d1 d2 F (Ht & Ha) Hi H. unfold timed_item in Ht. cbn [fst snd] in *.
    apply andb_prop in Ht as [Ht Hd]. apply andb_prop in Ht as [Ht H3]. apply andb_prop in Ht as [H1 H2].
    rewrite (redo_writes now' (x_db x) _ d2 (xorecs_writes t d1 x)). cbn [snd]. split; [reflexivity|].
    apply item_sims; auto; [lia|apply fresh_lfresh_all; exact H3].
  - intros t x d1 d2 F (Ht & Ha) H Hn. unfold timed_item in Ht. cbn [fst snd] in *.
    apply andb_prop in Ht as [Ht Hd]. apply andb_prop in Ht as [Ht H3]. apply andb_prop in Ht as [H1 H2].
    pose proof (item_sims t now' x d1 d2) as X. rewrite Hn in X. apply X; auto; [lia|apply fresh_lfresh_all; exact H3].
  - clear Hok. revert dbs Hr Hf. induction tr as [|[t x] tr IH]; intros dbs Hr Hf; cbn [timed_run fits_run along] in *.
    + apply fresh_lfresh_all; exact Hr.
    + apply andb_prop in Hr as [Hr H3]. apply andb_prop in Hr as [H1 H2]. destruct Hf as (Ha & Hf).
      split; [apply fresh_lfresh_all; exact H1|]. split; [auto|]. apply IH; assumption.
Qed.

(** THE REPLAY THEOREM at any later clock reading: in every one of the sixteen databases every
    key has the same value AND THE SAME DEADLINE after the redo as on the live server *)
Theorem replay_any_time now' h :
  forallb (fun te => ev_ok (snd te)) h = true ->
  timed_run now' (trace_of h) dbs0 = true -> fits_run (trace_of h) dbs0 ->
  aof_log (run_tevs h) = map fst (trecs (trace_of h) dbs0 None) /\
  forall i k, get_entry (nth i (s_dbs (replay_o now' (trecs (trace_of h) dbs0 None))) empty_db) k =
              get_entry (nth i (s_dbs (run_tevs h)) empty_db) k.
Proof.
  intros Hok Hr Hf. split; [apply history_file; exact Hok|].
  intros i k. rewrite replay_redo, (history_dbs h Hok), run_trace_fst. symmetry.
  apply sim_ext. apply sims_nth.
  apply trace_redo_any_time; [|exact Hr|exact Hf].
  exact (proj2 (history_is_trace h (init_server None) linv_init Hok)).
Qed.

(** ---- the side conditions as computable checks ---- *)
Fixpoint sorted_b (es : list sentry) : bool :=
  match es with [] => true | e :: r => forallb (fun y => sid_ltb (fst e) (fst y)) r && sorted_b r end.
Definition sinv_b (s : stream) : bool :=
  sorted_b (s_entries s) && forallb (fun e => sid_leb (fst e) (s_last s)) (s_entries s)
  && sid_eqb (s_last s) (s_ams s, s_aseq s) && (s_len s =? len (s_entries s))
  && (0 <=? fst (s_last s)) && (fst (s_last s) <=? u64_max) && (0 <=? snd (s_last s)) && (snd (s_last s) <=? u64_max).
Lemma sorted_b_sorted es : sorted_b es = true -> sorted es.
Proof.
  induction es as [|e es IH]; intros H; [constructor|]. cbn [sorted_b] in H. apply andb_prop in H as [H1 H2].
  constructor; [apply IH; exact H2|]. apply Forall_forall. intros y Hy. rewrite forallb_forall in H1.
  unfold elt. apply sid_ltb_lt. exact (H1 y Hy).
Qed.
Lemma sinv_b_inv s : sinv_b s = true -> SInv s /\ in_u64 (s_last s).
Proof.
  unfold sinv_b. intros H.
  repeat match type of H with (_ && _) = true => apply andb_prop in H; destruct H as [H ?] end.
  split; [split|unfold in_u64; lia].
  - apply sorted_b_sorted. exact H.
  - apply Forall_forall. intros e He. rewrite forallb_forall in H6. apply sid_leb_le. exact (H6 e He).
  - apply sid_eqb_eq. exact H5.
  - lia.
Qed.
Definition auto_fit_b (d1 : list db) (x : item) : bool :=
  negb (by_outcome (cmd_name (x_parts x)) (x_parts x)) ||
  match nth_error (x_parts x) 1 with
  | Some (FBulk k) => match raw_stream (nth (Z.to_nat (x_db x)) d1 empty_db) k with SStream _ s => sinv_b s | _ => true end
  | _ => true
  end.
Fixpoint fits_b (tr : list titem) (dbs : list db) : bool :=
  match tr with [] => true | (t, x) :: r => auto_fit_b dbs x && fits_b r (xstep_dbs t dbs x) end.
Lemma fits_b_run : forall tr dbs, fits_b tr dbs = true -> fits_run tr dbs.
Proof.
  induction tr as [|[t x] tr IH]; intros dbs H; cbn [fits_b fits_run] in *; [exact I|].
  apply andb_prop in H as [H1 H2]. split; [|apply IH; exact H2].
  unfold auto_fit_b in H1. intros Hb k Hk. rewrite Hb, Hk in H1. cbn [negb orb] in H1.
  unfold stream_fit. destruct (raw_stream _ k); try exact I. apply sinv_b_inv. exact H1.
Qed.
Corollary replay_any_time_b now' h :
  forallb (fun te => ev_ok (snd te)) h = true ->
  timed_run now' (trace_of h) dbs0 = true -> fits_b (trace_of h) dbs0 = true ->
  aof_log (run_tevs h) = map fst (trecs (trace_of h) dbs0 None) /\
  forall i k, get_entry (nth i (s_dbs (replay_o now' (trecs (trace_of h) dbs0 None))) empty_db) k =
              get_entry (nth i (s_dbs (run_tevs h)) empty_db) k.
Proof. intros H1 H2 H3. apply replay_any_time; [exact H1|exact H2|apply fits_b_run; exact H3]. Qed.

(** ================= re-sending the file over a connection IS the redo ================= *)
(** what the harness (and any external redo tool) does: the records of the file are sent as
    request frames over a fresh connection, i.e. through process_frame.  A logged name - and
    SELECT - is never transaction control and contains no blanks, so every frame goes straight
    to process_normal_command in the database the connection has selected: the result is
    [replay]. *)
Definition plain_name (u : bytes) : bool :=
  forallb (fun c => negb (is_space c)) u
  && negb (beq u (bs "MULTI")) && negb (beq u (bs "EXEC")) && negb (beq u (bs "DISCARD"))
  && negb (beq u (bs "WATCH")) && negb (beq u (bs "UNWATCH")) && negb (beq u (bs "AUTH")).
Lemma write_names_plain : forallb plain_name (bs "SELECT" :: write_commands) = true.
Proof. vm_compute. reflexivity. Qed.
Lemma bmem_In x l : bmem x l = true -> In x l.
Proof.
  induction l as [|y l IH]; cbn [bmem]; [discriminate|]. intros H. apply orb_prop in H as [H|H].
  - apply beq_eq in H. left. symmetry. exact H.
  - right. exact (IH H).
Qed.
Lemma is_space_upper1 c : is_space (upper1 c) = is_space c.
Proof. unfold is_space, upper1. destruct ((97 <=? c) && (c <=? 122)) eqn:E; [|reflexivity]. lia. Qed.
Lemma nospace_upper b : forallb (fun c => negb (is_space c)) (upper b) = forallb (fun c => negb (is_space c)) b.
Proof. unfold upper. induction b as [|c b IH]; [reflexivity|]. cbn [map forallb]. rewrite is_space_upper1, IH. reflexivity. Qed.
Lemma drop_while_nospace b : forallb (fun c => negb (is_space c)) b = true -> drop_while is_space b = b.
Proof. destruct b as [|c b]; [reflexivity|]. cbn [forallb drop_while]. intros H. apply andb_prop in H as [H _]. apply negb_true_iff in H. rewrite H. reflexivity. Qed.
Lemma forallb_rev {A} (p : A -> bool) l : forallb p (rev l) = forallb p l.
Proof. induction l as [|x l IH]; [reflexivity|]. cbn [rev forallb]. rewrite forallb_app, IH. cbn [forallb]. rewrite andb_true_r. apply andb_comm. Qed.
Lemma trim_nospace b : forallb (fun c => negb (is_space c)) b = true -> trim b = b.
Proof.
  intros H. unfold trim. rewrite (drop_while_nospace b H).
  rewrite drop_while_nospace by (rewrite forallb_rev; exact H). apply rev_involutive.
Qed.
(** a record of the file: a logged command or the engine's SELECT *)
Definition file_record (parts : list frame) : bool :=
  match parts with FBulk nm :: _ => mem_name (upper nm) (bs "SELECT" :: write_commands) | _ => false end.

Lemma resend_is_normal now s cn parts o :
  file_record parts = true -> s_password s = None ->
  zlookup replay_conn (s_conns s) = Some cn -> c_intx cn = false ->
  process_frame now s replay_conn (FArray parts) o = normal_command now s replay_conn (c_db cn) parts o.
Proof.
  unfold file_record. intros Hl Hp Hc Hi. destruct parts as [|first rest]; [discriminate|].
  destruct first; try discriminate.
  pose proof write_names_plain as W. rewrite forallb_forall in W.
  specialize (W (upper b) (bmem_In _ _ Hl)). unfold plain_name in W.
  repeat match type of W with (_ && _) = true => apply andb_prop in W; destruct W as [W ?] end.
  repeat match goal with X : negb _ = true |- _ => apply negb_true_iff in X end.
  rewrite nospace_upper in W.
  unfold process_frame. rewrite Hc, Hp. cbn [andb]. rewrite (trim_nospace b W).
  repeat match goal with X : beq (upper b) _ = false |- _ => rewrite X end.
  rewrite Hi. reflexivity.
Qed.

Definition resend_step (now : Z) (s : server) (po : orec) : server :=
  snd (process_frame now s replay_conn (FArray (fst po)) (snd po)).
Definition resend (now : Z) (log : list orec) : server := fold_left (resend_step now) log replay_init.
Lemma resend_is_replay now log :
  forallb (fun po => file_record (fst po)) log = true -> resend now log = replay_o now log.
Proof.
  unfold resend, replay_o.
  assert (G : forall l s, forallb (fun po => file_record (fst po)) l = true -> s_password s = None ->
                (exists cn, zlookup replay_conn (s_conns s) = Some cn /\ c_intx cn = false) ->
                fold_left (resend_step now) l s = fold_left (replay_step now) l s).
  { induction l as [|[p o] l IH]; intros s Hl Hp (cn & Hc & Hi); [reflexivity|].
    cbn [forallb fst] in Hl. apply andb_prop in Hl as [Hl1 Hl2]. cbn [fold_left].
    unfold resend_step at 2. unfold replay_step at 2. cbn [fst snd]. unfold conn_db. rewrite Hc.
    rewrite (resend_is_normal now s cn p o Hl1 Hp Hc Hi).
    destruct (nc_conn now s replay_conn (c_db cn) p o cn Hp Hc) as (Hp' & (cn' & Hc' & _ & Hi' & _) & _).
    apply IH; [exact Hl2|exact Hp'|]. exists cn'. rewrite Hi', Hi. auto. }
  intros Hl. apply G; [exact Hl|reflexivity|]. eexists. split; reflexivity.
Qed.
(** the file of a history holds records only *)
Lemma write_is_record p : is_write p = true -> file_record p = true.
Proof.
  unfold is_write, file_record. destruct p as [|[] ?]; try discriminate.
  unfold mem_name. cbn [bmem]. intros H. rewrite H. apply orb_true_r.
Qed.
Lemma trecs_records : forall tr dbs last, forallb (fun po => file_record (fst po)) (trecs tr dbs last) = true.
Proof.
  induction tr as [|[t x] tr IH]; intros dbs last; cbn [trecs]; [reflexivity|].
  rewrite !forallb_app, IH, andb_true_r. apply andb_true_intro. split.
  - unfold sel_recs. destruct (xorecs t dbs x); [reflexivity|]. destruct (same_db last (x_db x)); reflexivity.
  - apply forallb_forall. intros po Hin. pose proof (xorecs_writes t dbs x) as W. rewrite Forall_forall in W.
    apply write_is_record. exact (W po Hin).
Qed.
Lemma history_resend now h :
  resend now (trecs (trace_of h) dbs0 None) = replay_o now (trecs (trace_of h) dbs0 None).
Proof. apply resend_is_replay. apply trecs_records. Qed.

(** ================= start-up: the dataset after a restart is the redo of the file ================= *)
(** (Model/Aof.v [restart_o]: AofEngine::load replays the records - 831b342; the oracles are the
    model's device for the f64 values of sorted-set arguments) *)
Lemma restart_is_redo now s ol : s_dbs (restart_o now s ol) = s_dbs (replay_o now ol).
Proof. reflexivity. Qed.
Lemma restart_keeps_file now s ol : aof_log (restart_o now s ol) = aof_log s.
Proof. reflexivity. Qed.
(** after a history and a restart at any later clock reading, every key of every database is
    back with its value and its deadline - under the conditions of [replay_any_time] *)
Theorem restart_recovers now' h :
  forallb (fun te => ev_ok (snd te)) h = true ->
  timed_run now' (trace_of h) dbs0 = true -> fits_run (trace_of h) dbs0 ->
  forall i k, get_entry (nth i (s_dbs (restart_o now' (run_tevs h) (trecs (trace_of h) dbs0 None))) empty_db) k =
              get_entry (nth i (s_dbs (run_tevs h)) empty_db) k.
Proof. intros H1 H2 H3. rewrite restart_is_redo. exact (proj2 (replay_any_time now' h H1 H2 H3)). Qed.

(** ================= EVALSHA (Model/RunLua.v, a8393c5) ================= *)
(** EVALSHA of a cached script leaves exactly the record of the EVAL of that script; a digest
    that names no script leaves none *)
Lemma evalsha_record t s c dbi ca nm h nk rest sha src :
  str_arg h = Some sha -> alookup (lower sha) ca = Some src ->
  s_aof (snd (h_evalsha t s c dbi ca (FBulk nm :: h :: nk :: rest))) =
  aof_push (s_aof s) dbi (FBulk (bs "EVAL") :: FBulk src :: nk :: rest).
Proof.
  intros Hs Hc. unfold h_evalsha. rewrite Hs, Hc.
  change (mem_name (bs "EVALSHA") write_commands) with true. cbv iota.
  destruct (normal_command t s c (evalsha_db dbi) (FBulk (bs "EVAL") :: FBulk src :: nk :: rest) None) as [r s1].
  cbn [snd]. rewrite s_aof_log_aof_in. reflexivity.
Qed.
Lemma evalsha_unknown t s c dbi ca nm h nk rest sha :
  str_arg h = Some sha -> alookup (lower sha) ca = None ->
  snd (h_evalsha t s c dbi ca (FBulk nm :: h :: nk :: rest)) = s.
Proof. intros Hs Hc. unfold h_evalsha. rewrite Hs, Hc. reflexivity. Qed.

(** ================= witnesses ================= *)
Definition cmd (args : list bytes) : frame := FArray (map FBulk args).
Definition hist (cs : list (list bytes)) : list tev := (0, EConn 1) :: map (fun a => (0, EFrame 1 (cmd a) None)) cs.
Definition set_src : bytes :=
  bs "local r={}" ++ [10] ++ bs "r[1]=redis.call(""\083\069\084"",KEYS[1],ARGV[1])" ++ [10] ++ bs "return r[1]".

(** one clock reading: the formerly unlogged writers, databases other than 0, a consumer group
    (its pending entries carry the clock), a script, a transaction with a queued SELECT *)
Definition plain_history : list tev :=
  map (fun e => (7, e))
  [EConn 1; EConn 2;
   EFrame 1 (cmd [bs "SET"; bs "k"; bs "a"]) None;
   EFrame 1 (cmd [bs "GETSET"; bs "k"; bs "b"]) None;
   EFrame 1 (cmd [bs "HMSET"; bs "h"; bs "f"; bs "1"]) None;
   EFrame 2 (cmd [bs "SELECT"; bs "1"]) None;
   EFrame 2 (cmd [bs "XADD"; bs "x"; bs "1-1"; bs "f"; bs "v"]) None;
   EFrame 2 (cmd [bs "XGROUP"; bs "CREATE"; bs "x"; bs "g"; bs "0"]) None;
   EFrame 2 (cmd [bs "XREADGROUP"; bs "GROUP"; bs "g"; bs "c"; bs "STREAMS"; bs "x"; bs ">"]) None;
   EFrame 1 (cmd [bs "EVAL"; set_src; bs "1"; bs "e"; bs "v"]) None;
   EFrame 1 (cmd [bs "MULTI"]) None;
   EFrame 1 (cmd [bs "RPUSH"; bs "l"; bs "x"; bs "y"]) None;
   EFrame 1 (cmd [bs "INCR"; bs "l"]) None;
   EFrame 1 (cmd [bs "SELECT"; bs "15"]) None;
   EFrame 1 (cmd [bs "APPEND"; bs "k"; bs "c"]) None;
   EFrame 1 (cmd [bs "GET"; bs "k"]) None;
   EFrame 1 (cmd [bs "EXEC"]) None;
   EFrame 1 (cmd [bs "LPOP"; bs "nolist"]) None;
   EClose 2].
Lemma plain_history_ok :
  forallb (fun te => ev_ok (snd te)) plain_history = true /\
  plain_run 7 (trace_of plain_history) dbs0 = true /\
  len (aof_log (run_tevs plain_history)) = 15 /\
  len (d_data (nth 0 (s_dbs (run_tevs plain_history)) empty_db)) = 4 /\
  len (d_data (nth 1 (s_dbs (run_tevs plain_history)) empty_db)) = 1 /\
  len (d_data (nth 15 (s_dbs (run_tevs plain_history)) empty_db)) = 1.
Proof. repeat (apply conj; [vm_compute; reflexivity|]). vm_compute; reflexivity. Qed.

(** clock readings spread over an hour, every kind of record: deadlines (SET EX, SETEX, EXPIRE,
    PEXPIRE, a refused SET NX on a key with a deadline), SPOP and XADD * with the outcomes the
    implementation reported, a pop served to a waiting client, a PEXPIREAT sent by a client, an
    XADD * on an existing stream; the redo a day later *)
Definition day : Z := 86400000.
Definition timed_history : list tev :=
  [(0, EConn 1); (0, EConn 2);
   (1000, EFrame 1 (cmd [bs "SET"; bs "k"; bs "a"; bs "EX"; bs "100000"]) None);
   (1500, EFrame 2 (cmd [bs "SELECT"; bs "2"]) None);
   (1600, EFrame 1 (cmd [bs "SADD"; bs "s"; bs "a"; bs "b"; bs "c"]) None);
   (1700, EFrame 1 (cmd [bs "SPOP"; bs "s"; bs "2"]) (Some (FArray [FBulk (bs "c"); FBulk (bs "a")])));
   (1800, EFrame 1 (cmd [bs "XADD"; bs "x"; bs "*"; bs "f"; bs "v"]) (Some (FBulk (bs "1800-0"))));
   (2000, EFrame 2 (cmd [bs "MULTI"]) None);
   (2500, EFrame 2 (cmd [bs "RPUSH"; bs "l"; bs "x"; bs "y"]) None);
   (2600, EFrame 2 (cmd [bs "SETEX"; bs "t"; bs "90000"; bs "v"]) None);
   (60000, EFrame 1 (cmd [bs "GETSET"; bs "k"; bs "b"]) None);
   (3600000, EFrame 2 (cmd [bs "EXEC"]) None);
   (3600001, EServed 2 true (bs "l"));
   (3600002, EFrame 2 (cmd [bs "EXPIRE"; bs "l"; bs "500000"]) None);
   (3600003, EFrame 1 (cmd [bs "PEXPIRE"; bs "k"; bs "100000000"]) None);
   (3600004, EFrame 1 (cmd [bs "SET"; bs "k"; bs "c"; bs "NX"]) None);
   (3600005, EFrame 1 (cmd [bs "PEXPIREAT"; bs "s"; bs "99999999999"]) None);
   (3600006, EFrame 1 (cmd [bs "SPOP"; bs "nokey"]) None);
   (3600007, EFrame 1 (cmd [bs "XADD"; bs "x"; bs "*"; bs "g"; bs "w"]) (Some (FBulk (bs "3600007-0"))));
   (3600007, EFrame 1 (cmd [bs "XADD"; bs "x"; bs "*"; bs "g"; bs "w"]) (Some (FBulk (bs "3600007-1"))));
   (3600008, EFrame 1 (cmd [bs "WATCH"; bs "k"; bs "s"; bs "k"]) None)].
Lemma timed_history_ok :
  forallb (fun te => ev_ok (snd te)) timed_history = true /\
  timed_run day (trace_of timed_history) dbs0 = true /\
  fits_b (trace_of timed_history) dbs0 = true /\
  len (aof_log (run_tevs timed_history)) = 22 /\
  (* the SPOP as the SREM of what it returned, the XADD * with its ID, the served pop, a deadline *)
  In [FBulk (bs "SREM"); FBulk (bs "s"); FBulk (bs "a"); FBulk (bs "c")] (aof_log (run_tevs timed_history)) /\
  In [FBulk (bs "XADD"); FBulk (bs "x"); FBulk (bs "1800-0"); FBulk (bs "f"); FBulk (bs "v")] (aof_log (run_tevs timed_history)) /\
  In [FBulk (bs "LPOP"); FBulk (bs "l")] (aof_log (run_tevs timed_history)) /\
  In [FBulk (bs "PEXPIREAT"); FBulk (bs "k"); FBulk (bs "100001000")] (aof_log (run_tevs timed_history)) /\
  (* nothing of the random commands as they were sent *)
  existsb (fun p => match p with FBulk n :: _ => beq n (bs "SPOP") | _ => false end) (aof_log (run_tevs timed_history)) = false.
Proof.
  repeat (apply conj; [vm_compute; reflexivity|]).
  repeat (apply conj; [vm_compute; tauto|]). vm_compute; reflexivity.
Qed.

(** THE ONE OPEN CLASS.  No record is written when a key expires: commands that ran while the
    key was alive and are redone after its deadline act on another dataset.  k is set with
    300 ms to live, renamed to j, j is made persistent - all before the deadline.  A redo at
    time 600 sets k, meets PEXPIREAT k 300 (past: the key is deleted), fails to rename, and
    there is no j; the live server has j = v for good. *)
Definition expiry_history : list tev :=
  [(0, EConn 1);
   (0, EFrame 1 (cmd [bs "SET"; bs "k"; bs "v"; bs "PX"; bs "300"]) None);
   (100, EFrame 1 (cmd [bs "RENAME"; bs "k"; bs "j"]) None);
   (200, EFrame 1 (cmd [bs "PERSIST"; bs "j"]) None)].
Lemma expiry_unlogged_diverges :
  get_entry (nth 0 (s_dbs (run_tevs expiry_history)) empty_db) (bs "j") = Some {| e_val := VStr (bs "v"); e_exp := None |} /\
  get_entry (nth 0 (s_dbs (replay_o 600 (trecs (trace_of expiry_history) dbs0 None))) empty_db) (bs "j") = None /\
  forallb (fun te => ev_ok (snd te)) expiry_history = true /\
  fits_b (trace_of expiry_history) dbs0 = true /\
  (* what fails is the condition on the deadlines: one of them has passed at the time of the redo *)
  timed_run 600 (trace_of expiry_history) dbs0 = false /\
  (* before the deadline the same redo is faithful *)
  timed_run 250 (trace_of expiry_history) dbs0 = true.
Proof. repeat (apply conj; [vm_compute; reflexivity|]). vm_compute; reflexivity. Qed.
(** the same class without RENAME: a deadline that was extended while the key was alive *)
Definition extended_history : list tev :=
  [(0, EConn 1);
   (0, EFrame 1 (cmd [bs "SET"; bs "q"; bs "z"; bs "EX"; bs "1"]) None);
   (500, EFrame 1 (cmd [bs "PEXPIRE"; bs "q"; bs "500000"]) None)].
Lemma expiry_extended_diverges :
  get_entry (nth 0 (s_dbs (run_tevs extended_history)) empty_db) (bs "q") = Some {| e_val := VStr (bs "z"); e_exp := Some 500500 |} /\
  get_entry (nth 0 (s_dbs (replay_o 2000 (trecs (trace_of extended_history) dbs0 None))) empty_db) (bs "q") = None /\
  timed_run 2000 (trace_of extended_history) dbs0 = false.
Proof. repeat (apply conj; [vm_compute; reflexivity|]). vm_compute; reflexivity. Qed.

Lemma restart_redo_and_file now s ol :
  s_dbs (restart_o now s ol) = s_dbs (replay_o now ol) /\ aof_log (restart_o now s ol) = aof_log s.
Proof. split; reflexivity. Qed.
Lemma plain_sample :
  s_dbs (replay_o 7 (trecs (trace_of plain_history) dbs0 None)) = s_dbs (run_tevs plain_history) /\
  len (aof_log (run_tevs plain_history)) = 15 /\
  len (d_data (nth 0 (s_dbs (run_tevs plain_history)) empty_db)) = 4.
Proof.
  destruct plain_history_ok as (H1 & H2 & H3 & H4 & _).
  exact (conj (proj2 (replay_all_dbs 7 plain_history H1 H2)) (conj H3 H4)).
Qed.
Lemma timed_sample :
  (forall i k, get_entry (nth i (s_dbs (replay_o day (trecs (trace_of timed_history) dbs0 None))) empty_db) k =
               get_entry (nth i (s_dbs (run_tevs timed_history)) empty_db) k) /\
  len (aof_log (run_tevs timed_history)) = 22 /\
  In [FBulk (bs "SREM"); FBulk (bs "s"); FBulk (bs "a"); FBulk (bs "c")] (aof_log (run_tevs timed_history)) /\
  In [FBulk (bs "XADD"); FBulk (bs "x"); FBulk (bs "1800-0"); FBulk (bs "f"); FBulk (bs "v")] (aof_log (run_tevs timed_history)) /\
  In [FBulk (bs "LPOP"); FBulk (bs "l")] (aof_log (run_tevs timed_history)) /\
  In [FBulk (bs "PEXPIREAT"); FBulk (bs "k"); FBulk (bs "100001000")] (aof_log (run_tevs timed_history)).
Proof.
  destruct timed_history_ok as (H1 & H2 & H3 & H4 & H5 & H6 & H7 & H8 & _).
  exact (conj (proj2 (replay_any_time_b day timed_history H1 H2 H3)) (conj H4 (conj H5 (conj H6 (conj H7 H8))))).
Qed.
Lemma restart_sample :
  forall i k, get_entry (nth i (s_dbs (restart_o day (run_tevs timed_history) (trecs (trace_of timed_history) dbs0 None))) empty_db) k =
              get_entry (nth i (s_dbs (run_tevs timed_history)) empty_db) k.
Proof.
  destruct timed_history_ok as (H1 & H2 & H3 & _).
  exact (restart_recovers day timed_history H1 H2 (fits_b_run _ _ H3)).
Qed.
